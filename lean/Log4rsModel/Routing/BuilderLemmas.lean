import Log4rsModel.Routing.Builder
namespace Log4rs.Routing

/-! ### the name automaton -/

/-- does `replicate run ':' ++ cs` end in a colon -/
def endsColon (cs : List Char) (run : Nat) : Bool :=
  match cs.getLast? with
  | some c => c == ':'
  | none => decide (run > 0)

theorem endsColon_cons_colon (cs : List Char) (run : Nat) :
    endsColon (':' :: cs) run = endsColon cs (run + 1) := by
  cases cs with
  | nil => simp [endsColon]
  | cons d ds =>
    simp only [endsColon, List.getLast?_cons_cons]
    cases h : (d :: ds).getLast? <;> simp_all

theorem endsColon_cons_other (c : Char) (cs : List Char) (run : Nat) (h : c ≠ ':') :
    endsColon (c :: cs) run = endsColon cs 0 := by
  cases cs with
  | nil => simp [endsColon, h]
  | cons d ds =>
    simp only [endsColon, List.getLast?_cons_cons]
    cases h : (d :: ds).getLast? <;> simp_all

theorem colonRunsAux_big (cs : List Char) (run : Nat) (h : run > 2) :
    (colonRunsAux cs run).all (· == 2) = false := by
  induction cs generalizing run with
  | nil =>
    have : run ≠ 0 := by omega
    have h2 : run ≠ 2 := by omega
    simp [colonRunsAux, this, h2]
  | cons c cs ih =>
    simp only [colonRunsAux]
    split
    · exact ih (run + 1) (by omega)
    · have : run ≠ 0 := by omega
      have h2 : run ≠ 2 := by omega
      simp [this, h2]

theorem checkNameAux_eq (cs : List Char) (run : Nat) (h : run ≤ 2) :
    checkNameAux cs run = ((colonRunsAux cs run).all (· == 2) && !endsColon cs run) := by
  induction cs generalizing run with
  | nil =>
    have : run = 0 ∨ run = 1 ∨ run = 2 := by omega
    rcases this with rfl | rfl | rfl <;> simp [checkNameAux, colonRunsAux, endsColon]
  | cons c cs ih =>
    by_cases hc : c = ':'
    · subst hc
      simp only [checkNameAux, colonRunsAux, if_true, endsColon_cons_colon]
      by_cases h2 : run + 1 > 2
      · simp [h2, colonRunsAux_big cs (run + 1) h2]
      · simp only [h2, if_false]
        exact ih (run + 1) (by omega)
    · simp only [checkNameAux, colonRunsAux, hc, if_false, endsColon_cons_other c cs run hc]
      have : run = 0 ∨ run = 1 ∨ run = 2 := by omega
      rcases this with rfl | rfl | rfl <;> simp [ih 0 (by omega)]

theorem checkLoggerName_eq_specName (s : Name) : checkLoggerName s = specName s := by
  cases s with
  | nil => simp [checkLoggerName, specName]
  | cons c cs =>
    simp only [checkLoggerName, specName, colonRuns, List.isEmpty_cons, Bool.false_eq_true, if_false,
      Bool.not_false, Bool.true_and]
    rw [checkNameAux_eq _ 0 (by omega)]
    congr 1


/-! ### `withEarlier` by recursion -/

theorem hist_zipIdx {α} (pre ys : List α) :
    (ys.zipIdx pre.length).map (fun p => ((pre ++ ys).take p.2, p.1)) = hist pre ys := by
  induction ys generalizing pre with
  | nil => simp [hist]
  | cons y ys ih =>
    simp only [List.zipIdx_cons, List.map_cons, hist]
    congr 1
    · simp
    · have := ih (pre ++ [y])
      simp only [List.length_append, List.length_cons, List.length_nil, List.append_assoc,
        List.cons_append, List.nil_append] at this
      exact this

theorem withEarlier_eq_hist {α} (xs : List α) : withEarlier xs = hist [] xs := by
  have := hist_zipIdx [] xs
  simpa [withEarlier] using this

/-- two lists with the same members answer `contains` alike -/
theorem contains_congr {l₁ l₂ : List Name} (h : ∀ n, n ∈ l₁ ↔ n ∈ l₂) (r : Name) :
    l₁.contains r = l₂.contains r := by
  rw [Bool.eq_iff_iff]
  simp [h r]

/-! ### first loop -/

theorem appLoop_hist (ys : List AppenderDecl) (seen : List Name) (pre : List AppenderDecl)
    (h : ∀ n, n ∈ seen ↔ n ∈ pre.map (·.name)) :
    (appLoop ys seen).1 = ((hist pre ys).filter fun p => !repeats (·.name) p).map (·.2) ∧
    (appLoop ys seen).2.2 = ((hist pre ys).filter fun p => repeats (·.name) p).map
        (fun p => (⟨.dupAppender, p.2.name⟩ : CfgError)) := by
  induction ys generalizing seen pre with
  | nil => simp [appLoop, hist]
  | cons a rest ih =>
    have hc : seen.contains a.name = repeats (·.name) (pre, a) := by
      simp only [repeats]; exact contains_congr h a.name
    simp only [appLoop, hist, List.filter_cons, hc]
    by_cases hr : repeats (·.name) (pre, a) = true
    · have h' : ∀ n, n ∈ seen ↔ n ∈ (pre ++ [a]).map (·.name) := by
        intro n
        have := h n
        simp only [repeats, List.contains_iff_mem] at hr
        simp only [List.map_append, List.mem_append, List.map_cons, List.map_nil, List.mem_cons,
          List.not_mem_nil, or_false]
        grind
      obtain ⟨i1, i2⟩ := ih seen (pre ++ [a]) h'
      simp [hr, i1, i2]
    · have h' : ∀ n, n ∈ a.name :: seen ↔ n ∈ (pre ++ [a]).map (·.name) := by
        intro n
        have := h n
        simp only [List.map_append, List.mem_append, List.map_cons, List.map_nil, List.mem_cons,
          List.not_mem_nil, or_false]
        grind
      obtain ⟨i1, i2⟩ := ih (a.name :: seen) (pre ++ [a]) h'
      simp [hr, i1, i2]

/-- after the first loop the set of names holds exactly what was there plus every declared name -/
theorem appLoop_names (ys : List AppenderDecl) (seen : List Name) :
    ∀ n, n ∈ (appLoop ys seen).2.1 ↔ n ∈ seen ∨ n ∈ ys.map (·.name) := by
  induction ys generalizing seen with
  | nil => simp [appLoop]
  | cons a rest ih =>
    intro n
    simp only [appLoop]
    by_cases hc : seen.contains a.name = true
    · have hm : a.name ∈ seen := by simpa using hc
      have := ih seen n
      simp only [hc, if_true, List.map_cons, List.mem_cons]
      grind
    · have := ih (a.name :: seen) n
      simp only [hc, List.map_cons, List.mem_cons, Bool.false_eq_true, if_false] at this ⊢
      grind

/-! ### reference loop -/

theorem refLoop_eq (names : List Name) (refs : List Name) :
    refLoop names refs =
      (refs.filter (names.contains ·),
       (refs.filter fun r => !names.contains r).map fun r => (⟨.nonexistent, r⟩ : CfgError)) := by
  induction refs with
  | nil => simp [refLoop]
  | cons r rest ih =>
    simp only [refLoop, ih, List.filter_cons]
    by_cases h : r ∈ names <;> simp [h]

/-! ### logger loop -/

theorem seen_step_dup {α} (key : α → Name) (seen : List Name) (pre : List α) (a : α)
    (h : ∀ n, n ∈ seen ↔ n ∈ pre.map key) (hr : repeats key (pre, a) = true) :
    ∀ n, n ∈ seen ↔ n ∈ (pre ++ [a]).map key := by
  intro n
  have := h n
  simp only [repeats, List.contains_iff_mem] at hr
  simp only [List.map_append, List.mem_append, List.map_cons, List.map_nil, List.mem_cons,
    List.not_mem_nil, or_false]
  grind

theorem seen_step_new {α} (key : α → Name) (seen : List Name) (pre : List α) (a : α)
    (h : ∀ n, n ∈ seen ↔ n ∈ pre.map key) :
    ∀ n, n ∈ key a :: seen ↔ n ∈ (pre ++ [a]).map key := by
  intro n
  have := h n
  simp only [List.map_append, List.mem_append, List.map_cons, List.map_nil, List.mem_cons,
    List.not_mem_nil, or_false]
  grind

theorem logLoop_hist (inp : BuilderInput) (names : List Name)
    (hn : ∀ r, names.contains r = (declared inp).contains r)
    (ys : List LoggerCfg) (seen : List Name) (pre : List LoggerCfg)
    (h : ∀ n, n ∈ seen ↔ n ∈ pre.map (·.name)) :
    (logLoop names ys seen).1 =
      ((((hist pre ys).filter fun p => !repeats (·.name) p).map (·.2)).filter
          fun l => specName l.name).map
        (fun l => { l with appenders := stripDangling inp l.appenders }) ∧
    (logLoop names ys seen).2 = (hist pre ys).flatMap (loggerItemErrors inp) := by
  induction ys generalizing seen pre with
  | nil => simp [logLoop, hist]
  | cons l rest ih =>
    have hc : seen.contains l.name = repeats (·.name) (pre, l) := by
      simp only [repeats]; exact contains_congr h l.name
    have hnf : (fun r => names.contains r) = fun r => (declared inp).contains r := funext hn
    have hnf' : (fun r => !names.contains r) = fun r => !(declared inp).contains r := by
      funext r; rw [hn r]
    simp only [logLoop, hist, List.filter_cons, List.flatMap_cons, hc, checkLoggerName_eq_specName,
      loggerItemErrors, refLoop_eq, hnf, hnf']
    by_cases hr : repeats (·.name) (pre, l) = true
    · obtain ⟨i1, i2⟩ := ih seen (pre ++ [l]) (seen_step_dup (·.name) seen pre l h hr)
      simp [hr, i1, i2]
    · obtain ⟨i1, i2⟩ := ih (l.name :: seen) (pre ++ [l]) (seen_step_new (·.name) seen pre l h)
      by_cases hv : specName l.name = true
      · simp [hr, hv, i1, i2, stripDangling, dangling]
      · simp [hr, hv, i1, i2]

/-! ### the builder against its specification -/

theorem names_contains (inp : BuilderInput) (r : Name) :
    (appLoop inp.appenders []).2.1.contains r = (declared inp).contains r := by
  apply contains_congr
  intro n
  simpa [declared] using appLoop_names inp.appenders [] n

theorem buildLossy_eq_spec (inp : BuilderInput) :
    ((buildLossy inp).config, (buildLossy inp).kept) = specLossy inp ∧
    (buildLossy inp).errors = specErrors inp := by
  obtain ⟨a1, a2⟩ := appLoop_hist inp.appenders [] [] (by simp)
  obtain ⟨l1, l2⟩ := logLoop_hist inp _ (names_contains inp) inp.loggers [] [] (by simp)
  have hnf : (fun r => (appLoop inp.appenders []).2.1.contains r) = fun r => (declared inp).contains r :=
    funext (names_contains inp)
  have hnf' : (fun r => !(appLoop inp.appenders []).2.1.contains r) = fun r => !(declared inp).contains r := by
    funext r; rw [names_contains inp r]
  constructor
  · simp only [buildLossy, specLossy, firstsBy, withEarlier_eq_hist, a1, l1, refLoop_eq, hnf,
      stripDangling]
  · simp only [buildLossy, specErrors, withEarlier_eq_hist, a2, l2, refLoop_eq, hnf', dangling]


/-! ### no repeats ⇔ no duplicates -/

theorem hist_map_snd {α} (pre ys : List α) : (hist pre ys).map (·.2) = ys := by
  induction ys generalizing pre with
  | nil => rfl
  | cons y ys ih => simp [hist, ih]

theorem forall_hist_snd {α} (P : α → Prop) (pre ys : List α) :
    (∀ p ∈ hist pre ys, P p.2) ↔ ∀ y ∈ ys, P y := by
  induction ys generalizing pre with
  | nil => simp [hist]
  | cons y ys ih =>
    simp only [hist, List.mem_cons, forall_eq_or_imp, ih (pre ++ [y])]

theorem repeats_false_iff {α} (key : α → Name) (pre : List α) (y : α) :
    repeats key (pre, y) = false ↔ key y ∉ pre.map key := by
  simp [repeats]

theorem hist_no_repeats {α} (key : α → Name) (pre ys : List α) :
    (∀ p ∈ hist pre ys, repeats key p = false) ↔
      (ys.map key).Nodup ∧ ∀ y ∈ ys, key y ∉ pre.map key := by
  induction ys generalizing pre with
  | nil => simp [hist]
  | cons y ys ih =>
    have ih' := ih (pre ++ [y])
    simp only [hist, List.mem_cons, forall_eq_or_imp, ih', repeats_false_iff, List.map_cons,
      List.nodup_cons, List.map_append, List.map_nil, List.mem_append, List.mem_cons,
      List.not_mem_nil, or_false]
    constructor
    · rintro ⟨h0, hnd, hdis⟩
      refine ⟨⟨?_, hnd⟩, h0, fun z hz hc => hdis z hz (Or.inl hc)⟩
      intro hc
      obtain ⟨z, hz, hzy⟩ := List.mem_map.mp hc
      exact hdis z hz (Or.inr hzy)
    · rintro ⟨⟨hy, hnd⟩, h0, hdis⟩
      refine ⟨h0, hnd, ?_⟩
      intro z hz hc
      rcases hc with hc | hc
      · exact hdis z hz hc
      · exact hy (List.mem_map.mpr ⟨z, hz, hc⟩)

theorem loggerItemErrors_nil (inp : BuilderInput) (p : List LoggerCfg × LoggerCfg) :
    loggerItemErrors inp p = [] ↔
      repeats (·.name) p = false ∧ specName p.2.name = true ∧ ∀ r ∈ p.2.appenders, r ∈ declared inp := by
  unfold loggerItemErrors
  by_cases hr : repeats (·.name) p = true
  · simp [hr]
  · by_cases hv : specName p.2.name = true
    · simp [hr, hv, dangling, List.filter_eq_nil_iff]
    · simp [hr, hv]

theorem specErrors_nil_iff (inp : BuilderInput) : specErrors inp = [] ↔ WellFormed inp := by
  simp only [specErrors, List.append_eq_nil_iff, List.map_eq_nil_iff, List.filter_eq_nil_iff,
    List.flatMap_eq_nil_iff, withEarlier_eq_hist, loggerItemErrors_nil, WellFormed, dangling]
  have h1 := hist_no_repeats (fun a : AppenderDecl => a.name) [] inp.appenders
  have h2 := hist_no_repeats (fun l : LoggerCfg => l.name) [] inp.loggers
  have h3 := forall_hist_snd (fun l : LoggerCfg => specName l.name = true ∧ ∀ r ∈ l.appenders, r ∈ declared inp) [] inp.loggers
  simp only [List.map_nil, List.not_mem_nil, not_false_eq_true, implies_true, and_true] at h1 h2
  simp only [Bool.not_eq_true] at *
  rw [← h3]
  constructor
  · rintro ⟨⟨ha, hb⟩, hc⟩
    refine ⟨h1.mp ha, h2.mp (fun p hp => (hc p hp).1), fun p hp => (hc p hp).2, ?_⟩
    intro r hr
    simpa using hb r hr
  · rintro ⟨ha, hb, hc, hd⟩
    refine ⟨⟨h1.mpr ha, ?_⟩, fun p hp => ⟨h2.mpr hb p hp, hc p hp⟩⟩
    intro r hr
    simpa using hd r hr

/-! ### the lossy result is valid -/

theorem firsts_hist {α} (key : α → Name) (pre ys : List α) :
    ((((hist pre ys).filter fun p => !repeats key p).map (·.2)).map key).Nodup ∧
    ∀ n, n ∈ (((hist pre ys).filter fun p => !repeats key p).map (·.2)).map key ↔
      n ∈ ys.map key ∧ n ∉ pre.map key := by
  induction ys generalizing pre with
  | nil => simp [hist]
  | cons y ys ih =>
    obtain ⟨ih1, ih2⟩ := ih (pre ++ [y])
    simp only [hist, List.filter_cons]
    by_cases hr : repeats key (pre, y) = true
    · simp only [hr, Bool.not_true, Bool.false_eq_true, if_false]
      refine ⟨ih1, fun n => ?_⟩
      have := ih2 n
      simp only [repeats, List.contains_iff_mem] at hr
      simp only [List.map_append, List.map_cons, List.map_nil, List.mem_append, List.mem_cons,
        List.not_mem_nil, or_false] at this ⊢
      grind
    · have hr' : key y ∉ pre.map key := by simpa [repeats] using hr
      simp only [hr, Bool.not_false, if_true, List.map_cons, List.nodup_cons, List.mem_cons]
      refine ⟨⟨?_, ih1⟩, fun n => ?_⟩
      · intro hc
        have := (ih2 (key y)).mp hc
        simp at this
      · have := ih2 n
        simp only [List.map_append, List.map_cons, List.map_nil, List.mem_append, List.mem_cons,
          List.not_mem_nil, or_false] at this
        grind

theorem firstsBy_nodup {α} (key : α → Name) (xs : List α) : ((firstsBy key xs).map key).Nodup := by
  simpa [firstsBy, withEarlier_eq_hist] using (firsts_hist key [] xs).1

theorem mem_firstsBy_key {α} (key : α → Name) (xs : List α) (n : Name) :
    n ∈ (firstsBy key xs).map key ↔ n ∈ xs.map key := by
  have := (firsts_hist key [] xs).2 n
  simpa [firstsBy, withEarlier_eq_hist] using this

theorem specLossy_valid (inp : BuilderInput) : Valid (specLossy inp).1 := by
  have hmem : ∀ r, r ∈ (firstsBy (·.name) inp.appenders).map (·.name) ↔ r ∈ declared inp :=
    fun r => mem_firstsBy_key (·.name) inp.appenders r
  refine ⟨firstsBy_nodup _ _, ?_, ?_, ?_⟩
  · simp only [specLossy, List.map_map]
    have : ((fun l : LoggerCfg => l.name) ∘ fun l : LoggerCfg =>
        { l with appenders := stripDangling inp l.appenders }) = fun l => l.name := rfl
    rw [this]
    exact ((List.filter_sublist).map _).nodup (firstsBy_nodup (·.name) inp.loggers)
  · intro l hl
    simp only [specLossy, List.mem_map, List.mem_filter] at hl
    obtain ⟨l0, ⟨_, hv⟩, rfl⟩ := hl
    refine ⟨by simpa [checkLoggerName_eq_specName] using hv, ?_⟩
    intro a ha
    simp only [stripDangling, List.mem_filter, List.contains_iff_mem] at ha
    exact (hmem a).mpr (by simpa using ha.2)
  · intro a ha
    simp only [specLossy, stripDangling, List.mem_filter] at ha
    exact (hmem a).mpr (by simpa using ha.2)

/-! ### a well-formed input passes unchanged -/

theorem firstsBy_of_nodup {α} (key : α → Name) (xs : List α) (h : (xs.map key).Nodup) :
    firstsBy key xs = xs := by
  have hall := (hist_no_repeats key [] xs).mpr ⟨h, by simp⟩
  have : (hist [] xs).filter (fun p => !repeats key p) = hist [] xs := by
    rw [List.filter_eq_self]
    intro p hp
    simp [hall p hp]
  simp [firstsBy, withEarlier_eq_hist, this, hist_map_snd]

theorem stripDangling_of_declared (inp : BuilderInput) (refs : List Name)
    (h : ∀ r ∈ refs, r ∈ declared inp) : stripDangling inp refs = refs := by
  simp only [stripDangling, List.filter_eq_self]
  intro r hr
  simpa using h r hr

theorem specLossy_of_wellFormed (inp : BuilderInput) (h : WellFormed inp) :
    specLossy inp = (inp.toConfig, inp.appenders) := by
  obtain ⟨ha, hl, hlog, hroot⟩ := h
  have h1 : firstsBy (·.name) inp.appenders = inp.appenders := firstsBy_of_nodup _ _ ha
  have h2 : firstsBy (·.name) inp.loggers = inp.loggers := firstsBy_of_nodup _ _ hl
  have h3 : inp.loggers.filter (fun l => specName l.name) = inp.loggers := by
    rw [List.filter_eq_self]; exact fun l hl => (hlog l hl).1
  have h4 : inp.loggers.map (fun l => { l with appenders := stripDangling inp l.appenders }) = inp.loggers := by
    conv => rhs; rw [← List.map_id inp.loggers]
    apply List.map_congr_left
    intro l hl
    simp [stripDangling_of_declared inp l.appenders (hlog l hl).2]
  simp only [specLossy, h1, h2, h3, h4, stripDangling_of_declared inp _ hroot, BuilderInput.toConfig,
    declared]

/-! ### name → index resolution -/

theorem lookupLast_sound (r : Name) (table : List Name) (base i : Nat)
    (h : lookupLast r table base = some i) :
    base ≤ i ∧ i < base + table.length ∧ table[i - base]? = some r := by
  induction table generalizing base with
  | nil => simp [lookupLast] at h
  | cons n rest ih =>
    simp only [lookupLast] at h
    cases hl : lookupLast r rest (base + 1) with
    | some j =>
      simp only [hl, Option.some.injEq] at h
      subst h
      obtain ⟨h1, h2, h3⟩ := ih (base + 1) hl
      refine ⟨by omega, by simp only [List.length_cons]; omega, ?_⟩
      have : j - base = (j - (base + 1)) + 1 := by omega
      rw [this, List.getElem?_cons_succ]
      exact h3
    | none =>
      simp only [hl] at h
      split at h
      · rename_i hn
        simp only [Option.some.injEq] at h
        subst h
        simp [hn]
      · simp at h

theorem lookupLast_complete (r : Name) (table : List Name) (base : Nat) (h : r ∈ table) :
    ∃ i, lookupLast r table base = some i := by
  induction table generalizing base with
  | nil => simp at h
  | cons n rest ih =>
    simp only [lookupLast]
    cases hl : lookupLast r rest (base + 1) with
    | some j => exact ⟨j, rfl⟩
    | none =>
      rcases List.mem_cons.mp h with rfl | hr
      · exact ⟨base, by simp⟩
      · obtain ⟨i, hi⟩ := ih (base + 1) hr
        rw [hl] at hi
        cases hi

/-- every reference got the index of an appender with that name -/
def ResolvedTo (table : List Name) (refs : List Name) (idxs : List Nat) : Prop :=
  idxs.map (table[·]?) = refs.map some

theorem resolveRefs_ok (table refs : List Name) (h : ∀ r ∈ refs, r ∈ table) :
    ∃ idxs, resolveRefs table refs = some idxs ∧ ResolvedTo table refs idxs := by
  induction refs with
  | nil => exact ⟨[], rfl, rfl⟩
  | cons r rest ih =>
    obtain ⟨idxs, hres, hto⟩ := ih (fun x hx => h x (by simp [hx]))
    obtain ⟨i, hi⟩ := lookupLast_complete r table 0 (h r (by simp))
    have h0 : table[i]? = some r := by simpa using (lookupLast_sound r table 0 i hi).2.2
    refine ⟨i :: idxs, by simp [resolveRefs, hi, hres], ?_⟩
    simp only [ResolvedTo, List.map_cons, h0] at hto ⊢
    rw [hto]

theorem resolveRefs_some_imp (table refs : List Name) (idxs : List Nat)
    (h : resolveRefs table refs = some idxs) : ∀ r ∈ refs, r ∈ table := by
  induction refs generalizing idxs with
  | nil => simp
  | cons r rest ih =>
    simp only [resolveRefs] at h
    cases hl : lookupLast r table 0 with
    | none => simp [hl] at h
    | some i =>
      cases hr : resolveRefs table rest with
      | none => simp [hl, hr] at h
      | some is =>
        intro x hx
        rcases List.mem_cons.mp hx with rfl | hx
        · exact List.mem_of_getElem? (lookupLast_sound _ table 0 i hl).2.2
        · exact ih is hr x hx

theorem resolveLoggers_ok (table : List Name) (ls : List LoggerCfg)
    (h : ∀ l ∈ ls, ∀ r ∈ l.appenders, r ∈ table) :
    ∃ out, resolveLoggers table ls = some out ∧
      out.map (·.1) = ls ∧ ∀ p ∈ out, ResolvedTo table p.1.appenders p.2 := by
  induction ls with
  | nil => exact ⟨[], rfl, rfl, by simp⟩
  | cons l rest ih =>
    obtain ⟨out, hres, hmap, hto⟩ := ih (fun x hx => h x (by simp [hx]))
    obtain ⟨idxs, hi, hit⟩ := resolveRefs_ok table l.appenders (h l (by simp))
    refine ⟨(l, idxs) :: out, by simp [resolveLoggers, hi, hres], by simp [hmap], ?_⟩
    intro p hp
    rcases List.mem_cons.mp hp with rfl | hp
    · exact hit
    · exact hto p hp

theorem resolveLoggers_some_imp (table : List Name) (ls : List LoggerCfg) (out : List (LoggerCfg × List Nat))
    (h : resolveLoggers table ls = some out) : ∀ l ∈ ls, ∀ r ∈ l.appenders, r ∈ table := by
  induction ls generalizing out with
  | nil => simp
  | cons l rest ih =>
    simp only [resolveLoggers] at h
    cases hl : resolveRefs table l.appenders with
    | none => simp [hl] at h
    | some is =>
      cases hr : resolveLoggers table rest with
      | none => simp [hl, hr] at h
      | some o =>
        intro x hx
        rcases List.mem_cons.mp hx with rfl | hx
        · exact resolveRefs_some_imp table _ is hl
        · exact ih o hr x hx


/-! ### membership in the specified error list -/

theorem mem_withEarlier {α} (xs : List α) (p : List α × α) :
    p ∈ withEarlier xs ↔ ∃ i, xs[i]? = some p.2 ∧ p.1 = xs.take i := by
  simp only [withEarlier, List.mem_map, Prod.exists, List.mem_zipIdx_iff_getElem?]
  constructor
  · rintro ⟨x, i, hx, rfl⟩
    exact ⟨i, hx, rfl⟩
  · rintro ⟨i, hx, hp⟩
    exact ⟨p.2, i, hx, by rw [← hp]⟩

theorem repeats_iff {α} (key : α → Name) (p : List α × α) :
    repeats key p = true ↔ key p.2 ∈ p.1.map key := by
  simp [repeats]

theorem mem_loggerItemErrors (inp : BuilderInput) (p : List LoggerCfg × LoggerCfg) (e : CfgError) :
    e ∈ loggerItemErrors inp p ↔
      (p.2.name ∈ p.1.map (·.name) ∧ e = ⟨.dupLogger, p.2.name⟩) ∨
      (p.2.name ∉ p.1.map (·.name) ∧ specName p.2.name = false ∧ e = ⟨.invalidName, p.2.name⟩) ∨
      (p.2.name ∉ p.1.map (·.name) ∧ specName p.2.name = true ∧
        ∃ r, r ∈ p.2.appenders ∧ r ∉ declared inp ∧ e = ⟨.nonexistent, r⟩) := by
  unfold loggerItemErrors
  by_cases hr : repeats (·.name) p = true
  · have hm := (repeats_iff (·.name) p).mp hr
    simp [hr, hm]
  · have hm : p.2.name ∉ p.1.map (·.name) := fun hc => hr ((repeats_iff (·.name) p).mpr hc)
    by_cases hv : specName p.2.name = true
    · simp only [hr, hv, Bool.false_eq_true, if_false, Bool.not_true, List.mem_map, dangling,
        List.mem_filter, Bool.not_eq_true', hm, not_false_eq_true, true_and, false_and, false_or,
        Bool.true_eq_false]
      constructor
      · rintro ⟨r, ⟨hr1, hr2⟩, rfl⟩
        exact ⟨r, hr1, by simpa using hr2, rfl⟩
      · rintro ⟨r, hr1, hr2, rfl⟩
        exact ⟨r, ⟨hr1, by simpa using hr2⟩, rfl⟩
    · have hv' : specName p.2.name = false := by simpa using hv
      simp [hr, hv', hm]

theorem mem_specErrors_iff (inp : BuilderInput) (e : CfgError) :
    e ∈ specErrors inp ↔ Offending inp e := by
  simp only [specErrors, List.mem_append, List.mem_map, List.mem_filter, List.mem_flatMap,
    mem_withEarlier, mem_loggerItemErrors, repeats_iff, dangling]
  constructor
  · rintro ((⟨p, ⟨⟨i, hi, hp⟩, hrep⟩, rfl⟩ | ⟨r, ⟨hr, hd⟩, rfl⟩) | ⟨p, ⟨i, hi, hp⟩, h⟩)
    · exact Offending.dupAppender i p.2 hi (by rw [← hp]; exact List.mem_map.mpr hrep)
    · exact Offending.danglingRoot r hr (by simpa using hd)
    · rw [hp] at h
      rcases h with ⟨h1, rfl⟩ | ⟨h1, h2, rfl⟩ | ⟨h1, h2, r, h3, h4, rfl⟩
      · exact Offending.dupLogger i p.2 hi (List.mem_map.mpr h1)
      · exact Offending.invalidName i p.2 hi (fun hc => h1 (List.mem_map.mp hc)) h2
      · exact Offending.danglingLogger i p.2 r hi (fun hc => h1 (List.mem_map.mp hc)) h2 h3 h4
  · intro h
    cases h with
    | dupAppender i a hi hm =>
      exact Or.inl (Or.inl ⟨(inp.appenders.take i, a), ⟨⟨i, hi, rfl⟩, List.mem_map.mp hm⟩, rfl⟩)
    | danglingRoot r hr hd =>
      exact Or.inl (Or.inr ⟨r, ⟨hr, by simpa using hd⟩, rfl⟩)
    | dupLogger i l hi hm =>
      exact Or.inr ⟨(inp.loggers.take i, l), ⟨i, hi, rfl⟩, Or.inl ⟨List.mem_map.mp hm, rfl⟩⟩
    | invalidName i l hi hm hv =>
      exact Or.inr ⟨(inp.loggers.take i, l), ⟨i, hi, rfl⟩, Or.inr (Or.inl ⟨fun hc => hm (List.mem_map.mpr hc), hv, rfl⟩)⟩
    | danglingLogger i l r hi hm hv hr hd =>
      exact Or.inr ⟨(inp.loggers.take i, l), ⟨i, hi, rfl⟩, Or.inr (Or.inr ⟨fun hc => hm (List.mem_map.mpr hc), hv, r, hr, hd, rfl⟩)⟩


/-! ### `colonRuns` lists the maximal runs -/

theorem colonRunsAux_free (w t : List Char) (h : ∀ c ∈ w, c ≠ ':') :
    colonRunsAux (w ++ t) 0 = colonRunsAux t 0 := by
  induction w with
  | nil => rfl
  | cons c w ih =>
    have hc : c ≠ ':' := h c (by simp)
    simp only [List.cons_append, colonRunsAux, hc, if_false, if_true, List.nil_append]
    exact ih (fun d hd => h d (by simp [hd]))

theorem colonRunsAux_replicate (m k : Nat) (t : List Char) :
    colonRunsAux (List.replicate m ':' ++ t) k = colonRunsAux t (k + m) := by
  induction m generalizing k with
  | zero => simp
  | succ m ih =>
    simp only [List.replicate_succ, List.cons_append, colonRunsAux, if_true]
    rw [ih (k + 1)]
    congr 1
    omega

theorem colonRuns_free (w : List Char) (h : ∀ c ∈ w, c ≠ ':') : colonRuns w = [] := by
  have := colonRunsAux_free w [] h
  simpa [colonRuns, colonRunsAux] using this

theorem colonRuns_run_end (w : List Char) (n : Nat) (h : ∀ c ∈ w, c ≠ ':') :
    colonRuns (w ++ List.replicate (n + 1) ':') = [n + 1] := by
  have h1 := colonRunsAux_free w (List.replicate (n + 1) ':') h
  have h2 := colonRunsAux_replicate (n + 1) 0 []
  simp only [List.append_nil] at h2
  simp [colonRuns, h1, h2, colonRunsAux]

theorem colonRuns_run_mid (w : List Char) (n : Nat) (c : Char) (rest : List Char)
    (h : ∀ c ∈ w, c ≠ ':') (hc : c ≠ ':') :
    colonRuns (w ++ List.replicate (n + 1) ':' ++ c :: rest) = (n + 1) :: colonRuns (c :: rest) := by
  have h1 := colonRunsAux_free w (List.replicate (n + 1) ':' ++ c :: rest) h
  have h2 := colonRunsAux_replicate (n + 1) 0 (c :: rest)
  simp only [colonRuns, List.append_assoc, h1, h2]
  simp [colonRunsAux, hc]

/-! ### `firstsBy`, one item at a time -/

theorem hist_snoc {α} (pre ys : List α) (x : α) :
    hist pre (ys ++ [x]) = hist pre ys ++ [(pre ++ ys, x)] := by
  induction ys generalizing pre with
  | nil => simp [hist]
  | cons y ys ih => simp [hist, ih (pre ++ [y])]

theorem firstsBy_nil {α} (key : α → Name) : firstsBy key ([] : List α) = [] := by
  simp [firstsBy, withEarlier]

theorem firstsBy_snoc {α} (key : α → Name) (xs : List α) (x : α) :
    firstsBy key (xs ++ [x]) =
      firstsBy key xs ++ (if key x ∈ xs.map key then [] else [x]) := by
  simp only [firstsBy, withEarlier_eq_hist, hist_snoc, List.nil_append, List.filter_append,
    List.map_append]
  congr 1
  by_cases h : key x ∈ xs.map key
  · have : repeats key (xs, x) = true := (repeats_iff key (xs, x)).mpr h
    simp [h, this]
  · have : repeats key (xs, x) = false := by
      rw [Bool.eq_false_iff]; exact fun hc => h ((repeats_iff key (xs, x)).mp hc)
    simp [h, this]

/-! ### uniqueness, position-wise -/

theorem nodup_iff_no_earlier {α} (key : α → Name) (xs : List α) :
    (xs.map key).Nodup ↔ ∀ i x, xs[i]? = some x → key x ∉ (xs.take i).map key := by
  have h := hist_no_repeats key [] xs
  simp only [List.map_nil, List.not_mem_nil, not_false_eq_true, implies_true, and_true] at h
  rw [← h, ← withEarlier_eq_hist]
  constructor
  · intro hall i x hx
    have := hall (xs.take i, x) ((mem_withEarlier xs _).mpr ⟨i, hx, rfl⟩)
    exact (repeats_false_iff key _ _).mp this
  · intro hall p hp
    obtain ⟨i, hx, hp1⟩ := (mem_withEarlier xs p).mp hp
    have := hall i p.2 hx
    rw [← hp1] at this
    exact (repeats_false_iff key p.1 p.2).mpr this

end Log4rs.Routing
