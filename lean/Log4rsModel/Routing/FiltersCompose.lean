import Log4rsModel.Routing.LemmasBuild
import Log4rsModel.Routing.FiltersLemmas
/-
Bridge between the logger tree (C01's area: Routing/Tree.lean, LemmasBuild.lean) and the fan-out
(C03: Routing/Filters.lean): every appender index stored in any node of the tree built from a valid
configuration is in range of the appender table — so `appenders[idx]` in `ConfiguredLogger::log`
cannot go out of bounds for the node `find` returns, whatever the target. The invariant itself is
part of `build_spec` (LemmasBuild.lean); this file only restates it in the form the fan-out
theorems use.
-/
namespace Log4rs.Routing.Tree
open Log4rs Log4rs.Str

/-- For a valid configuration the tree exists and every node `find` can return holds only indices
of the appender table. -/
theorem build_found_in_range (cfg : Config) (hv : Valid cfg) :
    ∃ tree, build cfg = some tree ∧
      ∀ p, ∀ i ∈ (find tree p).apps, i < cfg.appenders.length := by
  obtain ⟨tree, hb, _, _, _, hrange⟩ := build_spec cfg hv
  exact ⟨tree, hb, fun p i hi => hrange p i hi⟩

end Log4rs.Routing.Tree
