import Log4rsModel.Routing.LemmasTree
/-
Resolution layer of the routing proofs. `res root L p` is the (level, attachments) the statement assigns
to the component path `p` for a list `L` of loggers — walking `p` from the root: each configured prefix
replaces the level and puts its attachments in front of (additive) or instead of (not additive) what was
inherited. It is the meeting point of the two sides:
* inserting one more logger into the tree changes `find`'s answer exactly as appending it to `L` changes `res`
  (`res_snoc`, used with `fdata_addC`);
* `res` over the declared loggers is the specification's `(specLevel, chain (effective …))` (`res_eq_spec`);
* `res` depends on `L` only through look-up by component list (`res_congr`), hence not on its order.
-/
namespace Log4rs.Routing.Tree
open Log4rs Log4rs.Str

/-- a logger as the resolution sees it; `α` = appender identifiers (indices in the tree, names in the spec) -/
structure Ent (α : Type) where
  comps : List Name
  level : Nat
  additive : Bool
  apps : List α

def Ent.map {α β} (f : α → β) (e : Ent α) : Ent β :=
  { comps := e.comps, level := e.level, additive := e.additive, apps := e.apps.map f }

def lookupE {α} (L : List (Ent α)) (p : List Name) : Option (Ent α) :=
  L.find? (fun e => decide (e.comps = p))

/-- resolution along the reversed path -/
def resRev {α} (root : Nat × List α) (L : List (Ent α)) : List Name → Nat × List α
  | [] => root
  | c :: r =>
    match lookupE L (c :: r).reverse with
    | some e => (e.level, e.apps ++ (if e.additive then (resRev root L r).2 else []))
    | none => resRev root L r

def res {α} (root : Nat × List α) (L : List (Ent α)) (p : List Name) : Nat × List α :=
  resRev root L p.reverse

theorem snoc_induction {α} {P : List α → Prop} (hnil : P [])
    (hsnoc : ∀ p c, P p → P (p ++ [c])) (p : List α) : P p := by
  have : ∀ r : List α, P r.reverse := by
    intro r
    induction r with
    | nil => exact hnil
    | cons c r ih => rw [List.reverse_cons]; exact hsnoc _ _ ih
  simpa using this p.reverse

section
variable {α : Type}

theorem res_nil (root : Nat × List α) (L : List (Ent α)) : res root L [] = root := rfl

theorem res_concat (root : Nat × List α) (L : List (Ent α)) (p : List Name) (c : Name) :
    res root L (p ++ [c]) =
      match lookupE L (p ++ [c]) with
      | some e => (e.level, e.apps ++ (if e.additive then (res root L p).2 else []))
      | none => res root L p := by
  simp [res, resRev]

theorem res_noLoggers (root : Nat × List α) (p : List Name) : res root [] p = root := by
  induction p using snoc_induction with
  | hnil => rfl
  | hsnoc p c ih => rw [res_concat]; simpa [lookupE] using ih

theorem lookupE_append (L : List (Ent α)) (e : Ent α) (p : List Name) :
    lookupE (L ++ [e]) p = (lookupE L p).or (if e.comps = p then some e else none) := by
  simp [lookupE, List.find?_append, List.find?_cons]
  split <;> simp_all

theorem lookupE_comps {L : List (Ent α)} {p : List Name} {e : Ent α} (h : lookupE L p = some e) :
    e.comps = p ∧ e ∈ L := by
  have h1 := List.find?_some h
  have h2 := List.mem_of_find?_eq_some h
  exact ⟨by simpa using h1, h2⟩

/-- appending a logger whose path is not a prefix of (or equal to) an earlier one -/
theorem res_snoc (root : Nat × List α) (L : List (Ent α)) (e : Ent α) (hq : e.comps ≠ [])
    (hnew : ∀ e' ∈ L, ¬ e.comps <+: e'.comps) (p : List Name) :
    res root (L ++ [e]) p =
      if e.comps <+: p then (e.level, e.apps ++ (if e.additive then (res root L e.comps).2 else []))
      else res root L p := by
  have hnoL : ∀ p', e.comps <+: p' → lookupE L p' = none := by
    intro p' hp'
    cases h : lookupE L p' with
    | none => rfl
    | some e' =>
      obtain ⟨hc, hm⟩ := lookupE_comps h
      exact absurd (hc ▸ hp') (hnew e' hm)
  induction p using snoc_induction with
  | hnil =>
    have : ¬ e.comps <+: [] := by simpa using hq
    simp [this, res_nil]
  | hsnoc p c ih =>
    rw [res_concat, lookupE_append]
    by_cases hpre : e.comps <+: p ++ [c]
    · rw [if_pos hpre, hnoL _ hpre]
      rcases List.prefix_concat_iff.mp hpre with heq | hpp
      · -- the path is the new logger's own path
        have hnp : ¬ e.comps <+: p := by
          intro h; have := h.length_le; rw [heq] at this; simp at this; omega
        rw [if_neg hnp] at ih
        have hresq : res root L e.comps = res root L p := by
          rw [heq, res_concat, ← heq, hnoL _ (List.prefix_refl _)]
        rw [if_pos heq]
        simp only [Option.none_or]
        rw [ih, hresq]
      · -- a strict extension of it
        have hne : e.comps ≠ p ++ [c] := by
          intro h; have := hpp.length_le; rw [h] at this; simp at this; omega
        rw [if_pos hpp] at ih
        simp [hne, ih]
    · have hnp : ¬ e.comps <+: p := fun h => hpre (h.trans (List.prefix_append _ _))
      have hne : e.comps ≠ p ++ [c] := fun h => hpre (h ▸ List.prefix_refl _)
      rw [if_neg hpre]
      rw [if_neg hnp] at ih
      rw [res_concat]
      simp [hne, ih]

/-- every attachment in a resolution comes from the root or from one of the loggers -/
theorem res_mem (root : Nat × List α) (L : List (Ent α)) (p : List Name) (a : α)
    (h : a ∈ (res root L p).2) : a ∈ root.2 ∨ ∃ e ∈ L, a ∈ e.apps := by
  induction p using snoc_induction with
  | hnil => exact Or.inl h
  | hsnoc p c ih =>
    rw [res_concat] at h
    cases hl : lookupE L (p ++ [c]) with
    | none => rw [hl] at h; exact ih h
    | some e =>
      rw [hl] at h
      simp only [List.mem_append] at h
      rcases h with h | h
      · exact Or.inr ⟨e, (lookupE_comps hl).2, h⟩
      · cases hadd : e.additive with
        | false => simp [hadd] at h
        | true => simp only [hadd, if_true] at h; exact ih h

/-- `res` sees the logger list only through look-up by component list -/
theorem res_congr (root : Nat × List α) (L L' : List (Ent α)) (h : ∀ p, lookupE L p = lookupE L' p)
    (p : List Name) : res root L p = res root L' p := by
  induction p using snoc_induction with
  | hnil => rfl
  | hsnoc p c ih => rw [res_concat, res_concat, h, ih]

theorem lookupE_eq_some_iff {L : List (Ent α)} (hnd : (L.map (·.comps)).Nodup) (p : List Name) (e : Ent α) :
    lookupE L p = some e ↔ e ∈ L ∧ e.comps = p := by
  constructor
  · intro h; exact ⟨(lookupE_comps h).2, (lookupE_comps h).1⟩
  · intro ⟨hm, hc⟩
    induction L with
    | nil => cases hm
    | cons x xs ih =>
      simp only [List.map_cons, List.nodup_cons] at hnd
      simp only [lookupE, List.find?_cons]
      rcases List.mem_cons.mp hm with rfl | hm'
      · simp [hc]
      · have hx : x.comps ≠ p := by
          intro hx
          apply hnd.1
          rw [hx, ← hc]
          exact List.mem_map_of_mem hm'
        simp only [hx, decide_false]
        exact ih hnd.2 hm'

/-- with unique component lists, look-up is invariant under permutation -/
theorem lookupE_perm {L L' : List (Ent α)} (hnd : (L.map (·.comps)).Nodup) (hp : L.Perm L') (p : List Name) :
    lookupE L p = lookupE L' p := by
  have hnd' : (L'.map (·.comps)).Nodup := (hp.map _).nodup_iff.mp hnd
  apply Option.ext
  intro e
  rw [lookupE_eq_some_iff hnd, lookupE_eq_some_iff hnd', hp.mem_iff]

theorem res_perm (root : Nat × List α) {L L' : List (Ent α)} (hnd : (L.map (·.comps)).Nodup)
    (hp : L.Perm L') (p : List Name) : res root L p = res root L' p :=
  res_congr root L L' (lookupE_perm hnd hp) p

end

/-! ### renaming appender identifiers commutes with resolution -/

theorem lookupE_map {α β} (f : α → β) (L : List (Ent α)) (p : List Name) :
    lookupE (L.map (Ent.map f)) p = (lookupE L p).map (Ent.map f) := by
  induction L with
  | nil => rfl
  | cons x xs ih =>
    simp only [lookupE, List.map_cons, List.find?_cons] at ih ⊢
    by_cases h : x.comps = p
    · simp [Ent.map, h]
    · simp only [Ent.map, h, decide_false]
      exact ih

theorem res_map {α β} (f : α → β) (root : Nat × List α) (L : List (Ent α)) (p : List Name) :
    res (root.1, root.2.map f) (L.map (Ent.map f)) p = ((res root L p).1, (res root L p).2.map f) := by
  induction p using snoc_induction with
  | hnil => rfl
  | hsnoc p c ih =>
    rw [res_concat, res_concat, lookupE_map]
    cases h : lookupE L (p ++ [c]) with
    | none => simpa using ih
    | some e =>
      simp only [Option.map_some, Ent.map, List.map_append, ih]
      cases e.additive <;> simp

/-! ### `res` over the declared loggers is the specification -/

def entOfCfg (l : LoggerCfg) : Ent Name :=
  { comps := comps l.name, level := l.level, additive := l.additive, apps := l.appenders }

theorem lookupE_entOfCfg (ls : List LoggerCfg) (p : List Name) :
    lookupE (ls.map entOfCfg) p = (lookupLogger ls p).map entOfCfg := by
  induction ls with
  | nil => rfl
  | cons x xs ih =>
    simp only [lookupE, lookupLogger, List.map_cons, List.find?_cons] at ih ⊢
    by_cases h : comps x.name = p
    · simp [entOfCfg, h]
    · simp only [entOfCfg, h, decide_false]
      exact ih

theorem prefixesDesc_concat (p : List Name) (c : Name) :
    prefixesDesc (p ++ [c]) = (p ++ [c]) :: prefixesDesc p := by
  induction p with
  | nil => rfl
  | cons a p ih => simp [prefixesDesc, ih]

theorem lookupLogger_nil (ls : List LoggerCfg) : lookupLogger ls [] = none := by
  simp only [lookupLogger, List.find?_eq_none]
  intro l _
  simpa using comps_ne_nil l.name

theorem lookupLogger_comps {ls : List LoggerCfg} {p : List Name} {l : LoggerCfg}
    (h : lookupLogger ls p = some l) : comps l.name = p := by
  simpa using List.find?_some h

theorem effectiveAt_nil (ls : List LoggerCfg) : effectiveAt ls [] = none := by
  simp [effectiveAt, prefixesDesc, lookupLogger_nil]

theorem effectiveAt_concat (ls : List LoggerCfg) (p : List Name) (c : Name) :
    effectiveAt ls (p ++ [c]) =
      match lookupLogger ls (p ++ [c]) with
      | some l => some l
      | none => effectiveAt ls p := by
  simp only [effectiveAt, prefixesDesc_concat, List.findSome?_cons]
  cases lookupLogger ls (p ++ [c]) <;> rfl

theorem chain_none (cfg : Config) (n : Nat) : chain cfg n none = cfg.rootAppenders := by
  cases n <;> rfl

def levelOf (cfg : Config) : Option LoggerCfg → Nat
  | some l => l.level
  | none => cfg.rootLevel

theorem res_eq_spec (cfg : Config) (p : List Name) (fuel : Nat) (hf : p.length ≤ fuel) :
    res (cfg.rootLevel, cfg.rootAppenders) (cfg.loggers.map entOfCfg) p =
      (levelOf cfg (effectiveAt cfg.loggers p), chain cfg fuel (effectiveAt cfg.loggers p)) := by
  induction p using snoc_induction generalizing fuel with
  | hnil => simp [res_nil, effectiveAt_nil, levelOf, chain_none]
  | hsnoc p c ih =>
    rw [res_concat, lookupE_entOfCfg, effectiveAt_concat]
    cases fuel with
    | zero => simp at hf
    | succ f =>
      have hf' : p.length ≤ f := by simpa using hf
      cases h : lookupLogger cfg.loggers (p ++ [c]) with
      | none =>
        simp only [Option.map_none]
        exact ih (f + 1) (by omega)
      | some l =>
        have hc := lookupLogger_comps h
        simp only [Option.map_some, entOfCfg, levelOf, chain, parent, hc, List.dropLast_concat, ih f hf']

theorem specLevel_eq (cfg : Config) (t : Name) : specLevel cfg t = levelOf cfg (effective cfg t) := by
  unfold specLevel levelOf
  cases effective cfg t <;> rfl

end Log4rs.Routing.Tree
