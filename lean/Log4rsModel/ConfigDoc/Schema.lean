import Log4rsModel.ConfigDoc.Value
/-
A generic interpreter for the shapes of `Deserialize` impls log4rs uses, and the log4rs schema as a
Lean value.

  struct      `#[derive(Deserialize)]` on a struct: every field is required, or has a default
              (`#[serde(default…)]`, or `Option<T>`, whose absence means `None`); with
              `deny_unknown_fields` a key that is not a field is an error, without it the key is
              ignored.  JSON and TOML also accept a *sequence* for a derived struct (fields by
              position); `serde_yaml` 0.9 does not — this is the one place where the front-ends
              differ on the same `Value`, and it is a parameter (`seqStructs`) of the interpreter.
  tagged      the hand-written impls of `AppenderConfig`, `FilterConfig`, `EncoderConfig`, `Policy`,
              `Trigger`, `Roller`: the value must be a map, `kind` must be a string (or absent when
              a default kind exists), the `extras` (`filters` of an appender) are typed, and the
              REMAINING keys are handed to the config struct registered for the kind
              (`Deserializers::deserialize`).  `deferred = true` marks the two places where the
              remaining keys are only stored (`serde_value::Value`) while the document is parsed and
              typed later, one by one, by `appenders_lossy`: a failure there is recorded in the
              result (`Typed.failed`) instead of failing the document.
  leaf        scalar visitors.
  lazy        (not used by the code as it is) the value is only stored while the document is parsed;
              a failure to type it later is recorded (`Typed.failed`) instead of failing the document.
-/
namespace Log4rs.ConfigDoc
open Log4rs.Literals Log4rs.Str

inductive Err where
  | invalidType
  | missingField (k : Key)
  | unknownField (k : Key)
  | unknownKind (k : Key)
  | unknownVariant
  | badValue
  | invalidLength
  /-- not an error value of the code: a leaf visitor PANICKED (only the duration visitor can) -/
  | panicked
  deriving Repr, DecidableEq

inductive Leaf where
  | str | bool | level | u32 | u64 | size | interval | duration | target
  deriving Repr, DecidableEq

inductive Typed where
  | nothing
  | bool (b : Bool)
  | nat (n : Nat)
  | str (s : List Char)
  | level (n : Nat)
  | interval (u : TUnit) (n : Int)
  | duration (nanos : Nat)
  | target (stderr : Bool)
  | just (t : Typed)
  | list (xs : List Typed)
  | dict (kvs : List (Key × Typed))
  | record (fs : List (Key × Typed))
  | tagged (kind : Key) (extras : List (Key × Typed)) (body : Typed)
  | failed (e : Err)

inductive Schema where
  | leaf (l : Leaf)
  | opt (s : Schema)
  | seqOf (s : Schema)
  | mapOf (s : Schema)
  | struct (deny : Bool) (fields : List (Key × Option Typed × Schema))
  | tagged (dflt : Option Key) (deferred : Bool) (extras : List (Key × Option Typed × Schema))
      (cases : List (Key × Schema))
  | lazy (s : Schema)

abbrev Field := Key × Option Typed × Schema

def fieldNames (fs : List Field) : List Key := fs.map (·.1)

/-! ### leaves -/

def levelNames : List (List Char × Nat) :=
  [ (['O','F','F'], 0), (['E','R','R','O','R'], 1), (['W','A','R','N'], 2), (['I','N','F','O'], 3),
    (['D','E','B','U','G'], 4), (['T','R','A','C','E'], 5) ]

/-- `LevelFilter::from_str`: ASCII-case-insensitive comparison with the six names -/
def parseLevel (s : List Char) : Option Nat := lookupUnit levelNames s

def U32_MAX : Nat := 2 ^ 32 - 1

/-- humantime's units (`parse_unit`), as nanoseconds per unit -/
def durationUnits : List (List Char × Nat) :=
  [ (c!"nanos", 1), (c!"nsec", 1), (c!"ns", 1),
    (c!"usec", 1000), (c!"us", 1000), (['µ', 's'], 1000),
    (c!"millis", 1000000), (c!"msec", 1000000), (c!"ms", 1000000),
    (c!"seconds", 1000000000), (c!"second", 1000000000), (c!"secs", 1000000000),
    (c!"sec", 1000000000), (c!"s", 1000000000),
    (c!"minutes", 60000000000), (c!"minute", 60000000000), (c!"min", 60000000000),
    (c!"mins", 60000000000), (c!"m", 60000000000),
    (c!"hours", 3600000000000), (c!"hour", 3600000000000), (c!"hr", 3600000000000),
    (c!"hrs", 3600000000000), (c!"h", 3600000000000),
    (c!"days", 86400000000000), (c!"day", 86400000000000), (c!"d", 86400000000000),
    (c!"weeks", 604800000000000), (c!"week", 604800000000000), (c!"w", 604800000000000),
    (c!"wk", 604800000000000), (c!"wks", 604800000000000),
    (c!"months", 2630016000000000), (c!"month", 2630016000000000), (c!"M", 2630016000000000),
    (c!"years", 31557600000000000), (c!"year", 31557600000000000), (c!"y", 31557600000000000) ]

def isAsciiAlpha (c : Char) : Bool := ('a' ≤ c && c ≤ 'z') || ('A' ≤ c && c ≤ 'Z')

inductive DurRes where
  | ok (secs nanos : Nat)
  | err
  | panic
  deriving Repr, DecidableEq

/-- `true` = humantime as it is (2.4.0): `add_current` carries nanoseconds into seconds only when
they EXCEED 10^9, so a sum of exactly 10^9 ns reaches `Duration::new(sec, 1_000_000_000)`, whose own
carry overflows — and PANICS — when `sec = u64::MAX` (finding
C14/refresh-rate-duration-overflow-panics).  `false` = after a repair that turns this into an
error. -/
def humantimeCarryPanics : Bool := true

/-- `add_current(sec, nsec, out)` followed by `Duration::new` -/
def durAdd (sec nsec : Nat) (acc : Nat × Nat) : DurRes :=
  let ns := acc.2 + nsec
  if ns > U64_MAX then .err else
  let sec' := if ns > 1000000000 then sec + ns / 1000000000 else sec
  let ns' := if ns > 1000000000 then ns % 1000000000 else ns
  if sec' > U64_MAX then .err else
  let total := acc.1 + sec'
  if total > U64_MAX then .err
  else if ns' = 1000000000 then
    (if total + 1 > U64_MAX then (if humantimeCarryPanics then .panic else .err) else .ok (total + 1) 0)
  else .ok total ns'

/-- `parse_unit`: the unit word (exact, case-sensitive), the checked multiplication, the sum -/
def durUnit (n : Nat) (unit : List Char) (acc : Nat × Nat) : DurRes :=
  match durationUnits.find? (fun e => e.1 == unit) with
  | none => .err
  | some e =>
    if e.2 < 1000000000 then
      (if n * e.2 ≤ U64_MAX then durAdd 0 (n * e.2) acc else .err)
    else
      (if n * (e.2 / 1000000000) ≤ U64_MAX then durAdd (n * (e.2 / 1000000000)) 0 acc else .err)

def isUnitChar (c : Char) : Bool := isAsciiAlpha c || c == 'µ'

mutual
/-- inside a number: digits accumulate (checked), white space is skipped, a letter starts the unit;
the end of the text means "no unit" — an error.  A fractional part (`1.5h`) is outside the model
(rejected here; humantime 2.4 accepts it). -/
def durNum : Nat → Nat → List Char → Nat × Nat → DurRes
  | 0, _, _, _ => .err
  | fuel + 1, n, s, acc =>
    match s with
    | [] => .err
    | c :: r =>
      if isAsciiDigit c then
        (if n * 10 + digitVal c > U64_MAX then .err else durNum fuel (n * 10 + digitVal c) r acc)
      else if isWhitespace c then durNum fuel n r acc
      else if isUnitChar c then durWord fuel n [c] r acc
      else .err
/-- inside a unit word: letters accumulate; a digit ends the span and starts the next number,
white space ends the span, the end of the text ends the span and the text -/
def durWord : Nat → Nat → List Char → List Char → Nat × Nat → DurRes
  | 0, _, _, _, _ => .err
  | fuel + 1, n, urev, s, acc =>
    match s with
    | [] => durUnit n urev.reverse acc
    | c :: r =>
      if isUnitChar c then durWord fuel n (c :: urev) r acc
      else if isAsciiDigit c then
        (match durUnit n urev.reverse acc with
         | .ok a b => durNum fuel (digitVal c) r (a, b)
         | o => o)
      else if isWhitespace c then
        (match durUnit n urev.reverse acc with
         | .ok a b => durFirst fuel r (a, b)
         | o => o)
      else .err
/-- `parse_first_char` between spans: white space, then a digit or the end -/
def durFirst : Nat → List Char → Nat × Nat → DurRes
  | 0, _, _ => .err
  | fuel + 1, s, acc =>
    match s with
    | [] => .ok acc.1 acc.2
    | c :: r =>
      if isWhitespace c then durFirst fuel r acc
      else if isAsciiDigit c then durNum fuel (digitVal c) r acc
      else .err
end

/-- `humantime::parse_duration` (2.4.0) for texts without fractional parts: any number of
`<digits> <unit>` spans.  An empty text is an error (`Error::Empty`). -/
def parseDurationFull (s : List Char) : DurRes :=
  if s.all isWhitespace then .err else durFirst (s.length + 2) s (0, 0)

/-- the accepted durations, in nanoseconds -/
def parseDuration (s : List Char) : Option Nat :=
  match parseDurationFull s with
  | .ok a b => some (a * 1000000000 + b)
  | _ => none

def interpLeaf : Leaf → Value → Except Err Typed
  | .str, .str s => .ok (.str s)
  | .bool, .bool b => .ok (.bool b)
  | .level, .str s =>
    match parseLevel s with
    | some n => .ok (.level n)
    | none => .error .unknownVariant
  | .u32, .int n => if 0 ≤ n ∧ n.toNat ≤ U32_MAX then .ok (.nat n.toNat) else .error .badValue
  | .u64, .int n => if 0 ≤ n ∧ n.toNat ≤ U64_MAX then .ok (.nat n.toNat) else .error .badValue
  | .size, v =>
    match parseSize v.toScalar with
    | .ok n => .ok (.nat n)
    | .error _ => .error .badValue
  | .interval, v =>
    match parseInterval v.toScalar with
    | .ok (u, n) => .ok (.interval u n)
    | .error _ => .error .badValue
  | .duration, .str s =>
    match parseDurationFull s with
    | .ok a b => .ok (.duration (a * 1000000000 + b))
    | .err => .error .badValue
    | .panic => .error .panicked
  | .target, .str s =>
    if s = c!"stdout" then .ok (.target false)
    else if s = c!"stderr" then .ok (.target true)
    else .error .unknownVariant
  | _, _ => .error .invalidType

/-! ### the interpreter -/

def mapVals (f : Value → Except Err Typed) : List Value → Except Err (List Typed)
  | [] => .ok []
  | v :: vs =>
    match f v with
    | .error e => .error e
    | .ok t =>
      match mapVals f vs with
      | .error e => .error e
      | .ok ts => .ok (t :: ts)

def mapEntries (f : Value → Except Err Typed) : Entries → Except Err (List (Key × Typed))
  | [] => .ok []
  | (k, v) :: kvs =>
    match f v with
    | .error e => .error e
    | .ok t =>
      match mapEntries f kvs with
      | .error e => .error e
      | .ok ts => .ok ((k, t) :: ts)

/-- the `kind` entry of a kind-tagged map -/
def kindOf (dflt : Option Key) (kvs : Entries) : Except Err Key :=
  match lookup (c!"kind") kvs with
  | some (.str k) => .ok k
  | some _ => .error .invalidType
  | none =>
    match dflt with
    | some k => .ok k
    | none => .error (.missingField (c!"kind"))

/-- first key of the map that is not a field -/
def unknownKey (names : List Key) (kvs : Entries) : Option Key :=
  match kvs.find? (fun kv => !names.contains kv.1) with
  | some kv => some kv.1
  | none => none

mutual
/-- `seqStructs` = the front-end accepts a sequence for a derived struct (JSON, TOML: true;
YAML: false). -/
def interp (seqStructs : Bool) : Schema → Value → Except Err Typed
  | .leaf l, v => interpLeaf l v
  | .opt _, .null => .ok .nothing
  | .opt s, v =>
    match interp seqStructs s v with
    | .ok t => .ok (.just t)
    | .error e => .error e
  | .seqOf s, .seq xs =>
    match mapVals (fun v => interp seqStructs s v) xs with
    | .ok ts => .ok (.list ts)
    | .error e => .error e
  | .seqOf _, _ => .error .invalidType
  | .mapOf s, .map kvs =>
    match mapEntries (fun v => interp seqStructs s v) kvs with
    | .ok ts => .ok (.dict ts)
    | .error e => .error e
  | .mapOf _, _ => .error .invalidType
  | .struct deny fields, .map kvs =>
    match (if deny then unknownKey (fieldNames fields) kvs else none) with
    | some k => .error (.unknownField k)
    | none =>
      match interpFields seqStructs fields kvs with
      | .ok ts => .ok (.record ts)
      | .error e => .error e
  | .struct _ fields, .seq xs =>
    if seqStructs then
      match interpFieldsSeq seqStructs fields xs with
      | .ok ts => .ok (.record ts)
      | .error e => .error e
    else .error .invalidType
  | .struct _ _, _ => .error .invalidType
  | .tagged dflt deferred extras cases, .map kvs =>
    match kindOf dflt kvs with
    | .error e => .error e
    | .ok kind =>
      match interpFields seqStructs extras kvs with
      | .error e => .error e
      | .ok es =>
        match interpCases seqStructs cases kind (without (c!"kind" :: fieldNames extras) kvs) with
        | .ok t => .ok (.tagged kind es t)
        | .error e => if deferred then .ok (.tagged kind es (.failed e)) else .error e
  | .tagged _ _ _ _, _ => .error .invalidType
  | .lazy s, v =>
    match interp seqStructs s v with
    | .ok t => .ok t
    | .error e => .ok (.failed e)

/-- the fields of a struct, looked up in a map: present ⇒ typed by the field's schema, absent ⇒
the default, or `missing field` -/
def interpFields (seqStructs : Bool) : List Field → Entries → Except Err (List (Key × Typed))
  | [], _ => .ok []
  | (k, d, s) :: fs, kvs =>
    match (match lookup k kvs with
           | some v => interp seqStructs s v
           | none =>
             match d with
             | some t => .ok t
             | none => .error (.missingField k)) with
    | .error e => .error e
    | .ok t =>
      match interpFields seqStructs fs kvs with
      | .error e => .error e
      | .ok ts => .ok ((k, t) :: ts)

/-- the fields of a struct taken by position from a sequence (`visit_seq` of the derive) -/
def interpFieldsSeq (seqStructs : Bool) : List Field → List Value → Except Err (List (Key × Typed))
  | [], [] => .ok []
  | [], _ :: _ => .error .invalidLength
  | (k, d, s) :: fs, xs =>
    match (match xs with
           | v :: _ => interp seqStructs s v
           | [] =>
             match d with
             | some t => .ok t
             | none => .error .invalidLength) with
    | .error e => .error e
    | .ok t =>
      match interpFieldsSeq seqStructs fs xs.tail with
      | .error e => .error e
      | .ok ts => .ok ((k, t) :: ts)

/-- `Deserializers::deserialize(kind, config)`: the registry lookup, then the kind's config -/
def interpCases (seqStructs : Bool) : List (Key × Schema) → Key → Entries → Except Err Typed
  | [], kind, _ => .error (.unknownKind kind)
  | (k, s) :: cs, kind, kvs =>
    if k = kind then interp seqStructs s (.map kvs) else interpCases seqStructs cs kind kvs
end

/-! ### the log4rs schema -/

def req (k : Key) (s : Schema) : Field := (k, none, s)
def dfl (k : Key) (t : Typed) (s : Schema) : Field := (k, some t, s)
/-- `Option<T>` field: absent and `null` both mean `None` -/
def optF (k : Key) (s : Schema) : Field := (k, some .nothing, .opt s)

/-- `PatternEncoderConfig` -/
def patternEncoderS : Schema := .struct true [optF (c!"pattern") (.leaf .str)]
/-- `JsonEncoderConfig` (its only field is `skip_deserializing`) -/
def jsonEncoderS : Schema := .struct true []
/-- `EncoderConfig`: kind defaults to `pattern` -/
def encoderS : Schema :=
  .tagged (some (c!"pattern")) false [] [(c!"pattern", patternEncoderS), (c!"json", jsonEncoderS)]

/-- `ThresholdFilterConfig` — NO `deny_unknown_fields` -/
def thresholdS : Schema := .struct false [req (c!"level") (.leaf .level)]
/-- `FilterConfig`: kind required; typed later by `appenders_lossy` -/
def filterS : Schema := .tagged none true [] [(c!"threshold", thresholdS)]

def sizeTriggerS : Schema := .struct true [req (c!"limit") (.leaf .size)]
def timeTriggerS : Schema :=
  .struct true [req (c!"interval") (.leaf .interval),
    dfl (c!"modulate") (.bool false) (.leaf .bool),
    dfl (c!"max_random_delay") (.nat 0) (.leaf .u64)]
def onStartUpTriggerS : Schema := .struct true [dfl (c!"min_size") (.nat 1) (.leaf .u64)]
/-- `Trigger`: kind REQUIRED -/
def triggerS : Schema :=
  .tagged none false []
    [(c!"size", sizeTriggerS), (c!"time", timeTriggerS), (c!"onstartup", onStartUpTriggerS)]

def fixedWindowRollerS : Schema :=
  .struct true [req (c!"pattern") (.leaf .str), optF (c!"base") (.leaf .u32),
    req (c!"count") (.leaf .u32)]
def deleteRollerS : Schema := .struct true []
/-- `Roller`: kind REQUIRED -/
def rollerS : Schema :=
  .tagged none false [] [(c!"fixed_window", fixedWindowRollerS), (c!"delete", deleteRollerS)]

def compoundPolicyS : Schema :=
  .struct true [req (c!"trigger") triggerS, req (c!"roller") rollerS]
/-- `Policy`: kind defaults to `compound` -/
def policyS : Schema := .tagged (some (c!"compound")) false [] [(c!"compound", compoundPolicyS)]

def consoleAppenderS : Schema :=
  .struct true [optF (c!"target") (.leaf .target), optF (c!"encoder") encoderS,
    optF (c!"tty_only") (.leaf .bool)]
def fileAppenderS : Schema :=
  .struct true [req (c!"path") (.leaf .str), optF (c!"encoder") encoderS,
    optF (c!"append") (.leaf .bool)]
def rollingFileAppenderS : Schema :=
  .struct true [req (c!"path") (.leaf .str), optF (c!"append") (.leaf .bool),
    optF (c!"encoder") encoderS, req (c!"policy") policyS]
/-- `AppenderConfig`: kind required, `filters` default `[]`; typed later by `appenders_lossy` -/
def appenderS : Schema :=
  .tagged none true [dfl (c!"filters") (.list []) (.seqOf filterS)]
    [(c!"console", consoleAppenderS), (c!"file", fileAppenderS),
     (c!"rolling_file", rollingFileAppenderS)]

/-- Model flag for finding C14/appender-envelope-error-rejects-document: `false` = the code as it
is (`RawConfig.appenders : HashMap<String, AppenderConfig>`: a missing or ill-typed `kind`, an
ill-shaped `filters` list or a filter entry without a string `kind` fail the whole DOCUMENT);
`true` = after the `fix:` commit that keeps the appender entries raw (`HashMap<String, Value>`) and
types the envelope inside `appenders_lossy` (`split_appender`): a broken appender envelope is
reported as `Appender(name, …)` and only that appender is dropped; a broken filter envelope is
reported as `Filter(name, …)` and only that filter is dropped. -/
def appenderEnvelopeLazy : Bool := true

/-- `AppenderConfig` after the fix: the filter entries stay raw until they are looked at one by one -/
def appenderLazyS : Schema :=
  .tagged none true [dfl (c!"filters") (.list []) (.seqOf (.lazy filterS))]
    [(c!"console", consoleAppenderS), (c!"file", fileAppenderS),
     (c!"rolling_file", rollingFileAppenderS)]

def appenderEntrySWith (lazyEnvelope : Bool) : Schema :=
  if lazyEnvelope then .lazy appenderLazyS else appenderS

def appenderEntryS : Schema := appenderEntrySWith appenderEnvelopeLazy

def namesS : Schema := .seqOf (.leaf .str)
/-- `Root`: level defaults to Debug (4) -/
def rootS : Schema :=
  .struct true [dfl (c!"level") (.level 4) (.leaf .level), dfl (c!"appenders") (.list []) namesS]
def rootDefault : Typed := .record [(c!"level", .level 4), (c!"appenders", .list [])]
/-- `Logger`: level required, additive defaults to true -/
def loggerS : Schema :=
  .struct true [req (c!"level") (.leaf .level), dfl (c!"appenders") (.list []) namesS,
    dfl (c!"additive") (.bool true) (.leaf .bool)]
/-- `RawConfig`, before (`false`) and after (`true`) the lazy-envelope fix -/
def docSWith (lazyEnvelope : Bool) : Schema :=
  .struct true [optF (c!"refresh_rate") (.leaf .duration), dfl (c!"root") rootDefault rootS,
    dfl (c!"appenders") (.dict []) (.mapOf (appenderEntrySWith lazyEnvelope)),
    dfl (c!"loggers") (.dict []) (.mapOf loggerS)]

/-- `RawConfig` -/
def docS : Schema := docSWith appenderEnvelopeLazy

end Log4rs.ConfigDoc
