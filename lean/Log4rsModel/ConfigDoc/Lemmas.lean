import Log4rsModel.ConfigDoc.Spec
/-
Helper lemmas for C14: unknown keys, error propagation along the strict edges of a schema,
defaults, compositionality of `appenders_lossy`, panic freedom of the constructors.
-/
namespace Log4rs.ConfigDoc
open Log4rs Log4rs.Literals Log4rs.Routing

/-! ### unknown keys -/

theorem unknownKey_isSome (names : List Key) (kvs : Entries) (k : Key)
    (hk : k ∈ keys kvs) (hn : k ∉ names) : ∃ k', unknownKey names kvs = some k' ∧ k' ∉ names := by
  unfold unknownKey
  cases h : kvs.find? (fun kv => !names.contains kv.1) with
  | some kv =>
    refine ⟨kv.1, rfl, ?_⟩
    have := List.find?_some h
    simpa using this
  | none =>
    exfalso
    rw [List.find?_eq_none] at h
    obtain ⟨kv, hkv, rfl⟩ := List.mem_map.mp hk
    have := h kv hkv
    simp at this
    exact hn this

theorem unknownKey_none_iff (names : List Key) (kvs : Entries) :
    unknownKey names kvs = none ↔ ∀ k ∈ keys kvs, k ∈ names := by
  unfold unknownKey
  constructor
  · intro h k hk
    cases hf : kvs.find? (fun kv => !names.contains kv.1) with
    | some kv => rw [hf] at h; simp at h
    | none =>
      rw [List.find?_eq_none] at hf
      obtain ⟨kv, hkv, rfl⟩ := List.mem_map.mp hk
      have := hf kv hkv
      simpa using this
  · intro h
    cases hf : kvs.find? (fun kv => !names.contains kv.1) with
    | none => rfl
    | some kv =>
      exfalso
      have h1 := List.find?_some hf
      have h2 := List.mem_of_find?_eq_some hf
      have := h kv.1 (List.mem_map.mpr ⟨kv, h2, rfl⟩)
      simp at h1
      exact h1 this

/-- a struct with `deny_unknown_fields` rejects a map that has a key which is not a field -/
theorem interp_struct_unknown (ss : Bool) (fields : List Field) (kvs : Entries) (k : Key)
    (hk : k ∈ keys kvs) (hn : k ∉ fieldNames fields) :
    ∃ k', interp ss (.struct true fields) (.map kvs) = .error (.unknownField k') ∧
      k' ∉ fieldNames fields := by
  obtain ⟨k', h, hk'⟩ := unknownKey_isSome (fieldNames fields) kvs k hk hn
  refine ⟨k', ?_, hk'⟩
  simp only [interp, h, if_true]

/-! ### error propagation -/

theorem mapVals_error (f : Value → Except Err Typed) (xs : List Value) (x : Value) (e : Err)
    (hx : x ∈ xs) (he : f x = .error e) : ∃ e', mapVals f xs = .error e' := by
  induction xs with
  | nil => cases hx
  | cons y ys ih =>
    simp only [mapVals]
    rcases List.mem_cons.mp hx with rfl | h
    · rw [he]; exact ⟨e, rfl⟩
    · cases hy : f y with
      | error e1 => exact ⟨e1, rfl⟩
      | ok t =>
        obtain ⟨e', h'⟩ := ih h
        rw [h']; exact ⟨e', rfl⟩

theorem mapEntries_error (f : Value → Except Err Typed) (kvs : Entries) (k : Key) (x : Value)
    (e : Err) (hx : (k, x) ∈ kvs) (he : f x = .error e) : ∃ e', mapEntries f kvs = .error e' := by
  induction kvs with
  | nil => cases hx
  | cons y ys ih =>
    obtain ⟨k1, v1⟩ := y
    simp only [mapEntries]
    rcases List.mem_cons.mp hx with h | h
    · cases h; rw [he]; exact ⟨e, rfl⟩
    · cases hy : f v1 with
      | error e1 => exact ⟨e1, rfl⟩
      | ok t =>
        obtain ⟨e', h'⟩ := ih h
        rw [h']; exact ⟨e', rfl⟩

theorem interpFields_error (ss : Bool) (fields : List Field) (kvs : Entries) (k : Key)
    (d : Option Typed) (s : Schema) (x : Value) (e : Err)
    (hf : (k, d, s) ∈ fields) (hl : lookup k kvs = some x) (he : interp ss s x = .error e) :
    ∃ e', interpFields ss fields kvs = .error e' := by
  induction fields with
  | nil => cases hf
  | cons f fs ih =>
    obtain ⟨k1, d1, s1⟩ := f
    simp only [interpFields]
    rcases List.mem_cons.mp hf with h | h
    · cases h
      simp only [hl, he]
      exact ⟨e, rfl⟩
    · obtain ⟨e', h'⟩ := ih h
      split
      · exact ⟨_, rfl⟩
      · rw [h']; exact ⟨e', rfl⟩

/-- first schema registered for a kind -/
def caseOf : List (Key × Schema) → Key → Option Schema
  | [], _ => none
  | (k, s) :: cs, kind => if k = kind then some s else caseOf cs kind

theorem interpCases_eq (ss : Bool) (cases : List (Key × Schema)) (kind : Key) (kvs : Entries)
    (s : Schema) (h : caseOf cases kind = some s) :
    interpCases ss cases kind kvs = interp ss s (.map kvs) := by
  induction cases with
  | nil => cases h
  | cons c cs ih =>
    obtain ⟨k, s1⟩ := c
    simp only [interpCases]
    simp only [caseOf] at h
    by_cases hk : k = kind
    · simp only [hk, if_true] at h ⊢
      cases h; rfl
    · simp only [hk, if_false] at h ⊢
      exact ih h

theorem interpCases_unknown (ss : Bool) (cases : List (Key × Schema)) (kind : Key) (kvs : Entries)
    (h : caseOf cases kind = none) :
    interpCases ss cases kind kvs = .error (.unknownKind kind) := by
  induction cases with
  | nil => simp only [interpCases]
  | cons c cs ih =>
    obtain ⟨k, s1⟩ := c
    simp only [interpCases]
    simp only [caseOf] at h
    by_cases hk : k = kind
    · simp [hk] at h
    · simp only [hk, if_false] at h ⊢
      exact ih h

/-- `(s', v')` is reached from `(s, v)` through edges along which an error is propagated (not
through the remaining keys of a `deferred` kind-tagged map) -/
inductive Sub (ss : Bool) : Schema → Value → Schema → Value → Prop
  | refl (s v) : Sub ss s v s v
  | opt {s v s' v'} : v ≠ .null → Sub ss s v s' v' → Sub ss (.opt s) v s' v'
  | seqElem {s xs x s' v'} : x ∈ xs → Sub ss s x s' v' → Sub ss (.seqOf s) (.seq xs) s' v'
  | mapElem {s kvs k x s' v'} : (k, x) ∈ kvs → Sub ss s x s' v' → Sub ss (.mapOf s) (.map kvs) s' v'
  | field {deny fields kvs k d s x s' v'} : (k, d, s) ∈ fields → lookup k kvs = some x →
      Sub ss s x s' v' → Sub ss (.struct deny fields) (.map kvs) s' v'
  | extra {dflt deferred extras cases kvs k d s x s' v'} : (k, d, s) ∈ extras →
      lookup k kvs = some x → Sub ss s x s' v' →
      Sub ss (.tagged dflt deferred extras cases) (.map kvs) s' v'
  | body {dflt extras cases kvs kind s s' v'} : kindOf dflt kvs = .ok kind →
      caseOf cases kind = some s →
      Sub ss s (.map (without (c!"kind" :: fieldNames extras) kvs)) s' v' →
      Sub ss (.tagged dflt false extras cases) (.map kvs) s' v'

theorem interp_sub_error (ss : Bool) {s v s' v'} (h : Sub ss s v s' v') :
    ∀ e', interp ss s' v' = .error e' → ∃ e, interp ss s v = .error e := by
  induction h with
  | refl s v => intro e' he; exact ⟨e', he⟩
  | @opt s v s' v' hv _ ih =>
    intro e' he
    obtain ⟨e, h⟩ := ih e' he
    cases v <;> first | exact absurd rfl hv | (simp only [interp, h]; exact ⟨e, rfl⟩)
  | @seqElem s xs x s' v' hx _ ih =>
    intro e' he
    obtain ⟨e, h⟩ := ih e' he
    obtain ⟨e1, h1⟩ := mapVals_error (fun v => interp ss s v) xs x e hx h
    simp only [interp, h1]; exact ⟨e1, rfl⟩
  | @mapElem s kvs k x s' v' hx _ ih =>
    intro e' he
    obtain ⟨e, h⟩ := ih e' he
    obtain ⟨e1, h1⟩ := mapEntries_error (fun v => interp ss s v) kvs k x e hx h
    simp only [interp, h1]; exact ⟨e1, rfl⟩
  | @field deny fields kvs k d s x s' v' hf hl _ ih =>
    intro e' he
    obtain ⟨e, h⟩ := ih e' he
    obtain ⟨e1, h1⟩ := interpFields_error ss fields kvs k d s x e hf hl h
    simp only [interp, h1]
    split
    · exact ⟨_, rfl⟩
    · exact ⟨e1, rfl⟩
  | @extra dflt deferred extras cases kvs k d s x s' v' hf hl _ ih =>
    intro e' he
    obtain ⟨e, h⟩ := ih e' he
    obtain ⟨e1, h1⟩ := interpFields_error ss extras kvs k d s x e hf hl h
    simp only [interp, h1]
    split
    · exact ⟨_, rfl⟩
    · exact ⟨e1, rfl⟩
  | @body dflt extras cases kvs kind s s' v' hk hc _ ih =>
    intro e' he
    obtain ⟨e, h⟩ := ih e' he
    simp only [interp, hk]
    cases hx : interpFields ss extras kvs with
    | error e1 => exact ⟨e1, rfl⟩
    | ok es =>
      simp only [interpCases_eq ss cases kind _ s hc, h]
      exact ⟨e, by simp⟩

/-! ### defaults -/

/-- a field that has a default and is absent from the map is typed as its default -/
theorem interpFields_default (ss : Bool) (fields : List Field) (kvs : Entries)
    (ts : List (Key × Typed)) (k : Key) (d : Typed) (s : Schema)
    (hnd : (fieldNames fields).Nodup)
    (hf : (k, some d, s) ∈ fields) (hl : lookup k kvs = none)
    (h : interpFields ss fields kvs = .ok ts) : tlookup k ts = some d := by
  induction fields generalizing ts with
  | nil => cases hf
  | cons f fs ih =>
    obtain ⟨k1, d1, s1⟩ := f
    simp only [interpFields] at h
    simp only [fieldNames, List.map_cons, List.nodup_cons] at hnd
    split at h
    · cases h
    · rename_i t ht
      cases hr : interpFields ss fs kvs with
      | error e => rw [hr] at h; cases h
      | ok ts' =>
        rw [hr] at h
        simp only [Except.ok.injEq] at h
        subst h
        rcases List.mem_cons.mp hf with hh | hh
        · cases hh
          simp only [hl] at ht
          cases ht
          simp [tlookup]
        · have hne : k1 ≠ k := by
            intro heq; subst heq
            exact hnd.1 (List.mem_map.mpr ⟨(k1, some d, s), hh, rfl⟩)
          simp only [tlookup, hne, if_false]
          exact ih ts' hnd.2 hh hr

theorem kindOf_default (dflt : Key) (kvs : Entries) (h : lookup (c!"kind") kvs = none) :
    kindOf (some dflt) kvs = .ok dflt := by
  simp only [kindOf, h]

theorem kindOf_required (kvs : Entries) (h : lookup (c!"kind") kvs = none) :
    kindOf none kvs = .error (.missingField (c!"kind")) := by
  simp only [kindOf, h]

/-! ### `appenders_lossy` is compositional -/

theorem appendersLossy_append (env : Env) (xs ys : List (Key × Typed)) :
    appendersLossy env (xs ++ ys) =
      match appendersLossy env xs with
      | .ok (d1, e1) =>
        (match appendersLossy env ys with
         | .ok (d2, e2) => .ok (d1 ++ d2, e1 ++ e2)
         | o => o)
      | o => o := by
  induction xs with
  | nil =>
    simp only [List.nil_append, appendersLossy]
    cases appendersLossy env ys with
    | ok p => obtain ⟨d2, e2⟩ := p; simp
    | err e => rfl
    | panic w => rfl
  | cons x xs ih =>
    obtain ⟨name, t⟩ := x
    simp only [List.cons_append, appendersLossy]
    rcases hao : appenderOutcome env name t with ⟨errs, r⟩
    cases r with
    | panic w => simp
    | kept d =>
      simp only [ih]
      cases appendersLossy env xs with
      | ok p =>
        obtain ⟨d1, e1⟩ := p
        cases appendersLossy env ys with
        | ok q => obtain ⟨d2, e2⟩ := q; simp
        | err e => simp
        | panic w => simp
      | err e => simp
      | panic w => simp
    | dropped =>
      simp only [ih]
      cases appendersLossy env xs with
      | ok p =>
        obtain ⟨d1, e1⟩ := p
        cases appendersLossy env ys with
        | ok q => obtain ⟨d2, e2⟩ := q; simp
        | err e => simp
        | panic w => simp
      | err e => simp
      | panic w => simp

theorem appendersLossy_no_err (env : Env) (xs : List (Key × Typed)) :
    ∀ e, appendersLossy env xs ≠ .err e := by
  induction xs with
  | nil => intro e; simp [appendersLossy]
  | cons x xs ih =>
    intro e
    obtain ⟨name, t⟩ := x
    simp only [appendersLossy]
    rcases appenderOutcome env name t with ⟨errs, r⟩
    cases r with
    | panic w => simp
    | kept d =>
      cases h : appendersLossy env xs with
      | ok p => simp
      | err e' => exact absurd h (ih e')
      | panic w => simp
    | dropped =>
      cases h : appendersLossy env xs with
      | ok p => simp
      | err e' => exact absurd h (ih e')
      | panic w => simp

theorem interp_struct_ok (ss deny : Bool) (fields : List Field) (kvs : Entries) (t : Typed)
    (h : interp ss (.struct deny fields) (.map kvs) = .ok t) :
    ∃ ts, t = .record ts ∧ interpFields ss fields kvs = .ok ts := by
  simp only [interp] at h
  split at h
  · cases h
  · cases hf : interpFields ss fields kvs with
    | error e => rw [hf] at h; cases h
    | ok ts => rw [hf] at h; cases h; exact ⟨ts, rfl, rfl⟩

theorem lookup_append_ne (k k' : Key) (v : Value) (kvs : Entries) (h : k' ≠ k) :
    lookup k (kvs ++ [(k', v)]) = lookup k kvs := by
  induction kvs with
  | nil => simp [lookup, h]
  | cons x xs ih =>
    obtain ⟨k1, v1⟩ := x
    simp only [List.cons_append, lookup, ih]

theorem mapEntries_append (f : Value → Except Err Typed) (xs ys : Entries)
    (txs tys : List (Key × Typed)) (hx : mapEntries f xs = .ok txs) (hy : mapEntries f ys = .ok tys) :
    mapEntries f (xs ++ ys) = .ok (txs ++ tys) := by
  induction xs generalizing txs with
  | nil => simp only [mapEntries] at hx; cases hx; simpa using hy
  | cons x xs ih =>
    obtain ⟨k, v⟩ := x
    simp only [mapEntries, List.cons_append] at hx ⊢
    cases hv : f v with
    | error e => rw [hv] at hx; cases hx
    | ok t =>
      rw [hv] at hx
      cases hr : mapEntries f xs with
      | error e => rw [hr] at hx; cases hx
      | ok ts =>
        rw [hr] at hx
        cases hx
        simp only [ih ts hr, List.cons_append]

theorem const_map_shift {α β} (c : β) (l1 : List α) (l2 : List β) :
    l1.map (fun _ => c) ++ c :: l2 = c :: (l1.map (fun _ => c) ++ l2) := by
  induction l1 with
  | nil => rfl
  | cons a as ih => simp only [List.map_cons, List.cons_append, ih]

/-! ### key order -/

theorem lookup_eq_none_of_not_mem (k : Key) (kvs : Entries) (h : k ∉ keys kvs) : lookup k kvs = none := by
  induction kvs with
  | nil => rfl
  | cons x xs ih =>
    obtain ⟨k1, v1⟩ := x
    simp only [keys, List.map_cons, List.mem_cons, not_or] at h
    simp only [lookup, Ne.symm h.1, if_false]
    exact ih h.2

theorem lookup_perm (k : Key) {kvs kvs' : Entries} (hp : kvs.Perm kvs') (hnd : (keys kvs).Nodup) :
    lookup k kvs = lookup k kvs' := by
  induction hp with
  | nil => rfl
  | cons x _ ih =>
    obtain ⟨k1, v1⟩ := x
    simp only [keys, List.map_cons, List.nodup_cons] at hnd
    simp only [lookup]
    split
    · rfl
    · exact ih hnd.2
  | swap x y l =>
    obtain ⟨k1, v1⟩ := x
    obtain ⟨k2, v2⟩ := y
    simp only [keys, List.map_cons, List.nodup_cons, List.mem_cons, not_or] at hnd
    simp only [lookup]
    by_cases h1 : k1 = k
    · by_cases h2 : k2 = k
      · exact absurd (h2.trans h1.symm) hnd.1.1
      · simp [h1, h2]
    · by_cases h2 : k2 = k <;> simp [h1, h2]
  | trans h1 _ ih1 ih2 =>
    have hnd2 : (keys _).Nodup := (List.Perm.map (fun (kv : Key × Value) => kv.1) h1).nodup_iff.mp hnd
    rw [ih1 hnd, ih2 hnd2]

theorem interpFields_congr (ss : Bool) (fields : List Field) (kvs kvs' : Entries)
    (h : ∀ k, lookup k kvs = lookup k kvs') :
    interpFields ss fields kvs = interpFields ss fields kvs' := by
  induction fields with
  | nil => simp only [interpFields]
  | cons f fs ih =>
    obtain ⟨k, d, s⟩ := f
    simp only [interpFields, h k, ih]

/-! ### the time trigger's constructor -/

def timeSafe (_u : TUnit) (n : Int) (modulate : Bool) (delay : Nat) : Bool :=
  !(modulate && n == 0) && decide (n.toNat ≤ TIME_SAFE) && decide (delay ≤ TIME_SAFE)

/-- holds for the historical and for the repaired constructor -/
theorem timeTriggerNewWith_safe (total : Bool) (u : TUnit) (n : Int) (m : Bool) (d : Nat)
    (h : timeSafe u n m d = true) : ∀ w, timeTriggerNewWith total u n m d ≠ .panic w := by
  intro w
  simp only [timeSafe, Bool.and_eq_true, Bool.not_eq_true', Bool.and_eq_false_iff, beq_eq_false_iff_ne,
    decide_eq_true_eq] at h
  obtain ⟨⟨h1, h2⟩, h3⟩ := h
  unfold timeTriggerNewWith
  have hz : ¬ (m = true ∧ n = 0) := by
    rintro ⟨hm, hn⟩
    rcases h1 with h1 | h1
    · rw [hm] at h1; cases h1
    · exact h1 hn
  have hs : ¬ (u = .second ∧ n.toNat > TIMEDELTA_MAX_SECS) := by
    rintro ⟨_, hgt⟩
    have : TIME_SAFE ≤ TIMEDELTA_MAX_SECS := by decide
    omega
  cases total with
  | true => simp
  | false => rw [if_neg (by simp), if_neg hz, if_neg hs, if_pos ⟨h2, h3⟩]; simp

/-- the repaired constructor is total: no configuration makes it panic -/
theorem timeTriggerNewWith_total (u : TUnit) (n : Int) (m : Bool) (d : Nat) :
    timeTriggerNewWith true u n m d = .ok () := by
  simp [timeTriggerNewWith]

/-! ### panics of loading come from the environment only -/

theorem andThen_no_panic {ε α β} (o : Outcome ε α) (f : α → Outcome ε β)
    (ho : ∀ w, o ≠ .panic w) (hf : ∀ a w, f a ≠ .panic w) : ∀ w, Outcome.andThen o f ≠ .panic w := by
  intro w
  cases o with
  | ok a => exact hf a w
  | err e => simp [Outcome.andThen]
  | panic w' => exact absurd rfl (ho w')

theorem constructEncoder_np (env : Env) (henv : env.NoPanic) (enc : Option Typed) :
    ∀ w, constructEncoder env enc ≠ .panic w := by
  intro w
  unfold constructEncoder
  split
  · split
    · simp
    · exact andThen_no_panic _ _ (henv.2.1 _) (fun _ w => by simp) w
  · exact andThen_no_panic _ _ (henv.2.1 _) (fun _ w => by simp) w

theorem constructTrigger_np (env : Env) (henv : env.NoPanic) (t : Typed) :
    ∀ w, constructTrigger env t ≠ .panic w := by
  intro w
  unfold constructTrigger
  split
  · split
    · split
      · exact andThen_no_panic _ _ (henv.2.2 _ _ _ _) (fun _ w => by simp) w
      · simp
    · split <;> simp
  · simp

theorem constructRoller_np (t : Typed) : ∀ w, constructRoller t ≠ .panic w := by
  intro w
  unfold constructRoller
  split
  · split
    · simp only
      split
      · simp
      · split <;> simp
    · simp
  · simp

theorem constructPolicy_np (env : Env) (henv : env.NoPanic) (p : Option Typed) :
    ∀ w, constructPolicy env p ≠ .panic w := by
  intro w
  unfold constructPolicy
  split
  · refine andThen_no_panic _ _ ?_ (fun td w => andThen_no_panic _ _ ?_ (fun _ w => by simp) w) w
    · intro w; split
      · exact constructTrigger_np env henv _ w
      · simp
    · intro w; split
      · exact constructRoller_np _ w
      · simp
  · simp

theorem constructAppender_np (env : Env) (henv : env.NoPanic) (name : Key) (levels : List Nat)
    (kind : Key) (body : Typed) : ∀ w, constructAppender env name levels kind body ≠ .panic w := by
  intro w
  unfold constructAppender
  refine andThen_no_panic _ _ (constructEncoder_np env henv _) ?_ w
  intro enc w
  split
  · simp
  · simp only
    split
    · exact andThen_no_panic _ _ (henv.1 _) (fun _ w => by simp) w
    · exact andThen_no_panic _ _ (constructPolicy_np env henv _)
        (fun _ w => andThen_no_panic _ _ (henv.1 _) (fun _ w => by simp) w) w

theorem appenderOutcome_np (env : Env) (henv : env.NoPanic) (name : Key) (t : Typed) :
    ∀ w, (appenderOutcome env name t).2 ≠ .panic w := by
  intro w
  unfold appenderOutcome
  split
  · rename_i kind extras body
    simp only
    split
    · simp
    · cases hc : constructAppender env name
          ((Typed.asList (tlookup (c!"filters") extras)).filterMap filterOutcome) kind body with
      | panic w' => exact absurd hc (constructAppender_np env henv name _ kind body w')
      | err e => simp
      | ok d => simp
  · simp

theorem appendersLossy_np (env : Env) (henv : env.NoPanic) (xs : List (Key × Typed)) :
    ∀ w, appendersLossy env xs ≠ .panic w := by
  induction xs with
  | nil => intro w; simp [appendersLossy]
  | cons x xs ih =>
    intro w
    obtain ⟨name, t⟩ := x
    have h1 := appenderOutcome_np env henv name t
    simp only [appendersLossy]
    rcases hao : appenderOutcome env name t with ⟨errs, r⟩
    rw [hao] at h1
    cases r with
    | panic w' => exact absurd rfl (h1 w')
    | kept d =>
      cases hr : appendersLossy env xs with
      | ok p => simp
      | err e => simp
      | panic w' => exact absurd hr (ih w')
    | dropped =>
      cases hr : appendersLossy env xs with
      | ok p => simp
      | err e => simp
      | panic w' => exact absurd hr (ih w')

theorem realEnv_noPanic : realEnv.NoPanic := by
  refine ⟨?_, ?_, ?_⟩
  · intro p w; simp only [realEnv]; split <;> simp
  · intro s w; simp [realEnv]
  · intro u n m d w
    show timeTriggerNewWith timeTriggerTotal u n m d ≠ .panic w
    rw [show timeTriggerTotal = true from rfl, timeTriggerNewWith_total]
    simp

theorem interp_mapOf (ss : Bool) (s : Schema) (kvs : Entries) :
    interp ss (.mapOf s) (.map kvs) =
      match mapEntries (fun v => interp ss s v) kvs with
      | .ok ts => .ok (.dict ts)
      | .error e => .error e := by
  simp only [interp]
  generalize mapEntries (fun v => interp ss s v) kvs = R
  cases R <;> rfl

theorem interp_seqOf (ss : Bool) (s : Schema) (xs : List Value) :
    interp ss (.seqOf s) (.seq xs) =
      match mapVals (fun v => interp ss s v) xs with
      | .ok ts => .ok (.list ts)
      | .error e => .error e := by
  simp only [interp]
  generalize mapVals (fun v => interp ss s v) xs = R
  cases R <;> rfl

/-! ### lazily typed values never fail -/

theorem interp_lazy_total (ss : Bool) (s : Schema) (v : Value) :
    ∃ t, interp ss (.lazy s) v = .ok t := by
  simp only [interp]
  cases interp ss s v with
  | ok t => exact ⟨t, rfl⟩
  | error e => exact ⟨.failed e, rfl⟩

theorem interp_lazy_error (ss : Bool) (s : Schema) (v : Value) (e : Err)
    (h : interp ss s v = .error e) : interp ss (.lazy s) v = .ok (.failed e) := by
  simp only [interp, h]

theorem interp_lazy_ok (ss : Bool) (s : Schema) (v : Value) (t : Typed)
    (h : interp ss s v = .ok t) : interp ss (.lazy s) v = .ok t := by
  simp only [interp, h]

theorem mapEntries_total (f : Value → Except Err Typed) (hf : ∀ v, ∃ t, f v = .ok t) (kvs : Entries) :
    ∃ ts, mapEntries f kvs = .ok ts := by
  induction kvs with
  | nil => exact ⟨[], rfl⟩
  | cons x xs ih =>
    obtain ⟨k, v⟩ := x
    obtain ⟨t, ht⟩ := hf v
    obtain ⟨ts, hts⟩ := ih
    exact ⟨(k, t) :: ts, by simp only [mapEntries, ht, hts]⟩

theorem mapVals_total (f : Value → Except Err Typed) (hf : ∀ v, ∃ t, f v = .ok t) (xs : List Value) :
    ∃ ts, mapVals f xs = .ok ts := by
  induction xs with
  | nil => exact ⟨[], rfl⟩
  | cons v vs ih =>
    obtain ⟨t, ht⟩ := hf v
    obtain ⟨ts, hts⟩ := ih
    exact ⟨t :: ts, by simp only [mapVals, ht, hts]⟩

/-- a table typed entry by entry: inserting or removing one entry leaves the typing of every other
entry unchanged (any entry schema) -/
theorem interp_mapOf_insert (ss : Bool) (s : Schema) (xs ys : Entries) (name : Key) (v : Value)
    (txs tys : List (Key × Typed)) (t : Typed)
    (hx : interp ss (.mapOf s) (.map xs) = .ok (.dict txs))
    (hy : interp ss (.mapOf s) (.map ys) = .ok (.dict tys))
    (hv : interp ss s v = .ok t) :
    interp ss (.mapOf s) (.map (xs ++ (name, v) :: ys)) = .ok (.dict (txs ++ (name, t) :: tys))
    ∧ interp ss (.mapOf s) (.map (xs ++ ys)) = .ok (.dict (txs ++ tys)) := by
  have ex : mapEntries (fun v => interp ss s v) xs = .ok txs := by
    simp only [interp] at hx
    cases h : mapEntries (fun v => interp ss s v) xs with
    | error e => rw [h] at hx; cases hx
    | ok ts => rw [h] at hx; cases hx; rfl
  have ey : mapEntries (fun v => interp ss s v) ys = .ok tys := by
    simp only [interp] at hy
    cases h : mapEntries (fun v => interp ss s v) ys with
    | error e => rw [h] at hy; cases hy
    | ok ts => rw [h] at hy; cases hy; rfl
  have ev : mapEntries (fun v => interp ss s v) ((name, v) :: ys) = .ok ((name, t) :: tys) := by
    simp only [mapEntries, hv, ey]
  constructor
  · simp only [interp, mapEntries_append _ xs _ txs _ ex ev]
  · simp only [interp, mapEntries_append _ xs _ txs _ ex ey]

/-- only the consumed keys are taken out of the map handed on to the kind's config -/
theorem mem_keys_without (ks : List Key) (kvs : Entries) (k : Key)
    (hk : k ∈ keys kvs) (hn : k ∉ ks) : k ∈ keys (without ks kvs) := by
  simp only [keys, without, List.mem_map, List.mem_filter] at hk ⊢
  obtain ⟨kv, hkv, rfl⟩ := hk
  exact ⟨kv, ⟨hkv, by simpa using hn⟩, rfl⟩

end Log4rs.ConfigDoc
