import Log4rsModel.ConfigDoc.Schema
import Log4rsModel.Routing.Config
import Log4rsModel.Base.Outcome
/-
The two loading pipelines of log4rs on a parsed document (`Value`):

  lossy   `load_config_file` = `Format::parse` (document-level, strict) ; `deserialize()` =
          `RawConfig::appenders_lossy` (per filter / per appender, errors collected) ;
          `ConfigBuilder::build_lossy` (dangling names and bad logger names stripped, collected)
  strict  `Format::parse` ; `create_raw_config` (any collected error is fatal)

plus what sits between the typed configuration of a component and the component itself: the
constructors called by the `Deserialize` impls (`FixedWindowRollerBuilder::build`,
`TimeTrigger::new`, `FileAppender::build`, …) — the only places where loading can fail after
typing succeeded, and the only places where it can PANIC.

The pipeline ends at the raw builder input (`RawLoad`): surviving appenders with their component
descriptions, the root, the loggers and the appender / filter error list.  `buildLossyNames` is the
fragment of `build_lossy` needed to state the observable summary (names are unique here because
they come out of maps); its general model and theorems are C13's.

Also here: the logical configuration (`LogicalConfig`), its rendering into a document (`render`),
re-ordering of map entries (`shuffle`) and the document mutations used as injections.
-/
namespace Log4rs.ConfigDoc
open Log4rs Log4rs.Literals Log4rs.Str Log4rs.Routing

/-! ### tolerant accessors on typed trees -/

def tlookup (k : Key) : List (Key × Typed) → Option Typed
  | [] => none
  | (k', t) :: r => if k' = k then some t else tlookup k r

def Typed.field (k : Key) : Typed → Option Typed
  | .record fs => tlookup k fs
  | _ => none

/-- `Option<T>` field: `Some(t)` -/
def Typed.optField (k : Key) (t : Typed) : Option Typed :=
  match t.field k with
  | some (.just x) => some x
  | _ => none

def Typed.asBool : Option Typed → Option Bool
  | some (.bool b) => some b
  | _ => none

def Typed.asNat : Option Typed → Option Nat
  | some (.nat n) => some n
  | _ => none

def Typed.asStr : Option Typed → Option (List Char)
  | some (.str s) => some s
  | _ => none

def Typed.asLevel : Option Typed → Option Nat
  | some (.level n) => some n
  | _ => none

def Typed.asList : Option Typed → List Typed
  | some (.list xs) => xs
  | _ => []

def Typed.asDict : Option Typed → List (Key × Typed)
  | some (.dict kvs) => kvs
  | _ => []

def Typed.strs (xs : List Typed) : List Key :=
  xs.filterMap (fun t => match t with | .str s => some s | _ => none)

/-! ### component constructors -/

/-- `{}` occurs in the text (`str::contains`) -/
def containsBraces : List Char → Bool
  | [] => false
  | c :: r => (c == '{' && (match r with | '}' :: _ => true | _ => false)) || containsBraces r

/-- Largest interval count / random delay for which `TimeTrigger::new` is modelled: inside this
range the date arithmetic of `get_next_time` stays inside chrono's range for every unit and every
present-day clock reading (years: `year + n ≤ 262142`). -/
def TIME_SAFE : Nat := 100000

/-- `TimeDelta::seconds(n)` panics when `|n| > i64::MAX / 1000` -/
def TIMEDELTA_MAX_SECS : Nat := I64_MAX / 1000

/-- `true` = the code as it is since /repo 80d997f (`fix: time trigger schedules in checked
local-calendar arithmetic`): `TimeTrigger::new` / `get_next_time` never panic — a count below 1
counts as 1, absurd counts and delays saturate to a far-future instant, DST gaps and overlaps are
resolved.  `false` = the historical code, kept for the negative theorem
(`C14_time_trigger_historical_panics`) and for the findings
C14/time-trigger-interval-zero-modulate and C14/time-trigger-interval-out-of-range. -/
def timeTriggerTotal : Bool := true

/-- `TimeTrigger::new(config)` as reached from `TimeTriggerDeserializer`.  Historical code
(`total = false`):
  * `modulate` and a count of 0: `x % 0` — PANIC (every unit);
  * unit second and a count above `i64::MAX / 1000`: `TimeDelta::seconds` — PANIC;
  * count and delay up to `TIME_SAFE` (and not the first case): constructed;
  * everything else depended on the clock (`DateTime + TimeDelta` overflow, `with_ymd_and_hms`
    out of range): modelled as PANIC, conservatively. -/
def timeTriggerNewWith (total : Bool) (u : TUnit) (n : Int) (modulate : Bool) (delay : Nat) :
    Outcome Err Unit :=
  if total then .ok ()
  else if modulate ∧ n = 0 then .panic "attempt to calculate the remainder with a divisor of zero"
  else if u = .second ∧ n.toNat > TIMEDELTA_MAX_SECS then .panic "TimeDelta::seconds out of bounds"
  else if n.toNat ≤ TIME_SAFE ∧ delay ≤ TIME_SAFE then .ok ()
  else .panic "date arithmetic out of range (clock dependent)"

def timeTriggerNew (u : TUnit) (n : Int) (modulate : Bool) (delay : Nat) : Outcome Err Unit :=
  timeTriggerNewWith timeTriggerTotal u n modulate delay

/-! ### component descriptions and the environment of the constructors -/

/-- `PatternEncoder::default()` -/
def defaultPattern : List Char := c!"{d} {l} {t} - {m}{n}"

inductive EncDesc where
  | pattern (p : List Char)
  | json
  deriving Repr, DecidableEq

inductive TrigDesc where
  | none
  | size (limit : Nat)
  | time (u : TUnit) (n : Int) (modulate : Bool) (delay : Nat)
  | onstartup (minSize : Nat)
  deriving Repr, DecidableEq

inductive RollDesc where
  | none
  | delete
  | window (pattern : Key) (base count : Nat)
  deriving Repr, DecidableEq

/-- The component as the `Deserialize` impl builds it — everything the programmatic builders take.
`kind` 0 console (`append` holds `tty_only`), 1 file, 2 rolling_file. -/
structure AppenderDesc where
  name : Key
  kind : Nat
  path : Key
  append : Bool
  stderr : Bool
  enc : EncDesc
  filters : List Nat    -- threshold levels of the surviving filters, in order
  trig : TrigDesc := .none
  roll : RollDesc := .none
  deriving Repr, DecidableEq

/-- a size limit so small that every record exceeds it (`SizeTrigger`: roll when `len > limit`,
checked after each write): the active file never keeps a record -/
def TINY_LIMIT : Nat := 10

def AppenderDesc.tiny (a : AppenderDesc) : Bool :=
  match a.trig with
  | .size n => a.kind = 2 && n < TINY_LIMIT
  | _ => false

/-- The calls that leave log4rs' own configuration code, as explicit outcomes.  Every `panic` of
loading originates in one of them (`C14_load_panic_sources`); "loading never panics" is a theorem
relative to `Env.NoPanic`, which is an ASSUMPTION about these components:
  * `openLog`     `FileAppender::build` / `RollingFileAppenderBuilder::build` (`$ENV` expansion,
                  `create_dir_all`, open): `io::Result`, mapped to `err`;
  * `patternNew`  `PatternEncoder::new` (the pattern parser — C11's subject);
  * `timeNew`     `TimeTrigger::new` (date arithmetic — C16's subject; total since /repo 80d997f). -/
structure Env where
  openLog : Key → Outcome Err Unit
  patternNew : List Char → Outcome Err Unit
  timeNew : TUnit → Int → Bool → Nat → Outcome Err Unit

def Env.NoPanic (env : Env) : Prop :=
  (∀ p w, env.openLog p ≠ .panic w) ∧ (∀ s w, env.patternNew s ≠ .panic w)
  ∧ (∀ u n m d w, env.timeNew u n m d ≠ .panic w)

/-- environment: can a log file be created at this path (the harness uses the empty relative path,
which is the scratch directory itself, as the path that cannot) -/
def fsOk (path : Key) : Bool := !path.isEmpty

/-- the environment of the check runs: every generated path except the empty one can be opened,
the pattern parser and (since the repair) the time trigger's constructor always succeed -/
def realEnv : Env :=
  { openLog := fun p => if fsOk p then .ok () else .err .badValue
    patternNew := fun _ => .ok ()
    timeNew := timeTriggerNew }

def Outcome.andThen {ε α β} (o : Outcome ε α) (f : α → Outcome ε β) : Outcome ε β :=
  match o with
  | .ok a => f a
  | .err e => .err e
  | .panic w => .panic w

/-- `Deserializers::deserialize::<dyn Encode>` of an `Option<EncoderConfig>`; an absent encoder is
`PatternEncoder::default()` -/
def constructEncoder (env : Env) (enc : Option Typed) : Outcome Err EncDesc :=
  match enc with
  | some (.tagged kind _ body) =>
    if kind = c!"json" then .ok .json
    else
      let p := (Typed.asStr (body.optField (c!"pattern"))).getD defaultPattern
      Outcome.andThen (env.patternNew p) (fun _ => .ok (.pattern p))
  | _ => Outcome.andThen (env.patternNew defaultPattern) (fun _ => .ok (.pattern defaultPattern))

def constructTrigger (env : Env) : Typed → Outcome Err TrigDesc
  | .tagged kind _ body =>
    if kind = c!"time" then
      match body.field (c!"interval") with
      | some (.interval u n) =>
        let m := (Typed.asBool (body.field (c!"modulate"))).getD false
        let d := (Typed.asNat (body.field (c!"max_random_delay"))).getD 0
        Outcome.andThen (env.timeNew u n m d) (fun _ => .ok (.time u n m d))
      | _ => .ok .none
    else if kind = c!"size" then .ok (.size ((Typed.asNat (body.field (c!"limit"))).getD 0))
    else .ok (.onstartup ((Typed.asNat (body.field (c!"min_size"))).getD 1))
  | _ => .ok .none

/-- `FixedWindowRollerBuilder::build`: the pattern must contain `{}`, and (since /repo e76ee7b) the
last index of the window, `base + count - 1`, must fit `u32` -/
def constructRoller : Typed → Outcome Err RollDesc
  | .tagged kind _ body =>
    if kind = c!"fixed_window" then
      let p := (Typed.asStr (body.field (c!"pattern"))).getD []
      let base := (Typed.asNat (body.optField (c!"base"))).getD 0
      let count := (Typed.asNat (body.field (c!"count"))).getD 0
      if !containsBraces p then .err .badValue
      else if count > 0 ∧ base + (count - 1) > U32_MAX then .err .badValue
      else .ok (.window p base count)
    else .ok .delete
  | _ => .ok .none

/-- `CompoundPolicyDeserializer::deserialize`: trigger first, then roller -/
def constructPolicy (env : Env) : Option Typed → Outcome Err (TrigDesc × RollDesc)
  | some (.tagged _ _ body) =>
    Outcome.andThen (match body.field (c!"trigger") with
                     | some t => constructTrigger env t
                     | none => .ok .none) (fun td =>
      Outcome.andThen (match body.field (c!"roller") with
                       | some r => constructRoller r
                       | none => .ok .none) (fun rd => .ok (td, rd)))
  | _ => .ok (.none, .none)

/-- the `Deserialize::deserialize` of the three appender kinds, after typing succeeded -/
def constructAppender (env : Env) (name : Key) (filters : List Nat) (kind : Key) (body : Typed) :
    Outcome Err AppenderDesc :=
  Outcome.andThen (constructEncoder env (body.optField (c!"encoder"))) (fun enc =>
    if kind = c!"console" then
      .ok { name, kind := 0, path := [], filters, enc,
            append := (Typed.asBool (body.optField (c!"tty_only"))).getD false,
            stderr := match body.optField (c!"target") with | some (.target b) => b | _ => false }
    else
      let path := (Typed.asStr (body.field (c!"path"))).getD []
      let append := (Typed.asBool (body.optField (c!"append"))).getD true
      if kind = c!"file" then
        Outcome.andThen (env.openLog path) (fun _ =>
          .ok { name, kind := 1, path, append, stderr := false, enc, filters })
      else
        Outcome.andThen (constructPolicy env (body.field (c!"policy"))) (fun tr =>
          Outcome.andThen (env.openLog path) (fun _ =>
            .ok { name, kind := 2, path, append, stderr := false, enc, filters,
                  trig := tr.1, roll := tr.2 })))

/-! ### `appenders_lossy` -/

inductive LoadErr where
  | appender (name : Key)
  | filter (name : Key)
  deriving Repr, DecidableEq

/-- one filter: `Ok(level)` or the error that drops it -/
def filterOutcome : Typed → Option Nat
  | .tagged _ _ (.failed _) => none
  | .tagged _ _ body => some ((Typed.asLevel (body.field (c!"level"))).getD 0)
  | _ => none

inductive AppenderResult where
  | kept (d : AppenderDesc)
  | dropped
  | panic (why : String)

/-- one iteration of the loop of `appenders_lossy`: the filter errors of this appender (one per
broken filter, the appender is KEPT), and the appender or its error -/
def appenderOutcome (env : Env) (name : Key) (t : Typed) : List LoadErr × AppenderResult :=
  match t with
  | .tagged kind extras body =>
    let fs := Typed.asList (tlookup (c!"filters") extras)
    let ferrs := (fs.filter (fun f => (filterOutcome f).isNone)).map (fun _ => LoadErr.filter name)
    let levels := fs.filterMap filterOutcome
    match body with
    | .failed _ => (ferrs ++ [.appender name], .dropped)
    | _ =>
      match constructAppender env name levels kind body with
      | .ok d => (ferrs, .kept d)
      | .err _ => (ferrs ++ [.appender name], .dropped)
      | .panic w => (ferrs, .panic w)
  | _ => ([.appender name], .dropped)

structure RawLoad where
  refresh : Option Nat
  rootLevel : Nat
  rootAppenders : List Key
  loggers : List LoggerCfg
  appenders : List AppenderDesc
  errors : List LoadErr
  deriving Repr

def appendersLossy (env : Env) : List (Key × Typed) → Outcome Err (List AppenderDesc × List LoadErr)
  | [] => .ok ([], [])
  | (name, t) :: rest =>
    match appenderOutcome env name t with
    | (_, .panic w) => .panic w
    | (errs, r) =>
      match appendersLossy env rest with
      | .ok (ds, es) =>
        .ok ((match r with | .kept d => d :: ds | _ => ds), errs ++ es)
      | o => o

def loggerOf (name : Key) (t : Typed) : LoggerCfg :=
  { name, level := (Typed.asLevel (t.field (c!"level"))).getD 0,
    additive := (Typed.asBool (t.field (c!"additive"))).getD true,
    appenders := Typed.strs (Typed.asList (t.field (c!"appenders"))) }

/-- `RawConfig::{refresh_rate, root, loggers, appenders_lossy}` on the typed document -/
def rawLoad (env : Env) (doc : Typed) : Outcome Err RawLoad :=
  match appendersLossy env (Typed.asDict (doc.field (c!"appenders"))) with
  | .ok (ds, es) =>
    let root := (doc.field (c!"root")).getD .nothing
    .ok { refresh := match doc.optField (c!"refresh_rate") with
                     | some (.duration n) => some n
                     | _ => none
          rootLevel := (Typed.asLevel (root.field (c!"level"))).getD 4
          rootAppenders := Typed.strs (Typed.asList (root.field (c!"appenders")))
          loggers := (Typed.asDict (doc.field (c!"loggers"))).map (fun kv => loggerOf kv.1 kv.2)
          appenders := ds, errors := es }
  | .err e => .err e
  | .panic w => .panic w

/-- the lossy pipeline up to the builder input: document error, panic, or `RawLoad` -/
def loadRaw (env : Env) (seqStructs : Bool) (v : Value) : Outcome Err RawLoad :=
  match interp seqStructs docS v with
  | .error .panicked => .panic "humantime::parse_duration: overflow in Duration::new"
  | .error e => .err e
  | .ok doc => rawLoad env doc

/-! ### the fragment of `build_lossy` visible in the summary -/

inductive BuildErr where
  | nonexistent (name : Key)
  | badLoggerName (name : Key)
  deriving Repr, DecidableEq

structure Built where
  refresh : Option Nat
  rootLevel : Nat
  rootAppenders : List Key
  loggers : List LoggerCfg
  appenders : List AppenderDesc
  loadErrors : List LoadErr
  buildErrors : List BuildErr
  deriving Repr

def stripRefs (known : List Key) (refs : List Key) : List Key × List BuildErr :=
  (refs.filter (known.contains ·), (refs.filter (!known.contains ·)).map .nonexistent)

def buildLoggers (known : List Key) : List LoggerCfg → List LoggerCfg × List BuildErr
  | [] => ([], [])
  | l :: ls =>
    let (ok, errs) := buildLoggers known ls
    if checkLoggerName l.name then
      let (refs, e) := stripRefs known l.appenders
      ({ l with appenders := refs } :: ok, e ++ errs)
    else (ok, .badLoggerName l.name :: errs)

def buildLossyNames (r : RawLoad) : Built :=
  let known := r.appenders.map (·.name)
  let (rootRefs, e1) := stripRefs known r.rootAppenders
  let (ls, e2) := buildLoggers known r.loggers
  { refresh := r.refresh, rootLevel := r.rootLevel, rootAppenders := rootRefs, loggers := ls,
    appenders := r.appenders, loadErrors := r.errors, buildErrors := e1 ++ e2 }

/-- `load_config_file` -/
def loadLossy (env : Env) (seqStructs : Bool) (v : Value) : Outcome Err Built :=
  match loadRaw env seqStructs v with
  | .ok r => .ok (buildLossyNames r)
  | .err e => .err e
  | .panic w => .panic w

inductive StrictResult where
  | ok
  | errParse
  | errAppenders
  | errBuild
  | panic
  deriving Repr, DecidableEq

/-- `Format::parse` then `create_raw_config` -/
def loadStrict (env : Env) (seqStructs : Bool) (v : Value) : StrictResult :=
  match loadRaw env seqStructs v with
  | .err _ => .errParse
  | .panic _ => .panic
  | .ok r =>
    if !r.errors.isEmpty then .errAppenders
    else if !(buildLossyNames r).buildErrors.isEmpty then .errBuild
    else .ok

/-! ### `Format::from_path` -/

inductive Format where
  | yaml | json | toml
  deriving Repr, DecidableEq

inductive FormatErr where
  | unsupported      -- `FormatError::UnsupportedFormat(ext)`
  | unknown          -- `FormatError::UnknownFormat` (no extension)
  deriving Repr, DecidableEq

/-- `Path::extension` of a file name (no directory part): the text after the last `.`, unless there
is no `.` or the only `.` is the first character -/
def extensionOf (fname : List Char) : Option (List Char) :=
  let r := fname.reverse
  let extRev := r.takeWhile (· ≠ '.')
  if extRev.length = r.length then none
  else if (r.drop (extRev.length + 1)).isEmpty then none
  else some extRev.reverse

/-- `Format::from_path` with the three format features enabled: the extension is compared
case-sensitively -/
def formatOfPath (fname : List Char) : Except FormatErr Format :=
  match extensionOf fname with
  | none => .error .unknown
  | some e =>
    if e = c!"yaml" ∨ e = c!"yml" then .ok .yaml
    else if e = c!"json" then .ok .json
    else if e = c!"toml" then .ok .toml
    else .error .unsupported

/-! ### what `Format::parse` hands to `RawConfig::deserialize`

The three parsers are assumed to produce the same `Value` for equivalent documents, with these
modelled exceptions (all exercised by the harness):
  * TOML has no `null`: a null-valued entry cannot be written and is absent (`dropNulls`);
  * TOML integers are `i64`: a document with an integer outside that range does not parse;
  * a TOML document is a table at top level;
  * TOML rejects duplicate keys anywhere at parse time; in YAML and JSON a duplicated FIELD of the
    derived structs parsed directly from the document (`RawConfig`, `Root`, `Logger`) is serde's
    `duplicate field` error (duplicates further inside, which pass through `serde_value`'s
    `BTreeMap`, are outside the model);
  * JSON and TOML accept a sequence where a derived struct is expected (`seqStructs`). -/

mutual
def dropNulls : Value → Value
  | .seq xs => .seq (dropNullsList xs)
  | .map kvs => .map (dropNullsEntries kvs)
  | v => v
def dropNullsList : List Value → List Value
  | [] => []
  | v :: vs => dropNulls v :: dropNullsList vs
def dropNullsEntries : Entries → Entries
  | [] => []
  | (_, .null) :: kvs => dropNullsEntries kvs
  | (k, v) :: kvs => (k, dropNulls v) :: dropNullsEntries kvs
end

def hasDup : List Key → Bool
  | [] => false
  | k :: ks => ks.contains k || hasDup ks

mutual
/-- some integer does not fit `i64` -/
def hasBigInt : Value → Bool
  | .int n => decide (n > (I64_MAX : Int)) || decide (n < -(I64_MAX : Int) - 1)
  | .seq xs => hasBigIntList xs
  | .map kvs => hasBigIntEntries kvs
  | _ => false
def hasBigIntList : List Value → Bool
  | [] => false
  | v :: vs => hasBigInt v || hasBigIntList vs
def hasBigIntEntries : Entries → Bool
  | [] => false
  | (_, v) :: kvs => hasBigInt v || hasBigIntEntries kvs
end

mutual
/-- some map of the document has a duplicated key -/
def anyDup : Value → Bool
  | .seq xs => anyDupList xs
  | .map kvs => hasDup (keys kvs) || anyDupEntries kvs
  | _ => false
def anyDupList : List Value → Bool
  | [] => false
  | v :: vs => anyDup v || anyDupList vs
def anyDupEntries : Entries → Bool
  | [] => false
  | (_, v) :: kvs => anyDup v || anyDupEntries kvs
end

def mapDup : Option Value → Bool
  | some (.map kvs) => hasDup (keys kvs)
  | _ => false

/-- a duplicated key in the document, root or a logger section -/
def docLevelDup : Value → Bool
  | .map kvs =>
    hasDup (keys kvs) || mapDup (lookup (c!"root") kvs)
      || (match lookup (c!"loggers") kvs with
          | some (.map ls) => hasDup (keys ls) || ls.any (fun kv => mapDup (some kv.2))
          | _ => false)
      || (match lookup (c!"appenders") kvs with
          | some (.map as) => hasDup (keys as)
          | _ => false)
  | _ => false

/-- `none` = the parser (or the derive's duplicate-field check) rejects the document -/
def frontEnd (fmt : Format) (v : Value) : Option Value :=
  match fmt with
  | .toml => if hasBigInt v || anyDup v || !v.isMap then none else some (dropNulls v)
  | _ => if docLevelDup v then none else some v

def seqStructsOf : Format → Bool
  | .yaml => false
  | _ => true

/-- `load_config_file` on a document of the given format -/
def loadFile (env : Env) (fmt : Format) (v : Value) : Outcome Err Built :=
  match frontEnd fmt v with
  | none => .err .invalidType
  | some v' => loadLossy env (seqStructsOf fmt) v'

/-- `Format::parse` + `create_raw_config` on a document of the given format -/
def loadFileStrict (env : Env) (fmt : Format) (v : Value) : StrictResult :=
  match frontEnd fmt v with
  | none => .errParse
  | some v' => loadStrict env (seqStructsOf fmt) v'

/-! ### logical configurations and their documents -/

/-- encoder section as written: is `kind` spelled out, is it json, which pattern (index into
`patternTexts`) is given, if any -/
structure EncL where
  kindExplicit : Bool
  json : Bool
  pattern : Option Nat
  deriving Repr, DecidableEq

inductive TrigL where
  | size (limit : Scalar)
  | time (interval : Scalar) (modulate : Option Bool) (delay : Option Nat)
  | onstartup (minSize : Option Nat)
  deriving Repr, DecidableEq

inductive RollL where
  | delete
  | window (base : Option Nat) (count : Nat)
  deriving Repr, DecidableEq

structure AppL where
  name : Key
  kind : Nat                          -- 0 console, 1 file, 2 rolling_file
  filters : Option (List (List Char)) -- threshold level texts; none = key omitted
  path : Key
  flag : Option Bool                  -- append (file kinds) / tty_only (console)
  enc : Option EncL
  target : Option Bool                -- console: some true = stderr
  policyKind : Bool                   -- rolling: `kind: compound` spelled out
  trig : TrigL
  roll : RollL
  deriving Repr, DecidableEq

structure LoggerL where
  name : Key
  level : List Char
  additive : Option Bool
  appenders : Option (List Key)
  deriving Repr, DecidableEq

structure RootL where
  level : Option (List Char)
  appenders : Option (List Key)
  deriving Repr, DecidableEq

structure LogicalConfig where
  refresh : Option (List Char)
  root : Option RootL
  loggers : List LoggerL
  appenders : List AppL
  deriving Repr, DecidableEq

/-- the pattern texts the generator uses: three-token patterns whose last token is the message, so
that the probe index can be read back from a line whichever is configured -/
def patternTexts : List (List Char) := [c!"{l} {t} {m}{n}", c!"{t} {l} {m}{n}", c!"{l} [{t}] {m}{n}"]

def patternText (i : Nat) : List Char := patternTexts.getD i (c!"{l} {t} {m}{n}")

def optEntry (k : Key) : Option Value → Entries
  | some v => [(k, v)]
  | none => []

def scalarValue : Scalar → Value
  | .int n => .int n
  | .str s => .str s
  | .other => .float

def renderNames (ns : List Key) : Value := .seq (ns.map .str)

def renderEnc (e : EncL) : Value :=
  .map ((if e.kindExplicit then [(c!"kind", .str (if e.json then c!"json" else c!"pattern"))] else [])
    ++ optEntry (c!"pattern") (e.pattern.map (fun i => .str (patternText i))))

def renderTrig : TrigL → Value
  | .size l => .map [(c!"kind", .str (c!"size")), (c!"limit", scalarValue l)]
  | .time i m d =>
    .map ([(c!"kind", .str (c!"time")), (c!"interval", scalarValue i)]
      ++ optEntry (c!"modulate") (m.map .bool)
      ++ optEntry (c!"max_random_delay") (d.map (fun n => .int n)))
  | .onstartup m =>
    .map ((c!"kind", .str (c!"onstartup")) :: optEntry (c!"min_size") (m.map (fun n => .int n)))

def renderRoll (path : Key) : RollL → Value
  | .delete => .map [(c!"kind", .str (c!"delete"))]
  | .window b n =>
    .map ([(c!"kind", .str (c!"fixed_window")), (c!"pattern", .str (path ++ c!".{}"))]
      ++ optEntry (c!"base") (b.map (fun n => .int n)) ++ [(c!"count", .int n)])

def renderFilter (level : List Char) : Value :=
  .map [(c!"kind", .str (c!"threshold")), (c!"level", .str level)]

def kindName : Nat → Key
  | 0 => c!"console"
  | 1 => c!"file"
  | _ => c!"rolling_file"

def renderFilters (fs : List (List Char)) : Value := .seq (fs.map renderFilter)

def renderPolicy (kindExplicit : Bool) (path : Key) (tr : TrigL) (ro : RollL) : Value :=
  .map ((if kindExplicit then [(c!"kind", .str (c!"compound"))] else [])
    ++ [(c!"trigger", renderTrig tr), (c!"roller", renderRoll path ro)])

def renderTarget (b : Bool) : Value := .str (if b then c!"stderr" else c!"stdout")

def renderApp (a : AppL) : Value :=
  .map ([(c!"kind", .str (kindName a.kind))]
    ++ optEntry (c!"filters") (a.filters.map renderFilters)
    ++ (if a.kind = 0 then
          optEntry (c!"target") (a.target.map renderTarget)
          ++ optEntry (c!"tty_only") (a.flag.map .bool)
        else
          [(c!"path", .str a.path)] ++ optEntry (c!"append") (a.flag.map .bool))
    ++ optEntry (c!"encoder") (a.enc.map renderEnc)
    ++ (if a.kind = 0 ∨ a.kind = 1 then [] else
          [(c!"policy", renderPolicy a.policyKind a.path a.trig a.roll)]))

def renderLogger (l : LoggerL) : Value :=
  .map ([(c!"level", .str l.level)] ++ optEntry (c!"additive") (l.additive.map .bool)
    ++ optEntry (c!"appenders") (l.appenders.map renderNames))

def renderRoot (r : RootL) : Value :=
  .map (optEntry (c!"level") (r.level.map .str) ++ optEntry (c!"appenders") (r.appenders.map renderNames))

/-- the document of a logical configuration, keys in canonical order; a section or key whose
logical value is `none` is omitted.  Empty `appenders` / `loggers` tables are omitted too. -/
def render (cfg : LogicalConfig) : Value :=
  .map (optEntry (c!"refresh_rate") (cfg.refresh.map .str)
    ++ optEntry (c!"root") (cfg.root.map renderRoot)
    ++ (if cfg.appenders.isEmpty then [] else
          [(c!"appenders", .map (cfg.appenders.map (fun a => (a.name, renderApp a))))])
    ++ (if cfg.loggers.isEmpty then [] else
          [(c!"loggers", .map (cfg.loggers.map (fun l => (l.name, renderLogger l))))]))

/-! ### key order -/

/-- the permutation of `xs` selected by `seed` (factorial number system) -/
def permuteAux {α} : Nat → Nat → List α → List α
  | 0, _, _ => []
  | fuel + 1, seed, xs =>
    match xs with
    | [] => []
    | x :: _ =>
      let i := seed % xs.length
      xs.getD i x :: permuteAux fuel (seed / xs.length) (xs.eraseIdx i)

def permute {α} (seed : Nat) (xs : List α) : List α := permuteAux xs.length seed xs

mutual
/-- re-order the entries of every map of the document -/
def shuffle (seed : Nat) : Value → Value
  | .seq xs => .seq (shuffleList seed xs)
  | .map kvs => .map (permute seed (shuffleEntries seed kvs))
  | v => v
def shuffleList (seed : Nat) : List Value → List Value
  | [] => []
  | v :: vs => shuffle seed v :: shuffleList seed vs
def shuffleEntries (seed : Nat) : Entries → Entries
  | [] => []
  | (k, v) :: kvs => (k, shuffle seed v) :: shuffleEntries seed kvs
end

/-! ### document mutations (injections) -/

inductive Step where
  | key (k : Key)
  | idx (i : Nat)
  deriving Repr, DecidableEq

def setEntry (k : Key) (f : Option Value → Option Value) : Entries → Entries
  | [] => match f none with | some v => [(k, v)] | none => []
  | (k', v) :: r =>
    if k' = k then (match f (some v) with | some v' => (k, v') :: r | none => r)
    else (k', v) :: setEntry k f r

/-- apply `f` at the end of the path: `f (some old) = some new` replaces, `f _ = none` deletes the
entry, `f none = some new` adds a key.  A path that does not exist leaves the document unchanged
(except that the last step may add a key). -/
def modifyAt : List Step → (Option Value → Option Value) → Value → Value
  | [], f, v => (f (some v)).getD v
  | .key k :: rest, f, .map kvs =>
    if rest.isEmpty then .map (setEntry k f kvs)
    else .map (kvs.map (fun kv => if kv.1 = k then (kv.1, modifyAt rest f kv.2) else kv))
  | .idx i :: rest, f, .seq xs =>
    .seq (xs.zipIdx.map (fun (x, j) => if j = i then modifyAt rest f x else x))
  | _, _, v => v
termination_by p => p.length
decreasing_by all_goals simp_wf <;> omega

end Log4rs.ConfigDoc
