import Log4rsModel.ConfigDoc.Schema
import Log4rsModel.Routing.Config
import Log4rsModel.Base.Outcome
/-
The two loading pipelines of log4rs on a parsed document (`Value`):

  lossy   `load_config_file` = `Format::parse` (document-level, strict) ; `deserialize()` =
          `RawConfig::appenders_lossy` (per filter / per appender, errors collected) ;
          `ConfigBuilder::build_lossy` (dangling names and bad logger names stripped, collected)
  strict  `Format::parse` ; `create_raw_config` (any collected error is fatal)

plus what sits between the typed configuration of a component and the component itself: the
constructors called by the `Deserialize` impls (`FixedWindowRollerBuilder::build`,
`TimeTrigger::new`, `FileAppender::build`, …) — the only places where loading can fail after
typing succeeded, and the only places where it can PANIC.

The pipeline ends at the raw builder input (`RawLoad`): surviving appenders with their component
descriptions, the root, the loggers and the appender / filter error list.  `buildLossyNames` is the
fragment of `build_lossy` needed to state the observable summary (names are unique here because
they come out of maps); its general model and theorems are C13's.

Also here: the logical configuration (`LogicalConfig`), its rendering into a document (`render`),
re-ordering of map entries (`shuffle`) and the document mutations used as injections.
-/
namespace Log4rs.ConfigDoc
open Log4rs Log4rs.Literals Log4rs.Str Log4rs.Routing

/-! ### tolerant accessors on typed trees -/

def tlookup (k : Key) : List (Key × Typed) → Option Typed
  | [] => none
  | (k', t) :: r => if k' = k then some t else tlookup k r

def Typed.field (k : Key) : Typed → Option Typed
  | .record fs => tlookup k fs
  | _ => none

/-- `Option<T>` field: `Some(t)` -/
def Typed.optField (k : Key) (t : Typed) : Option Typed :=
  match t.field k with
  | some (.just x) => some x
  | _ => none

def Typed.asBool : Option Typed → Option Bool
  | some (.bool b) => some b
  | _ => none

def Typed.asNat : Option Typed → Option Nat
  | some (.nat n) => some n
  | _ => none

def Typed.asStr : Option Typed → Option (List Char)
  | some (.str s) => some s
  | _ => none

def Typed.asLevel : Option Typed → Option Nat
  | some (.level n) => some n
  | _ => none

def Typed.asList : Option Typed → List Typed
  | some (.list xs) => xs
  | _ => []

def Typed.asDict : Option Typed → List (Key × Typed)
  | some (.dict kvs) => kvs
  | _ => []

def Typed.strs (xs : List Typed) : List Key :=
  xs.filterMap (fun t => match t with | .str s => some s | _ => none)

/-! ### component constructors -/

/-- `{}` occurs in the text (`str::contains`) -/
def containsBraces : List Char → Bool
  | [] => false
  | c :: r => (c == '{' && (match r with | '}' :: _ => true | _ => false)) || containsBraces r

/-- Largest interval count / random delay for which `TimeTrigger::new` is modelled: inside this
range the date arithmetic of `get_next_time` stays inside chrono's range for every unit and every
present-day clock reading (years: `year + n ≤ 262142`). -/
def TIME_SAFE : Nat := 100000

/-- `TimeDelta::seconds(n)` panics when `|n| > i64::MAX / 1000` -/
def TIMEDELTA_MAX_SECS : Nat := I64_MAX / 1000

/-- `true` = the code as it is since /repo 80d997f (`fix: time trigger schedules in checked
local-calendar arithmetic`): `TimeTrigger::new` / `get_next_time` never panic — a count below 1
counts as 1, absurd counts and delays saturate to a far-future instant, DST gaps and overlaps are
resolved.  `false` = the historical code, kept for the negative theorem
(`C14_time_trigger_historical_panics`) and for the findings
C14/time-trigger-interval-zero-modulate and C14/time-trigger-interval-out-of-range. -/
def timeTriggerTotal : Bool := true

/-- `TimeTrigger::new(config)` as reached from `TimeTriggerDeserializer`.  Historical code
(`total = false`):
  * `modulate` and a count of 0: `x % 0` — PANIC (every unit);
  * unit second and a count above `i64::MAX / 1000`: `TimeDelta::seconds` — PANIC;
  * count and delay up to `TIME_SAFE` (and not the first case): constructed;
  * everything else depended on the clock (`DateTime + TimeDelta` overflow, `with_ymd_and_hms`
    out of range): modelled as PANIC, conservatively. -/
def timeTriggerNewWith (total : Bool) (u : TUnit) (n : Int) (modulate : Bool) (delay : Nat) :
    Outcome Err Unit :=
  if total then .ok ()
  else if modulate ∧ n = 0 then .panic "attempt to calculate the remainder with a divisor of zero"
  else if u = .second ∧ n.toNat > TIMEDELTA_MAX_SECS then .panic "TimeDelta::seconds out of bounds"
  else if n.toNat ≤ TIME_SAFE ∧ delay ≤ TIME_SAFE then .ok ()
  else .panic "date arithmetic out of range (clock dependent)"

def timeTriggerNew (u : TUnit) (n : Int) (modulate : Bool) (delay : Nat) : Outcome Err Unit :=
  timeTriggerNewWith timeTriggerTotal u n modulate delay

/-- encoder as the appender sees it: 0 = default pattern (no encoder given, or a pattern encoder
without pattern), 1 = pattern encoder with a pattern, 2 = json -/
def encoderClass (enc : Option Typed) : Nat :=
  match enc with
  | some (.tagged kind _ body) =>
    if kind = c!"json" then 2
    else match body.optField (c!"pattern") with
      | some _ => 1
      | none => 0
  | _ => 0

structure AppenderDesc where
  name : Key
  kind : Nat            -- 0 console, 1 file, 2 rolling_file
  path : Key
  append : Bool         -- console: tty_only
  stderr : Bool
  enc : Nat
  filters : List Nat    -- threshold levels of the surviving filters
  tiny : Bool := false  -- rolling_file with a size limit below every record: rolls after each write
  deriving Repr, DecidableEq

/-- environment: can a log file be created at this path (the harness uses the empty relative path,
which is the scratch directory itself, as the path that cannot) -/
def fsOk (path : Key) : Bool := !path.isEmpty

def constructTrigger : Typed → Outcome Err Unit
  | .tagged kind _ body =>
    if kind = c!"time" then
      match body.field (c!"interval") with
      | some (.interval u n) =>
        timeTriggerNew u n ((Typed.asBool (body.field (c!"modulate"))).getD false)
          ((Typed.asNat (body.field (c!"max_random_delay"))).getD 0)
      | _ => .ok ()
    else .ok ()
  | _ => .ok ()

/-- `FixedWindowRollerBuilder::build`: the pattern must contain `{}`, and (since /repo e76ee7b) the
last index of the window, `base + count - 1`, must fit `u32` -/
def constructRoller : Typed → Outcome Err Unit
  | .tagged kind _ body =>
    if kind = c!"fixed_window" then
      match Typed.asStr (body.field (c!"pattern")) with
      | some p =>
        if containsBraces p then
          let base := (Typed.asNat (body.optField (c!"base"))).getD 0
          let count := (Typed.asNat (body.field (c!"count"))).getD 0
          if count > 0 ∧ base + (count - 1) > U32_MAX then .err .badValue else .ok ()
        else .err .badValue
      | none => .ok ()
    else .ok ()
  | _ => .ok ()

/-- `CompoundPolicyDeserializer::deserialize`: trigger first, then roller -/
def constructPolicy : Typed → Outcome Err Unit
  | .tagged _ _ body =>
    match (match body.field (c!"trigger") with
           | some t => constructTrigger t
           | none => .ok ()) with
    | .ok () =>
      (match body.field (c!"roller") with
       | some r => constructRoller r
       | none => .ok ())
    | o => o
  | _ => .ok ()

/-- a size limit so small that every record exceeds it (`SizeTrigger`: roll when `len > limit`, checked
after each write): the active file never keeps a record -/
def TINY_LIMIT : Nat := 10

def policyTiny : Option Typed → Bool
  | some (.tagged _ _ pbody) =>
    match pbody.field (c!"trigger") with
    | some (.tagged kind _ tb) =>
      kind = c!"size" && (match tb.field (c!"limit") with
        | some (.nat n) => n < TINY_LIMIT
        | _ => false)
    | _ => false
  | _ => false

/-- the `Deserialize::deserialize` of the three appender kinds, after typing succeeded -/
def constructAppender (name : Key) (filters : List Nat) (kind : Key) (body : Typed) :
    Outcome Err AppenderDesc :=
  let enc := encoderClass (body.optField (c!"encoder"))
  if kind = c!"console" then
    .ok { name, kind := 0, path := [], filters, enc,
          append := (Typed.asBool (body.optField (c!"tty_only"))).getD false,
          stderr := match body.optField (c!"target") with | some (.target b) => b | _ => false }
  else
    let path := (Typed.asStr (body.field (c!"path"))).getD []
    let append := (Typed.asBool (body.optField (c!"append"))).getD true
    if kind = c!"file" then
      if fsOk path then .ok { name, kind := 1, path, append, stderr := false, enc, filters }
      else .err .badValue
    else
      match (match body.field (c!"policy") with
             | some p => constructPolicy p
             | none => .ok ()) with
      | .ok () =>
        if fsOk path then
          .ok { name, kind := 2, path, append, stderr := false, enc, filters,
                tiny := policyTiny (body.field (c!"policy")) }
        else .err .badValue
      | .err e => .err e
      | .panic w => .panic w

/-! ### `appenders_lossy` -/

inductive LoadErr where
  | appender (name : Key)
  | filter (name : Key)
  deriving Repr, DecidableEq

/-- one filter: `Ok(level)` or the error that drops it -/
def filterOutcome : Typed → Option Nat
  | .tagged _ _ (.failed _) => none
  | .tagged _ _ body => some ((Typed.asLevel (body.field (c!"level"))).getD 0)
  | _ => none

inductive AppenderResult where
  | kept (d : AppenderDesc)
  | dropped
  | panic (why : String)

/-- one iteration of the loop of `appenders_lossy`: the filter errors of this appender (one per
broken filter, the appender is KEPT), and the appender or its error -/
def appenderOutcome (name : Key) (t : Typed) : List LoadErr × AppenderResult :=
  match t with
  | .tagged kind extras body =>
    let fs := Typed.asList (tlookup (c!"filters") extras)
    let ferrs := (fs.filter (fun f => (filterOutcome f).isNone)).map (fun _ => LoadErr.filter name)
    let levels := fs.filterMap filterOutcome
    match body with
    | .failed _ => (ferrs ++ [.appender name], .dropped)
    | _ =>
      match constructAppender name levels kind body with
      | .ok d => (ferrs, .kept d)
      | .err _ => (ferrs ++ [.appender name], .dropped)
      | .panic w => (ferrs, .panic w)
  | _ => ([.appender name], .dropped)

structure RawLoad where
  refresh : Option Nat
  rootLevel : Nat
  rootAppenders : List Key
  loggers : List LoggerCfg
  appenders : List AppenderDesc
  errors : List LoadErr
  deriving Repr

def appendersLossy : List (Key × Typed) → Outcome Err (List AppenderDesc × List LoadErr)
  | [] => .ok ([], [])
  | (name, t) :: rest =>
    match appenderOutcome name t with
    | (_, .panic w) => .panic w
    | (errs, r) =>
      match appendersLossy rest with
      | .ok (ds, es) =>
        .ok ((match r with | .kept d => d :: ds | _ => ds), errs ++ es)
      | o => o

def loggerOf (name : Key) (t : Typed) : LoggerCfg :=
  { name, level := (Typed.asLevel (t.field (c!"level"))).getD 0,
    additive := (Typed.asBool (t.field (c!"additive"))).getD true,
    appenders := Typed.strs (Typed.asList (t.field (c!"appenders"))) }

/-- `RawConfig::{refresh_rate, root, loggers, appenders_lossy}` on the typed document -/
def rawLoad (doc : Typed) : Outcome Err RawLoad :=
  match appendersLossy (Typed.asDict (doc.field (c!"appenders"))) with
  | .ok (ds, es) =>
    let root := (doc.field (c!"root")).getD .nothing
    .ok { refresh := match doc.optField (c!"refresh_rate") with
                     | some (.duration n) => some n
                     | _ => none
          rootLevel := (Typed.asLevel (root.field (c!"level"))).getD 4
          rootAppenders := Typed.strs (Typed.asList (root.field (c!"appenders")))
          loggers := (Typed.asDict (doc.field (c!"loggers"))).map (fun kv => loggerOf kv.1 kv.2)
          appenders := ds, errors := es }
  | .err e => .err e
  | .panic w => .panic w

/-- the lossy pipeline up to the builder input: document error, panic, or `RawLoad` -/
def loadRaw (seqStructs : Bool) (v : Value) : Outcome Err RawLoad :=
  match interp seqStructs docS v with
  | .error e => .err e
  | .ok doc => rawLoad doc

/-! ### the fragment of `build_lossy` visible in the summary -/

inductive BuildErr where
  | nonexistent (name : Key)
  | badLoggerName (name : Key)
  deriving Repr, DecidableEq

structure Built where
  refresh : Option Nat
  rootLevel : Nat
  rootAppenders : List Key
  loggers : List LoggerCfg
  appenders : List AppenderDesc
  loadErrors : List LoadErr
  buildErrors : List BuildErr
  deriving Repr

def stripRefs (known : List Key) (refs : List Key) : List Key × List BuildErr :=
  (refs.filter (known.contains ·), (refs.filter (!known.contains ·)).map .nonexistent)

def buildLoggers (known : List Key) : List LoggerCfg → List LoggerCfg × List BuildErr
  | [] => ([], [])
  | l :: ls =>
    let (ok, errs) := buildLoggers known ls
    if checkLoggerName l.name then
      let (refs, e) := stripRefs known l.appenders
      ({ l with appenders := refs } :: ok, e ++ errs)
    else (ok, .badLoggerName l.name :: errs)

def buildLossyNames (r : RawLoad) : Built :=
  let known := r.appenders.map (·.name)
  let (rootRefs, e1) := stripRefs known r.rootAppenders
  let (ls, e2) := buildLoggers known r.loggers
  { refresh := r.refresh, rootLevel := r.rootLevel, rootAppenders := rootRefs, loggers := ls,
    appenders := r.appenders, loadErrors := r.errors, buildErrors := e1 ++ e2 }

/-- `load_config_file` -/
def loadLossy (seqStructs : Bool) (v : Value) : Outcome Err Built :=
  match loadRaw seqStructs v with
  | .ok r => .ok (buildLossyNames r)
  | .err e => .err e
  | .panic w => .panic w

inductive StrictResult where
  | ok
  | errParse
  | errAppenders
  | errBuild
  | panic
  deriving Repr, DecidableEq

/-- `Format::parse` then `create_raw_config` -/
def loadStrict (seqStructs : Bool) (v : Value) : StrictResult :=
  match loadRaw seqStructs v with
  | .err _ => .errParse
  | .panic _ => .panic
  | .ok r =>
    if !r.errors.isEmpty then .errAppenders
    else if !(buildLossyNames r).buildErrors.isEmpty then .errBuild
    else .ok

/-! ### logical configurations and their documents -/

/-- encoder section as written: is `kind` spelled out, is it json, is a pattern given -/
structure EncL where
  kindExplicit : Bool
  json : Bool
  pattern : Bool
  deriving Repr, DecidableEq

inductive TrigL where
  | size (limit : Scalar)
  | time (interval : Scalar) (modulate : Option Bool) (delay : Option Nat)
  | onstartup (minSize : Option Nat)
  deriving Repr, DecidableEq

inductive RollL where
  | delete
  | window (base : Option Nat) (count : Nat)
  deriving Repr, DecidableEq

structure AppL where
  name : Key
  kind : Nat                          -- 0 console, 1 file, 2 rolling_file
  filters : Option (List (List Char)) -- threshold level texts; none = key omitted
  path : Key
  flag : Option Bool                  -- append (file kinds) / tty_only (console)
  enc : Option EncL
  target : Option Bool                -- console: some true = stderr
  policyKind : Bool                   -- rolling: `kind: compound` spelled out
  trig : TrigL
  roll : RollL
  deriving Repr, DecidableEq

structure LoggerL where
  name : Key
  level : List Char
  additive : Option Bool
  appenders : Option (List Key)
  deriving Repr, DecidableEq

structure RootL where
  level : Option (List Char)
  appenders : Option (List Key)
  deriving Repr, DecidableEq

structure LogicalConfig where
  refresh : Option (List Char)
  root : Option RootL
  loggers : List LoggerL
  appenders : List AppL
  deriving Repr, DecidableEq

def probePattern : List Char := c!"{l} {t} {m}{n}"

def optEntry (k : Key) : Option Value → Entries
  | some v => [(k, v)]
  | none => []

def scalarValue : Scalar → Value
  | .int n => .int n
  | .str s => .str s
  | .other => .float

def renderNames (ns : List Key) : Value := .seq (ns.map .str)

def renderEnc (e : EncL) : Value :=
  .map ((if e.kindExplicit then [(c!"kind", .str (if e.json then c!"json" else c!"pattern"))] else [])
    ++ (if e.pattern then [(c!"pattern", .str probePattern)] else []))

def renderTrig : TrigL → Value
  | .size l => .map [(c!"kind", .str (c!"size")), (c!"limit", scalarValue l)]
  | .time i m d =>
    .map ([(c!"kind", .str (c!"time")), (c!"interval", scalarValue i)]
      ++ optEntry (c!"modulate") (m.map .bool)
      ++ optEntry (c!"max_random_delay") (d.map (fun n => .int n)))
  | .onstartup m =>
    .map ((c!"kind", .str (c!"onstartup")) :: optEntry (c!"min_size") (m.map (fun n => .int n)))

def renderRoll (path : Key) : RollL → Value
  | .delete => .map [(c!"kind", .str (c!"delete"))]
  | .window b n =>
    .map ([(c!"kind", .str (c!"fixed_window")), (c!"pattern", .str (path ++ c!".{}"))]
      ++ optEntry (c!"base") (b.map (fun n => .int n)) ++ [(c!"count", .int n)])

def renderFilter (level : List Char) : Value :=
  .map [(c!"kind", .str (c!"threshold")), (c!"level", .str level)]

def kindName : Nat → Key
  | 0 => c!"console"
  | 1 => c!"file"
  | _ => c!"rolling_file"

def renderApp (a : AppL) : Value :=
  .map ([(c!"kind", .str (kindName a.kind))]
    ++ optEntry (c!"filters") (a.filters.map (fun fs => .seq (fs.map renderFilter)))
    ++ (if a.kind = 0 then
          optEntry (c!"target") (a.target.map (fun b => .str (if b then c!"stderr" else c!"stdout")))
          ++ optEntry (c!"tty_only") (a.flag.map .bool)
        else
          [(c!"path", .str a.path)] ++ optEntry (c!"append") (a.flag.map .bool))
    ++ optEntry (c!"encoder") (a.enc.map renderEnc)
    ++ (if a.kind = 0 ∨ a.kind = 1 then [] else
          [(c!"policy", .map ((if a.policyKind then [(c!"kind", .str (c!"compound"))] else [])
            ++ [(c!"trigger", renderTrig a.trig), (c!"roller", renderRoll a.path a.roll)]))]))

def renderLogger (l : LoggerL) : Value :=
  .map ([(c!"level", .str l.level)] ++ optEntry (c!"additive") (l.additive.map .bool)
    ++ optEntry (c!"appenders") (l.appenders.map renderNames))

def renderRoot (r : RootL) : Value :=
  .map (optEntry (c!"level") (r.level.map .str) ++ optEntry (c!"appenders") (r.appenders.map renderNames))

/-- the document of a logical configuration, keys in canonical order; a section or key whose
logical value is `none` is omitted.  Empty `appenders` / `loggers` tables are omitted too. -/
def render (cfg : LogicalConfig) : Value :=
  .map (optEntry (c!"refresh_rate") (cfg.refresh.map .str)
    ++ optEntry (c!"root") (cfg.root.map renderRoot)
    ++ (if cfg.appenders.isEmpty then [] else
          [(c!"appenders", .map (cfg.appenders.map (fun a => (a.name, renderApp a))))])
    ++ (if cfg.loggers.isEmpty then [] else
          [(c!"loggers", .map (cfg.loggers.map (fun l => (l.name, renderLogger l))))]))

/-! ### key order -/

/-- the permutation of `xs` selected by `seed` (factorial number system) -/
def permuteAux {α} : Nat → Nat → List α → List α
  | 0, _, _ => []
  | fuel + 1, seed, xs =>
    match xs with
    | [] => []
    | x :: _ =>
      let i := seed % xs.length
      xs.getD i x :: permuteAux fuel (seed / xs.length) (xs.eraseIdx i)

def permute {α} (seed : Nat) (xs : List α) : List α := permuteAux xs.length seed xs

mutual
/-- re-order the entries of every map of the document -/
def shuffle (seed : Nat) : Value → Value
  | .seq xs => .seq (shuffleList seed xs)
  | .map kvs => .map (permute seed (shuffleEntries seed kvs))
  | v => v
def shuffleList (seed : Nat) : List Value → List Value
  | [] => []
  | v :: vs => shuffle seed v :: shuffleList seed vs
def shuffleEntries (seed : Nat) : Entries → Entries
  | [] => []
  | (k, v) :: kvs => (k, shuffle seed v) :: shuffleEntries seed kvs
end

/-! ### document mutations (injections) -/

inductive Step where
  | key (k : Key)
  | idx (i : Nat)
  deriving Repr, DecidableEq

def setEntry (k : Key) (f : Option Value → Option Value) : Entries → Entries
  | [] => match f none with | some v => [(k, v)] | none => []
  | (k', v) :: r =>
    if k' = k then (match f (some v) with | some v' => (k, v') :: r | none => r)
    else (k', v) :: setEntry k f r

/-- apply `f` at the end of the path: `f (some old) = some new` replaces, `f _ = none` deletes the
entry, `f none = some new` adds a key.  A path that does not exist leaves the document unchanged
(except that the last step may add a key). -/
def modifyAt : List Step → (Option Value → Option Value) → Value → Value
  | [], f, v => (f (some v)).getD v
  | .key k :: rest, f, .map kvs =>
    if rest.isEmpty then .map (setEntry k f kvs)
    else .map (kvs.map (fun kv => if kv.1 = k then (kv.1, modifyAt rest f kv.2) else kv))
  | .idx i :: rest, f, .seq xs =>
    .seq (xs.zipIdx.map (fun (x, j) => if j = i then modifyAt rest f x else x))
  | _, _, v => v
termination_by p => p.length
decreasing_by all_goals simp_wf <;> omega

end Log4rs.ConfigDoc
