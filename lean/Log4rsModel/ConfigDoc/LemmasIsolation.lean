import Log4rsModel.ConfigDoc.Lemmas
/-
Lemmas for the end-to-end isolation theorem: the typed document as a function of its typed
appender table, the builder fragment in closed form.
-/
namespace Log4rs.ConfigDoc
open Log4rs Log4rs.Literals Log4rs.Routing

/-! ### replacing the value of one key of a struct section -/

/-- replacing the value of one key changes neither the keys nor the lookups of the other keys -/
theorem lookup_mid_ne (k k0 : Key) (X X' : Value) (pre post : Entries) (h : k ≠ k0) :
    lookup k (pre ++ (k0, X) :: post) = lookup k (pre ++ (k0, X') :: post) := by
  induction pre with
  | nil => simp [lookup, Ne.symm h]
  | cons x xs ih =>
    obtain ⟨k1, v1⟩ := x
    simp only [List.cons_append, lookup, ih]

theorem lookup_mid (k0 : Key) (X : Value) (pre post : Entries) (h : k0 ∉ keys pre) :
    lookup k0 (pre ++ (k0, X) :: post) = some X := by
  induction pre with
  | nil => simp [lookup]
  | cons x xs ih =>
    obtain ⟨k1, v1⟩ := x
    simp only [keys, List.map_cons, List.mem_cons, not_or] at h
    simp only [List.cons_append, lookup, Ne.symm h.1, if_false]
    exact ih h.2

theorem unknownKey_mid (names : List Key) (k0 : Key) (X X' : Value) (pre post : Entries) :
    unknownKey names (pre ++ (k0, X) :: post) = unknownKey names (pre ++ (k0, X') :: post) := by
  unfold unknownKey
  induction pre with
  | nil =>
    simp only [List.nil_append, List.find?_cons]
    cases (!names.contains k0) <;> rfl
  | cons x xs ih =>
    simp only [List.cons_append, List.find?_cons]
    cases (!names.contains x.1)
    · exact ih
    · rfl

/-- the typed fields with the entry of one key replaced -/
def setT (k0 : Key) (t' : Typed) (ts : List (Key × Typed)) : List (Key × Typed) :=
  ts.map (fun kt => if kt.1 = k0 then (kt.1, t') else kt)

theorem tlookup_setT_ne (k k0 : Key) (t' : Typed) (ts : List (Key × Typed)) (h : k ≠ k0) :
    tlookup k (setT k0 t' ts) = tlookup k ts := by
  induction ts with
  | nil => rfl
  | cons x xs ih =>
    obtain ⟨k1, t1⟩ := x
    simp only [setT, List.map_cons] at ih ⊢
    by_cases h1 : k1 = k0
    · subst h1
      simp only [if_true, tlookup, Ne.symm h, if_false]
      exact ih
    · simp only [h1, if_false, tlookup]
      split
      · rfl
      · exact ih

theorem tlookup_setT_eq (k0 : Key) (t' : Typed) (ts : List (Key × Typed)) (h : (tlookup k0 ts).isSome) :
    tlookup k0 (setT k0 t' ts) = some t' := by
  induction ts with
  | nil => simp [tlookup] at h
  | cons x xs ih =>
    obtain ⟨k1, t1⟩ := x
    simp only [setT, List.map_cons] at ih ⊢
    by_cases h1 : k1 = k0
    · subst h1; simp [tlookup]
    · simp only [h1, if_false, tlookup] at h ⊢
      exact ih h

/-- Changing the value of one key `k0` of a struct section changes the typed result only in that
field: if both values are typed by the field's schema, the section is typed in both cases, with the
same typed fields everywhere else. -/
theorem interpFields_replace (ss : Bool) (fs : List Field) (k0 : Key) (X X' : Value)
    (pre post : Entries) (hpre : k0 ∉ keys pre) (t' : Typed)
    (hX' : ∀ d s, (k0, d, s) ∈ fs → interp ss s X' = .ok t')
    (ts : List (Key × Typed))
    (h : interpFields ss fs (pre ++ (k0, X) :: post) = .ok ts) :
    interpFields ss fs (pre ++ (k0, X') :: post) = .ok (setT k0 t' ts) := by
  induction fs generalizing ts with
  | nil => simp only [interpFields] at h ⊢; cases h; rfl
  | cons f fs ih =>
    obtain ⟨k, d, s⟩ := f
    simp only [interpFields] at h ⊢
    by_cases hk : k = k0
    · subst hk
      rw [lookup_mid k X pre post hpre] at h
      rw [lookup_mid k X' pre post hpre]
      simp only at h
      simp only [hX' d s List.mem_cons_self]
      cases h1 : interp ss s X with
      | error e => rw [h1] at h; cases h
      | ok t =>
        rw [h1] at h
        simp only at h
        cases h2 : interpFields ss fs (pre ++ (k, X) :: post) with
        | error e => rw [h2] at h; cases h
        | ok ts' =>
          rw [h2] at h
          simp only [Except.ok.injEq] at h
          subst h
          rw [ih (fun d s hm => hX' d s (List.mem_cons_of_mem _ hm)) ts' h2]
          simp [setT]
    · rw [lookup_mid_ne k k0 X X' pre post hk] at h
      split at h
      · cases h
      · rename_i t ht
        cases h2 : interpFields ss fs (pre ++ (k0, X) :: post) with
        | error e => rw [h2] at h; cases h
        | ok ts' =>
          rw [h2] at h
          simp only [Except.ok.injEq] at h
          subst h
          rw [ih (fun d s hm => hX' d s (List.mem_cons_of_mem _ hm)) ts' h2]
          simp [setT, hk]

theorem interp_struct_replace (ss deny : Bool) (fs : List Field) (k0 : Key) (X X' : Value)
    (pre post : Entries) (hpre : k0 ∉ keys pre) (t' : Typed)
    (hX' : ∀ d s, (k0, d, s) ∈ fs → interp ss s X' = .ok t')
    (ts : List (Key × Typed))
    (h : interp ss (.struct deny fs) (.map (pre ++ (k0, X) :: post)) = .ok (.record ts)) :
    interp ss (.struct deny fs) (.map (pre ++ (k0, X') :: post)) = .ok (.record (setT k0 t' ts)) := by
  simp only [interp] at h ⊢
  rw [unknownKey_mid _ k0 X' X]
  split at h
  · cases h
  · cases hf : interpFields ss fs (pre ++ (k0, X) :: post) with
    | error e => rw [hf] at h; cases h
    | ok ts0 =>
      rw [hf] at h
      simp only [Except.ok.injEq, Typed.record.injEq] at h
      subst h
      rw [interpFields_replace ss fs k0 X X' pre post hpre t' hX' ts0 hf]

/-! ### the typed table of a lazily typed map -/

theorem mapEntries_lazy_split (ss : Bool) (s : Schema) (xs ys : Entries) (name : Key) (v : Value) :
    ∃ txs t tys,
      mapEntries (fun x => interp ss (.lazy s) x) xs = .ok txs ∧
      mapEntries (fun x => interp ss (.lazy s) x) ys = .ok tys ∧
      interp ss (.lazy s) v = .ok t ∧
      mapEntries (fun x => interp ss (.lazy s) x) (xs ++ (name, v) :: ys) = .ok (txs ++ (name, t) :: tys) ∧
      mapEntries (fun x => interp ss (.lazy s) x) (xs ++ ys) = .ok (txs ++ tys) := by
  obtain ⟨txs, hx⟩ := mapEntries_total (fun x => interp ss (.lazy s) x) (interp_lazy_total ss s) xs
  obtain ⟨tys, hy⟩ := mapEntries_total (fun x => interp ss (.lazy s) x) (interp_lazy_total ss s) ys
  obtain ⟨t, ht⟩ := interp_lazy_total ss s v
  have hv : mapEntries (fun x => interp ss (.lazy s) x) ((name, v) :: ys) = .ok ((name, t) :: tys) := by
    simp only [mapEntries, ht, hy]
  exact ⟨txs, t, tys, hx, hy, ht, mapEntries_append _ xs _ txs _ hx hv, mapEntries_append _ xs ys txs tys hx hy⟩

/-! ### the builder fragment in closed form -/

theorem buildLoggers_closed (known : List Key) (ls : List LoggerCfg) :
    (buildLoggers known ls).1 =
      (ls.filter (fun l => checkLoggerName l.name)).map
        (fun l => { l with appenders := l.appenders.filter (known.contains ·) })
    ∧ (buildLoggers known ls).2 =
      ls.flatMap (fun l => if checkLoggerName l.name
        then (l.appenders.filter (!known.contains ·)).map BuildErr.nonexistent
        else [BuildErr.badLoggerName l.name]) := by
  induction ls with
  | nil => exact ⟨rfl, rfl⟩
  | cons l ls ih =>
    obtain ⟨h1, h2⟩ := ih
    simp only [buildLoggers]
    by_cases hc : checkLoggerName l.name = true
    · simp only [hc, if_true, stripRefs, List.filter_cons, List.map_cons, h1, h2, List.flatMap_cons, and_self]
    · simp only [Bool.not_eq_true] at hc
      simp only [hc, Bool.false_eq_true, if_false, List.filter_cons, h1, h2, List.flatMap_cons,
        List.singleton_append, and_self]

/-- a field that is present in the section is typed by its schema -/
theorem interpFields_present (ss : Bool) (fields : List Field) (kvs : Entries)
    (ts : List (Key × Typed)) (k : Key) (d : Option Typed) (s : Schema) (x : Value) (t : Typed)
    (hnd : (fieldNames fields).Nodup)
    (hf : (k, d, s) ∈ fields) (hl : lookup k kvs = some x) (hx : interp ss s x = .ok t)
    (h : interpFields ss fields kvs = .ok ts) : tlookup k ts = some t := by
  induction fields generalizing ts with
  | nil => cases hf
  | cons f fs ih =>
    obtain ⟨k1, d1, s1⟩ := f
    simp only [interpFields] at h
    simp only [fieldNames, List.map_cons, List.nodup_cons] at hnd
    split at h
    · cases h
    · rename_i t1 ht
      cases hr : interpFields ss fs kvs with
      | error e => rw [hr] at h; cases h
      | ok ts' =>
        rw [hr] at h
        simp only [Except.ok.injEq] at h
        subst h
        rcases List.mem_cons.mp hf with hh | hh
        · cases hh
          simp only [hl, hx] at ht
          cases ht
          simp [tlookup]
        · have hne : k1 ≠ k := by
            intro heq; subst heq
            exact hnd.1 (List.mem_map.mpr ⟨(k1, d, s), hh, rfl⟩)
          simp only [tlookup, hne, if_false]
          exact ih ts' hnd.2 hh hr

/-- the pieces of a successful `appenders_lossy` over a table with one dropped entry -/
theorem appendersLossy_split (env : Env) (txs tys : List (Key × Typed)) (name : Key) (t : Typed)
    (errs : List LoadErr) (ds : List AppenderDesc) (es : List LoadErr)
    (hbad : appenderOutcome env name t = (errs, .dropped))
    (h : appendersLossy env (txs ++ (name, t) :: tys) = .ok (ds, es)) :
    ∃ d1 e1 d2 e2, appendersLossy env txs = .ok (d1, e1) ∧ appendersLossy env tys = .ok (d2, e2)
      ∧ ds = d1 ++ d2 ∧ es = e1 ++ (errs ++ e2)
      ∧ appendersLossy env (txs ++ tys) = .ok (d1 ++ d2, e1 ++ e2) := by
  rw [appendersLossy_append] at h
  cases h1 : appendersLossy env txs with
  | err e => exact absurd h1 (appendersLossy_no_err env txs e)
  | panic w => rw [h1] at h; cases h
  | ok p1 =>
    obtain ⟨d1, e1⟩ := p1
    rw [h1] at h
    simp only [appendersLossy, hbad] at h
    cases h2 : appendersLossy env tys with
    | err e => exact absurd h2 (appendersLossy_no_err env tys e)
    | panic w => rw [h2] at h; cases h
    | ok p2 =>
      obtain ⟨d2, e2⟩ := p2
      rw [h2] at h
      simp only [Outcome.ok.injEq, Prod.mk.injEq] at h
      refine ⟨d1, e1, d2, e2, rfl, rfl, h.1.symm, h.2.symm, ?_⟩
      rw [appendersLossy_append, h1, h2]

/-! ### the builder input as a function of the typed fields and the result of `appenders_lossy` -/

def rawOf (ts : List (Key × Typed)) (ds : List AppenderDesc) (es : List LoadErr) : RawLoad :=
  let doc := Typed.record ts
  let root := (doc.field (c!"root")).getD .nothing
  { refresh := match doc.optField (c!"refresh_rate") with
               | some (.duration n) => some n
               | _ => none
    rootLevel := (Typed.asLevel (root.field (c!"level"))).getD 4
    rootAppenders := Typed.strs (Typed.asList (root.field (c!"appenders")))
    loggers := (Typed.asDict (doc.field (c!"loggers"))).map (fun kv => loggerOf kv.1 kv.2)
    appenders := ds, errors := es }

theorem rawLoad_record (env : Env) (ts : List (Key × Typed)) :
    rawLoad env (.record ts) =
      match appendersLossy env (Typed.asDict (tlookup (c!"appenders") ts)) with
      | .ok (ds, es) => .ok (rawOf ts ds es)
      | .err e => .err e
      | .panic w => .panic w := by
  simp only [rawLoad, Typed.field, rawOf]
  cases appendersLossy env (Typed.asDict (tlookup (c!"appenders") ts)) with
  | ok p => obtain ⟨ds, es⟩ := p; rfl
  | err e => rfl
  | panic w => rfl

theorem rawOf_setT (t' : Typed) (ts : List (Key × Typed)) (ds : List AppenderDesc) (es : List LoadErr) :
    rawOf (setT (c!"appenders") t' ts) ds es = rawOf ts ds es := by
  simp only [rawOf, Typed.optField, Typed.field,
    tlookup_setT_ne (c!"refresh_rate") (c!"appenders") t' ts (by decide),
    tlookup_setT_ne (c!"root") (c!"appenders") t' ts (by decide),
    tlookup_setT_ne (c!"loggers") (c!"appenders") t' ts (by decide)]

end Log4rs.ConfigDoc
