import Log4rsModel.ConfigDoc.Schema
/-
Table views of the schema value of ConfigDoc/Schema.lean, for the TRANSLATION OBLIGATIONS
(`C14_gen_*`, generated on every check run by tools/translate.py from the Rust source): the
kind registry of a kind-tagged schema (`Deserializers::default()` + `type Config = …` of every
`impl Deserialize for …Deserializer`), its default kind and its typed extra keys (the hand-written
`impl Deserialize for AppenderConfig / FilterConfig / EncoderConfig / Policy / Trigger / Roller`).

Nothing here changes the model: these are projections of the existing `Schema` constants, and
`interpCases_eq_lookup` shows that the registry lookup the interpreter performs IS `lookupCase`.
Model file: core imports only.
-/
namespace Log4rs.ConfigDoc

/-- the registered kinds of a kind-tagged schema with the config schema of each -/
def Schema.cases : Schema → List (Key × Schema)
  | .tagged _ _ _ cs => cs
  | _ => []

def Schema.caseKinds (s : Schema) : List Key := s.cases.map (·.1)

/-- `None => "pattern".to_owned()` (some default kind) / `None => return Err(missing_field("kind"))` -/
def Schema.defaultKind : Schema → Option (Option Key)
  | .tagged d _ _ _ => some d
  | _ => none

/-- the keys the hand-written impl removes from the map and types itself (`filters`) -/
def Schema.extras : Schema → List Field
  | .tagged _ _ es _ => es
  | _ => []

/-- `Deserializers::deserialize(kind, …)`: first registered entry with that kind -/
def lookupCase (kind : Key) : List (Key × Schema) → Option Schema
  | [] => none
  | (k, s) :: r => if k = kind then some s else lookupCase kind r

/-- the interpreter's registry lookup is `lookupCase` -/
theorem interpCases_eq_lookup (seqStructs : Bool) (cs : List (Key × Schema)) (kind : Key) (kvs : Entries) :
    interpCases seqStructs cs kind kvs =
      match lookupCase kind cs with
      | some s => interp seqStructs s (.map kvs)
      | none => .error (.unknownKind kind) := by
  induction cs with
  | nil => simp [interpCases, lookupCase]
  | cons c cs ih =>
    obtain ⟨k, s⟩ := c
    by_cases h : k = kind
    · simp [interpCases, lookupCase, h]
    · simp [interpCases, lookupCase, h, ih]

/-- the `ConfigTarget` variant names (`#[serde(rename = …)]`) the target leaf accepts; `true` = stderr -/
def targetOfName (s : List Char) : Option Bool :=
  match interpLeaf .target (.str s) with
  | .ok (.target b) => some b
  | _ => none

end Log4rs.ConfigDoc
