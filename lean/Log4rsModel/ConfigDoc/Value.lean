import Log4rsModel.Literals.Model
/-
The serde data model as the three format front-ends (`serde_yaml`, `serde_json`, `toml`) hand it to
the `Deserialize` impls of log4rs, and as `serde_value::Value` stores it between the two phases of
loading.  A document of any of the three formats enters the model as one `Value`; that the three
parsers map equivalent documents to the same `Value` is ASSUMED (validated by the harness, which
renders every case into all three formats).

  map    ordered association list with string keys (documents with duplicate keys are outside the
         model: YAML / JSON / TOML treat them differently, TOML rejects them at parse time)
  int    any integer the format can carry (`u64` / `i64` visitor methods)
  float  every other scalar kind that reaches a visitor as `f64` (incl. integers out of range)
-/
namespace Log4rs.ConfigDoc

abbrev Key := List Char

/- `c!"kind"` is the explicit character list `['k','i','n','d']` (string literals do not reduce
in the kernel, explicit lists do). -/
open Lean in
macro "c!" s:str : term => do
  let cs : Array (TSyntax `term) :=
    (s.getString.toList.map (fun c => (Syntax.mkCharLit c : TSyntax `term))).toArray
  `([$cs,*])

inductive Value where
  | null
  | bool (b : Bool)
  | int (n : Int)
  | float
  | str (s : List Char)
  | seq (xs : List Value)
  | map (kvs : List (Key × Value))

abbrev Entries := List (Key × Value)

/-- first entry with the key (documents in the model have distinct keys) -/
def lookup (k : Key) : Entries → Option Value
  | [] => none
  | (k', v) :: r => if k' = k then some v else lookup k r

def keys (kvs : Entries) : List Key := kvs.map (·.1)

/-- entries whose key is not in `ks` (`BTreeMap::remove` of the consumed keys) -/
def without (ks : List Key) (kvs : Entries) : Entries :=
  kvs.filter (fun kv => !ks.contains kv.1)

def Value.isMap : Value → Bool
  | .map _ => true
  | _ => false

/-- scalar view used by the size / interval visitors of C20 -/
def Value.toScalar : Value → Log4rs.Literals.Scalar
  | .int n => .int n
  | .str s => .str s
  | _ => .other

end Log4rs.ConfigDoc
