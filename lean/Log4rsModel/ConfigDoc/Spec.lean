import Log4rsModel.ConfigDoc.Pipeline
import Log4rsModel.Base.Proto
/-
Executable specification of C14, read off the English statement, on LOGICAL configurations:

  * a document means its logical configuration with the documented defaults filled in (root level
    Debug, additive true, append true, …), whatever the format, the key order and the omitted keys;
  * an injected defect is rejected at the granularity the statement gives: the whole document for
    the document / root / logger sections; only the appender (or only the filter) for everything
    inside an appender — reported, dropped, the rest keeps working; dangling names are reported and
    dropped; strict loading refuses whatever lossy loading reports;
  * never a panic; the three formats agree.

The observation (`Obs`) is what the harness can see of a loaded configuration: refresh rate, root,
loggers, surviving appender names, the reported errors, and the behaviour — which probe records
each file-based appender wrote, in which encoder format, and whether it kept the previous content
of its file.  The same rendering is used for the model's observation (Driver) so that the three
are string-comparable.
-/
namespace Log4rs.ConfigDoc
open Log4rs Log4rs.Literals Log4rs.Str Log4rs.Routing Log4rs.Proto

/-! ### routing oracle (what C01 proves about `Logger::log`, restated on names) -/

def comps (name : Key) : List (List Char) := splitOn [':', ':'] name

def isCompPrefix : List (List Char) → List (List Char) → Bool
  | [], _ => true
  | _ :: _, [] => false
  | a :: p, b :: s => a = b && isCompPrefix p s

def insertBy {α} (lt : α → α → Bool) (x : α) : List α → List α
  | [] => [x]
  | y :: ys => if lt x y then x :: y :: ys else y :: insertBy lt x ys

def sortBy {α} (lt : α → α → Bool) (xs : List α) : List α := xs.foldr (insertBy lt) []

/-- the configured loggers on the path of `target`, outermost first; the innermost decides the
level, the appender list accumulates through additive loggers -/
def effective (b : Built) (target : Key) : Nat × List Key :=
  let chain := sortBy (fun (x y : LoggerCfg) => (comps x.name).length < (comps y.name).length)
    (b.loggers.filter (fun l => isCompPrefix (comps l.name) (comps target)))
  chain.foldl (fun (acc : Nat × List Key) l =>
    (l.level, l.appenders ++ (if l.additive then acc.2 else []))) (b.rootLevel, b.rootAppenders)

/-- does appender `a` write a record of level `lv` (threshold filters: reject above the level) -/
def passes (a : AppenderDesc) (lv : Nat) : Bool := a.filters.all (fun f => lv ≤ f)

/-- the probe indices appender `a` writes, in order (an appender attached twice writes twice).
Before the probes the harness hands one sentinel record directly to every appender, so the encoder
format of every file-based appender is visible even if no probe reaches it. -/
def written (b : Built) (probes : List (Key × Nat)) (a : AppenderDesc) : List Nat :=
  (probes.zipIdx.map (fun ((target, lv), i) =>
    let (level, apps) := effective b target
    if admits level lv && passes a lv then (apps.filter (· = a.name)).map (fun _ => i) else [])).flatten

/-! ### rendering of observations -/

def ltChars : List Char → List Char → Bool
  | _, [] => false
  | [], _ :: _ => true
  | a :: x, b :: y => a.toNat < b.toNat || (a = b && ltChars x y)

def ltStr (a b : String) : Bool := ltChars a.toList b.toList

def renderRefs (xs : List Key) : String := encList "," (xs.map encStr)

def renderLoggerObs (l : LoggerCfg) : String :=
  encStr l.name ++ ":" ++ toString l.level ++ ":" ++ encBool l.additive ++ ":" ++ renderRefs l.appenders

def renderLoadErr : LoadErr → String
  | .appender n => "A:" ++ encStr n
  | .filter n => "F:" ++ encStr n

def renderBuildErr : BuildErr → String
  | .nonexistent n => "N:" ++ encStr n
  | .badLoggerName n => "L:" ++ encStr n

def encClass (a : AppenderDesc) : String :=
  match a.enc with
  | 0 => "D"
  | 1 => "P"
  | _ => "J"

def renderBuilt (b : Built) (probes : List (Key × Nat)) (prog : String) : String :=
  let apps := sortBy (fun (x y : AppenderDesc) => ltChars x.name y.name) b.appenders
  let fileApps := apps.filter (fun a => a.kind != 0)
  "lossy=ok rr=" ++ encOpt toString b.refresh
  ++ " root=" ++ toString b.rootLevel ++ ":" ++ renderRefs b.rootAppenders
  ++ " loggers=" ++ encList ";" ((sortBy (fun (x y : LoggerCfg) => ltChars x.name y.name) b.loggers).map renderLoggerObs)
  ++ " apps=" ++ renderRefs (apps.map (·.name))
  ++ " aerr=" ++ encList "," (sortBy ltStr (b.loadErrors.map renderLoadErr))
  ++ " berr=" ++ encList "," (sortBy ltStr (b.buildErrors.map renderBuildErr))
  ++ " files=" ++ encList ";" (fileApps.map (fun a =>
        encStr a.name ++ ":" ++ (if a.tiny then "-" else encClass a) ++ ":"
          ++ (if a.kind = 1 then (if a.append then "k" else "g") else "-")))
  ++ " w=" ++ encList ";" (fileApps.map (fun a =>
        encStr a.name ++ ":" ++ encList "." (if a.tiny then [] else (written b probes a).map toString)))
  ++ " prog=" ++ prog

def renderLossy (probes : List (Key × Nat)) (prog : String) : Outcome Err Built → String
  | .ok b => renderBuilt b probes prog
  | .err _ => "lossy=err"
  | .panic _ => "lossy=PANIC"

def renderStrict : StrictResult → String
  | .ok => "strict=ok"
  | .errParse => "strict=err:parse"
  | .errAppenders => "strict=err:appenders"
  | .errBuild => "strict=err:build"
  | .panic => "strict=PANIC"

/-- the harness's line: the three per-format observations, collapsed when equal -/
def renderFormats (yaml json toml : String) : String :=
  if yaml = json ∧ json = toml then "formats=agree " ++ yaml
  else "formats=DISAGREE yaml=[" ++ yaml ++ "] json=[" ++ json ++ "] toml=[" ++ toml ++ "]"

/-! ### the meaning of a logical configuration -/

def meaningApp (a : AppL) : AppenderDesc :=
  { name := a.name, kind := a.kind, path := if a.kind = 0 then [] else a.path,
    append := a.flag.getD (if a.kind = 0 then false else true),
    stderr := a.target.getD false,
    enc := match a.enc with
      | none => 0
      | some e => if e.json then 2 else if e.pattern then 1 else 0
    filters := (a.filters.getD []).map (fun t => (parseLevel t).getD 0)
    tiny := a.kind = 2 && (match a.trig with
      | .size l => (match parseSize l with | .ok n => n < TINY_LIMIT | .error _ => false)
      | _ => false) }

def meaningLogger (l : LoggerL) : LoggerCfg :=
  { name := l.name, level := (parseLevel l.level).getD 0, additive := l.additive.getD true,
    appenders := l.appenders.getD [] }

/-- the programmatic configuration a logical configuration stands for, before the builder -/
def meaning (cfg : LogicalConfig) : RawLoad :=
  { refresh := cfg.refresh.bind parseDuration
    rootLevel := ((cfg.root.bind (·.level)).bind parseLevel).getD 4
    rootAppenders := (cfg.root.bind (·.appenders)).getD []
    loggers := cfg.loggers.map meaningLogger
    appenders := cfg.appenders.map meaningApp
    errors := [] }

/-! ### injections and their prescribed effect -/

inductive Gran where
  | none
  | doc
  | appender (a : Key)
  | filter (a : Key) (i : Nat)
  deriving Repr, DecidableEq

/-- the section an injected defect lies in, by its path: everything at or below an appender's
entry is that appender's, everything at or below one of its filter entries is that filter's -/
def granOf (cls : String) (path : List Step) : Gran :=
  if cls = "-" ∨ cls = "null" then .none else
  match path with
  | .key top :: .key a :: rest =>
    if top = c!"appenders" then
      match rest with
      | .key f :: .idx i :: inner =>
        if f = c!"filters" then
          -- the threshold filter's config does not deny unknown keys, and the statement's list of
          -- denying sections does not include filters
          (if cls = "unk" ∧ !inner.isEmpty then .none else .filter a i)
        else .appender a
      | _ => .appender a
    else .doc
  | _ => .doc

def dropAppender (a : Key) (r : RawLoad) : RawLoad :=
  { r with appenders := r.appenders.filter (·.name ≠ a), errors := r.errors ++ [.appender a] }

def dropFilter (a : Key) (i : Nat) (r : RawLoad) : RawLoad :=
  { r with appenders := r.appenders.map (fun d =>
             if d.name = a then { d with filters := d.filters.eraseIdx i } else d),
           errors := r.errors ++ [.filter a] }

def strictOf (r : RawLoad) : StrictResult :=
  if !r.errors.isEmpty then .errAppenders
  else if !(buildLossyNames r).buildErrors.isEmpty then .errBuild
  else .ok

/-- the observation the statement prescribes for one format -/
def prescribed (cfg : LogicalConfig) (g : Gran) (probes : List (Key × Nat)) (prog : String) : String :=
  match g with
  | .doc => "lossy=err strict=err:parse"
  | .none =>
    let r := meaning cfg
    renderBuilt (buildLossyNames r) probes prog ++ " " ++ renderStrict (strictOf r)
  | .appender a =>
    let r := dropAppender a (meaning cfg)
    renderBuilt (buildLossyNames r) probes prog ++ " " ++ renderStrict (strictOf r)
  | .filter a i =>
    let r := dropFilter a i (meaning cfg)
    renderBuilt (buildLossyNames r) probes prog ++ " " ++ renderStrict (strictOf r)

/-- degenerate-but-well-typed time-trigger numbers: `interval: 0` (with or without `modulate`) and an
absurdly large count.  The statement asks that such values do no harm at load time (no panic, the
formats agree, nothing else disturbed); whether the appender is refused (reported and dropped) or
accepted with a harmless meaning (the code since /repo 80d997f: a count below 1 counts as 1, an
absurd count means "never roll") is left open — the specification accepts both. -/
def degenerateTime (cls : String) : Bool := cls = "zero" ∨ cls = "zeromod" ∨ cls = "big"

def progOf (cls : String) : String := if cls = "-" ∨ cls = "null" then "same" else "skip"

/-- acceptable observation lines -/
def acceptable (cfg : LogicalConfig) (cls : String) (path : List Step) (probes : List (Key × Nat)) :
    List String :=
  let one := fun g => let o := prescribed cfg g probes (progOf cls); renderFormats o o o
  if degenerateTime cls then [one (granOf cls path), one .none] else [one (granOf cls path)]

end Log4rs.ConfigDoc
