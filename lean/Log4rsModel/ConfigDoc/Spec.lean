import Log4rsModel.ConfigDoc.Pipeline
import Log4rsModel.Base.Proto
import Log4rsModel.Routing.Spec
/-
Executable specification of C14, read off the English statement, on LOGICAL configurations:

  * a document means its logical configuration with the documented defaults filled in (root level
    Debug, additive true, append true, …), whatever the format, the key order and the omitted keys;
  * an injected defect is rejected at the granularity the statement gives: the whole document for
    the document / root / logger sections; only the appender (or only the filter) for everything
    inside an appender — reported, dropped, the rest keeps working; dangling names are reported and
    dropped; strict loading refuses whatever lossy loading reports;
  * never a panic; the three formats agree.

The observation is what the harness can see of a loaded configuration: refresh rate, root, loggers,
surviving appender names, the reported errors (the lists, and `rep` = the number of `log4rs: …`
lines `load_config_file` itself wrote to stderr), the PARAMETERS of every constructed component
(`params`: encoder pattern, size limit, interval / modulate / delay, min_size, window base / count /
pattern, path, append, a console appender's tty_only and the stream a sentinel record went to),
and the behaviour — which probe records each file-based appender wrote (C01's `specDeliver`), in
which encoder format, and whether it kept the previous content of its file.  The same rendering is
used for the model's observation (Driver) so that the three are string-comparable.
-/
namespace Log4rs.ConfigDoc
open Log4rs Log4rs.Literals Log4rs.Str Log4rs.Routing Log4rs.Proto

/-! ### routing: C01's executable specification, on the names of a built configuration -/

def insertBy {α} (lt : α → α → Bool) (x : α) : List α → List α
  | [] => [x]
  | y :: ys => if lt x y then x :: y :: ys else y :: insertBy lt x ys

def sortBy {α} (lt : α → α → Bool) (xs : List α) : List α := xs.foldr (insertBy lt) []

/-- the `Config` a built configuration is, as the routing area sees it -/
def Built.config (b : Built) : Config :=
  { appenders := b.appenders.map (·.name), rootLevel := b.rootLevel,
    rootAppenders := b.rootAppenders, loggers := b.loggers }

/-- does appender `a` write a record of level `lv` (threshold filters: reject above the level) -/
def passes (a : AppenderDesc) (lv : Nat) : Bool := a.filters.all (fun f => lv ≤ f)

/-- The probe indices appender `a` writes, in order: `Tree.specDeliver` (the specification C01
proves `Logger::log` to implement) lists the attachments a record is delivered to, one entry per
attachment — an appender attached twice writes twice.  Before the probes the harness hands one
sentinel record directly to every appender, so the encoder format of every file-based appender is
visible even if no probe reaches it. -/
def written (b : Built) (probes : List (Key × Nat)) (a : AppenderDesc) : List Nat :=
  (probes.zipIdx.map (fun ((target, lv), i) =>
    if passes a lv then ((Tree.specDeliver b.config target lv).filter (· = a.name)).map (fun _ => i)
    else [])).flatten

/-! ### rendering of observations -/

def ltChars : List Char → List Char → Bool
  | _, [] => false
  | [], _ :: _ => true
  | a :: x, b :: y => a.toNat < b.toNat || (a = b && ltChars x y)

def ltStr (a b : String) : Bool := ltChars a.toList b.toList

def renderRefs (xs : List Key) : String := encList "," (xs.map encStr)

def renderLoggerObs (l : LoggerCfg) : String :=
  encStr l.name ++ ":" ++ toString l.level ++ ":" ++ encBool l.additive ++ ":" ++ renderRefs l.appenders

def renderLoadErr : LoadErr → String
  | .appender n => "A:" ++ encStr n
  | .filter n => "F:" ++ encStr n

def renderBuildErr : BuildErr → String
  | .nonexistent n => "N:" ++ encStr n
  | .badLoggerName n => "L:" ++ encStr n

/-- the format class of the lines a file-based appender writes: J json, D the default pattern,
P another pattern -/
def encClass (a : AppenderDesc) : String :=
  match a.enc with
  | .json => "J"
  | .pattern p => if p = defaultPattern then "D" else "P"

def showEnc : EncDesc → String
  | .json => "J"
  | .pattern p => "P" ++ encStr p

def showTrig : TrigDesc → String
  | .none => "-"
  | .size n => "s" ++ toString n
  | .time u n m d => "t" ++ u.name ++ ":" ++ toString n ++ ":" ++ encBool m ++ ":" ++ toString d
  | .onstartup n => "o" ++ toString n

def showRoll : RollDesc → String
  | .none => "-"
  | .delete => "d"
  | .window p b c => "w" ++ toString b ++ ":" ++ toString c ++ ":" ++ encStr p

/-- the parameters of a component as the harness reads them off the constructed object (its `Debug`
output; for a console appender additionally where a sentinel record went: `o` stdout, `e` stderr,
`-` nothing because `tty_only` is set and the stream is not a terminal) -/
def renderParams (a : AppenderDesc) : String :=
  encStr a.name ++ "/" ++
  (if a.kind = 0 then
    "c/" ++ encBool a.append ++ "/" ++ showEnc a.enc ++ "/"
      ++ (if a.append then "-" else if a.stderr then "e" else "o")
  else if a.kind = 1 then "f/" ++ encStr a.path ++ "/" ++ showEnc a.enc
  else "r/" ++ encStr a.path ++ "/" ++ encBool a.append ++ "/" ++ showEnc a.enc ++ "/"
      ++ showTrig a.trig ++ "/" ++ showRoll a.roll)

def renderBuilt (b : Built) (probes : List (Key × Nat)) (prog : String) : String :=
  let apps := sortBy (fun (x y : AppenderDesc) => ltChars x.name y.name) b.appenders
  let fileApps := apps.filter (fun a => a.kind != 0)
  "lossy=ok rr=" ++ encOpt toString b.refresh
  ++ " root=" ++ toString b.rootLevel ++ ":" ++ renderRefs b.rootAppenders
  ++ " loggers=" ++ encList ";" ((sortBy (fun (x y : LoggerCfg) => ltChars x.name y.name) b.loggers).map renderLoggerObs)
  ++ " apps=" ++ renderRefs (apps.map (·.name))
  ++ " aerr=" ++ encList "," (sortBy ltStr (b.loadErrors.map renderLoadErr))
  ++ " berr=" ++ encList "," (sortBy ltStr (b.buildErrors.map renderBuildErr))
  ++ " rep=" ++ toString (b.loadErrors.length + b.buildErrors.length)
  ++ " params=" ++ encList ";" (apps.map renderParams)
  ++ " files=" ++ encList ";" (fileApps.map (fun a =>
        encStr a.name ++ ":" ++ (if a.tiny then "-" else encClass a) ++ ":"
          ++ (if a.kind = 1 then (if a.append then "k" else "g") else "-")))
  ++ " w=" ++ encList ";" (fileApps.map (fun a =>
        encStr a.name ++ ":" ++ encList "." (if a.tiny then [] else (written b probes a).map toString)))
  ++ " prog=" ++ prog

/-- what `load_config_file` alone shows (no error lists, no refresh rate) -/
def renderHead (b : Built) : String :=
  let apps := sortBy (fun (x y : AppenderDesc) => ltChars x.name y.name) b.appenders
  "root=" ++ toString b.rootLevel ++ ":" ++ renderRefs b.rootAppenders
  ++ " loggers=" ++ encList ";" ((sortBy (fun (x y : LoggerCfg) => ltChars x.name y.name) b.loggers).map renderLoggerObs)
  ++ " apps=" ++ renderRefs (apps.map (·.name))

/-- a YAML document stored under an arbitrary file name and loaded with `load_config_file` -/
def renderExt (fname : List Char) (yamlLoad : Outcome Err Built) : String :=
  match formatOfPath fname with
  | .error .unknown => "ext=err:unknown"
  | .error .unsupported => "ext=err:unsupported"
  | .ok .yaml =>
    (match yamlLoad with
     | .ok b => "ext=ok " ++ renderHead b
     | .err _ => "ext=err:parse"
     | .panic _ => "ext=PANIC")
  | .ok _ => "ext=err:parse"

def renderLossy (probes : List (Key × Nat)) (prog : String) : Outcome Err Built → String
  | .ok b => renderBuilt b probes prog
  | .err _ => "lossy=err"
  | .panic _ => "lossy=PANIC"

def renderStrict : StrictResult → String
  | .ok => "strict=ok"
  | .errParse => "strict=err:parse"
  | .errAppenders => "strict=err:appenders"
  | .errBuild => "strict=err:build"
  | .panic => "strict=PANIC"

/-- the harness's line: the three per-format observations, collapsed when equal -/
def renderFormats (yaml json toml : String) : String :=
  if yaml = json ∧ json = toml then "formats=agree " ++ yaml
  else "formats=DISAGREE yaml=[" ++ yaml ++ "] json=[" ++ json ++ "] toml=[" ++ toml ++ "]"

/-! ### the meaning of a logical configuration -/

/-- is the encoder section the json encoder: only when `kind: json` is spelled out (the default
kind is `pattern`) -/
def EncL.isJson (e : EncL) : Bool := e.json && e.kindExplicit

/-- a json encoder has no `pattern` key (`JsonEncoderConfig` denies unknown keys) -/
def encOk : Option EncL → Bool
  | none => true
  | some e => !(e.isJson && e.pattern.isSome)

def meaningEnc : Option EncL → EncDesc
  | none => .pattern defaultPattern
  | some e => if e.isJson then .json else .pattern ((e.pattern.map patternText).getD defaultPattern)

/-- the trigger a trigger section stands for; `none` = its numbers are not acceptable (a size that
does not parse / fit `u64`, an interval that does not parse / fit `i64`, a delay or minimum size
beyond `u64`) -/
def meaningTrig : TrigL → Option TrigDesc
  | .size l => (parseSize l).toOption.map .size
  | .time i m d =>
    match (parseInterval i).toOption with
    | some (u, n) => if d.getD 0 ≤ U64_MAX then some (.time u n (m.getD false) (d.getD 0)) else none
    | none => none
  | .onstartup m => if m.getD 1 ≤ U64_MAX then some (.onstartup (m.getD 1)) else none

/-- the roller a roller section stands for; a fixed window must be representable: `base`, `count`
and the last index `base + count - 1` fit `u32` (`FixedWindowRollerBuilder::build` refuses the
window otherwise) -/
def meaningRoll (path : Key) : RollL → Option RollDesc
  | .delete => some .delete
  | .window b n =>
    if b.getD 0 ≤ U32_MAX ∧ n ≤ U32_MAX ∧ (n = 0 ∨ b.getD 0 + (n - 1) ≤ U32_MAX)
    then some (.window (path ++ c!".{}") (b.getD 0) n) else none

/-- the programmatic appender a logical appender stands for; `none` = it cannot be built (and is
therefore reported and dropped): a level name, size, interval or window that is not acceptable, or
a log file that cannot be created (`fsOk`) -/
def meaningApp (a : AppL) : Option AppenderDesc :=
  -- a filter whose level is no level name is a broken filter: reported, dropped, appender kept
  let filters := (a.filters.getD []).filterMap parseLevel
  if !encOk a.enc then none
  else if a.kind = 0 then
    some { name := a.name, kind := 0, path := [], append := a.flag.getD false,
           stderr := a.target.getD false, enc := meaningEnc a.enc, filters }
  else if !fsOk a.path then none
  else if a.kind = 1 then
    some { name := a.name, kind := 1, path := a.path, append := a.flag.getD true, stderr := false,
           enc := meaningEnc a.enc, filters }
  else
    match meaningTrig a.trig, meaningRoll a.path a.roll with
    | some t, some r =>
      some { name := a.name, kind := 2, path := a.path, append := a.flag.getD true, stderr := false,
             enc := meaningEnc a.enc, filters, trig := t, roll := r }
    | _, _ => none

def meaningLogger (l : LoggerL) : LoggerCfg :=
  { name := l.name, level := (parseLevel l.level).getD 0, additive := l.additive.getD true,
    appenders := l.appenders.getD [] }

/-- the programmatic configuration a logical configuration stands for, before the builder: the
appenders that can be built, and one report for each that cannot -/
def meaning (cfg : LogicalConfig) : RawLoad :=
  { refresh := cfg.refresh.bind parseDuration
    rootLevel := ((cfg.root.bind (·.level)).bind parseLevel).getD 4
    rootAppenders := (cfg.root.bind (·.appenders)).getD []
    loggers := cfg.loggers.map meaningLogger
    appenders := cfg.appenders.filterMap meaningApp
    errors := cfg.appenders.flatMap (fun a =>
      ((a.filters.getD []).filter (fun t => (parseLevel t).isNone)).map (fun _ => LoadErr.filter a.name)
      ++ (if (meaningApp a).isNone then [.appender a.name] else [])) }

/-! ### injections and their prescribed effect -/

inductive Gran where
  | none
  | doc
  | appender (a : Key)
  | filter (a : Key) (i : Nat)
  deriving Repr, DecidableEq

/-- degenerate-but-well-typed time-trigger numbers: `interval: 0` (with or without `modulate`) and an
absurdly large count.  The statement asks that such values do no harm at load time (no panic, the
formats agree, nothing else disturbed); whether the appender is refused (reported and dropped) or
accepted with the number as written (the code since /repo 80d997f) is left open — the specification
accepts both. -/
def degenerateTime (cls : String) : Bool := cls = "zero" ∨ cls = "zeromod" ∨ cls = "big"

/-- the section an injected defect lies in, by its path: everything at or below an appender's
entry is that appender's, everything at or below one of its filter entries is that filter's -/
def granOf (cls : String) (path : List Step) : Gran :=
  if cls = "-" ∨ cls = "null" then .none else
  match path with
  | .key top :: .key a :: rest =>
    if top = c!"appenders" then
      match rest with
      | .key f :: .idx i :: inner =>
        if f = c!"filters" then
          -- the threshold filter's config does not deny unknown keys, and the statement's list of
          -- denying sections does not include filters
          (if cls = "unk" ∧ !inner.isEmpty then .none else .filter a i)
        else .appender a
      | _ => .appender a
    else .doc
  | _ => .doc

structure Injection where
  cls : String
  path : List Step
  payload : Option Value

def strictOf (r : RawLoad) : StrictResult :=
  if !r.errors.isEmpty then .errAppenders
  else if !(buildLossyNames r).buildErrors.isEmpty then .errBuild
  else .ok

/-- the logical configuration with an accepted degenerate interval written into it -/
def withInterval (cfg : LogicalConfig) (a : Key) (v : Value) : LogicalConfig :=
  { cfg with appenders := cfg.appenders.map (fun x =>
      if x.name = a then
        match x.trig with
        | .time _ m d => { x with trig := .time v.toScalar m d }
        | _ => x
      else x) }

/-- one resolution of the choices the statement leaves open -/
structure Choice where
  /-- degenerate time numbers: refuse the appender (true) or accept the number (false) -/
  refuseDegenerate : Bool
  /-- a broken filter inside an appender that is itself dropped: is the filter reported too -/
  reportFiltersOfDropped : Bool

/-- The observation the statement prescribes for one format, for a list of simultaneous injected
defects: any defect outside the appender table rejects the document; otherwise every appender that
contains a defect outside its filter list is reported once and dropped, every broken filter of a
surviving appender is reported and dropped, and nothing else changes (references to dropped
appenders become dangling and are reported by the builder). -/
def prescribed (cfg : LogicalConfig) (injs : List Injection) (ch : Choice)
    (probes : List (Key × Nat)) (prog : String) : String :=
  let effective := injs.filter (fun i => !(degenerateTime i.cls && !ch.refuseDegenerate))
  let accepted := injs.filter (fun i => degenerateTime i.cls && !ch.refuseDegenerate)
  let grans := effective.map (fun i => granOf i.cls i.path)
  if grans.contains .doc then "lossy=err strict=err:parse" else
  let cfg' := accepted.foldl (fun c i =>
    match i.path, i.payload with
    | .key _ :: .key a :: _, some v => withInterval c a v
    | _, _ => c) cfg
  let base := meaning cfg'
  let droppedApps := (grans.filterMap (fun g => match g with | .appender a => some a | _ => none)).eraseDups
  let droppedFilters := (grans.filterMap (fun g => match g with | .filter a i => some (a, i) | _ => none)).eraseDups
  let apps := (base.appenders.filter (fun d => !droppedApps.contains d.name)).map (fun d =>
    { d with filters := (d.filters.zipIdx.filter (fun (_, i) => !droppedFilters.contains (d.name, i))).map (·.1) })
  let survives := fun (a : Key) => (apps.map (·.name)).contains a
  let errs := base.errors ++ (droppedApps.filter (fun a => !base.errors.contains (.appender a))).map LoadErr.appender
    ++ (droppedFilters.filter (fun (a, _) => survives a || ch.reportFiltersOfDropped)).map (fun (a, _) => LoadErr.filter a)
  let r : RawLoad := { base with appenders := apps, errors := errs }
  renderBuilt (buildLossyNames r) probes prog ++ " " ++ renderStrict (strictOf r)

def progOf (injs : List Injection) : String :=
  if injs.all (fun i => i.cls = "-" ∨ i.cls = "null") then "same" else "skip"

/-- Acceptable observation lines: one per resolution of the open choices.  YAML and JSON get the
same prescription; TOML differs only where it cannot WRITE the document: a `null` (the entry is
then absent, so an injected null is no defect there) or an integer outside `i64` (the file does not
parse; `tomlCannotWrite` says whether the document at hand contains such an integer). -/
def acceptable (cfg : LogicalConfig) (injs : List Injection) (tomlCannotWrite : Bool)
    (probes : List (Key × Nat)) : List String :=
  let tomlInjs := injs.filter (fun i => match i.payload with | some .null => false | _ => true)
  let one := fun ch =>
    let o := prescribed cfg injs ch probes (progOf injs)
    let t := if tomlCannotWrite then "lossy=err strict=err:parse"
             else prescribed cfg tomlInjs ch probes (progOf injs)
    renderFormats o o t
  [one ⟨true, true⟩, one ⟨true, false⟩, one ⟨false, true⟩, one ⟨false, false⟩]

end Log4rs.ConfigDoc
