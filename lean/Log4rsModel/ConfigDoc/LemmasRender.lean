import Log4rsModel.ConfigDoc.Lemmas
/-
The document rendered from a logical configuration (canonical key order, every subset of optional
keys) is typed section by section as written down here (`typed…`), and the constructors turn the
typed sections into exactly the components `meaning` prescribes.
-/
namespace Log4rs.ConfigDoc
open Log4rs Log4rs.Literals Log4rs.Routing

/-! ### leaves -/

theorem interpLeaf_str (s : List Char) : interpLeaf .str (.str s) = .ok (.str s) := rfl

theorem interpLeaf_bool (b : Bool) : interpLeaf .bool (.bool b) = .ok (.bool b) := rfl

theorem interpLeaf_level {s : List Char} {n : Nat} (h : parseLevel s = some n) :
    interpLeaf .level (.str s) = .ok (.level n) := by
  simp only [interpLeaf, h]

theorem interpLeaf_u64 {n : Nat} (h : n ≤ U64_MAX) : interpLeaf .u64 (.int n) = .ok (.nat n) := by
  simp [interpLeaf, h]

theorem interpLeaf_u32 {n : Nat} (h : n ≤ U32_MAX) : interpLeaf .u32 (.int n) = .ok (.nat n) := by
  simp [interpLeaf, h]

theorem interpLeaf_target (b : Bool) : interpLeaf .target (renderTarget b) = .ok (.target b) := by
  cases b <;> simp [interpLeaf, renderTarget]

theorem toScalar_scalarValue (l : Scalar) (h : l ≠ .other) : (scalarValue l).toScalar = l := by
  cases l <;> first | rfl | exact absurd rfl h

theorem interpLeaf_size {l : Scalar} {n : Nat} (h : parseSize l = .ok n) :
    interpLeaf .size (scalarValue l) = .ok (.nat n) := by
  have hl : l ≠ .other := by intro e; subst e; simp [parseSize, Scalar.visit, visitSize, toExcept] at h
  simp only [interpLeaf, toScalar_scalarValue l hl, h]

theorem interpLeaf_interval {l : Scalar} {u : TUnit} {n : Int} (h : parseInterval l = .ok (u, n)) :
    interpLeaf .interval (scalarValue l) = .ok (.interval u n) := by
  have hl : l ≠ .other := by intro e; subst e; simp [parseInterval, Scalar.visit, visitInterval, toExcept] at h
  simp only [interpLeaf, toScalar_scalarValue l hl, h]

/-! ### names -/

theorem mapVals_names (ns : List Key) :
    mapVals (fun v => interpLeaf .str v) (ns.map .str) = .ok (ns.map .str) := by
  induction ns with
  | nil => rfl
  | cons n ns ih => simp only [List.map_cons, mapVals, interpLeaf_str, ih]

theorem strs_names (ns : List Key) : Typed.strs (ns.map Typed.str) = ns := by
  induction ns with
  | nil => rfl
  | cons n ns ih => simp only [List.map_cons, Typed.strs, List.filterMap_cons] at ih ⊢; rw [ih]

/-! ### loggers and root -/

def typedLogger (l : LoggerL) : Typed :=
  .record [(c!"level", .level ((parseLevel l.level).getD 0)),
    (c!"appenders", .list ((l.appenders.getD []).map .str)),
    (c!"additive", .bool (l.additive.getD true))]

theorem interp_logger (ss : Bool) (l : LoggerL) (h : (parseLevel l.level).isSome) :
    interp ss loggerS (renderLogger l) = .ok (typedLogger l) := by
  obtain ⟨n, hn⟩ := Option.isSome_iff_exists.mp h
  obtain ⟨name, level, additive, appenders⟩ := l
  simp only at hn
  cases additive <;> cases appenders <;>
    simp [loggerS, namesS, renderNames, renderLogger, typedLogger, optEntry, interp, interpFields, unknownKey,
      interpLeaf_level hn, fieldNames, req, dfl, lookup, hn, mapVals_names, interpLeaf_bool]

theorem loggerOf_typed (l : LoggerL) : loggerOf l.name (typedLogger l) = meaningLogger l := by
  simp [loggerOf, typedLogger, meaningLogger, Typed.field, tlookup, Typed.asLevel, Typed.asBool,
    Typed.asList, strs_names]

theorem mapEntries_loggers (ss : Bool) (ls : List LoggerL)
    (h : ∀ l ∈ ls, (parseLevel l.level).isSome) :
    mapEntries (fun v => interp ss loggerS v) (ls.map (fun l => (l.name, renderLogger l))) =
      .ok (ls.map (fun l => (l.name, typedLogger l))) := by
  induction ls with
  | nil => rfl
  | cons l ls ih =>
    simp only [List.map_cons, mapEntries, interp_logger ss l (h l List.mem_cons_self),
      ih (fun x hx => h x (List.mem_cons_of_mem _ hx))]

theorem loggers_of_typed (ls : List LoggerL) :
    (ls.map (fun l => (l.name, typedLogger l))).map (fun kv => loggerOf kv.1 kv.2) =
      ls.map meaningLogger := by
  induction ls with
  | nil => rfl
  | cons l ls ih => simp only [List.map_cons, loggerOf_typed, ih]

def typedRoot (r : RootL) : Typed :=
  .record [(c!"level", .level ((r.level.bind parseLevel).getD 4)),
    (c!"appenders", .list ((r.appenders.getD []).map .str))]

theorem interp_root (ss : Bool) (r : RootL) (h : ∀ t, r.level = some t → (parseLevel t).isSome) :
    interp ss rootS (renderRoot r) = .ok (typedRoot r) := by
  obtain ⟨level, appenders⟩ := r
  cases level with
  | none =>
    cases appenders <;>
      simp [rootS, namesS, renderNames, renderRoot, typedRoot, optEntry, interp, interpFields, unknownKey,
        fieldNames, dfl, lookup, mapVals_names]
  | some t =>
    obtain ⟨n, hn⟩ := Option.isSome_iff_exists.mp (h t rfl)
    cases appenders <;>
      simp [rootS, namesS, renderNames, renderRoot, typedRoot, optEntry, interp, interpFields, unknownKey,
        interpLeaf_level hn, fieldNames, dfl, lookup, hn, mapVals_names]

/-! ### filters -/

def typedFilter (t : List Char) : Typed :=
  .tagged (c!"threshold") []
    (match parseLevel t with
     | some n => .record [(c!"level", .level n)]
     | none => .failed .unknownVariant)

theorem interp_filter (ss : Bool) (t : List Char) :
    interp ss (.lazy filterS) (renderFilter t) = .ok (typedFilter t) := by
  cases h : parseLevel t with
  | some n =>
    simp [filterS, thresholdS, renderFilter, typedFilter, interp, interpCases, interpFields, kindOf,
      lookup, without, fieldNames, req, interpLeaf_level h, h]
  | none =>
    simp [filterS, thresholdS, renderFilter, typedFilter, interp, interpCases, interpFields, kindOf,
      lookup, without, fieldNames, req, interpLeaf, h]

theorem filterOutcome_typed (t : List Char) : filterOutcome (typedFilter t) = parseLevel t := by
  cases h : parseLevel t with
  | some n => simp [typedFilter, h, filterOutcome, Typed.field, tlookup, Typed.asLevel]
  | none => simp [typedFilter, h, filterOutcome]

theorem mapVals_filters (ss : Bool) (fs : List (List Char)) :
    mapVals (fun v => interp ss (.lazy filterS) v) (fs.map renderFilter) = .ok (fs.map typedFilter) := by
  induction fs with
  | nil => rfl
  | cons f fs ih => simp only [List.map_cons, mapVals, interp_filter, ih]

theorem filterMap_typed (fs : List (List Char)) :
    (fs.map typedFilter).filterMap filterOutcome = fs.filterMap parseLevel := by
  induction fs with
  | nil => rfl
  | cons f fs ih =>
    simp only [List.map_cons, List.filterMap_cons, filterOutcome_typed, ih]

theorem filterErrs_typed (name : Key) (fs : List (List Char)) :
    ((fs.map typedFilter).filter (fun f => (filterOutcome f).isNone)).map (fun _ => LoadErr.filter name) =
      (fs.filter (fun t => (parseLevel t).isNone)).map (fun _ => LoadErr.filter name) := by
  induction fs with
  | nil => rfl
  | cons f fs ih =>
    simp only [List.map_cons, List.filter_cons, filterOutcome_typed]
    split <;> simp [ih]

/-! ### encoder -/

def typedEnc (e : EncL) : Typed :=
  if e.isJson then .tagged (c!"json") [] (.record [])
  else .tagged (c!"pattern") []
    (.record [(c!"pattern", match e.pattern with
                            | some i => .just (.str (patternText i))
                            | none => .nothing)])

theorem interp_enc (ss : Bool) (e : EncL) (h : encOk (some e) = true) :
    interp ss encoderS (renderEnc e) = .ok (typedEnc e) := by
  obtain ⟨ke, js, pat⟩ := e
  cases ke <;> cases js <;> cases pat <;>
    first
    | (exfalso; revert h; simp [encOk, EncL.isJson]; done)
    | simp [encoderS, patternEncoderS, jsonEncoderS, renderEnc, typedEnc, EncL.isJson, optEntry, interp,
        interpCases, interpFields, kindOf, lookup, without, fieldNames, optF, unknownKey, interpLeaf_str]

theorem constructEncoder_typed (env : Env) (hp : ∀ s, env.patternNew s = .ok ()) (e : Option EncL) :
    constructEncoder env (e.map typedEnc) = .ok (meaningEnc e) := by
  cases e with
  | none => simp [constructEncoder, meaningEnc, hp, Outcome.andThen]
  | some e =>
    obtain ⟨ke, js, pat⟩ := e
    cases ke <;> cases js <;> cases pat <;>
      simp [constructEncoder, meaningEnc, typedEnc, EncL.isJson, hp, Outcome.andThen, Typed.optField,
        Typed.field, tlookup, Typed.asStr]

/-- the typed `Option<EncoderConfig>` field -/
def typedOptEnc (e : Option EncL) : Typed :=
  match e with
  | some e => .just (typedEnc e)
  | none => .nothing

/-! ### trigger, roller, policy -/

def typedTrig : TrigL → Typed
  | .size l => .tagged (c!"size") [] (.record [(c!"limit", .nat ((parseSize l).toOption.getD 0))])
  | .time i m d =>
    .tagged (c!"time") []
      (.record [(c!"interval", match (parseInterval i).toOption with
                               | some (u, n) => .interval u n
                               | none => .nothing),
                (c!"modulate", .bool (m.getD false)), (c!"max_random_delay", .nat (d.getD 0))])
  | .onstartup m => .tagged (c!"onstartup") [] (.record [(c!"min_size", .nat (m.getD 1))])

theorem interp_trig (ss : Bool) (tr : TrigL) (td : TrigDesc) (h : meaningTrig tr = some td) :
    interp ss triggerS (renderTrig tr) = .ok (typedTrig tr) := by
  cases tr with
  | size l =>
    cases hp : parseSize l with
    | error e => simp [meaningTrig, hp, Except.toOption] at h
    | ok n =>
      simp [triggerS, sizeTriggerS, renderTrig, typedTrig, interp, interpCases, interpFields, kindOf,
        lookup, without, fieldNames, req, unknownKey, interpLeaf_size hp, hp, Except.toOption]
  | time i m d =>
    cases hp : parseInterval i with
    | error e => simp [meaningTrig, hp, Except.toOption] at h
    | ok un =>
      obtain ⟨u, n⟩ := un
      have hd : d.getD 0 ≤ U64_MAX := by
        simp only [meaningTrig, hp, Except.toOption] at h
        split at h
        · assumption
        · cases h
      cases d with
      | none =>
        cases m <;>
          simp [triggerS, timeTriggerS, renderTrig, typedTrig, interp, interpCases, interpFields, kindOf,
            lookup, without, fieldNames, req, dfl, optEntry, unknownKey, interpLeaf_interval hp, hp,
            Except.toOption, interpLeaf_bool]
      | some dv =>
        have hdv : dv ≤ U64_MAX := by simpa using hd
        cases m <;>
          simp [triggerS, timeTriggerS, renderTrig, typedTrig, interp, interpCases, interpFields, kindOf,
            lookup, without, fieldNames, req, dfl, optEntry, unknownKey, interpLeaf_interval hp, hp,
            Except.toOption, interpLeaf_bool, interpLeaf_u64 hdv]
  | onstartup m =>
    cases m with
    | none =>
      simp [triggerS, onStartUpTriggerS, renderTrig, typedTrig, interp, interpCases, interpFields, kindOf,
        lookup, without, fieldNames, dfl, optEntry, unknownKey]
    | some mv =>
      have hm : mv ≤ U64_MAX := by
        simp only [meaningTrig, Option.getD_some] at h
        split at h
        · assumption
        · cases h
      simp [triggerS, onStartUpTriggerS, renderTrig, typedTrig, interp, interpCases, interpFields, kindOf,
        lookup, without, fieldNames, dfl, optEntry, unknownKey, interpLeaf_u64 hm]

theorem constructTrigger_typed (env : Env) (ht : ∀ u n m d, env.timeNew u n m d = .ok ())
    (tr : TrigL) (td : TrigDesc) (h : meaningTrig tr = some td) :
    constructTrigger env (typedTrig tr) = .ok td := by
  cases tr with
  | size l =>
    cases hp : parseSize l with
    | error e => simp [meaningTrig, hp, Except.toOption] at h
    | ok n =>
      simp only [meaningTrig, hp, Except.toOption, Option.map_some, Option.some.injEq] at h
      subst h
      simp [constructTrigger, typedTrig, hp, Except.toOption, Typed.field, tlookup, Typed.asNat]
  | time i m d =>
    cases hp : parseInterval i with
    | error e => simp [meaningTrig, hp, Except.toOption] at h
    | ok un =>
      obtain ⟨u, n⟩ := un
      simp only [meaningTrig, hp, Except.toOption] at h
      split at h
      · simp only [Option.some.injEq] at h
        subst h
        simp [constructTrigger, typedTrig, hp, Except.toOption, Typed.field, tlookup, Typed.asNat,
          Typed.asBool, ht, Outcome.andThen]
      · cases h
  | onstartup m =>
    simp only [meaningTrig] at h
    split at h
    · simp only [Option.some.injEq] at h
      subst h
      simp [constructTrigger, typedTrig, Typed.field, tlookup, Typed.asNat]
    · cases h

def typedRoll (path : Key) : RollL → Typed
  | .delete => .tagged (c!"delete") [] (.record [])
  | .window b n =>
    .tagged (c!"fixed_window") []
      (.record [(c!"pattern", .str (path ++ c!".{}")),
                (c!"base", match b with | some x => .just (.nat x) | none => .nothing),
                (c!"count", .nat n)])

theorem interp_roll (ss : Bool) (path : Key) (ro : RollL) (rd : RollDesc)
    (h : meaningRoll path ro = some rd) :
    interp ss rollerS (renderRoll path ro) = .ok (typedRoll path ro) := by
  cases ro with
  | delete =>
    simp [rollerS, deleteRollerS, renderRoll, typedRoll, interp, interpCases, interpFields, kindOf,
      lookup, without, fieldNames, unknownKey]
  | window b n =>
    simp only [meaningRoll] at h
    split at h
    · rename_i hc
      obtain ⟨hb, hn, _⟩ := hc
      cases b with
      | none =>
        simp [rollerS, fixedWindowRollerS, renderRoll, typedRoll, interp, interpCases, interpFields, kindOf,
          lookup, without, fieldNames, req, optF, optEntry, unknownKey, interpLeaf_str, interpLeaf_u32 hn]
      | some bv =>
        have hbv : bv ≤ U32_MAX := by simpa using hb
        simp [rollerS, fixedWindowRollerS, renderRoll, typedRoll, interp, interpCases, interpFields, kindOf,
          lookup, without, fieldNames, req, optF, optEntry, unknownKey, interpLeaf_str, interpLeaf_u32 hn,
          interpLeaf_u32 hbv]
    · cases h

theorem containsBraces_append (p : List Char) : containsBraces (p ++ c!".{}") = true := by
  induction p with
  | nil => rfl
  | cons c r ih => simp only [List.cons_append, containsBraces, ih, Bool.or_true]

theorem constructRoller_typed (path : Key) (ro : RollL) (rd : RollDesc)
    (h : meaningRoll path ro = some rd) : constructRoller (typedRoll path ro) = .ok rd := by
  cases ro with
  | delete =>
    simp only [meaningRoll, Option.some.injEq] at h
    subst h
    simp [constructRoller, typedRoll]
  | window b n =>
    simp only [meaningRoll] at h
    split at h
    · rename_i hc
      obtain ⟨_, _, hw⟩ := hc
      simp only [Option.some.injEq] at h
      subst h
      have hnot : ¬ (n > 0 ∧ b.getD 0 + (n - 1) > U32_MAX) := by
        rintro ⟨h1, h2⟩
        rcases hw with h0 | h0 <;> omega
      cases b <;>
        simp [constructRoller, typedRoll, Typed.field, Typed.optField, tlookup, Typed.asStr, Typed.asNat,
          containsBraces_append] <;> simpa using hnot
    · cases h

def typedPolicy (path : Key) (tr : TrigL) (ro : RollL) : Typed :=
  .tagged (c!"compound") [] (.record [(c!"trigger", typedTrig tr), (c!"roller", typedRoll path ro)])

theorem interp_policy (ss : Bool) (path : Key) (pk : Bool) (tr : TrigL) (ro : RollL)
    (td : TrigDesc) (rd : RollDesc) (ht : meaningTrig tr = some td) (hr : meaningRoll path ro = some rd) :
    interp ss policyS (renderPolicy pk path tr ro) = .ok (typedPolicy path tr ro) := by
  have h1 := interp_trig ss tr td ht
  have h2 := interp_roll ss path ro rd hr
  cases pk <;>
    simp [policyS, compoundPolicyS, renderPolicy, typedPolicy, interp, interpCases, interpFields, kindOf,
      lookup, without, fieldNames, req, unknownKey, h1, h2]

theorem constructPolicy_typed (env : Env) (ht : ∀ u n m d, env.timeNew u n m d = .ok ())
    (path : Key) (tr : TrigL) (ro : RollL) (td : TrigDesc) (rd : RollDesc)
    (h1 : meaningTrig tr = some td) (h2 : meaningRoll path ro = some rd) :
    constructPolicy env (some (typedPolicy path tr ro)) = .ok (td, rd) := by
  simp [constructPolicy, typedPolicy, Typed.field, tlookup, constructTrigger_typed env ht tr td h1,
    constructRoller_typed path ro rd h2, Outcome.andThen]

/-! ### appenders -/

theorem interp_filters (ss : Bool) (fs : List (List Char)) :
    interp ss (.seqOf (.lazy filterS)) (renderFilters fs) = .ok (.list (fs.map typedFilter)) := by
  simp only [renderFilters, interp]
  have := mapVals_filters ss fs
  simp only [interp] at this
  rw [this]

theorem interp_opt_enc (ss : Bool) (e : EncL) (h : encOk (some e) = true) :
    interp ss (.opt encoderS) (renderEnc e) = .ok (.just (typedEnc e)) := by
  have h1 := interp_enc ss e h
  have hm : ∃ kvs, renderEnc e = .map kvs := ⟨_, rfl⟩
  obtain ⟨kvs, hk⟩ := hm
  rw [hk] at h1 ⊢
  simp only [interp, h1]

theorem interp_opt_target (ss : Bool) (b : Bool) :
    interp ss (.opt (.leaf .target)) (renderTarget b) = .ok (.just (.target b)) := by
  have h := interpLeaf_target b
  cases b <;> simp [renderTarget, interp, interpLeaf]

def typedOptBool : Option Bool → Typed
  | some b => .just (.bool b)
  | none => .nothing

def typedOptTarget : Option Bool → Typed
  | some b => .just (.target b)
  | none => .nothing

def typedBody (a : AppL) : Typed :=
  if a.kind = 0 then
    .record [(c!"target", typedOptTarget a.target), (c!"encoder", typedOptEnc a.enc),
             (c!"tty_only", typedOptBool a.flag)]
  else if a.kind = 1 then
    .record [(c!"path", .str a.path), (c!"encoder", typedOptEnc a.enc), (c!"append", typedOptBool a.flag)]
  else
    .record [(c!"path", .str a.path), (c!"append", typedOptBool a.flag), (c!"encoder", typedOptEnc a.enc),
             (c!"policy", typedPolicy a.path a.trig a.roll)]

def typedApp (a : AppL) : Typed :=
  .tagged (kindName a.kind) [(c!"filters", .list ((a.filters.getD []).map typedFilter))] (typedBody a)

/-- well-formed appender section: a known kind; a json encoder without pattern; for a rolling
appender numbers that are acceptable (`meaningTrig`, `meaningRoll`) -/
def wfApp (a : AppL) : Prop :=
  a.kind ≤ 2 ∧ encOk a.enc = true ∧
  (a.kind = 2 → (meaningTrig a.trig).isSome ∧ (meaningRoll a.path a.roll).isSome)

theorem interp_app (ss : Bool) (a : AppL) (h : wfApp a) :
    interp ss (.lazy appenderLazyS) (renderApp a) = .ok (typedApp a) := by
  obtain ⟨hk, he, hp⟩ := h
  obtain ⟨name, kind, filters, path, flag, enc, target, pk, trig, roll⟩ := a
  simp only at hk he hp
  have hF := interp_filters ss
  have hT := interp_opt_target ss
  have hE : ∀ e, enc = some e → interp ss (.opt encoderS) (renderEnc e) = .ok (.just (typedEnc e)) :=
    fun e h => interp_opt_enc ss e (h ▸ he)
  match kind, hk with
  | 0, _ =>
    cases filters <;> cases flag <;> cases enc <;> cases target <;>
      simp [renderApp, appenderLazyS, consoleAppenderS, typedApp, typedBody, typedOptEnc, typedOptBool,
        typedOptTarget, kindName, optEntry, interp, interpFields, interpCases, kindOf, lookup, without,
        fieldNames, dfl, optF, unknownKey, hF, hT, hE, interpLeaf_bool]
  | 1, _ =>
    cases filters <;> cases flag <;> cases enc <;>
      simp [renderApp, appenderLazyS, fileAppenderS, typedApp, typedBody, typedOptEnc, typedOptBool,
        kindName, optEntry, interp, interpFields, interpCases, kindOf, lookup, without,
        fieldNames, dfl, optF, req, unknownKey, hF, hE, interpLeaf_bool, interpLeaf_str]
  | 2, _ =>
    obtain ⟨ht, hr⟩ := hp rfl
    obtain ⟨td, htd⟩ := Option.isSome_iff_exists.mp ht
    obtain ⟨rd, hrd⟩ := Option.isSome_iff_exists.mp hr
    have hP := interp_policy ss path pk trig roll td rd htd hrd
    cases filters <;> cases flag <;> cases enc <;>
      simp [renderApp, appenderLazyS, rollingFileAppenderS, typedApp, typedBody, typedOptEnc, typedOptBool,
        kindName, optEntry, interp, interpFields, interpCases, kindOf, lookup, without,
        fieldNames, dfl, optF, req, unknownKey, hF, hE, hP, interpLeaf_bool, interpLeaf_str]

/-- the environment of the check runs, abstractly: every path but the empty one can be opened, the
pattern parser and the time trigger's constructor succeed -/
def Env.Benign (env : Env) : Prop :=
  (∀ p, env.openLog p = if fsOk p then .ok () else .err .badValue)
  ∧ (∀ s, env.patternNew s = .ok ()) ∧ (∀ u n m d, env.timeNew u n m d = .ok ())

def filterErrs (a : AppL) : List LoadErr :=
  ((a.filters.getD []).filter (fun t => (parseLevel t).isNone)).map (fun _ => LoadErr.filter a.name)

theorem optField_typedOptEnc (fs1 fs2 : List (Key × Typed)) (e : Option EncL)
    (h : tlookup (c!"encoder") fs1 = none) :
    (Typed.record (fs1 ++ (c!"encoder", typedOptEnc e) :: fs2)).optField (c!"encoder") = e.map typedEnc := by
  have : tlookup (c!"encoder") (fs1 ++ (c!"encoder", typedOptEnc e) :: fs2) = some (typedOptEnc e) := by
    induction fs1 with
    | nil => simp [tlookup]
    | cons x xs ih =>
      obtain ⟨k, t⟩ := x
      simp only [tlookup] at h ⊢
      split at h
      · cases h
      · rename_i hk; simp only [List.cons_append, tlookup, hk, if_false]; exact ih h
  simp only [Typed.optField, Typed.field, this]
  cases e <;> rfl

theorem asBool_typedOptBool (o : Option Bool) (d : Bool) :
    (Typed.asBool (match typedOptBool o with | .just x => some x | _ => none)).getD d = o.getD d := by
  cases o <;> rfl

theorem appenderOutcome_typed (env : Env) (henv : env.Benign) (a : AppL) (d : AppenderDesc)
    (hk : a.kind ≤ 2) (h : meaningApp a = some d) :
    appenderOutcome env a.name (typedApp a) = (filterErrs a, .kept d) := by
  obtain ⟨ho, hp, ht⟩ := henv
  obtain ⟨name, kind, filters, path, flag, enc, target, pk, trig, roll⟩ := a
  simp only at hk
  have hE := constructEncoder_typed env hp enc
  have hfm := filterMap_typed (filters.getD [])
  have hfe := filterErrs_typed name (filters.getD [])
  simp only [meaningApp] at h
  match kind, hk with
  | 0, _ =>
    split at h
    · cases h
    · simp only [if_true, Option.some.injEq] at h
      subst h
      have hO := optField_typedOptEnc [(c!"target", typedOptTarget target)] [(c!"tty_only", typedOptBool flag)] enc rfl
      simp only [List.cons_append, List.nil_append] at hO
      simp only [appenderOutcome, typedApp, tlookup, if_true, Typed.asList, hfm, hfe, filterErrs, kindName,
        typedBody, constructAppender, hO, hE, Outcome.andThen]
      cases flag <;> cases target <;> rfl
  | 1, _ =>
    split at h
    · cases h
    · simp only [show ¬ ((1 : Nat) = 0) by decide, if_false] at h
      split at h
      · cases h
      · rename_i hfs
        simp only [if_true, Option.some.injEq] at h
        subst h
        have hfs' : fsOk path = true := by simpa using hfs
        have hO := optField_typedOptEnc [(c!"path", .str path)] [(c!"append", typedOptBool flag)] enc rfl
        simp only [List.cons_append, List.nil_append] at hO
        have hne : ¬ (c!"file" = c!"console") := by decide
        simp only [appenderOutcome, typedApp, tlookup, if_true, Typed.asList, hfm, hfe, filterErrs, kindName,
          typedBody, show ¬ ((1 : Nat) = 0) by decide, if_false, constructAppender, hO, hE, Outcome.andThen, hne,
          Typed.field, Typed.asStr, Option.getD_some, ho, hfs']
        cases flag <;> rfl
  | 2, _ =>
    split at h
    · cases h
    · simp only [show ¬ ((2 : Nat) = 0) by decide, show ¬ ((2 : Nat) = 1) by decide, if_false] at h
      split at h
      · cases h
      · rename_i hfs
        have hfs' : fsOk path = true := by simpa using hfs
        cases hmt : meaningTrig trig with
        | none => simp [hmt] at h
        | some td =>
          cases hmr : meaningRoll path roll with
          | none => simp [hmt, hmr] at h
          | some rd =>
            simp only [hmt, hmr, Option.some.injEq] at h
            subst h
            have hpol := constructPolicy_typed env ht path trig roll td rd hmt hmr
            have hO := optField_typedOptEnc [(c!"path", .str path), (c!"append", typedOptBool flag)]
              [(c!"policy", typedPolicy path trig roll)] enc rfl
            simp only [List.cons_append, List.nil_append] at hO
            have hne1 : ¬ (c!"rolling_file" = c!"console") := by decide
            have hne2 : ¬ (c!"rolling_file" = c!"file") := by decide
            have hpf : (Typed.record [(c!"path", .str path), (c!"append", typedOptBool flag),
                (c!"encoder", typedOptEnc enc), (c!"policy", typedPolicy path trig roll)]).field (c!"policy")
                = some (typedPolicy path trig roll) := by
              simp [Typed.field, tlookup]
            simp only [appenderOutcome, typedApp, tlookup, if_true, Typed.asList, hfm, hfe, filterErrs, kindName,
              typedBody, show ¬ ((2 : Nat) = 0) by decide, show ¬ ((2 : Nat) = 1) by decide, if_false,
              constructAppender, hO, hE, Outcome.andThen, hne1, hne2, hpf, hpol, ho]
            cases flag <;> simp [Typed.field, tlookup, Typed.asStr, Typed.optField, typedOptBool, Typed.asBool, hfs']

/-! ### the document -/

theorem appenderEntryS_live : appenderEntryS = .lazy appenderLazyS := rfl

theorem mapEntries_apps (ss : Bool) (as : List AppL) (h : ∀ a ∈ as, wfApp a) :
    mapEntries (fun v => interp ss appenderEntryS v) (as.map (fun a => (a.name, renderApp a))) =
      .ok (as.map (fun a => (a.name, typedApp a))) := by
  induction as with
  | nil => rfl
  | cons a as ih =>
    have h1 := interp_app ss a (h a List.mem_cons_self)
    rw [← appenderEntryS_live] at h1
    simp only [List.map_cons, mapEntries, h1, ih (fun x hx => h x (List.mem_cons_of_mem _ hx))]

theorem appendersLossy_typed (env : Env) (henv : env.Benign) (as : List AppL)
    (h : ∀ a ∈ as, a.kind ≤ 2 ∧ (meaningApp a).isSome) :
    appendersLossy env (as.map (fun a => (a.name, typedApp a))) =
      .ok (as.filterMap meaningApp, as.flatMap filterErrs) := by
  induction as with
  | nil => rfl
  | cons a as ih =>
    obtain ⟨hk, hs⟩ := h a List.mem_cons_self
    obtain ⟨d, hd⟩ := Option.isSome_iff_exists.mp hs
    simp only [List.map_cons, appendersLossy, appenderOutcome_typed env henv a d hk hd,
      ih (fun x hx => h x (List.mem_cons_of_mem _ hx)), List.filterMap_cons, hd, List.flatMap_cons]

theorem meaning_errors_wf (as : List AppL) (h : ∀ a ∈ as, (meaningApp a).isSome) :
    as.flatMap (fun a => ((a.filters.getD []).filter (fun t => (parseLevel t).isNone)).map
        (fun _ => LoadErr.filter a.name) ++ (if (meaningApp a).isNone then [LoadErr.appender a.name] else []))
      = as.flatMap filterErrs := by
  induction as with
  | nil => rfl
  | cons a as ih =>
    have hs := h a List.mem_cons_self
    have : (meaningApp a).isNone = false := by
      cases hm : meaningApp a with
      | none => rw [hm] at hs; cases hs
      | some d => rfl
    simp only [List.flatMap_cons, this, Bool.false_eq_true, if_false, List.append_nil,
      ih (fun x hx => h x (List.mem_cons_of_mem _ hx)), filterErrs]

def typedDoc (cfg : LogicalConfig) : Typed :=
  .record [(c!"refresh_rate", match cfg.refresh.bind parseDuration with
                              | some n => .just (.duration n)
                              | none => .nothing),
           (c!"root", (cfg.root.map typedRoot).getD rootDefault),
           (c!"appenders", .dict (cfg.appenders.map (fun a => (a.name, typedApp a)))),
           (c!"loggers", .dict (cfg.loggers.map (fun l => (l.name, typedLogger l))))]

/-- well-formed logical configuration: the texts that are parsed while the DOCUMENT is typed (root
and logger levels, refresh rate) are acceptable, and every appender section is well-formed -/
structure WF (cfg : LogicalConfig) : Prop where
  loggers : ∀ l ∈ cfg.loggers, (parseLevel l.level).isSome
  root : ∀ r t, cfg.root = some r → r.level = some t → (parseLevel t).isSome
  refresh : ∀ t, cfg.refresh = some t → (parseDuration t).isSome
  apps : ∀ a ∈ cfg.appenders, wfApp a

theorem interpLeaf_duration {t : List Char} {n : Nat} (h : parseDuration t = some n) :
    interpLeaf .duration (.str t) = .ok (.duration n) := by
  simp only [parseDuration] at h
  simp only [interpLeaf]
  cases hp : parseDurationFull t with
  | ok a b => rw [hp] at h; simp only [Option.some.injEq] at h; simp [h]
  | err => rw [hp] at h; cases h
  | panic => rw [hp] at h; cases h

theorem interp_doc (ss : Bool) (cfg : LogicalConfig) (hwf : WF cfg) :
    interp ss docS (render cfg) = .ok (typedDoc cfg) := by
  obtain ⟨refresh, root, loggers, appenders⟩ := cfg
  obtain ⟨hl, hroot, hrr, happ⟩ := hwf
  simp only at hl hroot hrr happ
  have hlg := mapEntries_loggers ss loggers hl
  have hap := mapEntries_apps ss appenders happ
  have hlive : appenderEntrySWith appenderEnvelopeLazy = appenderEntryS := rfl
  cases refresh with
  | none =>
    cases root with
    | none =>
      cases loggers <;> cases appenders <;>
        (try simp only [List.map_cons] at hlg hap) <;>
        simp [render, optEntry, docS, docSWith, hlive, interp, interpFields, unknownKey, fieldNames, dfl, optF,
          lookup, hlg, hap, typedDoc]
    | some r =>
      have hr := interp_root ss r (fun t ht => hroot r t rfl ht)
      cases loggers <;> cases appenders <;>
        (try simp only [List.map_cons] at hlg hap) <;>
        simp [render, optEntry, docS, docSWith, hlive, interp, interpFields, unknownKey, fieldNames, dfl, optF,
          lookup, hlg, hap, hr, typedDoc]
  | some t =>
    obtain ⟨n, hn⟩ := Option.isSome_iff_exists.mp (hrr t rfl)
    have hrf := interpLeaf_duration hn
    cases root with
    | none =>
      cases loggers <;> cases appenders <;>
        (try simp only [List.map_cons] at hlg hap) <;>
        simp [render, optEntry, docS, docSWith, hlive, interp, interpFields, unknownKey, fieldNames, dfl, optF,
          lookup, hlg, hap, hrf, hn, typedDoc]
    | some r =>
      have hr := interp_root ss r (fun t ht => hroot r t rfl ht)
      cases loggers <;> cases appenders <;>
        (try simp only [List.map_cons] at hlg hap) <;>
        simp [render, optEntry, docS, docSWith, hlive, interp, interpFields, unknownKey, fieldNames, dfl, optF,
          lookup, hlg, hap, hr, hrf, hn, typedDoc]

theorem rawLoad_typedDoc (env : Env) (henv : env.Benign) (cfg : LogicalConfig)
    (h : ∀ a ∈ cfg.appenders, a.kind ≤ 2 ∧ (meaningApp a).isSome) :
    rawLoad env (typedDoc cfg) = .ok (meaning cfg) := by
  have hA := appendersLossy_typed env henv cfg.appenders h
  have hE := meaning_errors_wf cfg.appenders (fun a ha => (h a ha).2)
  have hL := loggers_of_typed cfg.loggers
  obtain ⟨refresh, root, loggers, appenders⟩ := cfg
  simp only at hA hE hL
  simp only [Option.isNone_iff_eq_none] at hE
  simp only [rawLoad, typedDoc, Typed.field, tlookup, if_true, Typed.asDict, hA]
  cases root <;> cases hd : refresh.bind parseDuration <;>
    simp [meaning, hd, hE, hL, hA, Typed.optField, Typed.field, tlookup, rootDefault, typedRoot, Typed.asLevel,
      Typed.asList, strs_names, show Typed.strs [] = [] from rfl]

/-- a logical configuration rendered into a document (canonical key order, every subset of
optional keys omitted) loads — lossy pipeline up to the builder input — to exactly its meaning -/
theorem loadRaw_render (env : Env) (henv : env.Benign) (ss : Bool) (cfg : LogicalConfig) (hwf : WF cfg)
    (hb : ∀ a ∈ cfg.appenders, (meaningApp a).isSome) :
    loadRaw env ss (render cfg) = .ok (meaning cfg) := by
  simp only [loadRaw, interp_doc ss cfg hwf]
  exact rawLoad_typedDoc env henv cfg (fun a ha => ⟨(hwf.apps a ha).1, hb a ha⟩)

end Log4rs.ConfigDoc
