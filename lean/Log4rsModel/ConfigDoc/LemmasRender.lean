import Log4rsModel.ConfigDoc.Lemmas
/-
The document rendered from a logical configuration loads to its meaning — the routing part (refresh
rate, root, loggers) for every configuration, canonical key order, every subset of optional keys.
-/
namespace Log4rs.ConfigDoc
open Log4rs Log4rs.Literals Log4rs.Routing

theorem interpLeaf_str (s : List Char) : interpLeaf .str (.str s) = .ok (.str s) := rfl

theorem interpLeaf_bool (b : Bool) : interpLeaf .bool (.bool b) = .ok (.bool b) := rfl

theorem mapVals_names (ns : List Key) :
    mapVals (fun v => interpLeaf .str v) (ns.map .str) = .ok (ns.map .str) := by
  induction ns with
  | nil => rfl
  | cons n ns ih => simp only [List.map_cons, mapVals, interpLeaf_str, ih]

theorem interp_names (ss : Bool) (ns : List Key) :
    interp ss namesS (renderNames ns) = .ok (.list (ns.map .str)) := by
  simp only [namesS, renderNames, interp, mapVals_names]

theorem interpLeaf_level {s : List Char} {n : Nat} (h : parseLevel s = some n) :
    interpLeaf .level (.str s) = .ok (.level n) := by
  simp only [interpLeaf, h]

theorem strs_names (ns : List Key) : Typed.strs (ns.map Typed.str) = ns := by
  induction ns with
  | nil => rfl
  | cons n ns ih => simp only [List.map_cons, Typed.strs, List.filterMap_cons] at ih ⊢; rw [ih]

/-- typed form of a logger section -/
def typedLogger (l : LoggerL) : Typed :=
  .record [(c!"level", .level ((parseLevel l.level).getD 0)),
    (c!"appenders", .list ((l.appenders.getD []).map .str)),
    (c!"additive", .bool (l.additive.getD true))]

theorem interp_logger (ss : Bool) (l : LoggerL) (h : (parseLevel l.level).isSome) :
    interp ss loggerS (renderLogger l) = .ok (typedLogger l) := by
  obtain ⟨n, hn⟩ := Option.isSome_iff_exists.mp h
  obtain ⟨name, level, additive, appenders⟩ := l
  simp only at hn
  cases additive <;> cases appenders <;>
    simp [loggerS, namesS, renderNames, renderLogger, typedLogger, optEntry, interp, interpFields, unknownKey, interpLeaf_level hn,
      fieldNames, req, dfl, lookup, hn, mapVals_names, interpLeaf_bool]

theorem loggerOf_typed (l : LoggerL) : loggerOf l.name (typedLogger l) = meaningLogger l := by
  simp [loggerOf, typedLogger, meaningLogger, Typed.field, tlookup, Typed.asLevel, Typed.asBool,
    Typed.asList, strs_names]

theorem mapEntries_loggers (ss : Bool) (ls : List LoggerL)
    (h : ∀ l ∈ ls, (parseLevel l.level).isSome) :
    mapEntries (fun v => interp ss loggerS v) (ls.map (fun l => (l.name, renderLogger l))) =
      .ok (ls.map (fun l => (l.name, typedLogger l))) := by
  induction ls with
  | nil => rfl
  | cons l ls ih =>
    simp only [List.map_cons, mapEntries, interp_logger ss l (h l List.mem_cons_self),
      ih (fun x hx => h x (List.mem_cons_of_mem _ hx))]

theorem loggers_of_typed (ls : List LoggerL) :
    (ls.map (fun l => (l.name, typedLogger l))).map (fun kv => loggerOf kv.1 kv.2) =
      ls.map meaningLogger := by
  induction ls with
  | nil => rfl
  | cons l ls ih => simp only [List.map_cons, loggerOf_typed, ih]

/-- typed form of a root section -/
def typedRoot (r : RootL) : Typed :=
  .record [(c!"level", .level ((r.level.bind parseLevel).getD 4)),
    (c!"appenders", .list ((r.appenders.getD []).map .str))]

theorem interp_root (ss : Bool) (r : RootL) (h : ∀ t, r.level = some t → (parseLevel t).isSome) :
    interp ss rootS (renderRoot r) = .ok (typedRoot r) := by
  obtain ⟨level, appenders⟩ := r
  cases level with
  | none =>
    cases appenders <;>
      simp [rootS, namesS, renderNames, renderRoot, typedRoot, optEntry, interp, interpFields, unknownKey,
        fieldNames, dfl, lookup, mapVals_names]
  | some t =>
    obtain ⟨n, hn⟩ := Option.isSome_iff_exists.mp (h t rfl)
    cases appenders <;>
      simp [rootS, namesS, renderNames, renderRoot, typedRoot, optEntry, interp, interpFields, unknownKey, interpLeaf_level hn,
        fieldNames, dfl, lookup, hn, mapVals_names]

theorem interp_refresh (ss : Bool) (t : List Char) (n : Nat) (h : parseDuration t = some n) :
    interp ss (.opt (.leaf .duration)) (.str t) = .ok (.just (.duration n)) := by
  simp only [interp, interpLeaf, h]

theorem interp_loggers (ss : Bool) (ls : List LoggerL) (h : ∀ l ∈ ls, (parseLevel l.level).isSome) :
    interp ss (.mapOf loggerS) (.map (ls.map (fun l => (l.name, renderLogger l)))) =
      .ok (.dict (ls.map (fun l => (l.name, typedLogger l)))) := by
  simp only [interp, mapEntries_loggers ss ls h]

theorem typedRoot_level (r : RootL) :
    (Typed.asLevel ((typedRoot r).field (c!"level"))).getD 4 = (r.level.bind parseLevel).getD 4 := by
  simp [typedRoot, Typed.field, tlookup, Typed.asLevel]

theorem typedRoot_appenders (r : RootL) :
    Typed.strs (Typed.asList ((typedRoot r).field (c!"appenders"))) = r.appenders.getD [] := by
  simp [typedRoot, Typed.field, tlookup, Typed.asList, strs_names]

/-- the routing part: a logical configuration without appender table, rendered with any subset of
its optional keys, loads (lossy pipeline up to the builder input) to exactly its meaning -/
theorem loadRaw_render_routing (ss : Bool) (cfg : LogicalConfig)
    (happ : cfg.appenders = [])
    (hl : ∀ l ∈ cfg.loggers, (parseLevel l.level).isSome)
    (hroot : ∀ r t, cfg.root = some r → r.level = some t → (parseLevel t).isSome)
    (hrr : ∀ t, cfg.refresh = some t → (parseDuration t).isSome) :
    loadRaw ss (render cfg) = .ok (meaning cfg) := by
  obtain ⟨refresh, root, loggers, appenders⟩ := cfg
  simp only at happ hl hroot hrr
  subst happ
  have hlg := mapEntries_loggers ss loggers hl
  have hlo := loggers_of_typed loggers
  cases refresh with
  | none =>
    cases root with
    | none =>
      cases loggers with
      | nil => rfl
      | cons l ls =>
        simp only [List.map_cons] at hlg hlo
        simp [loadRaw, render, optEntry, docS, docSWith, interp, interpFields, unknownKey, fieldNames, dfl, optF,
          lookup, hlg, rawLoad, appendersLossy, Typed.field, Typed.optField, tlookup, Typed.asDict,
          rootDefault, Typed.asLevel, Typed.asList, Typed.strs, meaning, loggerOf_typed]
    | some r =>
      have hr := interp_root ss r (fun t ht => hroot r t rfl ht)
      cases loggers with
      | nil =>
        simp [loadRaw, render, optEntry, docS, docSWith, interp, interpFields, unknownKey, fieldNames, dfl, optF,
          lookup, hr, rawLoad, appendersLossy, Typed.field, Typed.optField, tlookup, Typed.asDict,
          meaning, typedRoot, Typed.asLevel, Typed.asList, strs_names]
      | cons l ls =>
        simp only [List.map_cons] at hlg hlo
        simp [loadRaw, render, optEntry, docS, docSWith, interp, interpFields, unknownKey, fieldNames, dfl, optF,
          lookup, hr, hlg, rawLoad, appendersLossy, Typed.field, Typed.optField, tlookup, Typed.asDict,
          meaning, typedRoot, Typed.asLevel, Typed.asList, strs_names, loggerOf_typed]
  | some t =>
    obtain ⟨n, hn⟩ := Option.isSome_iff_exists.mp (hrr t rfl)
    have hrf : interpLeaf .duration (.str t) = .ok (.duration n) := by simp only [interpLeaf, hn]
    cases root with
    | none =>
      cases loggers with
      | nil =>
        simp [loadRaw, render, optEntry, docS, docSWith, interp, interpFields, unknownKey, fieldNames, dfl, optF,
          lookup, hrf, rawLoad, appendersLossy, Typed.field, Typed.optField, tlookup, Typed.asDict,
          rootDefault, Typed.asLevel, Typed.asList, Typed.strs, meaning, hn]
      | cons l ls =>
        simp only [List.map_cons] at hlg hlo
        simp [loadRaw, render, optEntry, docS, docSWith, interp, interpFields, unknownKey, fieldNames, dfl, optF,
          lookup, hrf, hlg, rawLoad, appendersLossy, Typed.field, Typed.optField, tlookup, Typed.asDict,
          rootDefault, Typed.asLevel, Typed.asList, Typed.strs, meaning, loggerOf_typed, hn]
    | some r =>
      have hr := interp_root ss r (fun t ht => hroot r t rfl ht)
      cases loggers with
      | nil =>
        simp [loadRaw, render, optEntry, docS, docSWith, interp, interpFields, unknownKey, fieldNames, dfl, optF,
          lookup, hrf, hr, rawLoad, appendersLossy, Typed.field, Typed.optField, tlookup, Typed.asDict,
          meaning, typedRoot, Typed.asLevel, Typed.asList, strs_names, hn]
      | cons l ls =>
        simp only [List.map_cons] at hlg hlo
        simp [loadRaw, render, optEntry, docS, docSWith, interp, interpFields, unknownKey, fieldNames, dfl, optF,
          lookup, hrf, hr, hlg, rawLoad, appendersLossy, Typed.field, Typed.optField, tlookup, Typed.asDict,
          meaning, typedRoot, Typed.asLevel, Typed.asList, strs_names, loggerOf_typed, hn]

end Log4rs.ConfigDoc
