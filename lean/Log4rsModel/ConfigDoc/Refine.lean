import Log4rsModel.ConfigDoc.Lemmas
import Log4rsModel.Routing.BuilderLemmas
import Log4rsModel.Routing.LemmasBuild
/-
Refinement of the two pieces of C14's pipeline that restate other areas' models:

  * `buildLossyNames` (the name-stripping fragment of `build_lossy` used after `appenders_lossy`)
    is the projection of C13's `Routing.buildLossy` on inputs whose appender names and logger names
    are distinct — which they are, coming out of maps;
  * the configuration it returns is `Valid`, so C01's theorem applies: the model of
    `Logger::log` (`Tree.deliver`) delivers exactly the list `Tree.specDeliver` that C14's
    observation (`written`) is computed from.
-/
namespace Log4rs.ConfigDoc
open Log4rs Log4rs.Routing

/-- the `ConfigBuilder` that `deserialize()` fills: the surviving appenders in table order, the
loggers, and the root -/
def toInput (r : RawLoad) : BuilderInput :=
  { appenders := r.appenders.zipIdx.map (fun p => ⟨p.1.name, p.2⟩)
    rootLevel := r.rootLevel, rootAppenders := r.rootAppenders, loggers := r.loggers }

def toCfgError : BuildErr → CfgError
  | .nonexistent n => ⟨.nonexistent, n⟩
  | .badLoggerName n => ⟨.invalidName, n⟩

theorem appLoop_nodup (ys : List AppenderDecl) (seen : List Name)
    (hnd : (ys.map (·.name)).Nodup) (hs : ∀ a ∈ ys, a.name ∉ seen) :
    (appLoop ys seen).1 = ys ∧ (appLoop ys seen).2.2 = [] := by
  induction ys generalizing seen with
  | nil => simp [appLoop]
  | cons a rest ih =>
    have ha : seen.contains a.name = false := by
      have := hs a List.mem_cons_self
      simpa using this
    simp only [List.map_cons, List.nodup_cons] at hnd
    have := ih (a.name :: seen) hnd.2 (by
      intro b hb
      simp only [List.mem_cons, not_or]
      refine ⟨?_, hs b (List.mem_cons_of_mem _ hb)⟩
      intro heq
      exact hnd.1 (heq ▸ List.mem_map.mpr ⟨b, hb, rfl⟩))
    simp only [appLoop, ha, Bool.false_eq_true, if_false, this.1, this.2, and_self]

theorem stripRefs_eq_refLoop (names known : List Name) (refs : List Name)
    (h : ∀ n, n ∈ names ↔ n ∈ known) :
    refLoop names refs = ((stripRefs known refs).1, (stripRefs known refs).2.map toCfgError) := by
  have hc : ∀ r, names.contains r = known.contains r := contains_congr h
  rw [refLoop_eq]
  simp only [stripRefs, List.map_map]
  have h1 : (fun r => names.contains r) = fun r => known.contains r := funext hc
  have h2 : (fun r => !names.contains r) = fun r => !known.contains r := by funext r; rw [hc]
  rw [h1, h2]
  rfl

theorem logLoop_nodup (names known : List Name) (h : ∀ n, n ∈ names ↔ n ∈ known)
    (ls : List LoggerCfg) (seen : List Name)
    (hnd : (ls.map (·.name)).Nodup) (hs : ∀ l ∈ ls, l.name ∉ seen) :
    logLoop names ls seen = ((buildLoggers known ls).1, (buildLoggers known ls).2.map toCfgError) := by
  induction ls generalizing seen with
  | nil => simp [logLoop, buildLoggers]
  | cons l rest ih =>
    have hl : seen.contains l.name = false := by
      have := hs l List.mem_cons_self
      simpa using this
    simp only [List.map_cons, List.nodup_cons] at hnd
    have hrest := ih (l.name :: seen) hnd.2 (by
      intro b hb
      simp only [List.mem_cons, not_or]
      refine ⟨?_, hs b (List.mem_cons_of_mem _ hb)⟩
      intro heq
      exact hnd.1 (heq ▸ List.mem_map.mpr ⟨b, hb, rfl⟩))
    simp only [logLoop, hl, Bool.false_eq_true, if_false, buildLoggers]
    by_cases hc : checkLoggerName l.name = true
    · simp only [hc, Bool.not_true, Bool.false_eq_true, if_false, if_true, hrest,
        stripRefs_eq_refLoop names known l.appenders h, List.map_append]
    · simp only [Bool.not_eq_true] at hc
      simp only [hc, Bool.not_false, if_true, Bool.false_eq_true, if_false, hrest, List.map_cons,
        toCfgError]

theorem zipIdx_names (as : List AppenderDesc) (k : Nat) :
    ((as.zipIdx k).map (fun p => (⟨p.1.name, p.2⟩ : AppenderDecl))).map (·.name) = as.map (·.name) := by
  induction as generalizing k with
  | nil => rfl
  | cons a rest ih => simp only [List.zipIdx_cons, List.map_cons, ih]

/-- `buildLossyNames` is C13's `build_lossy` on the builder that `deserialize()` fills -/
theorem buildLossyNames_refines (r : RawLoad)
    (hA : (r.appenders.map (·.name)).Nodup) (hL : (r.loggers.map (·.name)).Nodup) :
    (buildLossy (toInput r)).config = (buildLossyNames r).config
    ∧ (buildLossy (toInput r)).errors = (buildLossyNames r).buildErrors.map toCfgError := by
  have hnames := zipIdx_names r.appenders 0
  have hA' : ((toInput r).appenders.map (·.name)).Nodup := by
    show ((r.appenders.zipIdx.map (fun p => (⟨p.1.name, p.2⟩ : AppenderDecl))).map (·.name)).Nodup
    rw [hnames]; exact hA
  have happ := appLoop_nodup (toInput r).appenders [] hA' (by simp)
  have hmem : ∀ n, n ∈ (appLoop (toInput r).appenders []).2.1 ↔ n ∈ r.appenders.map (·.name) := by
    intro n
    have := appLoop_names (toInput r).appenders [] n
    simpa [toInput, hnames] using this
  have hroot := stripRefs_eq_refLoop _ (r.appenders.map (·.name)) r.rootAppenders hmem
  have hlog := logLoop_nodup _ (r.appenders.map (·.name)) hmem r.loggers [] hL (by simp)
  constructor
  · simp only [buildLossy, happ.1, Built.config, buildLossyNames]
    have e1 : (toInput r).rootAppenders = r.rootAppenders := rfl
    have e2 : (toInput r).loggers = r.loggers := rfl
    rw [e1, e2, hroot, hlog]
    simp only [toInput, hnames]
  · simp only [buildLossy, happ.2, buildLossyNames, List.nil_append, List.map_append]
    have e1 : (toInput r).rootAppenders = r.rootAppenders := rfl
    have e2 : (toInput r).loggers = r.loggers := rfl
    rw [e1, e2, hroot, hlog]

/-- what lossy loading returns is a `Valid` configuration (C13's `specLossy_valid`) -/
theorem built_valid (r : RawLoad)
    (hA : (r.appenders.map (·.name)).Nodup) (hL : (r.loggers.map (·.name)).Nodup) :
    Valid (buildLossyNames r).config := by
  rw [← (buildLossyNames_refines r hA hL).1]
  have h := (buildLossy_eq_spec (toInput r)).1
  have hv := specLossy_valid (toInput r)
  rw [← h] at hv
  exact hv

end Log4rs.ConfigDoc
