import Log4rsModel.Literals.Model
/-
Model of `humantime::parse_duration` (humantime 2.4.0, `src/duration.rs`) as log4rs uses it for
`refresh_rate` (`config/raw.rs::de_duration`: `visit_str` only — every non-string scalar is serde's
`invalid type` error, `null` is `None`).

The Rust parser is two nested loops over `Chars` with byte offsets used only to cut the unit word
`src[start..end]` out of the source; every offset is `src.len() - iter.as_str().len()`, a character
boundary by construction, and `start ≤ end`. Here the parser is the equivalent one-pass state
machine over the characters, collecting the unit word itself:

  first   : `parse_first_char` — skip white space, expect a digit (`started` = a span has been read;
            at the very beginning the end of input is `Error::Empty`, later it is the result)
  num n   : first inner loop — digits accumulate (checked), white space is skipped, a letter starts the
            unit word, '.' starts the fraction
  frac    : `parse_fractional_part`
  unit    : second inner loop — letters extend the word; a digit or white space ends the span

Arithmetic is `u64` `checked_mul`/`checked_add` (`Error::NumberOverflow`), the fraction's exact
division (`self % other ≠ 0` is `NumberOverflow`), and `Duration::new(sec, nsec as u32)`, which
PANICS ("overflow in Duration::new") when `nsec ≥ 10^9` carries into a `sec` that is already
`u64::MAX`. `add_current` normalises with `if nsec > 1_000_000_000` — strictly greater — so exactly
one value reaches `Duration::new` un-normalised: `nsec = 10^9`. With `sec = u64::MAX` that is a panic
on a configuration text (`refresh_rate: 18446744073709551615s 1000000000ns`).
-/
namespace Log4rs.Literals.Dur
open Log4rs.Str Log4rs Log4rs.Literals

inductive DUnit where
  | ns | us | ms | s | min | h | d | w | mo | y
  deriving Repr, DecidableEq

def mu : Char := Char.ofNat 0xB5

/-- `impl FromStr for Unit` (exact, case-sensitive match) -/
def unitTable : List (List Char × DUnit) :=
  [ (['n','a','n','o','s'], .ns), (['n','s','e','c'], .ns), (['n','s'], .ns),
    (['u','s','e','c'], .us), (['u','s'], .us), ([mu,'s'], .us),
    (['m','i','l','l','i','s'], .ms), (['m','s','e','c'], .ms), (['m','s'], .ms),
    (['s','e','c','o','n','d','s'], .s), (['s','e','c','o','n','d'], .s), (['s','e','c','s'], .s),
    (['s','e','c'], .s), (['s'], .s),
    (['m','i','n','u','t','e','s'], .min), (['m','i','n','u','t','e'], .min), (['m','i','n'], .min),
    (['m','i','n','s'], .min), (['m'], .min),
    (['h','o','u','r','s'], .h), (['h','o','u','r'], .h), (['h','r'], .h), (['h','r','s'], .h), (['h'], .h),
    (['d','a','y','s'], .d), (['d','a','y'], .d), (['d'], .d),
    (['w','e','e','k','s'], .w), (['w','e','e','k'], .w), (['w','k'], .w), (['w','k','s'], .w), (['w'], .w),
    (['m','o','n','t','h','s'], .mo), (['m','o','n','t','h'], .mo), (['M'], .mo),
    (['y','e','a','r','s'], .y), (['y','e','a','r'], .y), (['y','r'], .y), (['y','r','s'], .y), (['y'], .y) ]

def unitOfWord (w : List Char) : Option DUnit :=
  match unitTable.find? (fun e => e.1 = w) with
  | some e => some e.2
  | none => none

/-- `std::time::Duration`: `secs : u64`, `nanos < 10^9` -/
structure Dur where
  secs : Nat
  nanos : Nat
  deriving Repr, DecidableEq

def NPS : Nat := 1000000000

inductive DErr where
  | invalidChar | numberExpected | unknownUnit | overflow | empty
  deriving Repr, DecidableEq

abbrev R := Outcome DErr

def ckMul (a b : Nat) : Option Nat := if a * b ≤ U64_MAX then some (a * b) else none
def ckAdd (a b : Nat) : Option Nat := if a + b ≤ U64_MAX then some (a + b) else none
/-- `OverflowOp::div`: exact division or `NumberOverflow` (`d ≥ 10` wherever it is called) -/
def exDiv (a d : Nat) : Option Nat := if a % d = 0 then some (a / d) else none

/-- `Duration::new(secs, nanos)` -/
def durationNew (secs nanos : Nat) : R Dur :=
  if nanos < NPS then .ok ⟨secs, nanos⟩
  else if secs + nanos / NPS ≤ U64_MAX then .ok ⟨secs + nanos / NPS, nanos % NPS⟩
  else .panic "overflow in Duration::new"

/-- `add_current(sec, nsec, out)`; `nsec as u32` never truncates (the value is at most 10^9) -/
def addCurrent (sec nsec : Nat) (out : Dur) : R Dur :=
  match ckAdd out.nanos nsec with
  | none => .err .overflow
  | some ns =>
    let carried : Option (Nat × Nat) :=
      if ns > NPS then (ckAdd sec (ns / NPS)).map (fun s => (s, ns % NPS)) else some (sec, ns)
    match carried with
    | none => .err .overflow
    | some (sec', ns') =>
      match ckAdd out.secs sec' with
      | none => .err .overflow
      | some total => durationNew total ns'

/-- the `(sec, nsec)` of the integer part -/
def unitParts (u : DUnit) (n : Nat) : Option (Nat × Nat) :=
  match u with
  | .ns => some (0, n)
  | .us => (ckMul n 1000).map (fun x => (0, x))
  | .ms => (ckMul n 1000000).map (fun x => (0, x))
  | .s => some (n, 0)
  | .min => (ckMul n 60).map (fun x => (x, 0))
  | .h => (ckMul n 3600).map (fun x => (x, 0))
  | .d => (ckMul n 86400).map (fun x => (x, 0))
  | .w => (ckMul n 604800).map (fun x => (x, 0))
  | .mo => (ckMul n 2630016).map (fun x => (x, 0))
  | .y => (ckMul n 31557600).map (fun x => (x, 0))

/-- the `(sec, nsec)` of the fractional part `num / den` -/
def fracParts (u : DUnit) (num den : Nat) : Option (Nat × Nat) :=
  let md (m : Nat) : Option Nat := (ckMul num m).bind (fun x => exDiv x den)
  match u with
  | .ns => none
  | .us => (md 1000).map (fun x => (0, x))
  | .ms => (md 1000000).map (fun x => (0, x))
  | .s => (md 1000000000).map (fun x => (0, x))
  | .min => (md 60000000000).map (fun x => (0, x))
  | .h => (md 3600).map (fun x => (x, 0))
  | .d => (md 86400).map (fun x => (x, 0))
  | .w => (md 604800).map (fun x => (x, 0))
  | .mo => (md 2630016).map (fun x => (x, 0))
  | .y => (md 31557600).map (fun x => (x, 0))

/-- `parse_unit(n, frac, start, end, out)` with `word = src[start..end]` -/
def parseUnit (n : Nat) (fr : Option (Nat × Nat)) (word : List Char) (out : Dur) : R Dur :=
  match unitOfWord word with
  | none => .err .unknownUnit
  | some u =>
    match unitParts u n with
    | none => .err .overflow
    | some (sec, nsec) =>
      match addCurrent sec nsec out with
      | .ok out' =>
        match fr with
        | none => .ok out'
        | some (num, den) =>
          match fracParts u num den with
          | none => .err .overflow
          | some (s2, n2) => addCurrent s2 n2 out'
      | r => r

inductive St where
  | first (started : Bool)
  | num (n : Nat)
  | frac (n num den : Nat) (zeros : Bool)
  | unit (n : Nat) (fr : Option (Nat × Nat)) (word : List Char)
  deriving Repr, DecidableEq

/-- `'a'..='z' | 'A'..='Z' | 'µ'` -/
def isUnitChar (c : Char) : Bool :=
  (97 ≤ c.toNat && c.toNat ≤ 122) || (65 ≤ c.toNat && c.toNat ≤ 90) || c.toNat = 0xB5

def step (st : St) (out : Dur) (c : Char) : R (St × Dur) :=
  match st with
  | .first started =>
    if isAsciiDigit c then .ok (.num (digitVal c), out)
    else if isWhitespace c then .ok (.first started, out)
    else .err .numberExpected
  | .num n =>
    if isAsciiDigit c then
      match (ckMul n 10).bind (fun x => ckAdd x (digitVal c)) with
      | some n' => .ok (.num n', out)
      | none => .err .overflow
    else if isWhitespace c then .ok (.num n, out)
    else if isUnitChar c then .ok (.unit n none [c], out)
    else if c = '.' then .ok (.frac n 0 1 true, out)
    else .err .invalidChar
  | .frac n num den zeros =>
    if c = '0' then
      match ckMul den 10, (if zeros then some num else ckMul num 10) with
      | some den', some num' => .ok (.frac n num' den' zeros, out)
      | _, _ => .err .overflow
    else if isAsciiDigit c then
      match ckMul den 10, (ckMul num 10).bind (fun x => ckAdd x (digitVal c)) with
      | some den', some num' => .ok (.frac n num' den' false, out)
      | _, _ => .err .overflow
    else if isWhitespace c then .ok (.frac n num den zeros, out)
    else if isUnitChar c then
      if den = 1 then .err .invalidChar else .ok (.unit n (some (num, den)) [c], out)
    else .err .invalidChar
  | .unit n fr word =>
    if isAsciiDigit c then
      match parseUnit n fr word out with
      | .ok out' => .ok (.num (digitVal c), out')
      | .err e => .err e
      | .panic w => .panic w
    else if isWhitespace c then
      match parseUnit n fr word out with
      | .ok out' => .ok (.first true, out')
      | .err e => .err e
      | .panic w => .panic w
    else if isUnitChar c then .ok (.unit n fr (word ++ [c]), out)
    else .err .invalidChar

/-- end of input -/
def finish (st : St) (out : Dur) : R Dur :=
  match st with
  | .first false => .err .empty
  | .first true => .ok out
  | .num n => parseUnit n none [] out
  | .frac n num den _ => if den = 1 then .err .invalidChar else parseUnit n (some (num, den)) [] out
  | .unit n fr word => parseUnit n fr word out

def run : List Char → St → Dur → R Dur
  | [], st, out => finish st out
  | c :: cs, st, out =>
    match step st out c with
    | .ok (st', out') => run cs st' out'
    | .err e => .err e
    | .panic w => .panic w

/-- `humantime::parse_duration` -/
def parseDuration (s : List Char) : R Dur :=
  if s = ['0'] then .ok ⟨0, 0⟩ else run s (.first false) ⟨0, 0⟩

/-- `RawConfig.refresh_rate` as `de_duration` reads it. `caught = true` is the proposed repair (the
call wrapped in `catch_unwind`, a panic reported as an error); `false` is the code as it is. -/
def parseRefreshWith (caught : Bool) (s : List Char) : R Dur :=
  match parseDuration s with
  | .panic w => if caught then .err .overflow else .panic w
  | r => r

/-- flipped by the integrator when the `fix:` commit is in -/
def refreshPanicCaught : Bool := false

def parseRefresh (s : List Char) : R Dur := parseRefreshWith refreshPanicCaught s

end Log4rs.Literals.Dur
