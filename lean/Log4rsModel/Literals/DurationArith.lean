import Log4rsModel.Literals.DurationLemmas
/-
Arithmetic of one span and of a list of spans (`parse_unit`, `add_current`, `Duration::new`).
-/
namespace Log4rs.Literals.Dur
open Log4rs.Str Log4rs Log4rs.Literals

theorem DUnit.mult_pos (u : DUnit) : 1 ≤ u.mult := by cases u <;> decide

theorem DUnit.nanos_eq (u : DUnit) : u.nanos = if u.subSecond then u.mult else u.mult * NPS := by
  cases u <;> decide

/-- the integer part of a span, in the unit's own resolution -/
theorem unitParts_eq (u : DUnit) (n : Nat) (hn : n ≤ U64_MAX) :
    unitParts u n =
      if n * u.mult ≤ U64_MAX then some (if u.subSecond then (0, n * u.mult) else (n * u.mult, 0))
      else none := by
  cases u <;>
    simp [unitParts, ckMul, DUnit.mult, DUnit.subSecond, DUnit.nanos, NPS, hn] <;>
    split <;> simp_all

/-- value in nanoseconds of a list of spans (a word that is no unit counts 0; such a list is rejected) -/
def spanValue (p : SpanLit) : Nat :=
  match unitOfWord p.word with
  | some u => digitsVal p.ds * u.nanos
  | none => 0

def valueOf : List SpanLit → Nat
  | [] => 0
  | p :: l => spanValue p + valueOf l

theorem valueOf_append (a b : List SpanLit) : valueOf (a ++ b) = valueOf a + valueOf b := by
  induction a with
  | nil => simp [valueOf]
  | cons p l ih => simp [valueOf, ih, Nat.add_assoc]

theorem NPS_le_max : NPS ≤ U64_MAX := by decide

/-- without a fraction `parse_unit` is the range check of the multiplication and `add_current` -/
theorem parseUnit_none (n : Nat) (w : List Char) (out : Dur) (u : DUnit) (hu : unitOfWord w = some u)
    (hn : n ≤ U64_MAX) :
    parseUnit n none w out =
      if n * u.mult ≤ U64_MAX then
        addCurrent (if u.subSecond then 0 else n * u.mult) (if u.subSecond then n * u.mult else 0) out
      else .err .overflow := by
  unfold parseUnit
  rw [hu]
  simp only []
  rw [unitParts_eq u n hn]
  by_cases hm : n * u.mult ≤ U64_MAX
  · rw [if_pos hm, if_pos hm]
    by_cases hs : u.subSecond = true
    · simp only [hs, if_true]
      cases addCurrent 0 (n * u.mult) out <;> rfl
    · simp only [hs, if_false, Bool.false_eq_true]
      cases addCurrent (n * u.mult) 0 out <;> rfl
  · rw [if_neg hm, if_neg hm]

/-- one span: accepted exactly, or an overflow error, or the `Duration::new` panic at exactly 2^64 s -/
theorem spanStep_cases (p : SpanLit) (out : Dur) (hout : out.nanos < NPS) :
    (∃ d, spanStep p out = .ok d ∧ d.total = out.total + spanValue p ∧ d.nanos < NPS ∧ d.secs ≤ U64_MAX ∧
        (unitOfWord p.word).isSome) ∨
    (∃ e, spanStep p out = .err e ∧
        (unitOfWord p.word = none ∨
         ∃ u, unitOfWord p.word = some u ∧
          (U64_MAX < digitsVal p.ds * u.mult ∨ (u.subSecond = true ∧ U64_MAX < out.nanos + digitsVal p.ds * u.mult) ∨
           (U64_MAX + 1) * NPS ≤ out.total + spanValue p))) ∨
    (spanStep p out = .panic "overflow in Duration::new" ∧ out.total + spanValue p = (U64_MAX + 1) * NPS) := by
  unfold spanStep
  by_cases hfit : digitsVal p.ds ≤ U64_MAX
  · rw [if_pos hfit]
    cases hu : unitOfWord p.word with
    | none =>
      right; left
      refine ⟨.unknownUnit, ?_, Or.inl rfl⟩
      unfold parseUnit; rw [hu]
    | some u =>
      have hval : spanValue p = digitsVal p.ds * u.nanos := by unfold spanValue; rw [hu]
      rw [parseUnit_none _ _ _ u hu hfit, hval, DUnit.nanos_eq]
      have hmax := NPS_le_max
      have e' : (U64_MAX + 1) * NPS = U64_MAX * NPS + NPS := by rw [Nat.add_mul]; omega
      by_cases hm : digitsVal p.ds * u.mult ≤ U64_MAX
      · rw [if_pos hm]
        by_cases hs : u.subSecond = true
        · simp only [hs, if_true]
          generalize hv : digitsVal p.ds * u.mult = v at *
          rcases addCurrent_cases 0 v out hout with ⟨d, hd, ht, hn, hsec⟩ | ⟨he, hwhy⟩ | ⟨hp, ht⟩
          · left; exact ⟨d, hd, by rw [ht]; omega, hn, hsec, rfl⟩
          · right; left
            refine ⟨_, he, Or.inr ⟨u, rfl, ?_⟩⟩
            rcases hwhy with h | h
            · exact Or.inr (Or.inl ⟨hs, by omega⟩)
            · exact Or.inr (Or.inr (by omega))
          · right; right; exact ⟨hp, by omega⟩
        · simp only [hs, if_false, Bool.false_eq_true]
          have hassoc : digitsVal p.ds * (u.mult * NPS) = digitsVal p.ds * u.mult * NPS :=
            (Nat.mul_assoc _ _ _).symm
          rw [hassoc]
          generalize hv : digitsVal p.ds * u.mult = v at *
          rcases addCurrent_cases v 0 out hout with ⟨d, hd, ht, hn, hsec⟩ | ⟨he, hwhy⟩ | ⟨hp, ht⟩
          · left; exact ⟨d, hd, by rw [ht]; omega, hn, hsec, rfl⟩
          · right; left
            refine ⟨_, he, Or.inr ⟨u, rfl, ?_⟩⟩
            rcases hwhy with h | h
            · omega
            · exact Or.inr (Or.inr (by omega))
          · right; right; exact ⟨hp, by rw [Nat.add_zero] at ht; exact ht⟩
      · rw [if_neg hm]
        right; left
        exact ⟨_, rfl, Or.inr ⟨u, rfl, Or.inl (by omega)⟩⟩
  · rw [if_neg hfit]
    right; left
    refine ⟨_, rfl, ?_⟩
    cases hu : unitOfWord p.word with
    | none => exact Or.inl rfl
    | some u =>
      right
      refine ⟨u, rfl, Or.inl ?_⟩
      have := DUnit.mult_pos u
      have : digitsVal p.ds ≤ digitsVal p.ds * u.mult := Nat.le_mul_of_pos_right _ this
      omega

theorem obind_ok {α β} (r : R α) (f : α → R β) (b : β) (h : obind r f = .ok b) :
    ∃ a, r = .ok a ∧ f a = .ok b := by
  cases r with
  | ok a => exact ⟨a, rfl, h⟩
  | err e => simp [obind] at h
  | panic w => simp [obind] at h

/-- an accepted list of spans: the exact sum, normalised, every word a unit -/
theorem foldSpans_ok (l : List SpanLit) (out d : Dur) (hout : out.nanos < NPS) (hsec : out.secs ≤ U64_MAX)
    (h : foldSpans l out = .ok d) :
    d.total = out.total + valueOf l ∧ d.nanos < NPS ∧ d.secs ≤ U64_MAX ∧
      ∀ p ∈ l, (unitOfWord p.word).isSome = true := by
  induction l generalizing out with
  | nil =>
    simp only [foldSpans, Outcome.ok.injEq] at h
    subst h
    exact ⟨by simp [valueOf], hout, hsec, by simp⟩
  | cons p l ih =>
    simp only [foldSpans] at h
    obtain ⟨d1, h1, h2⟩ := obind_ok _ _ _ h
    rcases spanStep_cases p out hout with ⟨d', hd', ht, hn, hs, hu⟩ | ⟨e, he, _⟩ | ⟨hp, _⟩
    · rw [hd'] at h1
      simp only [Outcome.ok.injEq] at h1; subst h1
      obtain ⟨t2, n2, s2, u2⟩ := ih d' hn hs h2
      refine ⟨by rw [t2, ht]; simp only [valueOf]; omega, n2, s2, ?_⟩
      intro q hq
      rcases List.mem_cons.mp hq with rfl | hq
      · exact hu
      · exact u2 q hq
    · rw [he] at h1; simp at h1
    · rw [hp] at h1; simp at h1

/-- a panic happens only when the exact sum of the spans read so far is exactly 2^64 seconds -/
theorem foldSpans_panic (l : List SpanLit) (out : Dur) (w : String) (hout : out.nanos < NPS)
    (h : foldSpans l out = .panic w) :
    ∃ l1 p l2, l = l1 ++ p :: l2 ∧ out.total + valueOf (l1 ++ [p]) = (U64_MAX + 1) * NPS := by
  induction l generalizing out with
  | nil => simp [foldSpans] at h
  | cons p l ih =>
    simp only [foldSpans] at h
    rcases spanStep_cases p out hout with ⟨d', hd', ht, hn, _, _⟩ | ⟨e, he, _⟩ | ⟨_, ht⟩
    · rw [hd'] at h
      simp only [obind] at h
      obtain ⟨l1, q, l2, hl, hv⟩ := ih d' hn h
      refine ⟨p :: l1, q, l2, by rw [hl]; rfl, ?_⟩
      rw [ht] at hv
      simp only [List.cons_append, valueOf]
      omega
    · rw [he] at h; simp [obind] at h
    · exact ⟨[], p, l, rfl, by simpa [valueOf] using ht⟩

/-- what makes a span list fit: every number x multiplier fits `u64` in the unit's own resolution, a
sub-second span stays 10^9 below 2^64 nanoseconds, and the whole sum is below 2^64 seconds -/
def Fits (p : SpanLit) : Prop :=
  ∃ u, unitOfWord p.word = some u ∧ digitsVal p.ds * u.mult ≤ U64_MAX ∧
    (u.subSecond = true → digitsVal p.ds * u.mult + NPS ≤ U64_MAX + 1)

theorem foldSpans_fits (l : List SpanLit) (out : Dur) (hout : out.nanos < NPS)
    (hl : ∀ p ∈ l, Fits p) (htot : out.total + valueOf l < (U64_MAX + 1) * NPS) :
    ∃ d, foldSpans l out = .ok d := by
  induction l generalizing out with
  | nil => exact ⟨out, rfl⟩
  | cons p l ih =>
    obtain ⟨u, hu, hm, hsub⟩ := hl p (by simp)
    simp only [valueOf] at htot
    simp only [foldSpans]
    rcases spanStep_cases p out hout with ⟨d', hd', ht, hn, _, _⟩ | ⟨e, _, hwhy⟩ | ⟨_, ht⟩
    · rw [hd']
      simp only [obind]
      exact ih d' hn (fun q hq => hl q (by simp [hq])) (by rw [ht]; omega)
    · exfalso
      rcases hwhy with h | ⟨u', hu', h⟩
      · rw [hu] at h; simp at h
      · rw [hu] at hu'
        simp only [Option.some.injEq] at hu'
        subst hu'
        rcases h with h | ⟨hs, h⟩ | h
        · omega
        · have := hsub hs; omega
        · omega
    · omega

/-! ### rejections on arbitrary texts -/

/-- a character that belongs to no token of the grammar -/
def BadChar (c : Char) : Prop :=
  isAsciiDigit c = false ∧ isWhitespace c = false ∧ isUnitChar c = false ∧ c ≠ '.'

theorem step_bad (st : St) (out : Dur) (c : Char) (hc : BadChar c) : ∃ e, step st out c = .err e := by
  obtain ⟨hd, hw, hu, hdot⟩ := hc
  have h0 : c ≠ '0' := by intro h; subst h; simp [isAsciiDigit] at hd
  cases st with
  | first b => exact ⟨.numberExpected, by simp [step, hd, hw]⟩
  | num n => exact ⟨.invalidChar, by simp [step, hd, hw, hu, hdot]⟩
  | frac n a b z => exact ⟨.invalidChar, by simp [step, hd, hw, hu, h0]⟩
  | unit n fr w => exact ⟨.invalidChar, by simp [step, hd, hw, hu]⟩

theorem run_bad (s : List Char) (st : St) (out : Dur) (h : ∃ c ∈ s, BadChar c) (d : Dur) :
    run s st out ≠ .ok d := by
  induction s generalizing st out with
  | nil => simp at h
  | cons c cs ih =>
    rw [run_cons]
    by_cases hc : BadChar c
    · obtain ⟨e, he⟩ := step_bad st out c hc
      rw [he]; simp [obind]
    · have h' : ∃ x ∈ cs, BadChar x := by
        obtain ⟨x, hx, hb⟩ := h
        rcases List.mem_cons.mp hx with rfl | hx
        · exact absurd hb hc
        · exact ⟨x, hx, hb⟩
      cases hs : step st out c with
      | ok p => simp only [obind]; exact ih p.1 p.2 h'
      | err e => simp [obind]
      | panic w => simp [obind]

end Log4rs.Literals.Dur
