import Log4rsModel.Literals.DurationSpec
import Log4rsModel.Literals.Lemmas
/-
Lemmas about the model of `humantime::parse_duration` (Literals/Duration.lean): the state machine on
texts that are sequences of `<digits><white space><unit word><white space>` spans, and the arithmetic
of `add_current` / `Duration::new`.
-/
namespace Log4rs.Literals.Dur
open Log4rs.Str Log4rs Log4rs.Literals

def obind {α β} (r : R α) (f : α → R β) : R β :=
  match r with
  | .ok a => f a
  | .err e => .err e
  | .panic w => .panic w

/-- nanoseconds of a duration -/
def Dur.total (d : Dur) : Nat := d.secs * NPS + d.nanos

/-! ### the state machine, phase by phase -/

theorem run_cons (c : Char) (cs : List Char) (st : St) (out : Dur) :
    run (c :: cs) st out = obind (step st out c) (fun p => run cs p.1 p.2) := by
  simp only [run, obind]
  cases step st out c <;> rfl

def accDigits (n : Nat) (ds : List Char) : Nat := ds.foldl (fun a c => a * 10 + digitVal c) n

theorem accDigits_cons (n : Nat) (c : Char) (cs : List Char) :
    accDigits n (c :: cs) = accDigits (n * 10 + digitVal c) cs := by
  simp only [accDigits, List.foldl_cons]

theorem accDigits_ge (n : Nat) (ds : List Char) : n ≤ accDigits n ds := by
  induction ds generalizing n with
  | nil => exact Nat.le_refl _
  | cons c cs ih =>
    have h1 : n ≤ n * 10 + digitVal c := by omega
    rw [accDigits_cons]
    exact Nat.le_trans h1 (ih (n * 10 + digitVal c))

/-- the number loop on digits: checked accumulation; an intermediate overflow is a final overflow -/
theorem run_digits (ds r : List Char) (n : Nat) (out : Dur) (hn : n ≤ U64_MAX)
    (hds : ∀ c ∈ ds, isAsciiDigit c = true) :
    run (ds ++ r) (.num n) out =
      if accDigits n ds ≤ U64_MAX then run r (.num (accDigits n ds)) out else .err .overflow := by
  induction ds generalizing n with
  | nil => simp [accDigits, hn]
  | cons c cs ih =>
    have hc := hds c (by simp)
    rw [List.cons_append, run_cons, accDigits_cons]
    by_cases hfit : n * 10 + digitVal c ≤ U64_MAX
    · have h10 : n * 10 ≤ U64_MAX := by omega
      simp only [step, hc, if_true, ckMul, ckAdd, h10, Option.bind, hfit, obind]
      exact ih _ hfit (fun x hx => hds x (by simp [hx]))
    · have hge := accDigits_ge (n * 10 + digitVal c) cs
      have : ¬ accDigits (n * 10 + digitVal c) cs ≤ U64_MAX := by omega
      rw [if_neg this]
      simp only [step, hc, if_true, ckMul, ckAdd]
      by_cases h10 : n * 10 ≤ U64_MAX
      · simp [h10, Option.bind, hfit, obind]
      · simp [h10, Option.bind, obind]

theorem run_ws_num (ws r : List Char) (n : Nat) (out : Dur) (hws : AllWs ws) :
    run (ws ++ r) (.num n) out = run r (.num n) out := by
  induction ws with
  | nil => rfl
  | cons c cs ih =>
    have hc := hws c (by simp)
    rw [List.cons_append, run_cons]
    simp only [step, ws_not_digit c hc, hc, Bool.false_eq_true, if_false, if_true, obind]
    exact ih (fun x hx => hws x (by simp [hx]))

theorem run_ws_first (ws r : List Char) (b : Bool) (out : Dur) (hws : AllWs ws) :
    run (ws ++ r) (.first b) out = run r (.first b) out := by
  induction ws with
  | nil => rfl
  | cons c cs ih =>
    have hc := hws c (by simp)
    rw [List.cons_append, run_cons]
    simp only [step, ws_not_digit c hc, hc, Bool.false_eq_true, if_false, if_true, obind]
    exact ih (fun x hx => hws x (by simp [hx]))

/-- a unit word: letters (or µ) only -/
def WordChars (w : List Char) : Prop :=
  ∀ c ∈ w, isUnitChar c = true ∧ isAsciiDigit c = false ∧ isWhitespace c = false

theorem unitChar_props (c : Char) (h : isUnitChar c = true) :
    isAsciiDigit c = false ∧ isWhitespace c = false := by
  simp only [isUnitChar, Bool.or_eq_true, Bool.and_eq_true, decide_eq_true_eq] at h
  constructor
  · simp [isAsciiDigit]; omega
  · simp [isWhitespace]; omega

theorem run_word_unit (w r : List Char) (n : Nat) (fr : Option (Nat × Nat)) (acc : List Char) (out : Dur)
    (hw : ∀ c ∈ w, isUnitChar c = true) :
    run (w ++ r) (.unit n fr acc) out = run r (.unit n fr (acc ++ w)) out := by
  induction w generalizing acc with
  | nil => simp
  | cons c cs ih =>
    have hc := hw c (by simp)
    obtain ⟨hd, hs⟩ := unitChar_props c hc
    rw [List.cons_append, run_cons]
    simp only [step, hd, hs, hc, Bool.false_eq_true, if_false, if_true, obind]
    rw [ih _ (fun x hx => hw x (by simp [hx]))]
    simp

theorem run_word_num (c : Char) (w r : List Char) (n : Nat) (out : Dur)
    (hw : ∀ x ∈ c :: w, isUnitChar x = true) :
    run (c :: w ++ r) (.num n) out = run r (.unit n none (c :: w)) out := by
  have hc := hw c (by simp)
  obtain ⟨hd, hs⟩ := unitChar_props c hc
  rw [List.cons_append, run_cons]
  simp only [step, hd, hs, hc, Bool.false_eq_true, if_false, if_true, obind]
  rw [run_word_unit w r n none [c] out (fun x hx => hw x (by simp [hx]))]
  simp

/-- the end of a span: when the text is over, or goes on with white space or a digit, the span is
added (`parse_unit`) and parsing resumes as after `parse_first_char` -/
theorem run_unit_end (r : List Char) (n : Nat) (fr : Option (Nat × Nat)) (w : List Char) (out : Dur)
    (hr : r = [] ∨ ∃ c t, r = c :: t ∧ (isAsciiDigit c = true ∨ isWhitespace c = true)) :
    run r (.unit n fr w) out = obind (parseUnit n fr w out) (fun out' => run r (.first true) out') := by
  rcases hr with rfl | ⟨c, t, rfl, hc⟩
  · simp only [run, finish, obind]
    cases parseUnit n fr w out <;> rfl
  · rw [run_cons]
    by_cases hd : isAsciiDigit c = true
    · simp only [step, hd, if_true]
      cases parseUnit n fr w out with
      | ok o => simp only [obind]; rw [run_cons]; simp [step, hd, obind]
      | err e => rfl
      | panic p => rfl
    · have hd' : isAsciiDigit c = false := by simpa using hd
      have hs : isWhitespace c = true := by rcases hc with h | h; exact absurd h hd; exact h
      simp only [step, hd', hs, Bool.false_eq_true, if_false, if_true]
      cases parseUnit n fr w out with
      | ok o => simp only [obind]; rw [run_cons]; simp [step, hd', hs, obind]
      | err e => rfl
      | panic p => rfl

/-! ### spans -/

/-- one span as the generator writes it: digits, white space, a word of letters, white space -/
structure SpanLit where
  ds : List Char
  ws : List Char
  word : List Char
  sep : List Char

def SpanLit.text (p : SpanLit) : List Char := p.ds ++ (p.ws ++ (p.word ++ p.sep))

def SpanLit.wf (p : SpanLit) : Prop :=
  Digits p.ds ∧ AllWs p.ws ∧ AllWs p.sep ∧ p.word ≠ [] ∧ ∀ c ∈ p.word, isUnitChar c = true

def texts : List SpanLit → List Char
  | [] => []
  | p :: l => p.text ++ texts l

/-- what one span does to the running duration: the number must fit `u64`, then `parse_unit` -/
def spanStep (p : SpanLit) (out : Dur) : R Dur :=
  if digitsVal p.ds ≤ U64_MAX then parseUnit (digitsVal p.ds) none p.word out else .err .overflow

def foldSpans : List SpanLit → Dur → R Dur
  | [], out => .ok out
  | p :: l, out => obind (spanStep p out) (foldSpans l)

theorem texts_head (l : List SpanLit) (hl : ∀ p ∈ l, p.wf) :
    texts l = [] ∨ ∃ c t, texts l = c :: t ∧ (isAsciiDigit c = true ∨ isWhitespace c = true) := by
  cases l with
  | nil => left; rfl
  | cons p l' =>
    right
    obtain ⟨⟨hne, hd⟩, _⟩ := hl p (by simp)
    cases hds : p.ds with
    | nil => exact absurd hds hne
    | cons a t =>
      refine ⟨a, t ++ (p.ws ++ (p.word ++ p.sep)) ++ texts l', ?_, Or.inl (hd a (by simp [hds]))⟩
      simp [texts, SpanLit.text, hds]

/-- The parser on a sequence of well-formed spans is the fold of `spanStep`. -/
theorem run_spans (l : List SpanLit) (hl : ∀ p ∈ l, p.wf) (b : Bool) (out : Dur) (hne : l ≠ [] ∨ b = true) :
    run (texts l) (.first b) out = foldSpans l out := by
  induction l generalizing b out with
  | nil =>
    rcases hne with h | h
    · exact absurd rfl h
    · subst h; rfl
  | cons p l' ih =>
    obtain ⟨⟨hdne, hd⟩, hws, hsep, hwne, hw⟩ := hl p (by simp)
    have hl' : ∀ q ∈ l', q.wf := fun q hq => hl q (by simp [hq])
    cases hds : p.ds with
    | nil => exact absurd hds hdne
    | cons a t =>
      cases hwd : p.word with
      | nil => exact absurd hwd hwne
      | cons wc wt =>
        have ha : isAsciiDigit a = true := hd a (by simp [hds])
        have ht : ∀ c ∈ t, isAsciiDigit c = true := fun c hc => hd c (by simp [hds, hc])
        have hval : accDigits (digitVal a) t = digitsVal p.ds := by rw [hds]; simp [digitsVal, accDigits]
        have ha9 : digitVal a ≤ U64_MAX := by
          simp only [isAsciiDigit, Bool.and_eq_true, decide_eq_true_eq] at ha
          simp only [digitVal, U64_MAX]
          have : a.toNat ≤ 57 := ha.2
          omega
        -- the text: a :: t ++ ws ++ (wc :: wt) ++ sep ++ rest
        have htext : texts (p :: l') = a :: (t ++ (p.ws ++ ((wc :: wt) ++ (p.sep ++ texts l')))) := by
          simp [texts, SpanLit.text, hds, hwd]
        rw [htext, run_cons]
        simp only [step, ha, if_true, obind]
        rw [run_digits t _ (digitVal a) out ha9 ht, hval]
        simp only [foldSpans, spanStep]
        by_cases hfit : digitsVal p.ds ≤ U64_MAX
        · rw [if_pos hfit, if_pos hfit, run_ws_num _ _ _ _ hws]
          have hw' : ∀ x ∈ wc :: wt, isUnitChar x = true := by rw [← hwd]; exact hw
          have := run_word_num wc wt (p.sep ++ texts l') (digitsVal p.ds) out hw'
          rw [List.cons_append] at this
          rw [List.cons_append, this]
          have hend : p.sep ++ texts l' = [] ∨
              ∃ c t, p.sep ++ texts l' = c :: t ∧ (isAsciiDigit c = true ∨ isWhitespace c = true) := by
            cases hs : p.sep with
            | nil => simpa using texts_head l' hl'
            | cons s1 st => exact Or.inr ⟨s1, st ++ texts l', rfl, Or.inr (hsep s1 (by simp [hs]))⟩
          rw [run_unit_end _ _ _ _ _ hend, hwd]
          congr 1
          funext out'
          rw [run_ws_first _ _ _ _ hsep]
          exact ih hl' true out' (Or.inr rfl)
        · rw [if_neg hfit, if_neg hfit]; rfl

/-! ### arithmetic -/

theorem ckAdd_some (a b c : Nat) : ckAdd a b = some c ↔ a + b ≤ U64_MAX ∧ c = a + b := by
  unfold ckAdd; split <;> simp_all <;> omega

theorem ckMul_some (a b c : Nat) : ckMul a b = some c ↔ a * b ≤ U64_MAX ∧ c = a * b := by
  unfold ckMul; split <;> simp_all <;> omega

theorem NPS_pos : 0 < NPS := by decide

/-- `add_current`: what comes out, exactly -/
theorem addCurrent_cases (sec nsec : Nat) (out : Dur) (hout : out.nanos < NPS) :
    (∃ d, addCurrent sec nsec out = .ok d ∧ d.total = out.total + sec * NPS + nsec ∧ d.nanos < NPS ∧
        d.secs ≤ U64_MAX) ∨
    (addCurrent sec nsec out = .err .overflow ∧
        (U64_MAX < out.nanos + nsec ∨ U64_MAX * NPS + NPS ≤ out.total + sec * NPS + nsec)) ∨
    (addCurrent sec nsec out = .panic "overflow in Duration::new" ∧
        out.total + sec * NPS + nsec = (U64_MAX + 1) * NPS) := by
  unfold addCurrent
  by_cases h1 : out.nanos + nsec ≤ U64_MAX
  · have e1 : ckAdd out.nanos nsec = some (out.nanos + nsec) := by simp [ckAdd, h1]
    simp only [e1]
    generalize hns : out.nanos + nsec = ns at *
    have hdm := Nat.div_add_mod ns NPS
    have hml := Nat.mod_lt ns NPS_pos
    by_cases h2 : ns > NPS
    · simp only [h2, if_true]
      by_cases h3 : sec + ns / NPS ≤ U64_MAX
      · have e3 : ckAdd sec (ns / NPS) = some (sec + ns / NPS) := by simp [ckAdd, h3]
        simp only [e3, Option.map]
        by_cases h4 : out.secs + (sec + ns / NPS) ≤ U64_MAX
        · left
          have e4 : ckAdd out.secs (sec + ns / NPS) = some (out.secs + (sec + ns / NPS)) := by simp [ckAdd, h4]
          simp only [e4, durationNew, hml, if_true]
          refine ⟨_, rfl, ?_, hml, h4⟩
          simp only [Dur.total]
          have : (out.secs + (sec + ns / NPS)) * NPS = out.secs * NPS + sec * NPS + NPS * (ns / NPS) := by
            rw [Nat.add_mul, Nat.add_mul, Nat.mul_comm (ns / NPS)]; omega
          omega
        · right; left
          have e4 : ckAdd out.secs (sec + ns / NPS) = none := by simp [ckAdd, h4]
          simp only [e4]
          refine ⟨by first | trivial | rfl, Or.inr ?_⟩
          simp only [Dur.total]
          have h5 : U64_MAX + 1 ≤ out.secs + (sec + ns / NPS) := by omega
          have : (U64_MAX + 1) * NPS ≤ (out.secs + (sec + ns / NPS)) * NPS := Nat.mul_le_mul_right _ h5
          have e : (out.secs + (sec + ns / NPS)) * NPS = out.secs * NPS + sec * NPS + NPS * (ns / NPS) := by
            rw [Nat.add_mul, Nat.add_mul, Nat.mul_comm (ns / NPS)]; omega
          have e' : (U64_MAX + 1) * NPS = U64_MAX * NPS + NPS := by rw [Nat.add_mul]; omega
          omega
      · right; left
        have e3 : ckAdd sec (ns / NPS) = none := by simp [ckAdd, h3]
        simp only [e3, Option.map]
        refine ⟨by first | trivial | rfl, Or.inr ?_⟩
        simp only [Dur.total]
        have h5 : U64_MAX + 1 ≤ sec + ns / NPS := by omega
        have : (U64_MAX + 1) * NPS ≤ (sec + ns / NPS) * NPS := Nat.mul_le_mul_right _ h5
        have e : (sec + ns / NPS) * NPS = sec * NPS + NPS * (ns / NPS) := by
          rw [Nat.add_mul, Nat.mul_comm (ns / NPS)]
        have e' : (U64_MAX + 1) * NPS = U64_MAX * NPS + NPS := by rw [Nat.add_mul]; omega
        omega
    · simp only [h2, if_false]
      by_cases h4 : out.secs + sec ≤ U64_MAX
      · have e4 : ckAdd out.secs sec = some (out.secs + sec) := by simp [ckAdd, h4]
        simp only [e4, durationNew]
        by_cases h5 : ns < NPS
        · left
          simp only [h5, if_true]
          refine ⟨_, rfl, ?_, h5, h4⟩
          simp only [Dur.total]
          rw [Nat.add_mul]; omega
        · have h6 : ns = NPS := by omega
          subst h6
          have hdiv : NPS / NPS = 1 := Nat.div_self NPS_pos
          have hmod : NPS % NPS = 0 := Nat.mod_self NPS
          simp only [Nat.lt_irrefl, if_false, hdiv, hmod]
          by_cases h7 : out.secs + sec + 1 ≤ U64_MAX
          · left
            simp only [h7, if_true]
            refine ⟨_, rfl, ?_, NPS_pos, h7⟩
            simp only [Dur.total]
            rw [Nat.add_mul, Nat.add_mul]; omega
          · right; right
            simp only [h7, if_false]
            refine ⟨by first | trivial | rfl, ?_⟩
            simp only [Dur.total]
            have : out.secs + sec = U64_MAX := by omega
            rw [Nat.add_mul]
            have e : out.secs * NPS + sec * NPS = U64_MAX * NPS := by rw [← Nat.add_mul, this]
            omega
      · right; left
        have e4 : ckAdd out.secs sec = none := by simp [ckAdd, h4]
        simp only [e4]
        refine ⟨by first | trivial | rfl, Or.inr ?_⟩
        simp only [Dur.total]
        have h5 : U64_MAX + 1 ≤ out.secs + sec := by omega
        have : (U64_MAX + 1) * NPS ≤ (out.secs + sec) * NPS := Nat.mul_le_mul_right _ h5
        have e : (out.secs + sec) * NPS = out.secs * NPS + sec * NPS := Nat.add_mul _ _ _
        have e' : (U64_MAX + 1) * NPS = U64_MAX * NPS + NPS := by rw [Nat.add_mul]; omega
        omega
  · right; left
    have e1 : ckAdd out.nanos nsec = none := by simp [ckAdd, h1]
    simp only [e1]
    exact ⟨by first | trivial | rfl, Or.inl (by omega)⟩

end Log4rs.Literals.Dur
