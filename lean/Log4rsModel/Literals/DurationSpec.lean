import Log4rsModel.Literals.Duration
/-
What C20 claims of `refresh_rate` (scope decision of the integrator, props.d/C20.json): the value of an
accepted text is exactly the sum of number x unit over its spans, a value that overflows is rejected
with an error, nothing panics, junk is rejected. NOT claimed (humantime's documented grammar differs
from the trigger literals): bare numbers, letter-case folding, fractions.

`durRead` is an independent reader of the span grammar for texts without a fraction: a text is a
sequence of spans `<number><word>`, where a number is a run of digits and white space containing at
least one digit (humantime skips white space anywhere before the unit word) and the word is a
maximal run of letters; trailing white space is allowed.
-/
namespace Log4rs.Literals.Dur
open Log4rs.Str Log4rs.Literals

/-- nanoseconds per unit (months are 30.44 days, years 365.25 days, as humantime documents) -/
def DUnit.nanos : DUnit → Nat
  | .ns => 1 | .us => 1000 | .ms => 1000000 | .s => NPS | .min => 60 * NPS | .h => 3600 * NPS
  | .d => 86400 * NPS | .w => 604800 * NPS | .mo => 2630016 * NPS | .y => 31557600 * NPS

def DUnit.subSecond : DUnit → Bool
  | .ns | .us | .ms => true
  | _ => false

/-- the multiplier in the unit's own resolution (nanoseconds for sub-second units, seconds otherwise) -/
def DUnit.mult (u : DUnit) : Nat := if u.subSecond then u.nanos else u.nanos / NPS

/-- exact value of a list of spans in nanoseconds -/
def total : List (Nat × DUnit) → Nat
  | [] => 0
  | (n, u) :: r => n * u.nanos + total r

inductive Expect where
  | accept (secs nanos : Nat)      -- must be accepted with exactly this value
  | reject                         -- must be rejected with an error
  | either (secs nanos : Nat)      -- may be rejected; if accepted, exactly this value
  | unclaimed                      -- anything but a panic
  deriving Repr, DecidableEq

/-- The statement on a list of spans. A span whose number, or number x multiplier in the unit's own
resolution, does not fit `u64` overflows; a sum of 2^64 seconds or more overflows; a sub-second span
within 10^9 of 2^64 nanoseconds may or may not be accepted (it depends on the nanoseconds carried
so far), everything else must be accepted exactly. -/
def expectSpans (spans : List (Nat × DUnit)) : Expect :=
  if spans.isEmpty then .reject
  else if spans.any (fun p => decide (p.1 > U64_MAX) || decide (p.1 * p.2.mult > U64_MAX)) then .reject
  else if total spans ≥ 2 ^ 64 * NPS then .reject
  else if spans.all (fun p => !p.2.subSecond || decide (p.1 * p.2.mult + NPS ≤ 2 ^ 64)) then
    .accept (total spans / NPS) (total spans % NPS)
  else .either (total spans / NPS) (total spans % NPS)

def readNumber : List Char → Nat → Bool → Nat × Bool × List Char
  | [], acc, saw => (acc, saw, [])
  | c :: cs, acc, saw =>
    if isAsciiDigit c then readNumber cs (acc * 10 + digitVal c) true
    else if isWhitespace c then readNumber cs acc saw
    else (acc, saw, c :: cs)

def readWord : List Char → List Char × List Char
  | [] => ([], [])
  | c :: cs => if isUnitChar c then ((readWord cs).1.cons c, (readWord cs).2) else ([], c :: cs)

def durRead : Nat → List Char → Option (List (Nat × DUnit))
  | 0, _ => none
  | fuel + 1, s =>
    match readNumber s 0 false with
    | (_, false, rest) => if rest.isEmpty then some [] else none
    | (n, true, rest) =>
      match unitOfWord (readWord rest).1 with
      | none => none
      | some u => (durRead fuel (readWord rest).2).map (fun r => (n, u) :: r)

/-- the statement on a raw `refresh_rate` string -/
def expectRefresh (s : List Char) : Expect :=
  if s.any (fun c => c = '.') then .unclaimed                      -- fractions
  else if !s.any isUnitChar then .unclaimed                        -- bare numbers, empty text
  else match durRead (s.length + 1) s with
    | none => .reject
    | some spans => expectSpans spans

end Log4rs.Literals.Dur
