import Log4rsModel.Literals.Spec
namespace Log4rs.Literals
open Log4rs.Str

theorem digit_not_ws (c : Char) (h : isAsciiDigit c = true) : isWhitespace c = false := by
  simp only [isAsciiDigit, Bool.and_eq_true, decide_eq_true_eq] at h
  have h1 : 48 ≤ c.toNat := by simpa using h.1
  have h2 : c.toNat ≤ 57 := by simpa using h.2
  simp only [isWhitespace]
  simp
  omega

theorem dropWhile_ws_digits (s : List Char) (h : ∀ c ∈ s, isAsciiDigit c = true) :
    s.dropWhile isWhitespace = s := by
  cases s with
  | nil => rfl
  | cons a t =>
    have := digit_not_ws a (h a (by simp))
    simp [List.dropWhile, this]

theorem trim_digits (s : List Char) (h : ∀ c ∈ s, isAsciiDigit c = true) : trim s = s := by
  unfold trim trimEnd trimStart
  rw [dropWhile_ws_digits s h]
  rw [dropWhile_ws_digits s.reverse (by intro c hc; exact h c (by simpa using hc))]
  simp

theorem takeWhile_all (p : Char → Bool) (s : List Char) : ∀ c ∈ s.takeWhile p, p c = true := by
  induction s with
  | nil => simp
  | cons a t ih =>
    intro c hc
    by_cases ha : p a = true
    · simp [List.takeWhile, ha] at hc
      rcases hc with rfl | hc
      · exact ha
      · exact ih c hc
    · simp [List.takeWhile, ha] at hc

theorem take_drop_while (p : Char → Bool) (s : List Char) :
    s.takeWhile p ++ s.dropWhile p = s := List.takeWhile_append_dropWhile

theorem dropWhile_head (p : Char → Bool) (s : List Char) (c : Char) (t : List Char)
    (h : s.dropWhile p = c :: t) : p c = false := by
  induction s with
  | nil => simp at h
  | cons a r ih =>
    by_cases ha : p a = true
    · simp [List.dropWhile, ha] at h; exact ih h
    · simp [List.dropWhile, ha] at h
      rcases h with ⟨rfl, _⟩
      simpa using ha

/-- every unit multiplier is positive -/
theorem sizeUnit_pos : ∀ e ∈ sizeUnitTable, 1 ≤ e.2 := by decide

theorem lookupUnit_mem {α} (table : List (List Char × α)) (u : List Char) (a : α)
    (h : lookupUnit table u = some a) : ∃ e ∈ table, e.2 = a ∧ eqIgnoreAsciiCase u e.1 = true := by
  unfold lookupUnit at h
  split at h
  · rename_i e he
    simp at h
    exact ⟨e, List.mem_of_find?_eq_some he, h, by simpa using List.find?_some he⟩
  · simp at h

theorem parseUnsigned_digits (max : Nat) (ds : List Char) (hne : ds ≠ [])
    (h : ∀ c ∈ ds, isAsciiDigit c = true) :
    parseUnsigned max ds = if digitsVal ds ≤ max then some (digitsVal ds) else none := by
  cases ds with
  | nil => exact absurd rfl hne
  | cons a t =>
    have ha : a ≠ '+' := by
      intro e; subst e
      have := h '+' (by simp)
      simp [isAsciiDigit] at this
    have hs : stripPlus (a :: t) = a :: t := by
      unfold stripPlus
      split
      · rename_i r heq; simp at heq; exact absurd heq.1 ha
      · rfl
    have hall : (a :: t).all isAsciiDigit = true := by
      simpa [List.all_eq_true] using h
    simp [parseUnsigned, parseDigits, hs, hall]


def isAsciiAlpha (c : Char) : Bool :=
  (65 ≤ c.toNat && c.toNat ≤ 90) || (97 ≤ c.toNat && c.toNat ≤ 122)

def isLowerAlpha (c : Char) : Bool := 97 ≤ c.toNat && c.toNat ≤ 122

theorem alpha_not_digit (c : Char) (h : isAsciiAlpha c = true) : isAsciiDigit c = false := by
  simp [isAsciiAlpha] at h
  simp [isAsciiDigit]
  omega

theorem alpha_not_ws (c : Char) (h : isAsciiAlpha c = true) : isWhitespace c = false := by
  simp [isAsciiAlpha] at h
  simp [isWhitespace]
  omega

theorem ws_not_digit (c : Char) (h : isWhitespace c = true) : isAsciiDigit c = false := by
  cases hd : isAsciiDigit c with
  | false => rfl
  | true => rw [digit_not_ws c hd] at h; exact absurd h (by simp)

theorem lower_alpha (c : Char) (h : isLowerAlpha (toAsciiLower c) = true) : isAsciiAlpha c = true := by
  unfold toAsciiLower at h
  split at h
  · rename_i hc
    simp [isAsciiAlpha]
    have h1 : 65 ≤ c.toNat := by simpa using hc.1
    have h2 : c.toNat ≤ 90 := by simpa using hc.2
    omega
  · simp [isLowerAlpha] at h
    simp [isAsciiAlpha]
    omega

theorem takeWhile_append (p : Char → Bool) (ds r : List Char) (hds : ∀ c ∈ ds, p c = true)
    (hr : r = [] ∨ ∃ c t, r = c :: t ∧ p c = false) :
    (ds ++ r).takeWhile p = ds ∧ (ds ++ r).dropWhile p = r := by
  induction ds with
  | nil =>
    rcases hr with rfl | ⟨c, t, rfl, hc⟩
    · simp
    · simp [hc]
  | cons a t ih =>
    have ha := hds a (by simp)
    have := ih (fun c hc => hds c (by simp [hc]))
    simp [ha, this]

theorem trimStart_append (ws u : List Char) (hws : ∀ c ∈ ws, isWhitespace c = true)
    (hu : u = [] ∨ ∃ c t, u = c :: t ∧ isWhitespace c = false) : trimStart (ws ++ u) = u := by
  unfold trimStart
  exact (takeWhile_append isWhitespace ws u hws hu).2

theorem trimEnd_append (u ws : List Char) (hws : ∀ c ∈ ws, isWhitespace c = true)
    (hu : u = [] ∨ ∃ c t, u = t ++ [c] ∧ isWhitespace c = false) : trimEnd (u ++ ws) = u := by
  unfold trimEnd
  rw [List.reverse_append]
  have := (takeWhile_append isWhitespace ws.reverse u.reverse
    (fun c hc => hws c (by simpa using hc))
    (by
      rcases hu with rfl | ⟨c, t, rfl, hc⟩
      · left; rfl
      · right; exact ⟨c, t.reverse, by simp, hc⟩)).2
  rw [this]; simp

/-- `trim (ws ++ u ++ ws') = u` when `u` is a word without white space at either end -/
theorem trim_word (ws u ws' : List Char) (hws : ∀ c ∈ ws, isWhitespace c = true)
    (hws' : ∀ c ∈ ws', isWhitespace c = true) (hne : u ≠ [])
    (hu : ∀ c ∈ u, isWhitespace c = false) : trim (ws ++ (u ++ ws')) = u := by
  unfold trim
  have h1 : trimStart (ws ++ (u ++ ws')) = u ++ ws' := by
    apply trimStart_append _ _ hws
    right
    cases u with
    | nil => exact absurd rfl hne
    | cons a t => exact ⟨a, t ++ ws', rfl, hu a (by simp)⟩
  rw [h1]
  apply trimEnd_append _ _ hws'
  right
  have hne' : u ≠ [] := hne
  refine ⟨u.getLast hne', u.dropLast, ?_, hu _ (List.getLast_mem hne')⟩
  exact (List.dropLast_concat_getLast hne').symm

theorem lookupUnit_congr {α} (table : List (List Char × α)) (u u' : List Char)
    (h : u.map toAsciiLower = u'.map toAsciiLower) : lookupUnit table u = lookupUnit table u' := by
  unfold lookupUnit
  have : (fun e : List Char × α => eqIgnoreAsciiCase u e.1) =
      (fun e : List Char × α => eqIgnoreAsciiCase u' e.1) := by
    funext e; simp [eqIgnoreAsciiCase, h]
  rw [this]

theorem sizeUnit_self : ∀ e ∈ sizeUnitTable, lookupUnit sizeUnitTable e.1 = some e.2 := by decide
theorem timeUnit_self : ∀ e ∈ timeUnitTable, lookupUnit timeUnitTable e.1 = some e.2 := by decide
theorem sizeUnit_lower : ∀ e ∈ sizeUnitTable, e.1 ≠ [] ∧ ∀ c ∈ e.1, isLowerAlpha c = true := by decide
theorem timeUnit_lower : ∀ e ∈ timeUnitTable, e.1 ≠ [] ∧ ∀ c ∈ e.1, isLowerAlpha c = true := by decide

theorem lower_of_lower (c : Char) (h : isLowerAlpha c = true) : toAsciiLower c = c := by
  unfold toAsciiLower
  simp [isLowerAlpha] at h
  split
  · rename_i hc; have : c.toNat ≤ 90 := by simpa using hc.2
    omega
  · rfl

theorem map_lower_of_lower (s : List Char) (h : ∀ c ∈ s, isLowerAlpha c = true) :
    s.map toAsciiLower = s := by
  induction s with
  | nil => rfl
  | cons a t ih =>
    simp [lower_of_lower a (h a (by simp)), ih (fun c hc => h c (by simp [hc]))]

/-- a word that equals a table entry up to ASCII case consists of ASCII letters and is looked up
to that entry's value -/
theorem unit_word {α} (table : List (List Char × α))
    (hself : ∀ e ∈ table, lookupUnit table e.1 = some e.2)
    (hlow : ∀ e ∈ table, e.1 ≠ [] ∧ ∀ c ∈ e.1, isLowerAlpha c = true)
    (e : List Char × α) (he : e ∈ table) (u : List Char) (hu : eqIgnoreAsciiCase u e.1 = true) :
    lookupUnit table u = some e.2 ∧ u ≠ [] ∧ ∀ c ∈ u, isAsciiAlpha c = true := by
  have heq : u.map toAsciiLower = e.1.map toAsciiLower := by simpa [eqIgnoreAsciiCase] using hu
  have hl := map_lower_of_lower e.1 (hlow e he).2
  refine ⟨by rw [lookupUnit_congr table u e.1 heq]; exact hself e he, ?_, ?_⟩
  · intro hn; subst hn
    rw [hl] at heq
    exact (hlow e he).1 (by simpa using heq.symm)
  · intro c hc
    apply lower_alpha
    apply (hlow e he).2
    rw [← hl, ← heq]
    exact List.mem_map_of_mem hc

end Log4rs.Literals

namespace Log4rs.Literals
open Log4rs.Str

theorem denote_unit {α} (table : List (List Char × α))
    (hself : ∀ e ∈ table, lookupUnit table e.1 = some e.2)
    (hlow : ∀ e ∈ table, e.1 ≠ [] ∧ ∀ c ∈ e.1, isLowerAlpha c = true)
    (e : List Char × α) (he : e ∈ table) (ds ws u ws' : List Char)
    (hne : ds ≠ []) (hds : ∀ c ∈ ds, isAsciiDigit c = true)
    (hws : ∀ c ∈ ws, isWhitespace c = true) (hws' : ∀ c ∈ ws', isWhitespace c = true)
    (hu : eqIgnoreAsciiCase u e.1 = true) :
    denote table (ds ++ (ws ++ (u ++ ws'))) = some (digitsVal ds, some e.2) := by
  obtain ⟨hl, hune, hualpha⟩ := unit_word table hself hlow e he u hu
  have hrest : ws ++ (u ++ ws') = [] ∨
      ∃ c t, ws ++ (u ++ ws') = c :: t ∧ isAsciiDigit c = false := by
    right
    cases ws with
    | nil =>
      cases u with
      | nil => exact absurd rfl hune
      | cons a t => exact ⟨a, t ++ ws', rfl, alpha_not_digit a (hualpha a (by simp))⟩
    | cons a t => exact ⟨a, t ++ (u ++ ws'), rfl, ws_not_digit a (hws a (by simp))⟩
  obtain ⟨ht, hd⟩ := takeWhile_append isAsciiDigit ds _ hds hrest
  have htrim := trim_word ws u ws' hws hws' hune (fun c hc => alpha_not_ws c (hualpha c hc))
  have hrne : (ws ++ (u ++ ws')).isEmpty = false := by
    cases ws <;> cases u <;> simp_all
  have hdne : ds.isEmpty = false := by cases ds <;> simp_all
  simp only [denote, ht, hd, htrim, hl, hrne, hdne]
  simp

theorem denote_bare {α} (table : List (List Char × α)) (ds : List Char)
    (hne : ds ≠ []) (hds : ∀ c ∈ ds, isAsciiDigit c = true) :
    denote table ds = some (digitsVal ds, none) := by
  obtain ⟨ht, hd⟩ := takeWhile_append isAsciiDigit ds [] hds (Or.inl rfl)
  simp only [List.append_nil] at ht hd
  have hdne : ds.isEmpty = false := by cases ds <;> simp_all
  simp [denote, ht, hd, hdne]

/-- anything the reading accepts starts with a digit and, if a unit is present, the unit word
(after trimming) equals a table entry up to ASCII case -/
theorem denote_some {α} (table : List (List Char × α)) (s : List Char) (n : Nat) (o : Option α)
    (h : denote table s = some (n, o)) :
    ∃ ds rest, s = ds ++ rest ∧ ds ≠ [] ∧ (∀ c ∈ ds, isAsciiDigit c = true) ∧ n = digitsVal ds ∧
      ((rest = [] ∧ o = none) ∨
       (∃ e ∈ table, o = some e.2 ∧ eqIgnoreAsciiCase (trim rest) e.1 = true)) := by
  simp only [denote] at h
  by_cases h1 : (s.takeWhile isAsciiDigit).isEmpty = true
  · simp [h1] at h
  · simp only [h1, if_false, Bool.false_eq_true] at h
    refine ⟨s.takeWhile isAsciiDigit, s.dropWhile isAsciiDigit,
      (take_drop_while _ s).symm, by simpa using h1, takeWhile_all _ s, ?_, ?_⟩
    · by_cases h2 : (s.dropWhile isAsciiDigit).isEmpty = true
      · simp [h2] at h; exact h.1.symm
      · simp only [h2, if_false, Bool.false_eq_true] at h
        cases hl : lookupUnit table (trim (s.dropWhile isAsciiDigit)) with
        | none => simp [hl] at h
        | some a => simp [hl] at h; exact h.1.symm
    · by_cases h2 : (s.dropWhile isAsciiDigit).isEmpty = true
      · left
        simp [h2] at h
        exact ⟨by simpa using h2, h.2.symm⟩
      · right
        simp only [h2, if_false, Bool.false_eq_true] at h
        cases hl : lookupUnit table (trim (s.dropWhile isAsciiDigit)) with
        | none => simp [hl] at h
        | some a =>
          simp [hl] at h
          obtain ⟨e, hemem, he2, heq⟩ := lookupUnit_mem _ _ _ hl
          exact ⟨e, hemem, by rw [← h.2, he2], heq⟩

end Log4rs.Literals
