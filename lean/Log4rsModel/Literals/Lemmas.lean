import Log4rsModel.Literals.Spec
/-
Helper lemmas for C20 (size and interval literals): Rust string functions on `List Char`, the byte
slicing of the visitors, the unit tables against the statement's `unitExp` / `unitOf`, the
executable reader `readLit` against the relations `SizeLit` / `IntervalLit`.
-/
namespace Log4rs.Literals
open Log4rs.Str Log4rs

theorem digit_not_ws (c : Char) (h : isAsciiDigit c = true) : isWhitespace c = false := by
  simp only [isAsciiDigit, Bool.and_eq_true, decide_eq_true_eq] at h
  have h1 : 48 ≤ c.toNat := by simpa using h.1
  have h2 : c.toNat ≤ 57 := by simpa using h.2
  simp only [isWhitespace]
  simp
  omega

theorem dropWhile_ws_digits (s : List Char) (h : ∀ c ∈ s, isAsciiDigit c = true) :
    s.dropWhile isWhitespace = s := by
  cases s with
  | nil => rfl
  | cons a t =>
    have := digit_not_ws a (h a (by simp))
    simp [List.dropWhile, this]

theorem trim_digits (s : List Char) (h : ∀ c ∈ s, isAsciiDigit c = true) : trim s = s := by
  unfold trim trimEnd trimStart
  rw [dropWhile_ws_digits s h]
  rw [dropWhile_ws_digits s.reverse (by intro c hc; exact h c (by simpa using hc))]
  simp

theorem takeWhile_all (p : Char → Bool) (s : List Char) : ∀ c ∈ s.takeWhile p, p c = true := by
  induction s with
  | nil => simp
  | cons a t ih =>
    intro c hc
    by_cases ha : p a = true
    · simp [List.takeWhile, ha] at hc
      rcases hc with rfl | hc
      · exact ha
      · exact ih c hc
    · simp [List.takeWhile, ha] at hc

theorem take_drop_while (p : Char → Bool) (s : List Char) :
    s.takeWhile p ++ s.dropWhile p = s := List.takeWhile_append_dropWhile

theorem dropWhile_head (p : Char → Bool) (s : List Char) (c : Char) (t : List Char)
    (h : s.dropWhile p = c :: t) : p c = false := by
  induction s with
  | nil => simp at h
  | cons a r ih =>
    by_cases ha : p a = true
    · simp [List.dropWhile, ha] at h; exact ih h
    · simp [List.dropWhile, ha] at h
      rcases h with ⟨rfl, _⟩
      simpa using ha

/-- every unit multiplier is positive -/
theorem sizeUnit_pos : ∀ e ∈ sizeUnitTable, 1 ≤ e.2 := by decide

theorem lookupUnit_mem {α} (table : List (List Char × α)) (u : List Char) (a : α)
    (h : lookupUnit table u = some a) : ∃ e ∈ table, e.2 = a ∧ eqIgnoreAsciiCase u e.1 = true := by
  unfold lookupUnit at h
  split at h
  · rename_i e he
    simp at h
    exact ⟨e, List.mem_of_find?_eq_some he, h, by simpa using List.find?_some he⟩
  · simp at h

theorem parseUnsigned_digits (max : Nat) (ds : List Char) (hne : ds ≠ [])
    (h : ∀ c ∈ ds, isAsciiDigit c = true) :
    parseUnsigned max ds = if digitsVal ds ≤ max then some (digitsVal ds) else none := by
  cases ds with
  | nil => exact absurd rfl hne
  | cons a t =>
    have ha : a ≠ '+' := by
      intro e; subst e
      have := h '+' (by simp)
      simp [isAsciiDigit] at this
    have hs : stripPlus (a :: t) = a :: t := by
      unfold stripPlus
      split
      · rename_i r heq; simp at heq; exact absurd heq.1 ha
      · rfl
    have hall : (a :: t).all isAsciiDigit = true := by
      simpa [List.all_eq_true] using h
    simp [parseUnsigned, parseDigits, hs, hall]


def isAsciiAlpha (c : Char) : Bool :=
  (65 ≤ c.toNat && c.toNat ≤ 90) || (97 ≤ c.toNat && c.toNat ≤ 122)

def isLowerAlpha (c : Char) : Bool := 97 ≤ c.toNat && c.toNat ≤ 122

theorem alpha_not_digit (c : Char) (h : isAsciiAlpha c = true) : isAsciiDigit c = false := by
  simp [isAsciiAlpha] at h
  simp [isAsciiDigit]
  omega

theorem alpha_not_ws (c : Char) (h : isAsciiAlpha c = true) : isWhitespace c = false := by
  simp [isAsciiAlpha] at h
  simp [isWhitespace]
  omega

theorem ws_not_digit (c : Char) (h : isWhitespace c = true) : isAsciiDigit c = false := by
  cases hd : isAsciiDigit c with
  | false => rfl
  | true => rw [digit_not_ws c hd] at h; exact absurd h (by simp)

theorem lower_alpha (c : Char) (h : isLowerAlpha (toAsciiLower c) = true) : isAsciiAlpha c = true := by
  unfold toAsciiLower at h
  split at h
  · rename_i hc
    simp [isAsciiAlpha]
    have h1 : 65 ≤ c.toNat := by simpa using hc.1
    have h2 : c.toNat ≤ 90 := by simpa using hc.2
    omega
  · simp [isLowerAlpha] at h
    simp [isAsciiAlpha]
    omega

theorem takeWhile_append (p : Char → Bool) (ds r : List Char) (hds : ∀ c ∈ ds, p c = true)
    (hr : r = [] ∨ ∃ c t, r = c :: t ∧ p c = false) :
    (ds ++ r).takeWhile p = ds ∧ (ds ++ r).dropWhile p = r := by
  induction ds with
  | nil =>
    rcases hr with rfl | ⟨c, t, rfl, hc⟩
    · simp
    · simp [hc]
  | cons a t ih =>
    have ha := hds a (by simp)
    have := ih (fun c hc => hds c (by simp [hc]))
    simp [ha, this]

theorem trimStart_append (ws u : List Char) (hws : ∀ c ∈ ws, isWhitespace c = true)
    (hu : u = [] ∨ ∃ c t, u = c :: t ∧ isWhitespace c = false) : trimStart (ws ++ u) = u := by
  unfold trimStart
  exact (takeWhile_append isWhitespace ws u hws hu).2

theorem trimEnd_append (u ws : List Char) (hws : ∀ c ∈ ws, isWhitespace c = true)
    (hu : u = [] ∨ ∃ c t, u = t ++ [c] ∧ isWhitespace c = false) : trimEnd (u ++ ws) = u := by
  unfold trimEnd
  rw [List.reverse_append]
  have := (takeWhile_append isWhitespace ws.reverse u.reverse
    (fun c hc => hws c (by simpa using hc))
    (by
      rcases hu with rfl | ⟨c, t, rfl, hc⟩
      · left; rfl
      · right; exact ⟨c, t.reverse, by simp, hc⟩)).2
  rw [this]; simp

/-- `trim (ws ++ u ++ ws') = u` when `u` is a word without white space at either end -/
theorem trim_word (ws u ws' : List Char) (hws : ∀ c ∈ ws, isWhitespace c = true)
    (hws' : ∀ c ∈ ws', isWhitespace c = true) (hne : u ≠ [])
    (hu : ∀ c ∈ u, isWhitespace c = false) : trim (ws ++ (u ++ ws')) = u := by
  unfold trim
  have h1 : trimStart (ws ++ (u ++ ws')) = u ++ ws' := by
    apply trimStart_append _ _ hws
    right
    cases u with
    | nil => exact absurd rfl hne
    | cons a t => exact ⟨a, t ++ ws', rfl, hu a (by simp)⟩
  rw [h1]
  apply trimEnd_append _ _ hws'
  right
  have hne' : u ≠ [] := hne
  refine ⟨u.getLast hne', u.dropLast, ?_, hu _ (List.getLast_mem hne')⟩
  exact (List.dropLast_concat_getLast hne').symm

theorem lookupUnit_congr {α} (table : List (List Char × α)) (u u' : List Char)
    (h : u.map toAsciiLower = u'.map toAsciiLower) : lookupUnit table u = lookupUnit table u' := by
  unfold lookupUnit
  have : (fun e : List Char × α => eqIgnoreAsciiCase u e.1) =
      (fun e : List Char × α => eqIgnoreAsciiCase u' e.1) := by
    funext e; simp [eqIgnoreAsciiCase, h]
  rw [this]

theorem sizeUnit_self : ∀ e ∈ sizeUnitTable, lookupUnit sizeUnitTable e.1 = some e.2 := by decide
theorem timeUnit_self : ∀ e ∈ timeUnitTable, lookupUnit timeUnitTable e.1 = some e.2 := by decide
theorem sizeUnit_lower : ∀ e ∈ sizeUnitTable, e.1 ≠ [] ∧ ∀ c ∈ e.1, isLowerAlpha c = true := by decide
theorem timeUnit_lower : ∀ e ∈ timeUnitTable, e.1 ≠ [] ∧ ∀ c ∈ e.1, isLowerAlpha c = true := by decide

theorem lower_of_lower (c : Char) (h : isLowerAlpha c = true) : toAsciiLower c = c := by
  unfold toAsciiLower
  simp [isLowerAlpha] at h
  split
  · rename_i hc; have : c.toNat ≤ 90 := by simpa using hc.2
    omega
  · rfl

theorem map_lower_of_lower (s : List Char) (h : ∀ c ∈ s, isLowerAlpha c = true) :
    s.map toAsciiLower = s := by
  induction s with
  | nil => rfl
  | cons a t ih =>
    simp [lower_of_lower a (h a (by simp)), ih (fun c hc => h c (by simp [hc]))]

/-- a word that equals a table entry up to ASCII case consists of ASCII letters and is looked up
to that entry's value -/
theorem unit_word {α} (table : List (List Char × α))
    (hself : ∀ e ∈ table, lookupUnit table e.1 = some e.2)
    (hlow : ∀ e ∈ table, e.1 ≠ [] ∧ ∀ c ∈ e.1, isLowerAlpha c = true)
    (e : List Char × α) (he : e ∈ table) (u : List Char) (hu : eqIgnoreAsciiCase u e.1 = true) :
    lookupUnit table u = some e.2 ∧ u ≠ [] ∧ ∀ c ∈ u, isAsciiAlpha c = true := by
  have heq : u.map toAsciiLower = e.1.map toAsciiLower := by simpa [eqIgnoreAsciiCase] using hu
  have hl := map_lower_of_lower e.1 (hlow e he).2
  refine ⟨by rw [lookupUnit_congr table u e.1 heq]; exact hself e he, ?_, ?_⟩
  · intro hn; subst hn
    rw [hl] at heq
    exact (hlow e he).1 (by simpa using heq.symm)
  · intro c hc
    apply lower_alpha
    apply (hlow e he).2
    rw [← hl, ← heq]
    exact List.mem_map_of_mem hc


/-! ### numbers -/

theorem digitsVal_eq (ds : List Char) : digitsVal ds = Nat.ofDigitChars 10 ds 0 := by
  unfold digitsVal Nat.ofDigitChars digitVal
  congr 1
  funext acc c
  omega

/-! ### byte offsets and slicing -/

def byteLen : List Char → Nat
  | [] => 0
  | c :: cs => (utf8Char c).length + byteLen cs

theorem byteLen_eq (l : List Char) : byteLen l = (utf8 l).length := by
  induction l with
  | nil => rfl
  | cons c cs ih => simp [byteLen, utf8_cons, ih]

/-- `find` returns the byte length of the longest prefix on which the predicate fails -/
theorem findByte_eq (q : Char → Bool) (v : List Char) (off : Nat) :
    findByte (fun c => !q c) v off =
      if v.dropWhile q = [] then none else some (off + byteLen (v.takeWhile q)) := by
  induction v generalizing off with
  | nil => simp [findByte]
  | cons c cs ih =>
    by_cases hc : q c = true
    · simp only [findByte, hc, Bool.not_true, Bool.false_eq_true, if_false, List.dropWhile_cons_of_pos,
        List.takeWhile_cons_of_pos, byteLen]
      rw [ih]
      split <;> simp [Nat.add_assoc]
    · have hc' : q c = false := by simpa using hc
      simp [findByte, hc', byteLen]

theorem splitAtByte_zero (v : List Char) : splitAtByte v 0 = some ([], v) := by
  cases v <;> simp [splitAtByte]

/-- slicing at the byte length of a prefix succeeds and gives the two halves -/
theorem splitAtByte_append (a b : List Char) : splitAtByte (a ++ b) (byteLen a) = some (a, b) := by
  induction a with
  | nil => simp [byteLen, splitAtByte_zero]
  | cons c t ih =>
    have hpos := (utf8Char_length c).1
    obtain ⟨n, hn⟩ : ∃ n, (utf8Char c).length + byteLen t = n + 1 := ⟨(utf8Char c).length + byteLen t - 1, by omega⟩
    simp only [byteLen, List.cons_append, hn, splitAtByte]
    have hle : (utf8Char c).length ≤ n + 1 := by omega
    have hsub : n + 1 - (utf8Char c).length = byteLen t := by omega
    simp [hle, hsub, ih]

/-- the split of the visitors: never a panic, and it is the longest digit prefix and the rest -/
theorem splitNumberUnit_eq (v : List Char) :
    splitNumberUnit v =
      .ok (if v.dropWhile isAsciiDigit = [] then (trim v, none)
           else (trim (v.takeWhile isAsciiDigit), some (trim (v.dropWhile isAsciiDigit)))) := by
  unfold splitNumberUnit
  rw [findByte_eq isAsciiDigit v 0]
  by_cases h : v.dropWhile isAsciiDigit = []
  · simp [h]
  · simp only [h, if_false, Nat.zero_add]
    have := splitAtByte_append (v.takeWhile isAsciiDigit) (v.dropWhile isAsciiDigit)
    rw [take_drop_while] at this
    rw [this]

/-! ### the statement's unit words -/

def sizeWords : List (List Char × Nat) :=
  [(['b'],0),(['k','b'],1),(['k','i','b'],1),(['m','b'],2),(['m','i','b'],2),(['g','b'],3),
   (['g','i','b'],3),(['t','b'],4),(['t','i','b'],4)]

theorem prefixExp_some (p : Char) (k : Nat) (h : prefixExp p = some k) :
    (p = 'k' ∧ k = 1) ∨ (p = 'm' ∧ k = 2) ∨ (p = 'g' ∧ k = 3) ∨ (p = 't' ∧ k = 4) := by
  unfold prefixExp at h
  split at h
  · simp at h; simp_all
  · split at h
    · simp at h; simp_all
    · split at h
      · simp at h; simp_all
      · split at h
        · simp at h; simp_all
        · simp at h

theorem unitExp_words (w : List Char) (k : Nat) (h : unitExp w = some k) : (w, k) ∈ sizeWords := by
  unfold unitExp at h
  split at h
  · split at h
    · simp at h; subst_vars; decide
    · simp at h
  · split at h
    · rcases prefixExp_some _ _ h with ⟨rfl, rfl⟩ | ⟨rfl, rfl⟩ | ⟨rfl, rfl⟩ | ⟨rfl, rfl⟩ <;> subst_vars <;> decide
    · simp at h
  · split at h
    · rename_i hc
      obtain ⟨rfl, rfl⟩ := hc
      rcases prefixExp_some _ _ h with ⟨rfl, rfl⟩ | ⟨rfl, rfl⟩ | ⟨rfl, rfl⟩ | ⟨rfl, rfl⟩ <;> decide
    · simp at h
  · simp at h

theorem sizeWords_exp : ∀ e ∈ sizeWords, unitExp e.1 = some e.2 := by decide
theorem sizeWords_lower : ∀ e ∈ sizeWords, e.1 ≠ [] ∧ ∀ c ∈ e.1, isLowerAlpha c = true := by decide
theorem sizeWords_lookup : ∀ e ∈ sizeWords, lookupUnit sizeUnitTable e.1 = some (1024 ^ e.2) := by decide
theorem sizeTable_exp : ∀ e ∈ sizeUnitTable, (unitExp e.1).isSome = true := by decide

def timeWords : List (List Char × TUnit) :=
  [ (['s','e','c','o','n','d'], .second), (['s','e','c','o','n','d','s'], .second),
    (['m','i','n','u','t','e'], .minute), (['m','i','n','u','t','e','s'], .minute),
    (['h','o','u','r'], .hour), (['h','o','u','r','s'], .hour),
    (['d','a','y'], .day), (['d','a','y','s'], .day),
    (['w','e','e','k'], .week), (['w','e','e','k','s'], .week),
    (['m','o','n','t','h'], .month), (['m','o','n','t','h','s'], .month),
    (['y','e','a','r'], .year), (['y','e','a','r','s'], .year) ]

theorem unitOf_words (w : List Char) (t : TUnit) (h : unitOf w = some t) : (w, t) ∈ timeWords := by
  unfold unitOf at h
  have := List.find?_some h
  simp only [decide_eq_true_eq] at this
  rcases this with rfl | rfl <;> cases t <;> decide

theorem timeWords_unit : ∀ e ∈ timeWords, unitOf e.1 = some e.2 := by decide
theorem timeWords_lower : ∀ e ∈ timeWords, e.1 ≠ [] ∧ ∀ c ∈ e.1, isLowerAlpha c = true := by decide
theorem timeWords_lookup : ∀ e ∈ timeWords, lookupUnit timeUnitTable e.1 = some e.2 := by decide
theorem timeTable_unit : ∀ e ∈ timeUnitTable, (unitOf e.1).isSome = true := by decide

/-- generic form of the two unit theorems: a case-folding table whose keys are lower-case words agrees
with a function `f` on lower-cased words as soon as it does so on a list of words covering both -/
theorem lookup_eq_of_words {α β} (table : List (List Char × α)) (words : List (List Char × β))
    (f : List Char → Option β) (g : β → α)
    (hf : ∀ w b, f w = some b → (w, b) ∈ words)
    (hwl : ∀ e ∈ words, e.1 ≠ [] ∧ ∀ c ∈ e.1, isLowerAlpha c = true)
    (hwt : ∀ e ∈ words, lookupUnit table e.1 = some (g e.2))
    (htl : ∀ e ∈ table, e.1 ≠ [] ∧ ∀ c ∈ e.1, isLowerAlpha c = true)
    (htf : ∀ e ∈ table, (f e.1).isSome = true)
    (u : List Char) : lookupUnit table u = (f (u.map toAsciiLower)).map g := by
  cases hfu : f (u.map toAsciiLower) with
  | some b =>
    have hm := hf _ _ hfu
    have hl := map_lower_of_lower _ (hwl _ hm).2
    have : lookupUnit table u = lookupUnit table (u.map toAsciiLower) :=
      lookupUnit_congr table u _ hl.symm
    rw [this]
    simpa using hwt _ hm
  | none =>
    cases hl : lookupUnit table u with
    | none => rfl
    | some a =>
      exfalso
      obtain ⟨e, he, _, heq⟩ := lookupUnit_mem _ _ _ hl
      have h1 : u.map toAsciiLower = e.1 := by
        have := map_lower_of_lower e.1 (htl e he).2
        simpa [eqIgnoreAsciiCase, this] using heq
      have hb := htf e he
      rw [h1] at hfu
      simp [hfu] at hb

theorem size_units (u : List Char) :
    lookupUnit sizeUnitTable u = (unitExp (u.map toAsciiLower)).map (fun k => 1024 ^ k) :=
  lookup_eq_of_words sizeUnitTable sizeWords unitExp (fun k => 1024 ^ k) unitExp_words sizeWords_lower
    sizeWords_lookup sizeUnit_lower sizeTable_exp u

theorem interval_units (u : List Char) :
    lookupUnit timeUnitTable u = unitOf (u.map toAsciiLower) := by
  have := lookup_eq_of_words timeUnitTable timeWords unitOf id unitOf_words timeWords_lower
    (by simpa using timeWords_lookup) timeUnit_lower timeTable_unit u
  simpa using this

/-! ### the executable reader against the relations -/

theorem leadDigits_eq (s : List Char) :
    leadDigits s = (s.takeWhile isAsciiDigit, s.dropWhile isAsciiDigit) := by
  induction s with
  | nil => rfl
  | cons c cs ih =>
    by_cases hc : isAsciiDigit c = true
    · simp [leadDigits, hc, ih]
    · have hc' : isAsciiDigit c = false := by simpa using hc
      simp [leadDigits, hc']

theorem readLit_eq {α} (f : List Char → Option α) (s : List Char) :
    readLit f s =
      if s.takeWhile isAsciiDigit = [] then none
      else if s.dropWhile isAsciiDigit = [] then some (digitsVal (s.takeWhile isAsciiDigit), none)
      else match f ((trim (s.dropWhile isAsciiDigit)).map toAsciiLower) with
        | some a => some (digitsVal (s.takeWhile isAsciiDigit), some a)
        | none => none := by
  unfold readLit
  rw [leadDigits_eq]
  cases h1 : s.takeWhile isAsciiDigit with
  | nil => simp
  | cons a t =>
    cases h2 : s.dropWhile isAsciiDigit with
    | nil => simp
    | cons b r => cases hf : f ((trim (b :: r)).map toAsciiLower) <;> simp [hf]

/-- a word on which `f` (one of `unitExp`, `unitOf`) is defined after lower-casing consists of ASCII letters -/
theorem word_alpha {β} (words : List (List Char × β)) (f : List Char → Option β)
    (hf : ∀ w b, f w = some b → (w, b) ∈ words)
    (hwl : ∀ e ∈ words, e.1 ≠ [] ∧ ∀ c ∈ e.1, isLowerAlpha c = true)
    (u : List Char) (b : β) (h : f (u.map toAsciiLower) = some b) :
    u ≠ [] ∧ ∀ c ∈ u, isAsciiAlpha c = true := by
  have hm := hf _ _ h
  obtain ⟨hne, hlow⟩ := hwl _ hm
  refine ⟨?_, ?_⟩
  · intro hn; subst hn; exact hne rfl
  · intro c hc
    apply lower_alpha
    exact hlow _ (List.mem_map_of_mem hc)

theorem readLit_unit {β} (words : List (List Char × β)) (f : List Char → Option β)
    (hf : ∀ w b, f w = some b → (w, b) ∈ words)
    (hwl : ∀ e ∈ words, e.1 ≠ [] ∧ ∀ c ∈ e.1, isLowerAlpha c = true)
    (ds ws u ws' : List Char) (b : β)
    (hds : Digits ds) (hws : AllWs ws) (hws' : AllWs ws') (hu : f (u.map toAsciiLower) = some b) :
    readLit f (ds ++ (ws ++ (u ++ ws'))) = some (digitsVal ds, some b) := by
  obtain ⟨hune, hualpha⟩ := word_alpha words f hf hwl u b hu
  have hrest : ws ++ (u ++ ws') = [] ∨
      ∃ c t, ws ++ (u ++ ws') = c :: t ∧ isAsciiDigit c = false := by
    right
    cases ws with
    | nil =>
      cases u with
      | nil => exact absurd rfl hune
      | cons a t => exact ⟨a, t ++ ws', rfl, alpha_not_digit a (hualpha a (by simp))⟩
    | cons a t => exact ⟨a, t ++ (u ++ ws'), rfl, ws_not_digit a (hws a (by simp))⟩
  obtain ⟨ht, hd⟩ := takeWhile_append isAsciiDigit ds _ hds.2 hrest
  have htrim := trim_word ws u ws' hws hws' hune (fun c hc => alpha_not_ws c (hualpha c hc))
  have hrne : ws ++ (u ++ ws') ≠ [] := by
    cases ws <;> cases u <;> simp_all
  rw [readLit_eq, ht, hd, htrim, hu]
  simp [hds.1, hrne]

theorem readLit_bare {α} (f : List Char → Option α) (ds : List Char) (hds : Digits ds) :
    readLit f ds = some (digitsVal ds, none) := by
  obtain ⟨ht, hd⟩ := takeWhile_append isAsciiDigit ds [] hds.2 (Or.inl rfl)
  simp only [List.append_nil] at ht hd
  rw [readLit_eq, ht, hd]
  simp [hds.1]

/-- every text is leading white space, its trimmed core, trailing white space -/
theorem trim_decomp (r : List Char) :
    ∃ ws ws', r = ws ++ (trim r ++ ws') ∧ AllWs ws ∧ AllWs ws' := by
  refine ⟨r.takeWhile isWhitespace, ((r.dropWhile isWhitespace).reverse.takeWhile isWhitespace).reverse, ?_,
    takeWhile_all _ _, ?_⟩
  · have h1 := take_drop_while isWhitespace r
    have h2 := take_drop_while isWhitespace (r.dropWhile isWhitespace).reverse
    have h3 : r.dropWhile isWhitespace =
        ((r.dropWhile isWhitespace).reverse.dropWhile isWhitespace).reverse ++
          ((r.dropWhile isWhitespace).reverse.takeWhile isWhitespace).reverse := by
      rw [← List.reverse_append, h2, List.reverse_reverse]
    unfold trim trimEnd trimStart
    rw [← h3, h1]
  · intro c hc
    exact takeWhile_all isWhitespace _ c (by simpa using hc)

/-- anything the reader accepts is the longest digit prefix followed by nothing, or by a remainder
whose trimmed, lower-cased form `f` knows -/
theorem readLit_some {α} (f : List Char → Option α) (s : List Char) (n : Nat) (o : Option α)
    (h : readLit f s = some (n, o)) :
    Digits (s.takeWhile isAsciiDigit) ∧ n = digitsVal (s.takeWhile isAsciiDigit) ∧
      ((s.dropWhile isAsciiDigit = [] ∧ o = none) ∨
       (s.dropWhile isAsciiDigit ≠ [] ∧ ∃ a, o = some a ∧
          f ((trim (s.dropWhile isAsciiDigit)).map toAsciiLower) = some a)) := by
  rw [readLit_eq] at h
  by_cases h1 : s.takeWhile isAsciiDigit = []
  · simp [h1] at h
  · simp only [h1, if_false] at h
    refine ⟨⟨h1, takeWhile_all _ s⟩, ?_⟩
    by_cases h2 : s.dropWhile isAsciiDigit = []
    · simp only [h2, if_true] at h
      simp at h
      exact ⟨h.1.symm, Or.inl ⟨h2, h.2.symm⟩⟩
    · simp only [h2, if_false] at h
      cases hl : f ((trim (s.dropWhile isAsciiDigit)).map toAsciiLower) with
      | none => simp [hl] at h
      | some a =>
        simp [hl] at h
        exact ⟨h.1.symm, Or.inr ⟨h2, a, h.2.symm, rfl⟩⟩

theorem trim_head (c : Char) (r : List Char) (hc : isWhitespace c = false) :
    ∃ r', trim (c :: r) = c :: r' := by
  obtain ⟨ws, ws', hdec, hws, hws'⟩ := trim_decomp (c :: r)
  cases ws with
  | cons a t =>
    simp only [List.cons_append, List.cons.injEq] at hdec
    have := hws a (by simp)
    rw [← hdec.1, hc] at this
    exact absurd this (by simp)
  | nil =>
    simp only [List.nil_append] at hdec
    cases htr : trim (c :: r) with
    | nil =>
      rw [htr, List.nil_append] at hdec
      have := hws' c (by rw [← hdec]; simp)
      rw [hc] at this
      exact absurd this (by simp)
    | cons a t =>
      rw [htr] at hdec
      simp only [List.cons_append, List.cons.injEq] at hdec
      exact ⟨t, by rw [hdec.1]⟩

/-- a text that does not start with an ASCII digit is not a literal -/
theorem readLit_leading_nondigit {α} (f : List Char → Option α) (s : List Char)
    (h : s = [] ∨ ∃ c t, s = c :: t ∧ isAsciiDigit c = false) : readLit f s = none := by
  rw [readLit_eq]
  have : s.takeWhile isAsciiDigit = [] := by
    rcases h with rfl | ⟨c, t, rfl, hc⟩
    · rfl
    · simp [List.takeWhile, hc]
  simp [this]

/-- digits followed by a remainder that `f` does not know (after trimming and lower-casing) -/
theorem readLit_unknown {α} (f : List Char → Option α) (ds rest : List Char) (hds : Digits ds)
    (hr : ∃ c t, rest = c :: t ∧ isAsciiDigit c = false)
    (hf : f ((trim rest).map toAsciiLower) = none) : readLit f (ds ++ rest) = none := by
  obtain ⟨ht, hd⟩ := takeWhile_append isAsciiDigit ds rest hds.2 (Or.inr hr)
  obtain ⟨c, t, rfl, _⟩ := hr
  rw [readLit_eq, ht, hd, hf]
  simp [hds.1]

/-- a remainder whose first non-blank character is not an ASCII letter is no unit word: fractions
(`.5kb`), signs, digits of other scripts, look-alike blanks -/
theorem readLit_nonletter {β} (words : List (List Char × β)) (f : List Char → Option β)
    (hf : ∀ w b, f w = some b → (w, b) ∈ words)
    (hwl : ∀ e ∈ words, e.1 ≠ [] ∧ ∀ c ∈ e.1, isLowerAlpha c = true)
    (ds r : List Char) (c : Char) (hds : Digits ds)
    (hcd : isAsciiDigit c = false) (hcw : isWhitespace c = false) (hca : isAsciiAlpha c = false) :
    readLit f (ds ++ c :: r) = none := by
  apply readLit_unknown f ds (c :: r) hds ⟨c, r, rfl, hcd⟩
  obtain ⟨r', hr'⟩ := trim_head c r hcw
  cases hfu : f ((trim (c :: r)).map toAsciiLower) with
  | none => rfl
  | some b =>
    exfalso
    have := (word_alpha words f hf hwl (trim (c :: r)) b hfu).2 c (by rw [hr']; simp)
    rw [hca] at this
    exact absurd this (by simp)

theorem fit_u64 (n : Nat) : fit U64_MAX n = if n < 2 ^ 64 then some n else none := by
  unfold fit U64_MAX
  by_cases h : n < 2 ^ 64
  · rw [if_pos h, if_pos (by omega)]
  · rw [if_neg h, if_neg (by omega)]

theorem fit_i64 (n : Nat) : fit I64_MAX n = if n < 2 ^ 63 then some n else none := by
  unfold fit I64_MAX
  by_cases h : n < 2 ^ 63
  · rw [if_pos h, if_pos (by omega)]
  · rw [if_neg h, if_neg (by omega)]

theorem visit_int_u64 (n : Int) (h0 : 0 ≤ n) (h1 : n.toNat < 2 ^ 64) :
    (Scalar.int n).visit = .u64 n.toNat h1 := by
  simp only [Scalar.visit]; rw [dif_pos ⟨h0, h1⟩]

theorem visit_int_i64 (n : Int) (h0 : n < 0) (h2 : -(2 ^ 63 : Int) ≤ n ∧ n < 2 ^ 63) :
    (Scalar.int n).visit = .i64 n h2 := by
  simp only [Scalar.visit]; rw [dif_neg (by omega), dif_pos h2]

theorem visit_int_other (n : Int) (h1 : ¬ (0 ≤ n ∧ n.toNat < 2 ^ 64))
    (h2 : ¬ (-(2 ^ 63 : Int) ≤ n ∧ n < 2 ^ 63)) : (Scalar.int n).visit = .other := by
  simp only [Scalar.visit]; rw [dif_neg h1, dif_neg h2]

theorem visitToml_int (n : Int) (h2 : -(2 ^ 63 : Int) ≤ n ∧ n < 2 ^ 63) :
    (Scalar.int n).visitToml = some (.i64 n h2) := by
  simp only [Scalar.visitToml]; rw [dif_pos h2]

theorem visitToml_int_none (n : Int) (h2 : ¬ (-(2 ^ 63 : Int) ≤ n ∧ n < 2 ^ 63)) :
    (Scalar.int n).visitToml = none := by
  simp only [Scalar.visitToml]; rw [dif_neg h2]

theorem toOpt_eq_some {ε α} (r : Outcome ε α) (a : α) : toOpt r = some a ↔ r = .ok a := by
  cases r <;> simp [toOpt]

theorem fit_eq_some (max n v : Nat) : fit max n = some v ↔ n ≤ max ∧ v = n := by
  unfold fit; split <;> simp_all <;> omega

end Log4rs.Literals
