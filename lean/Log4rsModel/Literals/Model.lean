import Log4rsModel.Base.Str
/-
Model of the serde visitors that parse size limits (`trigger/size.rs::deserialize_limit`) and
time intervals (`trigger/time.rs`, `impl Deserialize for TimeTriggerInterval`).
A scalar reaches the visitor through `deserialize_any`:
  * an integer in `0 .. 2^64`   -> `visit_u64`
  * an integer in `-2^63 .. 0`  -> `visit_i64`
  * a string                    -> `visit_str`
  * anything else (float — which includes integers outside both ranges in JSON/YAML —, bool, null,
    sequences, maps)            -> serde's default `invalid type` error
-/
namespace Log4rs.Literals
open Log4rs.Str

inductive Scalar where
  | int (n : Int)
  | str (s : List Char)
  | other            -- float / bool / null / seq / map
  deriving Repr, DecidableEq

inductive Err where
  | invalidType      -- visitor has no method for this scalar
  | negative         -- "a non-negative number"
  | notNumber        -- "a number"
  | badUnit          -- "a valid unit"
  | overflow         -- "a byte size" / out of range
  deriving Repr, DecidableEq

def U64_MAX : Nat := 2 ^ 64 - 1
def I64_MAX : Nat := 2 ^ 63 - 1

/-- `v.find(|c| !c.is_ascii_digit())` then the two `trim`s: returns the number text and the
optional unit text. -/
def splitNumberUnit (v : List Char) : List Char × Option (List Char) :=
  let num := v.takeWhile isAsciiDigit
  let rest := v.dropWhile isAsciiDigit
  match rest with
  | [] => (trim v, none)
  | _ => (trim num, some (trim rest))

/-- `str::parse::<u64>()` / `parse::<i64>()` restricted to what can reach it here; the general
rule (optional sign, then digits) is kept so that the model is right for any text. -/
def stripPlus : List Char → List Char
  | '+' :: r => r
  | r => r

def parseDigits (max : Nat) (body : List Char) : Option Nat :=
  if body.isEmpty then none
  else if body.all isAsciiDigit then
    if digitsVal body ≤ max then some (digitsVal body) else none
  else none

def parseUnsigned (max : Nat) (s : List Char) : Option Nat := parseDigits max (stripPlus s)

/-- `parse::<i64>()`; negative results are possible for text like "-5" (unreachable here because
the number part consists of digits only, kept for fidelity). -/
def parseSigned (s : List Char) : Option Int :=
  match s with
  | '-' :: r =>
    (parseDigits (I64_MAX + 1) r).map (fun v => -(v : Int))
  | _ => (parseUnsigned I64_MAX s).map Int.ofNat

def sizeUnitTable : List (List Char × Nat) :=
  [ (['b'], 1),
    (['k','b'], 1024), (['k','i','b'], 1024),
    (['m','b'], 1024 ^ 2), (['m','i','b'], 1024 ^ 2),
    (['g','b'], 1024 ^ 3), (['g','i','b'], 1024 ^ 3),
    (['t','b'], 1024 ^ 4), (['t','i','b'], 1024 ^ 4) ]

def lookupUnit {α} (table : List (List Char × α)) (u : List Char) : Option α :=
  match table.find? (fun e => eqIgnoreAsciiCase u e.1) with
  | some e => some e.2
  | none => none

def parseSizeStr (v : List Char) : Except Err Nat :=
  let (number, unit) := splitNumberUnit v
  match parseUnsigned U64_MAX number with
  | none => .error .notNumber
  | some n =>
    match unit with
    | none => .ok n
    | some u =>
      match lookupUnit sizeUnitTable u with
      | none => .error .badUnit
      | some mult =>
        -- `checked_mul`
        if n * mult ≤ U64_MAX then .ok (n * mult) else .error .overflow

def parseSize : Scalar → Except Err Nat
  | .int n =>
    if 0 ≤ n then
      if n.toNat ≤ U64_MAX then .ok n.toNat else .error .invalidType
    else if -(2 ^ 63 : Int) ≤ n then .error .negative
    else .error .invalidType
  | .str s => parseSizeStr s
  | .other => .error .invalidType

inductive TUnit where
  | second | minute | hour | day | week | month | year
  deriving Repr, DecidableEq

def TUnit.name : TUnit → String
  | .second => "second" | .minute => "minute" | .hour => "hour" | .day => "day"
  | .week => "week" | .month => "month" | .year => "year"

def timeUnitTable : List (List Char × TUnit) :=
  [ (['s','e','c','o','n','d'], .second), (['s','e','c','o','n','d','s'], .second),
    (['m','i','n','u','t','e'], .minute), (['m','i','n','u','t','e','s'], .minute),
    (['h','o','u','r'], .hour), (['h','o','u','r','s'], .hour),
    (['d','a','y'], .day), (['d','a','y','s'], .day),
    (['w','e','e','k'], .week), (['w','e','e','k','s'], .week),
    (['m','o','n','t','h'], .month), (['m','o','n','t','h','s'], .month),
    (['y','e','a','r'], .year), (['y','e','a','r','s'], .year) ]

def parseIntervalStr (v : List Char) : Except Err (TUnit × Int) :=
  let (number, unit) := splitNumberUnit v
  match parseSigned number with
  | none => .error .notNumber
  | some n =>
    if n < 0 then .error .negative else
    match unit with
    | none => .ok (.second, n)
    | some u =>
      match lookupUnit timeUnitTable u with
      | none => .error .badUnit
      | some tu => .ok (tu, n)

/-- `fixedInt = true` models the code after the `fix:` commit that rejects integer scalars above
`i64::MAX`; `false` is the original `v as i64` (two's-complement wrap). The driver and the
theorems use `true`; `false` is kept to state the historical defect (F8). -/
def parseIntervalWith (fixedInt : Bool) : Scalar → Except Err (TUnit × Int)
  | .int n =>
    if 0 ≤ n then
      if n.toNat ≤ I64_MAX then .ok (.second, n)
      else if n.toNat ≤ U64_MAX then
        if fixedInt then .error .overflow else .ok (.second, n - 2 ^ 64)
      else .error .invalidType
    else if -(2 ^ 63 : Int) ≤ n then .error .negative
    else .error .invalidType
  | .str s => parseIntervalStr s
  | .other => .error .invalidType

def parseInterval : Scalar → Except Err (TUnit × Int) := parseIntervalWith true

end Log4rs.Literals
