import Log4rsModel.Base.Str
import Log4rsModel.Base.Bytes
import Log4rsModel.Base.Outcome
/-
Model of the serde visitors that parse size limits (`trigger/size.rs::deserialize_limit`) and
time intervals (`trigger/time.rs`, `impl Deserialize for TimeTriggerInterval`), as the code is now.
A scalar reaches the visitor through `deserialize_any` (directly from serde_json / serde_yaml / toml,
or as a `serde_value::Value` on the configuration path):
  * `visit_u64`  : a non-negative JSON / YAML integer below 2^64 (`Value::U64`)
  * `visit_i64`  : a negative JSON / YAML integer from -2^63, and EVERY TOML integer (`Value::I64`)
  * `visit_str`  : a string
  * anything else (float — which includes JSON integers outside both ranges —, 128-bit integers,
    bool, null, sequences, maps): serde's default `invalid type` error
Which of the four a document token reaches is the format parser's business (trusted, exercised by
the harness through all three formats and the `plain` cases); the visitors start here.

Panics are explicit (`Outcome`): the only panic source in the two visitors is the byte slicing
`v[..n]` / `v[n..]` at the offset returned by `str::find` (`splitAtByte`).
-/
namespace Log4rs.Literals
open Log4rs.Str Log4rs

/-- the visitor method a scalar reaches, with its argument -/
inductive Visit where
  | u64 (v : Nat) (h : v < 2 ^ 64)
  | i64 (v : Int) (h : -(2 ^ 63 : Int) ≤ v ∧ v < 2 ^ 63)
  | str (s : List Char)
  | other            -- float / 128-bit integer / bool / null / seq / map

inductive Err where
  | invalidType      -- visitor has no method for this scalar
  | negative         -- "a non-negative number"
  | notNumber        -- "a number"
  | badUnit          -- "a valid unit"
  | overflow         -- "a byte size" / "a number no larger than i64::MAX"
  deriving Repr, DecidableEq

def U64_MAX : Nat := 2 ^ 64 - 1
def I64_MAX : Nat := 2 ^ 63 - 1

/-- `str::find(pred)`: the BYTE offset of the first character satisfying `pred` (`off` = bytes
already passed) -/
def findByte (p : Char → Bool) : List Char → Nat → Option Nat
  | [], _ => none
  | c :: cs, off => if p c then some off else findByte p cs (off + (utf8Char c).length)

/-- `(&v[..n], &v[n..])`. `none` = byte offset `n` is inside a character or past the end: Rust
panics ("byte index n is not a char boundary"). -/
def splitAtByte : List Char → Nat → Option (List Char × List Char)
  | v, 0 => some ([], v)
  | [], _ + 1 => none
  | c :: cs, n + 1 =>
    if (utf8Char c).length ≤ n + 1 then
      (splitAtByte cs (n + 1 - (utf8Char c).length)).map (fun p => (c :: p.1, p.2))
    else none

/-- `match v.find(|c| !c.is_ascii_digit()) { Some(n) => (v[..n].trim(), Some(v[n..].trim())),
None => (v.trim(), None) }` -/
def splitNumberUnit (v : List Char) : Outcome Err (List Char × Option (List Char)) :=
  match findByte (fun c => !isAsciiDigit c) v 0 with
  | none => .ok (trim v, none)
  | some n =>
    match splitAtByte v n with
    | some (num, rest) => .ok (trim num, some (trim rest))
    | none => .panic "byte index is not a char boundary"

/-- `str::parse::<u64>()` / `parse::<i64>()`: optional sign, then ASCII digits, range-checked. Only
digit strings reach it here (`splitNumberUnit_digits`); the sign rules are kept so that the
definition is Rust's for any text. -/
def stripPlus : List Char → List Char
  | '+' :: r => r
  | r => r

def parseDigits (max : Nat) (body : List Char) : Option Nat :=
  if body.isEmpty then none
  else if body.all isAsciiDigit then
    if digitsVal body ≤ max then some (digitsVal body) else none
  else none

def parseUnsigned (max : Nat) (s : List Char) : Option Nat := parseDigits max (stripPlus s)

def parseSigned (s : List Char) : Option Int :=
  match s with
  | '-' :: r =>
    (parseDigits (I64_MAX + 1) r).map (fun v => -(v : Int))
  | _ => (parseUnsigned I64_MAX s).map Int.ofNat

/-- the `if unit.eq_ignore_ascii_case("b") … else if …` chain of size.rs, in order -/
def sizeUnitTable : List (List Char × Nat) :=
  [ (['b'], 1),
    (['k','b'], 1024), (['k','i','b'], 1024),
    (['m','b'], 1024 * 1024), (['m','i','b'], 1024 * 1024),
    (['g','b'], 1024 * 1024 * 1024), (['g','i','b'], 1024 * 1024 * 1024),
    (['t','b'], 1024 * 1024 * 1024 * 1024), (['t','i','b'], 1024 * 1024 * 1024 * 1024) ]

def lookupUnit {α} (table : List (List Char × α)) (u : List Char) : Option α :=
  match table.find? (fun e => eqIgnoreAsciiCase u e.1) with
  | some e => some e.2
  | none => none

def parseSizeStr (v : List Char) : Outcome Err Nat :=
  match splitNumberUnit v with
  | .panic w => .panic w
  | .err e => .err e
  | .ok (number, unit) =>
    match parseUnsigned U64_MAX number with
    | none => .err .notNumber
    | some n =>
      match unit with
      | none => .ok n
      | some u =>
        match lookupUnit sizeUnitTable u with
        | none => .err .badUnit
        | some mult =>
          -- `checked_mul`
          if n * mult ≤ U64_MAX then .ok (n * mult) else .err .overflow

def visitSize : Visit → Outcome Err Nat
  | .u64 v _ => .ok v
  | .i64 v _ => if v < 0 then .err .negative else .ok v.toNat     -- `v as u64`, v ≥ 0
  | .str s => parseSizeStr s
  | .other => .err .invalidType

inductive TUnit where
  | second | minute | hour | day | week | month | year
  deriving Repr, DecidableEq

def TUnit.name : TUnit → String
  | .second => "second" | .minute => "minute" | .hour => "hour" | .day => "day"
  | .week => "week" | .month => "month" | .year => "year"

/-- the `eq_ignore_ascii_case` chain of time.rs, in order -/
def timeUnitTable : List (List Char × TUnit) :=
  [ (['s','e','c','o','n','d'], .second), (['s','e','c','o','n','d','s'], .second),
    (['m','i','n','u','t','e'], .minute), (['m','i','n','u','t','e','s'], .minute),
    (['h','o','u','r'], .hour), (['h','o','u','r','s'], .hour),
    (['d','a','y'], .day), (['d','a','y','s'], .day),
    (['w','e','e','k'], .week), (['w','e','e','k','s'], .week),
    (['m','o','n','t','h'], .month), (['m','o','n','t','h','s'], .month),
    (['y','e','a','r'], .year), (['y','e','a','r','s'], .year) ]

def parseIntervalStr (v : List Char) : Outcome Err (TUnit × Int) :=
  match splitNumberUnit v with
  | .panic w => .panic w
  | .err e => .err e
  | .ok (number, unit) =>
    match parseSigned number with
    | none => .err .notNumber
    | some n =>
      if n < 0 then .err .negative else
      match unit with
      | none => .ok (.second, n)
      | some u =>
        match lookupUnit timeUnitTable u with
        | none => .err .badUnit
        | some tu => .ok (tu, n)

/-- The count of an accepted interval is the `i64` payload of the `TimeTriggerInterval` variant.
`visit_u64` rejects values above `i64::MAX` (the `fix:` commit a913ecb; before it `v as i64` wrapped). -/
def visitInterval : Visit → Outcome Err (TUnit × Int)
  | .u64 v _ => if v ≤ I64_MAX then .ok (.second, (v : Int)) else .err .overflow
  | .i64 v _ => if v < 0 then .err .negative else .ok (.second, v)
  | .str s => parseIntervalStr s
  | .other => .err .invalidType

/-- forget why something was not accepted (`none` = an error or a panic) -/
def toOpt {ε α} : Outcome ε α → Option α
  | .ok a => some a
  | _ => none

/-! ### Document scalars

`Scalar` is a scalar of a configuration document (the vocabulary shared with the configuration
model of C14): an integer token of any size, a string, or anything else. `Scalar.visit` is the route
of JSON and YAML (and of `serde_value::Value::U64` / `I64`), `Scalar.visitToml` the route of TOML,
which has only `i64` integers and hands every one of them to `visit_i64`. -/

inductive Scalar where
  | int (n : Int)
  | str (s : List Char)
  | other            -- float / bool / null / seq / map
  deriving Repr, DecidableEq

def Scalar.visit : Scalar → Visit
  | .int n =>
    if h : 0 ≤ n ∧ n.toNat < 2 ^ 64 then .u64 n.toNat h.2
    else if h2 : -(2 ^ 63 : Int) ≤ n ∧ n < 2 ^ 63 then .i64 n h2
    else .other        -- f64 / u128 / i128: no visitor method
  | .str s => .str s
  | .other => .other

def Scalar.visitToml : Scalar → Option Visit
  | .int n => if h2 : -(2 ^ 63 : Int) ≤ n ∧ n < 2 ^ 63 then some (.i64 n h2) else none
  | .str s => some (.str s)
  | .other => some .other

/-- `Result` view of an outcome for the callers that have no panic constructor (the configuration
model of C14). The visitors never panic (`C20_size_no_panic`, `C20_interval_no_panic`), so the last
line is unreachable; it is not used by any C20 theorem. -/
def toExcept {α} : Outcome Err α → Except Err α
  | .ok a => .ok a
  | .err e => .error e
  | .panic _ => .error .invalidType

def parseSize (sc : Scalar) : Except Err Nat := toExcept (visitSize sc.visit)

def parseInterval (sc : Scalar) : Except Err (TUnit × Int) := toExcept (visitInterval sc.visit)

end Log4rs.Literals
