import Log4rsModel.Literals.Model
/-
Specification of C20 for the two trigger literals, read off the English statement. It mentions
neither the model's parsing functions nor its unit tables.

  "Size limits and time intervals written as '<number><unit>' parse, case-insensitively and with or
   without whitespace between number and unit, to exactly number x unit (powers of 1024 for
   b/kb/mb/gb/tb and their -ib forms; the named unit, singular or plural, for intervals), and bare
   numbers mean bytes or seconds. Negative numbers, unknown units, fractional numbers and values
   that would overflow are rejected with an error instead of wrapping or panicking."

* `SizeLit s v` / `IntervalLit s t n` : the RELATIONS "the text `s` is a literal denoting `v` bytes /
  `n` units `t`" (the specification proper; `C20_size_iff`, `C20_interval_iff` prove the model of the
  code equivalent to them, with the range condition).
* `specSize`, `specInterval` : executable deciders, used by the driver for raw strings (proved
  equivalent to the relations in `Lemmas.lean`); for cases that carry the generator's intent the
  driver does not parse at all (`Driver/C20.lean`).

Reading decisions (also in props.d/C20.json): a number is a non-empty string of ASCII digits read in
base ten (leading zeros allowed; `digitsVal`, tied to decimal numerals by `C20_digitsVal_decimal`);
"white space" is the Unicode White_Space property (Rust's `char::is_whitespace`); white space is
allowed between number and unit and after the unit, not before the number, and not after a bare
number (this is what the code does; the statement does not say); the value of an interval is the pair
(count, named unit) — what a month or a year is in seconds is the schedule's business (C16).
-/
namespace Log4rs.Literals
open Log4rs.Str

def Digits (ds : List Char) : Prop := ds ≠ [] ∧ ∀ c ∈ ds, isAsciiDigit c = true
def AllWs (ws : List Char) : Prop := ∀ c ∈ ws, isWhitespace c = true

/-- k, m, g, t = 1024^1 … 1024^4 -/
def prefixExp (p : Char) : Option Nat :=
  if p = 'k' then some 1 else if p = 'm' then some 2 else if p = 'g' then some 3
  else if p = 't' then some 4 else none

/-- the power of 1024 named by a (lower-case) size unit word: `b`; `kb mb gb tb`; `kib mib gib tib` -/
def unitExp (w : List Char) : Option Nat :=
  match w with
  | [b] => if b = 'b' then some 0 else none
  | [p, b] => if b = 'b' then prefixExp p else none
  | [p, i, b] => if i = 'i' ∧ b = 'b' then prefixExp p else none
  | _ => none

inductive SizeLit : List Char → Nat → Prop
  | bare (ds : List Char) : Digits ds → SizeLit ds (digitsVal ds)
  | unit (ds ws u ws' : List Char) (k : Nat) : Digits ds → AllWs ws → AllWs ws' →
      unitExp (u.map toAsciiLower) = some k →
      SizeLit (ds ++ (ws ++ (u ++ ws'))) (digitsVal ds * 1024 ^ k)

/-- the English name of an interval unit -/
def TUnit.word : TUnit → List Char
  | .second => ['s','e','c','o','n','d'] | .minute => ['m','i','n','u','t','e']
  | .hour => ['h','o','u','r'] | .day => ['d','a','y'] | .week => ['w','e','e','k']
  | .month => ['m','o','n','t','h'] | .year => ['y','e','a','r']

def TUnit.all : List TUnit := [.second, .minute, .hour, .day, .week, .month, .year]

/-- "the named unit, singular or plural" (lower-case word) -/
def unitOf (w : List Char) : Option TUnit :=
  TUnit.all.find? (fun t => w = t.word ∨ w = t.word ++ ['s'])

inductive IntervalLit : List Char → TUnit → Nat → Prop
  | bare (ds : List Char) : Digits ds → IntervalLit ds .second (digitsVal ds)
  | unit (ds ws u ws' : List Char) (t : TUnit) : Digits ds → AllWs ws → AllWs ws' →
      unitOf (u.map toAsciiLower) = some t →
      IntervalLit (ds ++ (ws ++ (u ++ ws'))) t (digitsVal ds)

/-! ### executable deciders -/

def fit (max n : Nat) : Option Nat := if n ≤ max then some n else none

/-- the leading ASCII digits and the remainder -/
def leadDigits : List Char → List Char × List Char
  | [] => ([], [])
  | c :: cs =>
    if isAsciiDigit c then ((leadDigits cs).1.cons c, (leadDigits cs).2) else ([], c :: cs)

/-- unbounded reading of a literal text: number and, if present, the unit looked up by `f` on the
lower-cased, white-space-stripped remainder -/
def readLit {α} (f : List Char → Option α) (s : List Char) : Option (Nat × Option α) :=
  match leadDigits s with
  | ([], _) => none
  | (ds, []) => some (digitsVal ds, none)
  | (ds, rest) =>
    match f ((trim rest).map toAsciiLower) with
    | some a => some (digitsVal ds, some a)
    | none => none

def specSize : Visit → Option Nat
  | .u64 v _ => some v
  | .i64 v _ => if 0 ≤ v then some v.toNat else none
  | .str s =>
    match readLit unitExp s with
    | none => none
    | some (n, none) => fit U64_MAX n
    | some (n, some k) => fit U64_MAX (n * 1024 ^ k)
  | .other => none

def specInterval : Visit → Option (TUnit × Int)
  | .u64 v _ => (fit I64_MAX v).map (fun n => (.second, (n : Int)))
  | .i64 v _ => if 0 ≤ v then some (.second, v) else none
  | .str s =>
    match readLit unitOf s with
    | none => none
    | some (n, none) => (fit I64_MAX n).map (fun n => (.second, (n : Int)))
    | some (n, some t) => (fit I64_MAX n).map (fun n => (t, (n : Int)))
  | .other => none

/-- the statement on a document scalar: an integer is a bare number -/
def specSizeDoc : Scalar → Option Nat
  | .int n => if 0 ≤ n ∧ n.toNat ≤ U64_MAX then some n.toNat else none
  | .str s => specSize (.str s)
  | .other => none

def specIntervalDoc : Scalar → Option (TUnit × Int)
  | .int n => if 0 ≤ n ∧ n.toNat ≤ I64_MAX then some (.second, n) else none
  | .str s => specInterval (.str s)
  | .other => none

end Log4rs.Literals
