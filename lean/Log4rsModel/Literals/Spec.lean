import Log4rsModel.Literals.Model
/-
Executable specification of C20, read off the English statement:
  '<number><unit>' (case-insensitive unit, optional whitespace between and after) denotes
  number × unit; a bare number denotes bytes / seconds; everything else, and every value that
  does not fit the target type, is rejected.
`none` = must be rejected, `some v` = must be accepted with exactly this value.
-/
namespace Log4rs.Literals
open Log4rs.Str

/-- mathematical (unbounded) reading of a literal: leading digit string, then a unit word -/
def denote {α} (table : List (List Char × α)) (s : List Char) : Option (Nat × Option α) :=
  let ds := s.takeWhile isAsciiDigit
  let rest := s.dropWhile isAsciiDigit
  if ds.isEmpty then none
  else if rest.isEmpty then some (digitsVal ds, none)
  else match lookupUnit table (trim rest) with
    | none => none
    | some a => some (digitsVal ds, some a)

def specSize : Scalar → Option Nat
  | .int n => if 0 ≤ n ∧ n.toNat ≤ U64_MAX then some n.toNat else none
  | .str s =>
    match denote sizeUnitTable s with
    | none => none
    | some (n, none) => if n ≤ U64_MAX then some n else none
    | some (n, some mult) => if n * mult ≤ U64_MAX then some (n * mult) else none
  | .other => none

def specInterval : Scalar → Option (TUnit × Int)
  | .int n => if 0 ≤ n ∧ n.toNat ≤ I64_MAX then some (.second, n) else none
  | .str s =>
    match denote timeUnitTable s with
    | none => none
    | some (n, none) => if n ≤ I64_MAX then some (.second, (n : Int)) else none
    | some (n, some u) => if n ≤ I64_MAX then some (u, (n : Int)) else none
  | .other => none

def exceptToOption {ε α} : Except ε α → Option α
  | .ok a => some a
  | .error _ => none

end Log4rs.Literals
