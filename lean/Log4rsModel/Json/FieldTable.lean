import Log4rsModel.Json.Model
/-
Table view of `struct Message` (src/encode/json.rs) for the TRANSLATION OBLIGATION `C12_gen_message_fields`
that tools/translate.py regenerates from the source on every check run: the serialized key of every
field in declaration order, whether it carries `skip_serializing_if = "Option::is_none"`, and whether
its type is an `Option`.

Nothing here changes the model: `messageMembers_eq_table` proves that the members the model writes
(`messageMembers`, Json/Model.lean) are exactly this table applied to the rendered field values —
an absent `Option` is left out when the field skips `None`, and is `null` otherwise (derive(Serialize)).
Core imports only.
-/
namespace Log4rs.Json

/-- (key, skip_serializing_if = "Option::is_none", the type is an Option) in declaration order -/
def messageFieldTable : List (List Char × Bool × Bool) :=
  [ (kTime, false, false), (kLevel, false, false), (kMessage, false, false),
    (kModulePath, true, true), (kFile, true, true), (kLine, true, true),
    (kTarget, false, false), (kThread, false, true), (kThreadId, false, false), (kMdc, false, false) ]

/-- the rendered value of every field in declaration order; `none` = the `Option` is `None` -/
def fieldValues (env : Env) (r : Record) : List (Option (List Char)) :=
  [ some (jstr env.time), some (jstr r.level.name), some (jstrPieces r.pieces),
    r.modulePath.map jstr, r.file.map jstr, r.line.map natDigits,
    some (jstr r.target), env.thread.map jstr, some (natDigits env.threadId), some (mdcObject env.mdc) ]

/-- derive(Serialize) over a field table -/
def membersOfTable : List (List Char × Bool × Bool) → List (Option (List Char)) → List (List Char)
  | (k, skip, _) :: t, v :: vs =>
    (match v with
     | some x => [member k x]
     | none => if skip then [] else [member k jnull]) ++ membersOfTable t vs
  | _, _ => []

theorem messageMembers_eq_table (env : Env) (r : Record) :
    messageMembers env r = membersOfTable messageFieldTable (fieldValues env r) := by
  obtain ⟨lv, ps, mp, f, l, tg⟩ := r
  obtain ⟨tm, th, tid, mdc⟩ := env
  cases mp <;> cases f <;> cases l <;> cases th <;> rfl

/-- only `Option` fields are absent, so the table's third column is what makes `none` possible -/
theorem fieldValues_some_of_not_option (env : Env) (r : Record) :
    ∀ p ∈ messageFieldTable.zip (fieldValues env r), p.1.2.2 = false → p.2.isSome = true := by
  intro p hp
  simp only [messageFieldTable, fieldValues, List.zip_cons_cons, List.zip_nil_right, List.mem_cons,
    List.not_mem_nil, or_false] at hp
  rcases hp with h | h | h | h | h | h | h | h | h | h <;> subst h <;> simp

end Log4rs.Json
