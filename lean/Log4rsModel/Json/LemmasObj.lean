import Log4rsModel.Json.LemmasStr
/-
Helper lemmas for C12, part 2: numbers, members, objects, the whole line.
-/
namespace Log4rs.Json

/-! ### numbers -/

theorem digit_facts : ∀ d, d < 10 →
    isDigit (hexDigit d) = true ∧ (hexDigit d).toNat - 48 = d ∧ (hexDigit d = '0' → d = 0) := by decide

theorem natDigits_lt (n : Nat) (h : n < 10) : natDigits n = [hexDigit n] := by
  rw [natDigits]; simp [h]

theorem natDigits_ge (n : Nat) (h : ¬ n < 10) : natDigits n = natDigits (n / 10) ++ [hexDigit (n % 10)] := by
  rw [natDigits]; simp [h]

theorem natDigits_digits (n : Nat) : ∀ c ∈ natDigits n, isDigit c = true := by
  induction n using Nat.strongRecOn with
  | _ n ih =>
    by_cases h : n < 10
    · rw [natDigits_lt n h]; intro c hc
      simp only [List.mem_cons, List.not_mem_nil, or_false] at hc
      subst hc; exact (digit_facts n h).1
    · rw [natDigits_ge n h]; intro c hc
      simp only [List.mem_append, List.mem_cons, List.not_mem_nil, or_false] at hc
      rcases hc with hc | hc
      · exact ih (n / 10) (by omega) c hc
      · subst hc; exact (digit_facts (n % 10) (by omega)).1

theorem digitsVal_snoc (ds : List Char) (c : Char) : digitsVal (ds ++ [c]) = digitsVal ds * 10 + (c.toNat - 48) := by
  simp [digitsVal, List.foldl_append]

theorem digitsVal_natDigits (n : Nat) : digitsVal (natDigits n) = n := by
  induction n using Nat.strongRecOn with
  | _ n ih =>
    by_cases h : n < 10
    · rw [natDigits_lt n h]
      have := (digit_facts n h).2.1
      simp [digitsVal, this]
    · rw [natDigits_ge n h, digitsVal_snoc, ih (n / 10) (by omega), (digit_facts (n % 10) (by omega)).2.1]
      omega

/-- no leading zero: `0` is `"0"`, a positive number starts with a non-zero digit -/
theorem natDigits_shape (n : Nat) :
    (n = 0 ∧ natDigits n = ['0']) ∨
    (0 < n ∧ ∃ d ds, natDigits n = d :: ds ∧ d ≠ '0') := by
  induction n using Nat.strongRecOn with
  | _ n ih =>
    by_cases h : n < 10
    · rw [natDigits_lt n h]
      by_cases h0 : n = 0
      · left; subst h0; exact ⟨rfl, rfl⟩
      · right; refine ⟨by omega, _, _, rfl, ?_⟩
        intro hz; exact h0 ((digit_facts n h).2.2 hz)
    · right
      rw [natDigits_ge n h]
      rcases ih (n / 10) (by omega) with ⟨hz, _⟩ | ⟨_, d, ds, hd, hne⟩
      · omega
      · exact ⟨by omega, d, ds ++ [hexDigit (n % 10)], by rw [hd]; rfl, hne⟩

theorem natDigits_ne_nil (n : Nat) : natDigits n ≠ [] := by
  rcases natDigits_shape n with ⟨_, h⟩ | ⟨_, d, ds, h, _⟩ <;> rw [h] <;> simp

theorem natDigits_head_digit (n : Nat) : ∃ d ds, natDigits n = d :: ds ∧ isDigit d = true := by
  cases h : natDigits n with
  | nil => exact absurd h (natDigits_ne_nil n)
  | cons d ds => exact ⟨d, ds, rfl, natDigits_digits n d (by rw [h]; simp)⟩

theorem readNat_natDigits (n : Nat) (c : Char) (rest : List Char) (hc : isDigit c = false) :
    readNat (natDigits n ++ c :: rest) = some (n, c :: rest) := by
  have ht : (natDigits n ++ c :: rest).takeWhile isDigit = natDigits n := by
    rw [List.takeWhile_append_of_pos (natDigits_digits n), List.takeWhile_cons_of_neg (by simp [hc])]; simp
  have hd : (natDigits n ++ c :: rest).dropWhile isDigit = c :: rest := by
    rw [List.dropWhile_append_of_pos (natDigits_digits n), List.dropWhile_cons_of_neg (by simp [hc])]
  simp only [readNat, ht, hd, natDigits_ne_nil n, if_false, digitsVal_natDigits]
  rcases natDigits_shape n with ⟨_, h⟩ | ⟨_, d, ds, h, hne⟩
  · rw [h]; simp
  · rw [h]; simp [hne]

/-! ### members and objects -/

/-- a value reader inverts a value renderer on `v` in every member context -/
def RVok (rv : List Char → Option (β × List Char)) (render : β → List Char) (v : β) : Prop :=
  ∀ c rest, (c = ',' ∨ c = '}') → rv (render v ++ c :: rest) = some (v, c :: rest)

theorem readMember_ok {rv : List Char → Option (β × List Char)} {render : β → List Char}
    (k : List Char) (v : β) (h : RVok rv render v) (c : Char) (rest : List Char) (hc : c = ',' ∨ c = '}') :
    readMember rv (member k (render v) ++ c :: rest) = some ((k, v), c :: rest) := by
  have e : member k (render v) ++ c :: rest
      = '"' :: (escape k ++ '"' :: (':' :: (render v ++ c :: rest))) := by
    simp [member, jstr]
  rw [e]
  simp [readMember, readStr_escape, h c rest hc]

theorem member_eq (k v : List Char) : member k v = '"' :: (escape k ++ '"' :: ':' :: v) := by
  simp [member, jstr]

theorem joinMembers_cons_cons (x y : List Char) (ys : List (List Char)) :
    joinMembers (x :: y :: ys) = x ++ ',' :: joinMembers (y :: ys) := rfl

theorem readMembers_ok {rv : List Char → Option (β × List Char)} {render : β → List Char} :
    ∀ (ms : List (List Char × β)) (m : List Char × β), (∀ p ∈ m :: ms, RVok rv render p.2) →
    ∀ fuel, (m :: ms).length ≤ fuel → ∀ rest,
    readMembers rv fuel (joinMembers ((m :: ms).map fun p => member p.1 (render p.2)) ++ '}' :: rest)
      = some (m :: ms, rest) := by
  intro ms
  induction ms with
  | nil =>
    intro m hok fuel hf rest
    cases fuel with
    | zero => simp at hf
    | succ f =>
      simp only [List.map_cons, List.map_nil, joinMembers]
      rw [readMembers, readMember_ok m.1 m.2 (hok m (by simp)) '}' rest (Or.inr rfl)]
      rfl
  | cons m' ms ih =>
    intro m hok fuel hf rest
    cases fuel with
    | zero => simp at hf
    | succ f =>
      simp only [List.map_cons, joinMembers_cons_cons, List.append_assoc, List.cons_append]
      rw [readMembers, readMember_ok m.1 m.2 (hok m (by simp)) ',' _ (Or.inl rfl)]
      have := ih m' (fun p hp => hok p (List.mem_cons_of_mem _ hp)) f (by simpa using hf) rest
      simp only [List.map_cons] at this
      simp [this]

theorem readObjBody_ok {rv : List Char → Option (β × List Char)} {render : β → List Char}
    (ms : List (List Char × β)) (hok : ∀ p ∈ ms, RVok rv render p.2) (fuel : Nat) (hf : ms.length ≤ fuel)
    (rest : List Char) :
    readObjBody rv fuel (joinMembers (ms.map fun p => member p.1 (render p.2)) ++ '}' :: rest)
      = some (ms, rest) := by
  cases ms with
  | nil => simp [joinMembers, readObjBody]
  | cons m ms =>
    have h := readMembers_ok ms m hok fuel hf rest
    have hhead : ∃ tl, joinMembers ((m :: ms).map fun p => member p.1 (render p.2)) ++ '}' :: rest = '"' :: tl := by
      cases ms with
      | nil =>
        simp only [List.map_cons, List.map_nil, joinMembers, member_eq, List.cons_append]
        exact ⟨_, rfl⟩
      | cons m' ms' =>
        simp only [List.map_cons, joinMembers_cons_cons, member_eq, List.cons_append]
        exact ⟨_, rfl⟩
    obtain ⟨tl, htl⟩ := hhead
    rw [htl] at h ⊢
    simpa [readObjBody] using h

end Log4rs.Json
