import Log4rsModel.Json.Grammar
import Log4rsModel.Json.LemmasLine
/-
C12, part 5: the reader of Json/Spec.lean and the writer of Json/Model.lean against the grammar of
Json/Grammar.lean.

* strings: `readStr` accepts exactly the bodies in `JStr` and returns exactly what they denote
  (`readStr_sound`, `readStr_complete`), so `JStr` is functional (`JStr_functional`); `escape s` is in
  `JStr … s` (`JStr_escape`).
* lines: the emitted line is in `JLine` denoting `membersOf env r` (`jsonLine_in_grammar`).
-/
namespace Log4rs.Json

/-! ### hexadecimal digits, escapes -/

theorem char_le_iff (a b : Char) : a ≤ b ↔ a.toNat ≤ b.toNat := Iff.rfl

theorem hexVal_sound (c : Char) (v : Nat) (h : hexVal c = some v) : HexDigit c v := by
  unfold hexVal at h
  split at h
  · rename_i hc; cases h; exact HexDigit.dec c hc.1 hc.2
  · split at h
    · rename_i hc; cases h; exact HexDigit.lower c hc.1 hc.2
    · split at h
      · rename_i hc; cases h; exact HexDigit.upper c hc.1 hc.2
      · cases h

theorem hexVal_complete (c : Char) (v : Nat) (h : HexDigit c v) : hexVal c = some v := by
  cases h with
  | dec h1 h2 => simp [hexVal, h1, h2]
  | lower h1 h2 =>
    have : ¬ ('0' ≤ c ∧ c ≤ '9') := by
      rw [char_le_iff, char_le_iff] at *
      have : 'a'.toNat = 97 := rfl
      have : '9'.toNat = 57 := rfl
      omega
    simp [hexVal, h1, h2, this]
  | upper h1 h2 =>
    have n1 : ¬ ('0' ≤ c ∧ c ≤ '9') := by
      rw [char_le_iff, char_le_iff] at *
      have : 'A'.toNat = 65 := rfl
      have : '9'.toNat = 57 := rfl
      omega
    have n2 : ¬ ('a' ≤ c ∧ c ≤ 'f') := by
      rw [char_le_iff, char_le_iff] at *
      have : 'F'.toNat = 70 := rfl
      have : 'a'.toNat = 97 := rfl
      omega
    simp [hexVal, h1, h2, n1, n2]

theorem hex4_sound (a b c d : Char) (n : Nat) (h : hex4 a b c d = some n) : Hex4 a b c d n := by
  unfold hex4 at h
  cases ha : hexVal a <;> cases hb : hexVal b <;> cases hc : hexVal c <;> cases hd : hexVal d <;>
    simp [ha, hb, hc, hd] at h
  subst h
  exact Hex4.mk (hexVal_sound _ _ ha) (hexVal_sound _ _ hb) (hexVal_sound _ _ hc) (hexVal_sound _ _ hd)

theorem hex4_complete (a b c d : Char) (n : Nat) (h : Hex4 a b c d n) : hex4 a b c d = some n := by
  cases h with
  | mk ha hb hc hd =>
    simp [hex4, hexVal_complete _ _ ha, hexVal_complete _ _ hb, hexVal_complete _ _ hc, hexVal_complete _ _ hd]

theorem simpleEsc_sound (e x : Char) (h : simpleEsc e = some x) : SimpleEscape e x := by
  unfold simpleEsc at h
  repeat' split at h
  all_goals first
    | (cases h; done)
    | (cases h; subst_vars; constructor)

theorem simpleEsc_complete (e x : Char) (h : SimpleEscape e x) : simpleEsc e = some x ∧ e ≠ 'u' := by
  cases h <;> exact ⟨by decide, by decide⟩

/-! ### the scanner, step by step -/

theorem map_consTok_eq {t : Tok} {o : Option (List Tok × List Char)} {toks : List Tok} {rest : List Char}
    (h : o.map (consTok t) = some (toks, rest)) : ∃ toks', o = some (toks', rest) ∧ toks = t :: toks' := by
  cases o with
  | none => simp at h
  | some p =>
    obtain ⟨t1, r1⟩ := p
    simp only [Option.map_some, consTok, Option.some.injEq, Prod.mk.injEq] at h
    exact ⟨t1, by rw [h.2], h.1.symm⟩

theorem scan_inv (cs : List Char) (toks : List Tok) (rest : List Char) (h : scan cs = some (toks, rest)) :
    (toks = [] ∧ cs = '"' :: rest) ∨
    (∃ c cs' toks', cs = c :: cs' ∧ toks = .ch c :: toks' ∧ 0x20 ≤ c.toNat ∧ c ≠ '"' ∧ c ≠ '\\' ∧
        scan cs' = some (toks', rest)) ∨
    (∃ e x cs' toks', cs = '\\' :: e :: cs' ∧ SimpleEscape e x ∧ toks = .ch x :: toks' ∧
        scan cs' = some (toks', rest)) ∨
    (∃ a b c d n cs' toks', cs = '\\' :: 'u' :: a :: b :: c :: d :: cs' ∧ Hex4 a b c d n ∧
        toks = .unit n :: toks' ∧ scan cs' = some (toks', rest)) := by
  rw [scan.eq_def] at h
  cases cs with
  | nil => simp at h
  | cons c cs1 =>
    simp only at h
    by_cases hq : c = '"'
    · subst hq
      simp only [if_true, Option.some.injEq, Prod.mk.injEq] at h
      exact Or.inl ⟨h.1.symm, by rw [h.2]⟩
    · simp only [hq, if_false] at h
      by_cases hb : c = '\\'
      · subst hb
        simp only [if_true] at h
        cases cs1 with
        | nil => simp at h
        | cons e cs2 =>
          simp only at h
          by_cases hu : e = 'u'
          · subst hu
            simp only [if_true] at h
            rcases cs2 with _ | ⟨a, _ | ⟨b, _ | ⟨c', _ | ⟨d, cs3⟩⟩⟩⟩ <;> simp only at h <;> try (cases h; done)
            cases hx : hex4 a b c' d with
            | none => simp [hx] at h
            | some n =>
              simp only [hx] at h
              obtain ⟨toks', hs, ht⟩ := map_consTok_eq h
              exact Or.inr (Or.inr (Or.inr ⟨a, b, c', d, n, cs3, toks', rfl, hex4_sound _ _ _ _ _ hx, ht, hs⟩))
          · simp only [hu, if_false] at h
            cases hx : simpleEsc e with
            | none => simp [hx] at h
            | some x =>
              simp only [hx] at h
              obtain ⟨toks', hs, ht⟩ := map_consTok_eq h
              exact Or.inr (Or.inr (Or.inl ⟨e, x, cs2, toks', rfl, simpleEsc_sound _ _ hx, ht, hs⟩))
      · simp only [hb, if_false] at h
        by_cases hl : c.toNat < 0x20
        · simp [hl] at h
        · simp only [hl, if_false] at h
          obtain ⟨toks', hs, ht⟩ := map_consTok_eq h
          exact Or.inr (Or.inl ⟨c, cs1, toks', rfl, ht, by omega, hq, hb, hs⟩)

/-! ### combining code units -/

theorem map_cons_eq {c : Char} {o : Option (List Char)} {s : List Char} (h : o.map (c :: ·) = some s) :
    ∃ s', o = some s' ∧ s = c :: s' := by
  cases o with
  | none => simp at h
  | some s' => simp only [Option.map_some, Option.some.injEq] at h; exact ⟨s', rfl, h.symm⟩

theorem combine_unit_bmp (n : Nat) (r : List Tok) (h : n < 0xD800 ∨ 0xDFFF < n) :
    combine (.unit n :: r) = (combine r).map (Char.ofNat n :: ·) := by
  rw [combine.eq_def]; simp [h]

theorem combine_unit_pair (hi lo : Nat) (r : List Tok) (h1 : 0xD800 ≤ hi) (h2 : hi ≤ 0xDBFF)
    (h3 : 0xDC00 ≤ lo) (h4 : lo ≤ 0xDFFF) :
    combine (.unit hi :: .unit lo :: r)
      = (combine r).map (Char.ofNat (0x10000 + (hi - 0xD800) * 0x400 + (lo - 0xDC00)) :: ·) := by
  rw [combine.eq_def]
  have n1 : ¬ (hi < 0xD800 ∨ 0xDFFF < hi) := by omega
  simp [n1, h2, h3, h4]

/-- what `combine` can have done with a leading code unit -/
theorem combine_unit_inv (n : Nat) (r : List Tok) (s : List Char) (h : combine (.unit n :: r) = some s) :
    ((n < 0xD800 ∨ 0xDFFF < n) ∧ ∃ s', combine r = some s' ∧ s = Char.ofNat n :: s') ∨
    (0xD800 ≤ n ∧ n ≤ 0xDBFF ∧ ∃ m r' s', r = .unit m :: r' ∧ 0xDC00 ≤ m ∧ m ≤ 0xDFFF ∧
        combine r' = some s' ∧ s = Char.ofNat (0x10000 + (n - 0xD800) * 0x400 + (m - 0xDC00)) :: s') := by
  rw [combine.eq_def] at h
  simp only at h
  by_cases hb : n < 0xD800 ∨ 0xDFFF < n
  · simp only [hb, if_true] at h
    obtain ⟨s', h1, h2⟩ := map_cons_eq h
    exact Or.inl ⟨hb, s', h1, h2⟩
  · simp only [hb, if_false] at h
    by_cases hh : n ≤ 0xDBFF
    · simp only [hh, if_true] at h
      cases r with
      | nil => simp at h
      | cons t r' =>
        cases t with
        | ch c => simp at h
        | unit m =>
          simp only at h
          by_cases hm : 0xDC00 ≤ m ∧ m ≤ 0xDFFF
          · simp only [hm, and_self, if_true] at h
            obtain ⟨s', h1, h2⟩ := map_cons_eq h
            exact Or.inr ⟨by omega, hh, m, r', s', rfl, hm.1, hm.2, h1, h2⟩
          · simp [hm] at h
    · simp [hh] at h

/-! ### strings: reader = grammar -/

theorem scan_combine_sound : ∀ (k : Nat) (toks : List Tok), toks.length = k →
    ∀ (cs rest s : List Char), scan cs = some (toks, rest) → combine toks = some s →
    ∃ body, cs = body ++ '"' :: rest ∧ JStr body s := by
  intro k
  induction k using Nat.strongRecOn with
  | _ k ih =>
    intro toks hk cs rest s hscan hcomb
    rcases scan_inv cs toks rest hscan with ⟨ht, hcs⟩ | ⟨c, cs', toks', hcs, ht, h1, h2, h3, hs⟩ |
        ⟨e, x, cs', toks', hcs, hesc, ht, hs⟩ | ⟨a, b, c, d, n, cs', toks', hcs, hhex, ht, hs⟩
    · subst ht
      rw [combine.eq_def] at hcomb
      cases hcomb
      exact ⟨[], by simpa using hcs, JStr.nil⟩
    · subst ht
      rw [combine_ch] at hcomb
      obtain ⟨s', hc', rfl⟩ := map_cons_eq hcomb
      obtain ⟨body, hb, hj⟩ := ih toks'.length (by simp at hk; omega) toks' rfl cs' rest s' hs hc'
      exact ⟨c :: body, by rw [hcs, hb]; rfl, JStr.plain h1 h2 h3 hj⟩
    · subst ht
      rw [combine_ch] at hcomb
      obtain ⟨s', hc', rfl⟩ := map_cons_eq hcomb
      obtain ⟨body, hb, hj⟩ := ih toks'.length (by simp at hk; omega) toks' rfl cs' rest s' hs hc'
      exact ⟨'\\' :: e :: body, by rw [hcs, hb]; rfl, JStr.esc hesc hj⟩
    · subst ht
      rcases combine_unit_inv n toks' s hcomb with ⟨hbmp, s', hc', rfl⟩ | ⟨hlo, hhi, m, r', s', hr, hm1, hm2, hc', rfl⟩
      · obtain ⟨body, hb, hj⟩ := ih toks'.length (by simp at hk; omega) toks' rfl cs' rest s' hs hc'
        exact ⟨'\\' :: 'u' :: a :: b :: c :: d :: body, by rw [hcs, hb]; rfl, JStr.u hhex hbmp hj⟩
      · subst hr
        rcases scan_inv cs' _ rest hs with ⟨ht, _⟩ | ⟨_, _, _, _, ht, _⟩ | ⟨_, _, _, _, _, _, ht, _⟩ |
            ⟨a', b', c', d', m', cs'', toks'', hcs', hhex', ht, hs'⟩
        · cases ht
        · cases ht
        · cases ht
        · simp only [List.cons.injEq, Tok.unit.injEq] at ht
          obtain ⟨hmm, hrr⟩ := ht
          subst hmm; subst hrr
          obtain ⟨body, hb, hj⟩ := ih r'.length (by simp at hk; omega) r' rfl cs'' rest s' hs' hc'
          exact ⟨'\\' :: 'u' :: a :: b :: c :: d :: '\\' :: 'u' :: a' :: b' :: c' :: d' :: body,
            by rw [hcs, hcs', hb]; rfl, JStr.pair hhex hhex' hlo hhi hm1 hm2 hj⟩

/-- soundness: whatever the reader accepts as a string body is one by the grammar, with that meaning -/
theorem readStr_sound (cs s rest : List Char) (h : readStr cs = some (s, rest)) :
    ∃ body, cs = body ++ '"' :: rest ∧ JStr body s := by
  unfold readStr at h
  cases hs : scan cs with
  | none => simp [hs] at h
  | some p =>
    obtain ⟨toks, r⟩ := p
    simp only [hs] at h
    cases hc : combine toks with
    | none => simp [hc] at h
    | some s' =>
      simp only [hc, Option.map_some, Option.some.injEq, Prod.mk.injEq] at h
      obtain ⟨rfl, rfl⟩ := h
      exact scan_combine_sound toks.length toks rfl cs r s' hs hc

/-- completeness: every string body of the grammar is read, with the meaning the grammar gives it -/
theorem scan_combine_complete {body s : List Char} (h : JStr body s) (rest : List Char) :
    ∃ toks, scan (body ++ '"' :: rest) = some (toks, rest) ∧ combine toks = some s := by
  induction h with
  | nil => exact ⟨[], scan_quote rest, by rw [combine.eq_def]⟩
  | @plain c _ _ h1 h2 h3 _ ih =>
    obtain ⟨toks, hs, hc⟩ := ih
    refine ⟨Tok.ch c :: toks, ?_, ?_⟩
    · rw [List.cons_append, scan_cons_plain _ _ h2 h3 (by omega), hs]; rfl
    · rw [combine_ch, hc]; rfl
  | @esc e x _ _ he _ ih =>
    obtain ⟨toks, hs, hc⟩ := ih
    obtain ⟨h1, h2⟩ := simpleEsc_complete _ _ he
    refine ⟨Tok.ch x :: toks, ?_, ?_⟩
    · rw [List.cons_append, List.cons_append, scan_simple _ _ _ h2 h1, hs]; rfl
    · rw [combine_ch, hc]; rfl
  | @u _ _ _ _ n _ _ hh hb _ ih =>
    obtain ⟨toks, hs, hc⟩ := ih
    refine ⟨Tok.unit n :: toks, ?_, ?_⟩
    · simp only [List.cons_append]
      rw [scan_u _ _ _ _ _ _ (hex4_complete _ _ _ _ _ hh), hs]; rfl
    · rw [combine_unit_bmp _ _ hb, hc]; rfl
  | @pair _ _ _ _ _ _ _ _ hi lo _ _ hh hh' h1 h2 h3 h4 _ ih =>
    obtain ⟨toks, hs, hc⟩ := ih
    refine ⟨Tok.unit hi :: Tok.unit lo :: toks, ?_, ?_⟩
    · simp only [List.cons_append]
      rw [scan_u _ _ _ _ _ _ (hex4_complete _ _ _ _ _ hh), scan_u _ _ _ _ _ _ (hex4_complete _ _ _ _ _ hh'), hs]; rfl
    · rw [combine_unit_pair _ _ _ h1 h2 h3 h4, hc]; rfl

theorem readStr_complete {body s : List Char} (h : JStr body s) (rest : List Char) :
    readStr (body ++ '"' :: rest) = some (s, rest) := by
  obtain ⟨toks, hs, hc⟩ := scan_combine_complete h rest
  simp [readStr, hs, hc]

/-- the grammar gives a string body at most one meaning -/
theorem JStr_functional {body s s' : List Char} (h : JStr body s) (h' : JStr body s') : s = s' := by
  have a := readStr_complete h []
  have b := readStr_complete h' []
  rw [a] at b
  simpa using b

theorem unescape_iff_JStr (body s : List Char) : unescape body = some s ↔ JStr body s := by
  constructor
  · intro h
    unfold unescape at h
    cases hr : readStr (body ++ ['"']) with
    | none => simp [hr] at h
    | some p =>
      obtain ⟨s', rest⟩ := p
      cases rest with
      | cons _ _ => simp [hr] at h
      | nil =>
        simp only [hr, Option.some.injEq] at h
        subst h
        obtain ⟨body', hb, hj⟩ := readStr_sound _ _ _ hr
        have : body' = body := by simpa using hb.symm
        exact this ▸ hj
  · intro h
    simp [unescape, readStr_complete h []]

/-- the writer's escaped text is a string body of the grammar, denoting the text -/
theorem JStr_escape (s : List Char) : JStr (escape s) s :=
  (unescape_iff_JStr _ _).mp (unescape_escape s)

/-! ### the writer's line is in the grammar -/

theorem JStringValue_jstr (s : List Char) : JStringValue (jstr s) s := by
  unfold jstr; exact JStringValue.mk (JStr_escape s)

theorem JNum_natDigits (n : Nat) : JNum (natDigits n) n where
  nonempty := natDigits_ne_nil n
  digits := by
    intro c hc
    have := natDigits_digits n c hc
    simpa [isDigit] using this
  noLeadingZero := by
    intro h
    rcases natDigits_shape n with ⟨_, h0⟩ | ⟨_, d, ds, hd, hne⟩
    · exact h0
    · rw [hd] at h; simp at h; exact absurd h hne
  value := by
    have := digitsVal_natDigits n
    unfold digitsVal at this
    unfold decimalValue
    exact this.symm

theorem JMembersOf_join {β : Type} {V : List Char → β → Prop} (render : β → List Char) :
    ∀ (ms : List (List Char × β)) (m : List Char × β), (∀ p ∈ m :: ms, V (render p.2) p.2) →
    JMembersOf V (joinMembers ((m :: ms).map fun p => member p.1 (render p.2))) (m :: ms) := by
  intro ms
  induction ms with
  | nil =>
    intro m h
    obtain ⟨k, v⟩ := m
    simp only [List.map_cons, List.map_nil, joinMembers, member_eq]
    exact JMembersOf.one (JStr_escape k) (h (k, v) (by simp))
  | cons m' ms ih =>
    intro m h
    obtain ⟨k, v⟩ := m
    have hrest := ih m' (fun p hp => h p (List.mem_cons_of_mem _ hp))
    simp only [List.map_cons] at hrest ⊢
    rw [joinMembers_cons_cons, member_eq]
    have := JMembersOf.cons (V := V) (JStr_escape k) (h (k, v) (by simp)) hrest
    simpa [List.append_assoc] using this

theorem JObjectOf_object {β : Type} {V : List Char → β → Prop} (render : β → List Char)
    (ms : List (List Char × β)) (h : ∀ p ∈ ms, V (render p.2) p.2) :
    JObjectOf V (object (ms.map fun p => member p.1 (render p.2))) ms := by
  cases ms with
  | nil => exact JObjectOf.empty
  | cons m ms => unfold object; exact JObjectOf.members (JMembersOf_join render ms m h)

theorem JValue_renderVal (v : JVal) : JValue (renderVal v) v := by
  cases v with
  | str s => exact JValue.str (JStringValue_jstr s)
  | num n => exact JValue.num (JNum_natDigits n)
  | null => exact JValue.null
  | map es =>
    refine JValue.map ?_
    simp only [renderVal, mdcObject]
    exact JObjectOf_object jstr es (fun p _ => JStringValue_jstr p.2)

/-- the emitted line is, by the grammar, one compact JSON object followed by a line feed, and denotes
    exactly the members `membersOf env r` -/
theorem jsonLine_in_grammar (env : Env) (r : Record) : JLine (jsonLine env r) (membersOf env r) := by
  unfold jsonLine NEWLINE
  rw [messageMembers_eq]
  exact JLine.mk (JObjectOf_object renderVal _ (fun p _ => JValue_renderVal p.2))

/-! ### the reader accepts only what the grammar derives -/

/-- a value reader is sound for a value grammar -/
def RVsound {β : Type} (rv : List Char → Option (β × List Char)) (V : List Char → β → Prop) : Prop :=
  ∀ cs v rest, rv cs = some (v, rest) → ∃ vt, cs = vt ++ rest ∧ V vt v

theorem readMember_sound {β : Type} {rv : List Char → Option (β × List Char)} {V : List Char → β → Prop}
    (hrv : RVsound rv V) (cs : List Char) (k : List Char) (v : β) (rest : List Char)
    (h : readMember rv cs = some ((k, v), rest)) :
    ∃ kb vt, cs = '"' :: kb ++ '"' :: ':' :: vt ++ rest ∧ JStr kb k ∧ V vt v := by
  unfold readMember at h
  split at h
  · rename_i cs'
    split at h
    · rename_i k' rest' hk
      split at h
      · rename_i v' rest'' hv
        simp only [Option.some.injEq, Prod.mk.injEq] at h
        obtain ⟨⟨rfl, rfl⟩, rfl⟩ := h
        obtain ⟨kb, hkb, hj⟩ := readStr_sound _ _ _ hk
        obtain ⟨vt, hvt, hV⟩ := hrv _ _ _ hv
        exact ⟨kb, vt, by rw [hkb, hvt]; simp [List.append_assoc], hj, hV⟩
      · cases h
    · cases h
  · cases h

theorem readMembers_sound {β : Type} {rv : List Char → Option (β × List Char)} {V : List Char → β → Prop}
    (hrv : RVsound rv V) : ∀ (fuel : Nat) (cs : List Char) (ms : List (List Char × β)) (rest : List Char),
    readMembers rv fuel cs = some (ms, rest) → ∃ text, cs = text ++ '}' :: rest ∧ JMembersOf V text ms := by
  intro fuel
  induction fuel with
  | zero => intro cs ms rest h; simp [readMembers] at h
  | succ f ih =>
    intro cs ms rest h
    rw [readMembers] at h
    cases hm : readMember rv cs with
    | none => simp [hm] at h
    | some p =>
      obtain ⟨⟨k, v⟩, r1⟩ := p
      simp only [hm] at h
      obtain ⟨kb, vt, hcs, hj, hV⟩ := readMember_sound hrv cs k v r1 hm
      split at h
      · rename_i rest'
        cases hr : readMembers rv f rest' with
        | none => simp [hr] at h
        | some q =>
          obtain ⟨ms', r2⟩ := q
          simp only [hr, Option.map_some, Option.some.injEq, Prod.mk.injEq] at h
          obtain ⟨rfl, rfl⟩ := h
          obtain ⟨text, ht, hM⟩ := ih rest' ms' r2 hr
          exact ⟨'"' :: kb ++ '"' :: ':' :: vt ++ ',' :: text, by rw [hcs, ht]; simp [List.append_assoc],
            JMembersOf.cons hj hV hM⟩
      · rename_i rest'
        simp only [Option.some.injEq, Prod.mk.injEq] at h
        obtain ⟨rfl, rfl⟩ := h
        exact ⟨'"' :: kb ++ '"' :: ':' :: vt, by rw [hcs], JMembersOf.one hj hV⟩
      · cases h

theorem readObjBody_sound {β : Type} {rv : List Char → Option (β × List Char)} {V : List Char → β → Prop}
    (hrv : RVsound rv V) (fuel : Nat) (cs : List Char) (ms : List (List Char × β)) (rest : List Char)
    (h : readObjBody rv fuel cs = some (ms, rest)) :
    ∃ text, '{' :: cs = text ++ rest ∧ JObjectOf V text ms := by
  unfold readObjBody at h
  split at h
  · simp only [Option.some.injEq, Prod.mk.injEq] at h
    obtain ⟨rfl, rfl⟩ := h
    exact ⟨['{', '}'], rfl, JObjectOf.empty⟩
  · obtain ⟨text, ht, hM⟩ := readMembers_sound hrv fuel cs ms rest h
    exact ⟨'{' :: text ++ ['}'], by rw [ht]; simp [List.append_assoc], JObjectOf.members hM⟩

theorem readStrVal_sound : RVsound readStrVal JStringValue := by
  intro cs v rest h
  unfold readStrVal at h
  split at h
  · obtain ⟨body, hb, hj⟩ := readStr_sound _ _ _ h
    exact ⟨'"' :: body ++ ['"'], by rw [hb]; simp [List.append_assoc], JStringValue.mk hj⟩
  · cases h

theorem mem_takeWhile_pos {α : Type} (p : α → Bool) (l : List α) (c : α) (h : c ∈ l.takeWhile p) : p c = true := by
  induction l with
  | nil => simp at h
  | cons x xs ih =>
    simp only [List.takeWhile_cons] at h
    split at h
    · rcases List.mem_cons.mp h with rfl | h'
      · assumption
      · exact ih h'
    · simp at h

theorem readNat_sound (cs : List Char) (n : Nat) (rest : List Char) (h : readNat cs = some (n, rest)) :
    ∃ ds, cs = ds ++ rest ∧ JNum ds n := by
  unfold readNat at h
  simp only at h
  split at h
  · cases h
  · rename_i hne
    split at h
    · cases h
    · rename_i hlz
      simp only [Option.some.injEq, Prod.mk.injEq] at h
      obtain ⟨rfl, rfl⟩ := h
      refine ⟨cs.takeWhile isDigit, (List.takeWhile_append_dropWhile).symm, ⟨hne, ?_, ?_, rfl⟩⟩
      · intro c hc
        have := mem_takeWhile_pos _ _ _ hc
        simpa [isDigit] using this
      · intro hz
        have hlen : ¬ 1 < (cs.takeWhile isDigit).length := fun hl => hlz ⟨hz, hl⟩
        cases hd : cs.takeWhile isDigit with
        | nil => exact absurd hd hne
        | cons d ds =>
          rw [hd] at hz hlen
          simp only [List.head?_cons, Option.some.injEq] at hz
          cases ds with
          | nil => rw [hz]
          | cons _ _ => simp at hlen

theorem readVal_sound (fuel : Nat) : RVsound (readVal fuel) JValue := by
  intro cs v rest h
  unfold readVal at h
  cases cs with
  | nil => simp at h
  | cons c cs' =>
    simp only at h
    by_cases hq : c = '"'
    · subst hq
      simp only [if_true] at h
      cases hr : readStr cs' with
      | none => simp [hr] at h
      | some p =>
        obtain ⟨s, r⟩ := p
        simp only [hr, Option.map_some, Option.some.injEq, Prod.mk.injEq] at h
        obtain ⟨rfl, rfl⟩ := h
        obtain ⟨body, hb, hj⟩ := readStr_sound _ _ _ hr
        exact ⟨'"' :: body ++ ['"'], by rw [hb]; simp [List.append_assoc], JValue.str (JStringValue.mk hj)⟩
    · simp only [hq, if_false] at h
      by_cases hbr : c = '{'
      · subst hbr
        simp only [if_true] at h
        cases hr : readObjBody readStrVal fuel cs' with
        | none => simp [hr] at h
        | some p =>
          obtain ⟨es, r⟩ := p
          simp only [hr, Option.map_some, Option.some.injEq, Prod.mk.injEq] at h
          obtain ⟨rfl, rfl⟩ := h
          obtain ⟨text, ht, hO⟩ := readObjBody_sound readStrVal_sound fuel cs' es r hr
          exact ⟨text, ht, JValue.map hO⟩
      · simp only [hbr, if_false] at h
        by_cases hn : c = 'n'
        · subst hn
          simp only [if_true] at h
          split at h
          · simp only [Option.some.injEq, Prod.mk.injEq] at h
            obtain ⟨rfl, rfl⟩ := h
            exact ⟨['n', 'u', 'l', 'l'], rfl, JValue.null⟩
          · cases h
        · simp only [hn, if_false] at h
          cases hr : readNat (c :: cs') with
          | none => simp [hr] at h
          | some p =>
            obtain ⟨n, r⟩ := p
            simp only [hr, Option.map_some, Option.some.injEq, Prod.mk.injEq] at h
            obtain ⟨rfl, rfl⟩ := h
            obtain ⟨ds, hds, hN⟩ := readNat_sound _ _ _ hr
            exact ⟨ds, hds, JValue.num hN⟩

/-- soundness of the line reader: whatever it accepts is, by the grammar, one compact JSON object
    followed by one line feed, denoting the members it returns -/
theorem readLineMembers_sound (line : List Char) (ms : List (List Char × JVal))
    (h : readLineMembers line = some ms) : JLine line ms := by
  unfold readLineMembers at h
  split at h
  · rename_i cs
    split at h
    · rename_i ms' hr
      simp only [Option.some.injEq] at h
      subst h
      obtain ⟨text, ht, hO⟩ := readObjBody_sound (readVal_sound _) _ cs ms' ['\n'] hr
      rw [ht]
      exact JLine.mk hO
    · cases h
  · cases h

/-! ### the reader accepts everything the grammar derives (so the grammar is functional) -/

/-- a value reader is complete for a value grammar, in every member context -/
def RVcomplete {β : Type} (rv : List Char → Option (β × List Char)) (V : List Char → β → Prop) : Prop :=
  ∀ vt v, V vt v → ∀ c rest, (c = ',' ∨ c = '}') → rv (vt ++ c :: rest) = some (v, c :: rest)

theorem readMember_complete {β : Type} {rv : List Char → Option (β × List Char)} {V : List Char → β → Prop}
    (hrv : RVcomplete rv V) {kb k vt : List Char} {v : β} (hk : JStr kb k) (hv : V vt v)
    (c : Char) (rest : List Char) (hc : c = ',' ∨ c = '}') :
    readMember rv ('"' :: kb ++ '"' :: ':' :: vt ++ c :: rest) = some ((k, v), c :: rest) := by
  have e : '"' :: kb ++ '"' :: ':' :: vt ++ c :: rest = '"' :: (kb ++ '"' :: (':' :: (vt ++ c :: rest))) := by
    simp [List.append_assoc]
  rw [e]
  simp [readMember, readStr_complete hk, hrv vt v hv c rest hc]

theorem JMembersOf_length {β : Type} {V : List Char → β → Prop} {text : List Char} {ms : List (List Char × β)}
    (h : JMembersOf V text ms) : ms.length ≤ text.length := by
  induction h with
  | one _ _ => simp
  | cons _ _ _ ih => simp only [List.length_cons, List.length_append] at ih ⊢; omega

theorem JMembersOf_head {β : Type} {V : List Char → β → Prop} {text : List Char} {ms : List (List Char × β)}
    (h : JMembersOf V text ms) : ∃ tl, text = '"' :: tl := by
  cases h with
  | one _ _ => exact ⟨_, rfl⟩
  | cons _ _ _ => exact ⟨_, rfl⟩

theorem readMembers_complete {β : Type} {rv : List Char → Option (β × List Char)} {V : List Char → β → Prop}
    (hrv : RVcomplete rv V) {text : List Char} {ms : List (List Char × β)} (h : JMembersOf V text ms) :
    ∀ fuel, ms.length ≤ fuel → ∀ rest, readMembers rv fuel (text ++ '}' :: rest) = some (ms, rest) := by
  induction h with
  | @one kb k vt v hk hv =>
    intro fuel hf rest
    cases fuel with
    | zero => simp at hf
    | succ f =>
      rw [readMembers, readMember_complete hrv hk hv '}' rest (Or.inr rfl)]
      rfl
  | @cons kb k vt rest' v ms' hk hv _ ih =>
    intro fuel hf rest
    cases fuel with
    | zero => simp at hf
    | succ f =>
      have e : '"' :: kb ++ '"' :: ':' :: vt ++ ',' :: rest' ++ '}' :: rest
          = '"' :: kb ++ '"' :: ':' :: vt ++ ',' :: (rest' ++ '}' :: rest) := by simp [List.append_assoc]
      rw [e, readMembers, readMember_complete hrv hk hv ',' _ (Or.inl rfl)]
      simp [ih f (by simpa using hf) rest]

theorem readObjBody_complete {β : Type} {rv : List Char → Option (β × List Char)} {V : List Char → β → Prop}
    (hrv : RVcomplete rv V) {text : List Char} {ms : List (List Char × β)} (h : JObjectOf V text ms)
    (fuel : Nat) (hf : ms.length ≤ fuel) (rest : List Char) :
    ∃ cs, text = '{' :: cs ∧ readObjBody rv fuel (cs ++ rest) = some (ms, rest) := by
  cases h with
  | empty => exact ⟨['}'], rfl, by simp [readObjBody]⟩
  | @members t _ hm =>
    refine ⟨t ++ ['}'], rfl, ?_⟩
    obtain ⟨tl, htl⟩ := JMembersOf_head hm
    have hr := readMembers_complete hrv hm fuel hf rest
    have e : t ++ ['}'] ++ rest = t ++ '}' :: rest := by simp
    rw [e]
    rw [htl] at hr ⊢
    simpa [readObjBody] using hr

theorem readStrVal_complete : RVcomplete readStrVal JStringValue := by
  intro vt v hv c rest _
  cases hv with
  | mk hj =>
    rename_i body
    have e : '"' :: body ++ ['"'] ++ c :: rest = '"' :: (body ++ '"' :: (c :: rest)) := by simp
    rw [e]
    simp [readStrVal, readStr_complete hj]

theorem readNat_complete {ds : List Char} {n : Nat} (h : JNum ds n) (c : Char) (rest : List Char)
    (hc : isDigit c = false) : readNat (ds ++ c :: rest) = some (n, c :: rest) := by
  have hall : ∀ a ∈ ds, isDigit a = true := by
    intro a ha; have := h.digits a ha; simpa [isDigit] using this
  have ht : (ds ++ c :: rest).takeWhile isDigit = ds := by
    rw [List.takeWhile_append_of_pos hall, List.takeWhile_cons_of_neg (by simp [hc])]; simp
  have hd : (ds ++ c :: rest).dropWhile isDigit = c :: rest := by
    rw [List.dropWhile_append_of_pos hall, List.dropWhile_cons_of_neg (by simp [hc])]
  have hv : digitsVal ds = n := by rw [h.value]; rfl
  simp only [readNat, ht, hd, h.nonempty, if_false, hv]
  by_cases hz : ds.head? = some '0'
  · rw [h.noLeadingZero hz]; simp
  · simp [hz]

/-- values whose text is no longer than the fuel -/
def JValueWithin (fuel : Nat) (vt : List Char) (v : JVal) : Prop := JValue vt v ∧ vt.length ≤ fuel

theorem JObjectOf_length {β : Type} {V : List Char → β → Prop} {text : List Char} {ms : List (List Char × β)}
    (h : JObjectOf V text ms) : ms.length ≤ text.length := by
  cases h with
  | empty => simp
  | members hm => have := JMembersOf_length hm; simp only [List.length_cons, List.length_append]; omega

theorem readVal_complete (fuel : Nat) : RVcomplete (readVal fuel) (JValueWithin fuel) := by
  intro vt v hv c rest hc
  obtain ⟨hv, hlen⟩ := hv
  have hcd : isDigit c = false := by rcases hc with rfl | rfl <;> decide
  cases hv with
  | str hs =>
    cases hs with
    | mk hj =>
      rename_i body
      have e : '"' :: body ++ ['"'] ++ c :: rest = '"' :: (body ++ '"' :: (c :: rest)) := by simp
      rw [e]
      simp [readVal, readStr_complete hj]
  | num hn =>
    have hr := readNat_complete hn c rest hcd
    cases htext : vt with
    | nil => exact absurd htext hn.nonempty
    | cons d ds =>
      have hdig : isDigit d = true := by
        have := hn.digits d (by rw [htext]; simp); simpa [isDigit] using this
      obtain ⟨h1, h2, h3⟩ := digit_not_syntax d hdig
      rw [htext] at hr
      simp only [List.cons_append] at hr ⊢
      simp [readVal, h1, h2, h3, hr]
  | null => simp [readVal]
  | @map text es ho =>
    have hes : es.length ≤ fuel := Nat.le_trans (JObjectOf_length ho) hlen
    obtain ⟨cs, hcs, hr⟩ := readObjBody_complete readStrVal_complete ho fuel hes (c :: rest)
    rw [hcs]
    simp only [List.cons_append]
    simp [readVal, hr]

theorem JMembersOf_mono {β : Type} {V W : List Char → β → Prop} (hVW : ∀ vt v, V vt v → W vt v)
    {text : List Char} {ms : List (List Char × β)} (h : JMembersOf V text ms) : JMembersOf W text ms := by
  induction h with
  | one hk hv => exact JMembersOf.one hk (hVW _ _ hv)
  | cons hk hv _ ih => exact JMembersOf.cons hk (hVW _ _ hv) ih

theorem JMembersOf_within {text : List Char} {ms : List (List Char × JVal)} (h : JMembersOf JValue text ms) :
    JMembersOf (JValueWithin text.length) text ms := by
  induction h with
  | @one kb k vt v hk hv =>
    exact JMembersOf.one hk ⟨hv, by simp only [List.length_cons, List.length_append]; omega⟩
  | @cons kb k vt rest v ms hk hv _ ih =>
    refine JMembersOf.cons hk ⟨hv, by simp only [List.length_cons, List.length_append]; omega⟩ ?_
    exact JMembersOf_mono (fun vt' v' h' => ⟨h'.1, by
      have := h'.2; simp only [List.length_cons, List.length_append]; omega⟩) ih

theorem readLineMembers_cons (cs : List Char) :
    readLineMembers ('{' :: cs)
      = match readObjBody (readVal (cs.length + 1)) (cs.length + 1) cs with
        | some (ms, ['\n']) => some ms
        | _ => none := rfl

/-- completeness of the line reader: every line the grammar derives is read, with the members the
    grammar gives it -/
theorem readLineMembers_complete {line : List Char} {ms : List (List Char × JVal)} (h : JLine line ms) :
    readLineMembers line = some ms := by
  cases h with
  | @mk text _ ho =>
    have hlen := JObjectOf_length ho
    have hbound : JObjectOf (JValueWithin (text.length + 1)) text ms := by
      cases ho with
      | empty => exact JObjectOf.empty
      | @members t _ hm =>
        refine JObjectOf.members (JMembersOf_mono (fun vt v h' => ⟨h'.1, ?_⟩) (JMembersOf_within hm))
        have := h'.2; simp only [List.length_cons, List.length_append]; omega
    obtain ⟨cs, hcs, hr⟩ := readObjBody_complete (readVal_complete (text.length + 1)) hbound
      (text.length + 1) (by omega) ['\n']
    subst hcs
    rw [List.cons_append, readLineMembers_cons]
    have e : (cs ++ ['\n']).length + 1 = ('{' :: cs).length + 1 := by simp
    rw [e, hr]
    rfl

/-- the grammar gives a line at most one meaning; the line reader computes it -/
theorem JLine_iff_read (line : List Char) (ms : List (List Char × JVal)) :
    JLine line ms ↔ readLineMembers line = some ms :=
  ⟨readLineMembers_complete, readLineMembers_sound line ms⟩

theorem JLine_functional {line : List Char} {ms ms' : List (List Char × JVal)}
    (h : JLine line ms) (h' : JLine line ms') : ms = ms' := by
  have a := readLineMembers_complete h
  rw [readLineMembers_complete h'] at a
  exact (Option.some.inj a).symm

end Log4rs.Json
