import Log4rsModel.Json.Spec
/-
A small grammar of JSON text (RFC 8259), written as inductive relations — no reader, no writer.
`JStr body s` says that `body`, the text between the two quotation marks of a JSON string, denotes
the character sequence `s`; `JNum`, `JValue`, `JMembers`, `JLine` do the same for unsigned integers,
the values and members this encoder emits, and one compact object on one line.  The reader of
`Json/Spec.lean` and the writer of `Json/Model.lean` are both proved against these relations
(`Json/LemmasGrammar.lean`), so that "parses back" is a statement about JSON text and not about a
particular reader.

RFC 8259 §7:   string = quotation-mark *char quotation-mark
               char = unescaped / escape ( %x22 / %x5C / %x2F / %x62 / %x66 / %x6E / %x72 / %x74 / %x75 4HEXDIG )
               unescaped = %x20-21 / %x23-5B / %x5D-10FFFF
A `\uXXXX` escape denotes a UTF-16 code unit; a high surrogate must be followed by a low one and the
pair denotes one scalar value (§7, "to escape an extended character … a 12-character sequence").
A lone surrogate denotes no Unicode scalar value and is not in this relation.
-/
namespace Log4rs.Json

/-- HEXDIG with its value, either letter case -/
inductive HexDigit : Char → Nat → Prop
  | dec (c : Char) : '0' ≤ c → c ≤ '9' → HexDigit c (c.toNat - 48)
  | lower (c : Char) : 'a' ≤ c → c ≤ 'f' → HexDigit c (c.toNat - 87)
  | upper (c : Char) : 'A' ≤ c → c ≤ 'F' → HexDigit c (c.toNat - 55)

/-- 4HEXDIG with its value -/
inductive Hex4 : Char → Char → Char → Char → Nat → Prop
  | mk {a b c d : Char} {x y z w : Nat} :
    HexDigit a x → HexDigit b y → HexDigit c z → HexDigit d w → Hex4 a b c d (x * 4096 + y * 256 + z * 16 + w)

/-- the two-character escapes: the character after the backslash, and the character denoted -/
inductive SimpleEscape : Char → Char → Prop
  | quote : SimpleEscape '"' '"'
  | backslash : SimpleEscape '\\' '\\'
  | slash : SimpleEscape '/' '/'
  | b : SimpleEscape 'b' '\x08'
  | f : SimpleEscape 'f' '\x0c'
  | n : SimpleEscape 'n' '\n'
  | r : SimpleEscape 'r' '\r'
  | t : SimpleEscape 't' '\t'

/-- `JStr body s`: the string body `body` (without the quotation marks) denotes `s` -/
inductive JStr : List Char → List Char → Prop
  | nil : JStr [] []
  | plain {c : Char} {body s : List Char} :
    0x20 ≤ c.toNat → c ≠ '"' → c ≠ '\\' → JStr body s → JStr (c :: body) (c :: s)
  | esc {e x : Char} {body s : List Char} :
    SimpleEscape e x → JStr body s → JStr ('\\' :: e :: body) (x :: s)
  | u {a b c d : Char} {n : Nat} {body s : List Char} :
    Hex4 a b c d n → (n < 0xD800 ∨ 0xDFFF < n) → JStr body s →
    JStr ('\\' :: 'u' :: a :: b :: c :: d :: body) (Char.ofNat n :: s)
  | pair {a b c d a' b' c' d' : Char} {hi lo : Nat} {body s : List Char} :
    Hex4 a b c d hi → Hex4 a' b' c' d' lo → 0xD800 ≤ hi → hi ≤ 0xDBFF → 0xDC00 ≤ lo → lo ≤ 0xDFFF →
    JStr body s →
    JStr ('\\' :: 'u' :: a :: b :: c :: d :: '\\' :: 'u' :: a' :: b' :: c' :: d' :: body)
      (Char.ofNat (0x10000 + (hi - 0xD800) * 0x400 + (lo - 0xDC00)) :: s)

/-- decimal value of a digit string (most significant first) -/
def decimalValue (ds : List Char) : Nat := ds.foldl (fun acc c => acc * 10 + (c.toNat - 48)) 0

/-- RFC 8259 §6 restricted to unsigned integers: `int = zero / ( digit1-9 *DIGIT )` -/
structure JNum (text : List Char) (n : Nat) : Prop where
  nonempty : text ≠ []
  digits : ∀ c ∈ text, '0' ≤ c ∧ c ≤ '9'
  noLeadingZero : text.head? = some '0' → text = ['0']
  value : n = decimalValue text

/-- `members text ms`: comma-separated `"key":value` members (at least one) -/
inductive JMembersOf {β : Type} (V : List Char → β → Prop) : List Char → List (List Char × β) → Prop
  | one {kb k vt : List Char} {v : β} :
    JStr kb k → V vt v → JMembersOf V ('"' :: kb ++ '"' :: ':' :: vt) [(k, v)]
  | cons {kb k vt rest : List Char} {v : β} {ms : List (List Char × β)} :
    JStr kb k → V vt v → JMembersOf V rest ms →
    JMembersOf V ('"' :: kb ++ '"' :: ':' :: vt ++ ',' :: rest) ((k, v) :: ms)

/-- an object: `{}` or `{` members `}` (compact: no insignificant white space) -/
inductive JObjectOf {β : Type} (V : List Char → β → Prop) : List Char → List (List Char × β) → Prop
  | empty : JObjectOf V ['{', '}'] []
  | members {text : List Char} {ms : List (List Char × β)} :
    JMembersOf V text ms → JObjectOf V ('{' :: text ++ ['}']) ms

/-- a JSON string as a value: quotation mark, body, quotation mark -/
inductive JStringValue : List Char → List Char → Prop
  | mk {body s : List Char} : JStr body s → JStringValue ('"' :: body ++ ['"']) s

/-- the values this encoder emits: strings, unsigned integers, `null`, one object of strings -/
inductive JValue : List Char → JVal → Prop
  | str {text s : List Char} : JStringValue text s → JValue text (.str s)
  | num {text : List Char} {n : Nat} : JNum text n → JValue text (.num n)
  | null : JValue ['n', 'u', 'l', 'l'] .null
  | map {text : List Char} {es : List (List Char × List Char)} :
    JObjectOf JStringValue text es → JValue text (.map es)

/-- one object followed by one line feed -/
inductive JLine : List Char → List (List Char × JVal) → Prop
  | mk {text : List Char} {ms : List (List Char × JVal)} :
    JObjectOf JValue text ms → JLine (text ++ ['\n']) ms

end Log4rs.Json
