import Log4rsModel.Json.Spec
/-
Helper lemmas for C12, part 1: printable output, string escaping round trip, numbers.
-/
namespace Log4rs.Json

/-! ### no character below 0x20 -/

def Printable (l : List Char) : Prop := ∀ c ∈ l, 0x20 ≤ c.toNat

theorem printable_nil : Printable [] := by intro c h; cases h

theorem printable_cons {c : Char} {l : List Char} : Printable (c :: l) ↔ 0x20 ≤ c.toNat ∧ Printable l := by
  simp [Printable]

theorem printable_append {a b : List Char} : Printable (a ++ b) ↔ Printable a ∧ Printable b := by
  simp only [Printable, List.mem_append]
  constructor
  · intro h; exact ⟨fun c hc => h c (Or.inl hc), fun c hc => h c (Or.inr hc)⟩
  · rintro ⟨h1, h2⟩ c (hc | hc)
    · exact h1 c hc
    · exact h2 c hc

theorem hexDigit_printable (d : Nat) : 0x20 ≤ (hexDigit d).toNat := by
  unfold hexDigit
  split <;> decide

theorem escapeChar_printable (c : Char) : Printable (escapeChar c) := by
  unfold escapeChar
  repeat' split
  all_goals first
    | (intro x hx; simp only [List.mem_cons, List.not_mem_nil, or_false] at hx
       rcases hx with h | h | h | h | h | h <;> subst h <;> first | decide | exact hexDigit_printable _)
    | (intro x hx; simp only [List.mem_cons, List.not_mem_nil, or_false] at hx
       rcases hx with h | h <;> subst h <;> decide)
    | (intro x hx; simp only [List.mem_cons, List.not_mem_nil, or_false] at hx
       subst hx; omega)

theorem escape_printable (s : List Char) : Printable (escape s) := by
  induction s with
  | nil => exact printable_nil
  | cons c cs ih => exact printable_append.mpr ⟨escapeChar_printable c, ih⟩

theorem jstr_printable (s : List Char) : Printable (jstr s) := by
  unfold jstr
  refine printable_cons.mpr ⟨by decide, printable_append.mpr ⟨escape_printable s, ?_⟩⟩
  exact printable_cons.mpr ⟨by decide, printable_nil⟩

theorem natDigits_printable (n : Nat) : Printable (natDigits n) := by
  induction n using Nat.strongRecOn with
  | _ n ih =>
    unfold natDigits
    split
    · exact printable_cons.mpr ⟨hexDigit_printable _, printable_nil⟩
    · refine printable_append.mpr ⟨ih _ (by omega), printable_cons.mpr ⟨hexDigit_printable _, printable_nil⟩⟩


/-! ### strings: the reader inverts the escaper -/

/-- the lexical unit the reader sees for a character written by `escapeChar` -/
def tokOf (c : Char) : Tok :=
  if c.toNat < 0x20 ∧ c ≠ '\x08' ∧ c ≠ '\x0c' ∧ c ≠ '\n' ∧ c ≠ '\r' ∧ c ≠ '\t' then .unit c.toNat else .ch c

theorem hexVal_hexDigit : ∀ d, d < 16 → hexVal (hexDigit d) = some d := by decide

theorem hex4_control (n : Nat) (h : n < 0x20) :
    hex4 '0' '0' (hexDigit (n / 16)) (hexDigit (n % 16)) = some n := by
  have h1 := hexVal_hexDigit (n / 16) (by omega)
  have h2 := hexVal_hexDigit (n % 16) (by omega)
  have h0 : hexVal '0' = some 0 := by decide
  simp only [hex4, h0, h1, h2]
  congr 1
  omega

theorem scan_quote (tail : List Char) : scan ('"' :: tail) = some ([], tail) := by
  rw [scan.eq_def]; simp

theorem scan_cons_plain (c : Char) (tail : List Char) (h1 : c ≠ '"') (h2 : c ≠ '\\') (h3 : ¬ c.toNat < 0x20) :
    scan (c :: tail) = (scan tail).map (consTok (.ch c)) := by
  rw [scan.eq_def]; simp [h1, h2, h3]

theorem scan_simple (e x : Char) (tail : List Char) (hu : e ≠ 'u') (hx : simpleEsc e = some x) :
    scan ('\\' :: e :: tail) = (scan tail).map (consTok (.ch x)) := by
  rw [scan.eq_def]; simp [hu, hx]

theorem scan_u (a b c d : Char) (n : Nat) (tail : List Char) (h : hex4 a b c d = some n) :
    scan ('\\' :: 'u' :: a :: b :: c :: d :: tail) = (scan tail).map (consTok (.unit n)) := by
  rw [scan.eq_def]; simp [h]

theorem scan_escapeChar (c : Char) (tail : List Char) :
    scan (escapeChar c ++ tail) = (scan tail).map (consTok (tokOf c)) := by
  unfold escapeChar
  by_cases hq : c = '"'
  · subst hq; exact scan_simple _ _ _ (by decide) (by decide)
  by_cases hb : c = '\\'
  · subst hb; exact scan_simple _ _ _ (by decide) (by decide)
  by_cases h8 : c = '\x08'
  · subst h8; exact scan_simple _ _ _ (by decide) (by decide)
  by_cases hc : c = '\x0c'
  · subst hc; exact scan_simple _ _ _ (by decide) (by decide)
  by_cases hn : c = '\n'
  · subst hn; exact scan_simple _ _ _ (by decide) (by decide)
  by_cases hr : c = '\r'
  · subst hr; exact scan_simple _ _ _ (by decide) (by decide)
  by_cases ht : c = '\t'
  · subst ht; exact scan_simple _ _ _ (by decide) (by decide)
  by_cases hlt : c.toNat < 0x20
  · simp only [hq, hb, h8, hc, hn, hr, ht, hlt, if_true, if_false, List.cons_append, List.nil_append]
    rw [scan_u _ _ _ _ _ _ (hex4_control c.toNat hlt)]
    have : tokOf c = .unit c.toNat := by simp [tokOf, hlt, h8, hc, hn, hr, ht]
    rw [this]
  · simp only [hq, hb, h8, hc, hn, hr, ht, hlt, if_false, List.cons_append, List.nil_append]
    rw [scan_cons_plain c tail hq hb hlt]
    have : tokOf c = .ch c := by simp [tokOf, hlt]
    rw [this]

theorem scan_escape (s rest : List Char) :
    scan (escape s ++ '"' :: rest) = some (s.map tokOf, rest) := by
  induction s with
  | nil => simp [escape, scan_quote]
  | cons c cs ih =>
    simp only [escape, List.append_assoc]
    rw [scan_escapeChar, ih]
    simp [consTok]

theorem combine_ch (c : Char) (r : List Tok) : combine (.ch c :: r) = (combine r).map (c :: ·) := by
  rw [combine.eq_def]

theorem combine_unit_low (n : Nat) (r : List Tok) (h : n < 0xD800) :
    combine (.unit n :: r) = (combine r).map (Char.ofNat n :: ·) := by
  rw [combine.eq_def]; simp [h]

theorem combine_tokOf (s : List Char) : combine (s.map tokOf) = some s := by
  induction s with
  | nil => simp [combine]
  | cons c cs ih =>
    simp only [List.map_cons]
    by_cases h : c.toNat < 0x20 ∧ c ≠ '\x08' ∧ c ≠ '\x0c' ∧ c ≠ '\n' ∧ c ≠ '\r' ∧ c ≠ '\t'
    · have ht : tokOf c = .unit c.toNat := by unfold tokOf; exact if_pos h
      rw [ht, combine_unit_low _ _ (by omega), ih]
      simp [Char.ofNat_toNat]
    · have ht : tokOf c = .ch c := by unfold tokOf; exact if_neg h
      rw [ht, combine_ch, ih]
      simp

theorem readStr_escape (s rest : List Char) :
    readStr (escape s ++ '"' :: rest) = some (s, rest) := by
  simp [readStr, scan_escape, combine_tokOf]

theorem readStr_jstr (s rest : List Char) :
    readStr (escape s ++ ['"'] ++ rest) = some (s, rest) := by
  simpa using readStr_escape s rest

theorem unescape_escape (s : List Char) : unescape (escape s) = some s := by
  simp [unescape, readStr_escape]

/-! ### pieces: escaping piece by piece is escaping the whole text -/

theorem escape_append (a b : List Char) : escape (a ++ b) = escape a ++ escape b := by
  induction a with
  | nil => rfl
  | cons c cs ih => simp [escape, ih]

theorem escape_flatten (ps : List (List Char)) : ps.flatMap escape = escape ps.flatten := by
  induction ps with
  | nil => rfl
  | cons p ps ih => simp [List.flatMap_cons, List.flatten_cons, escape_append, ih]

theorem jstrPieces_eq (ps : List (List Char)) : jstrPieces ps = jstr ps.flatten := by
  simp [jstrPieces, jstr, escape_flatten]

end Log4rs.Json
