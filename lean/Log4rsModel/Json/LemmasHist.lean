import Log4rsModel.Json.LemmasLine
/-
Helper lemmas for C12, part 4: histories of encodes (one thread, one encoder), unfinished encodes.
-/
namespace Log4rs.Json

/-! ### the encoder carries nothing from one encode to the next -/

theorem encodeStep_state (st : EncoderState) (s : Step) : (encodeStep st s).1 = st := rfl

theorem encodeStep_any_state (st st' : EncoderState) (s : Step) : (encodeStep st s).2 = (encodeStep st' s).2 := rfl

theorem runHistory_eq_map (st : EncoderState) (steps : List Step) :
    runHistory st steps = steps.map fun s => (encodeStep {} s).2 := by
  induction steps generalizing st with
  | nil => rfl
  | cons s rest ih =>
    simp only [runHistory, List.map_cons]
    rw [ih]

theorem runHistory_append (st : EncoderState) (a b : List Step) :
    runHistory st (a ++ b) = runHistory st a ++ runHistory st b := by
  simp [runHistory_eq_map]

/-! ### a completed encode delivers the whole line -/

theorem received_of_succeeds (s : Step) (h : succeeds s = true) :
    received s = utf8 (jsonLine s.env s.record) := by
  simp only [succeeds, Bool.and_eq_true, Option.isNone_iff_eq_none] at h
  obtain ⟨hd, hw⟩ := h
  have hi : intended s = utf8 (jsonLine s.env s.record) := by simp [intended, hd]
  unfold received
  unfold writerHolds at hw
  split
  · exact hi
  · rename_i k hk
    rw [hk] at hw
    simp only [decide_eq_true_eq] at hw
    rw [List.take_of_length_le hw, hi]

theorem kind_of_succeeds (s : Step) (h : succeeds s = true) : (encodeStep {} s).2.kind = .ok := by
  simp only [succeeds, Bool.and_eq_true, Option.isNone_iff_eq_none] at h
  simp [encodeStep, h.1, h.2]

/-! ### an unfinished encode delivers a prefix of the line -/

theorem escape_take_prefix (s : List Char) (n : Nat) : escape (s.take n) <+: escape s := by
  have h := escape_append (s.take n) (s.drop n)
  rw [List.take_append_drop] at h
  exact ⟨escape (s.drop n), h.symm⟩

theorem joinMembers_three_prefix (m1 m2 pre full : List Char) (rest : List (List Char)) (h : pre <+: full) :
    (m1 ++ ',' :: (m2 ++ ',' :: pre)) <+: joinMembers (m1 :: m2 :: full :: rest) := by
  have hfull : full <+: joinMembers (full :: rest) := by
    cases rest with
    | nil => exact List.prefix_refl _
    | cons x xs => rw [joinMembers_cons_cons]; exact List.prefix_append _ _
  rw [joinMembers_cons_cons, joinMembers_cons_cons]
  refine (List.prefix_append_right_inj m1).mpr ?_
  refine List.cons_prefix_cons.mpr ⟨rfl, ?_⟩
  refine (List.prefix_append_right_inj m2).mpr ?_
  exact List.cons_prefix_cons.mpr ⟨rfl, h.trans hfull⟩

theorem displayCut_prefix (env : Env) (r : Record) (n : Nat) : displayCut env r n <+: jsonLine env r := by
  have hm : ∃ rest, messageMembers env r
      = member kTime (jstr env.time) :: member kLevel (jstr r.level.name) :: member kMessage (jstr r.message) :: rest :=
    ⟨_, by simp only [messageMembers, jstrPieces_eq, Record.message, List.cons_append, List.nil_append, List.append_assoc]; rfl⟩
  obtain ⟨rest, hrest⟩ := hm
  have hpre : (jstr kMessage ++ ':' :: '"' :: escape (r.message.take n)) <+: member kMessage (jstr r.message) := by
    unfold member
    refine (List.prefix_append_right_inj _).mpr (List.cons_prefix_cons.mpr ⟨rfl, ?_⟩)
    unfold jstr
    exact List.cons_prefix_cons.mpr ⟨rfl, (escape_take_prefix r.message n).trans (List.prefix_append _ _)⟩
  have h3 := joinMembers_three_prefix (member kTime (jstr env.time)) (member kLevel (jstr r.level.name)) _ _ rest hpre
  unfold displayCut jsonLine object
  rw [hrest]
  simp only [List.cons_append]
  exact List.cons_prefix_cons.mpr ⟨rfl, h3.trans ((List.prefix_append _ _).trans (List.prefix_append _ _))⟩

theorem utf8_prefix {a b : List Char} (h : a <+: b) : utf8 a <+: utf8 b := by
  obtain ⟨t, rfl⟩ := h
  exact ⟨utf8 t, by simp [utf8, List.flatMap_append]⟩

theorem intended_prefix (s : Step) : intended s <+: utf8 (jsonLine s.env s.record) := by
  unfold intended
  split
  · exact List.prefix_refl _
  · exact utf8_prefix (displayCut_prefix _ _ _)

theorem received_prefix (s : Step) : received s <+: utf8 (jsonLine s.env s.record) := by
  unfold received
  split
  · exact intended_prefix s
  · exact (List.take_prefix _ _).trans (intended_prefix s)

theorem isPrefixOf_of_prefix {a b : List Nat} (h : a <+: b) : a.isPrefixOf b = true := by
  simpa using h

theorem specCutStep_received (s : Step) : specCutStep s (received s) = true := by
  unfold specCutStep
  rw [isPrefixOf_of_prefix (received_prefix s)]
  simp only [Bool.true_and]
  unfold received
  split <;> simp_all [List.length_take, Nat.min_le_left]

end Log4rs.Json
