import Log4rsModel.Json.Model
/-
Executable specification for C12: a small, total, strict JSON reader for the shape the property
talks about — one object whose values are strings, unsigned integers, `null` or one nested object of
strings — and the fields the property says must come back.

The reader is written independently of the model's writer: it implements RFC 8259 strings (every
escape form: `\" \\ \/ \b \f \n \r \t`, `\uXXXX` with upper- or lower-case hex digits, surrogate
pairs; raw characters below 0x20 are rejected, lone surrogates are rejected), unsigned decimal
numbers, `null`, and objects as comma-separated `"key":value` members without insignificant white
space (serde_json's compact formatter emits none).  Members are looked up by key, not by position.

`specLine` is the verdict used by the driver on the implementation's bytes.

Reading decisions (also listed under `assumptions` in props.d/C12.json):

* "control character" is read as JSON (RFC 8259 §7) reads it: U+0000–U+001F, the characters that may
  not appear raw inside a JSON string.  `oneLine` rejects exactly these (and therefore every raw line
  feed and carriage return) in the body.  DEL U+007F, the C1 controls U+0080–U+009F (NEL U+0085
  included) and the Unicode line/paragraph separators U+2028/U+2029 are ordinary string characters
  for JSON; serde_json writes them raw, and the specification accepts them raw (it requires that they
  read back unchanged).  A consumer that splits its input on NEL/LS/PS would see more than one "line";
  that is outside the reading taken here.
* The MDC is a *map*: the nested object must not repeat a key, and it is compared with the thread's
  MDC as a map (same keys, same values) — the order in which a `HashMap` is iterated is not part of
  the statement.
* `time` and `thread_id` are not named by the statement; they are read and compared with what the
  harness observed only so that a corrupted value does not pass silently.
-/
namespace Log4rs.Json

/-- what the property says must round-trip (plus the two masked environment values) -/
structure Fields where
  time : List Char
  level : List Char
  message : List Char
  modulePath : Option (List Char)
  file : Option (List Char)
  line : Option Nat
  target : List Char
  thread : Option (List Char)
  threadId : Nat
  mdc : List (List Char × List Char)
  deriving DecidableEq, Repr

/-- the fields of a record in its environment, read off the English statement -/
def fieldsOf (env : Env) (r : Record) : Fields :=
  { time := env.time, level := r.level.name, message := r.message, modulePath := r.modulePath,
    file := r.file, line := r.line, target := r.target, thread := env.thread,
    threadId := env.threadId, mdc := env.mdc }

/-! ### strings -/

/-- lexical unit of a JSON string body: a literal character or a `\uXXXX` UTF-16 code unit -/
inductive Tok where
  | ch (c : Char)
  | unit (n : Nat)
  deriving DecidableEq, Repr

def hexVal (c : Char) : Option Nat :=
  if '0' ≤ c ∧ c ≤ '9' then some (c.toNat - 48)
  else if 'a' ≤ c ∧ c ≤ 'f' then some (c.toNat - 87)
  else if 'A' ≤ c ∧ c ≤ 'F' then some (c.toNat - 55)
  else none

def hex4 (a b c d : Char) : Option Nat :=
  match hexVal a, hexVal b, hexVal c, hexVal d with
  | some x, some y, some z, some w => some (x * 4096 + y * 256 + z * 16 + w)
  | _, _, _, _ => none

/-- the two-character escapes -/
def simpleEsc (e : Char) : Option Char :=
  if e = '"' then some '"'
  else if e = '\\' then some '\\'
  else if e = '/' then some '/'
  else if e = 'b' then some '\x08'
  else if e = 'f' then some '\x0c'
  else if e = 'n' then some '\n'
  else if e = 'r' then some '\r'
  else if e = 't' then some '\t'
  else none

def consTok (t : Tok) (r : List Tok × List Char) : List Tok × List Char := (t :: r.1, r.2)

/-- scan a string body (the opening quote already consumed) up to and including the closing quote;
    returns the lexical units and the remaining input -/
def scan : List Char → Option (List Tok × List Char)
  | [] => none
  | c :: rest =>
    if c = '"' then some ([], rest)
    else if c = '\\' then
      match rest with
      | [] => none
      | e :: rest' =>
        if e = 'u' then
          match rest' with
          | a :: b :: c' :: d :: rest'' =>
            match hex4 a b c' d with
            | some n => (scan rest'').map (consTok (.unit n))
            | none => none
          | _ => none
        else
          match simpleEsc e with
          | some x => (scan rest').map (consTok (.ch x))
          | none => none
    else if c.toNat < 0x20 then none
    else (scan rest).map (consTok (.ch c))

/-- UTF-16 code units to characters: surrogate pairs are combined, lone surrogates rejected -/
def combine : List Tok → Option (List Char)
  | [] => some []
  | .ch c :: r => (combine r).map (c :: ·)
  | .unit n :: r =>
    if n < 0xD800 ∨ 0xDFFF < n then (combine r).map (Char.ofNat n :: ·)
    else if n ≤ 0xDBFF then
      match r with
      | .unit m :: r' =>
        if 0xDC00 ≤ m ∧ m ≤ 0xDFFF then
          (combine r').map (Char.ofNat (0x10000 + (n - 0xD800) * 0x400 + (m - 0xDC00)) :: ·)
        else none
      | _ => none
    else none

/-- read a string whose opening quote is already consumed -/
def readStr (cs : List Char) : Option (List Char × List Char) :=
  match scan cs with
  | some (toks, rest) => (combine toks).map (·, rest)
  | none => none

/-- decode the body of a JSON string (without the quotes) -/
def unescape (body : List Char) : Option (List Char) :=
  match readStr (body ++ ['"']) with
  | some (s, []) => some s
  | _ => none

/-! ### numbers -/

def isDigit (c : Char) : Bool := decide ('0' ≤ c ∧ c ≤ '9')

def digitsVal (ds : List Char) : Nat := ds.foldl (fun acc c => acc * 10 + (c.toNat - 48)) 0

/-- unsigned decimal integer; a leading zero followed by more digits is rejected -/
def readNat (cs : List Char) : Option (Nat × List Char) :=
  let ds := cs.takeWhile isDigit
  let rest := cs.dropWhile isDigit
  if ds = [] then none
  else if ds.head? = some '0' ∧ 1 < ds.length then none
  else some (digitsVal ds, rest)

/-! ### objects -/

/-- `"key":value` -/
def readMember (rv : List Char → Option (β × List Char)) : List Char → Option ((List Char × β) × List Char)
  | '"' :: cs =>
    match readStr cs with
    | some (k, ':' :: rest) =>
      match rv rest with
      | some (v, rest') => some ((k, v), rest')
      | none => none
    | _ => none
  | _ => none

/-- one or more members up to and including the closing brace.  `fuel` bounds the number of
    members; every member consumes input, so the input's length is always enough -/
def readMembers (rv : List Char → Option (β × List Char)) :
    Nat → List Char → Option (List (List Char × β) × List Char)
  | 0, _ => none
  | fuel + 1, cs =>
    match readMember rv cs with
    | none => none
    | some (m, rest) =>
      match rest with
      | ',' :: rest' => (readMembers rv fuel rest').map fun r => (m :: r.1, r.2)
      | '}' :: rest' => some ([m], rest')
      | _ => none

/-- an object whose opening brace is already consumed -/
def readObjBody (rv : List Char → Option (β × List Char)) (fuel : Nat) :
    List Char → Option (List (List Char × β) × List Char)
  | '}' :: rest => some ([], rest)
  | cs => readMembers rv fuel cs

/-- the values of the nested map: strings only -/
def readStrVal : List Char → Option (List Char × List Char)
  | '"' :: cs => readStr cs
  | _ => none

inductive JVal where
  | str (s : List Char)
  | num (n : Nat)
  | null
  | map (entries : List (List Char × List Char))
  deriving DecidableEq, Repr

/-- a value of the top-level object -/
def readVal (fuel : Nat) : List Char → Option (JVal × List Char)
  | [] => none
  | c :: cs =>
    if c = '"' then (readStr cs).map fun r => (.str r.1, r.2)
    else if c = '{' then (readObjBody readStrVal fuel cs).map fun r => (.map r.1, r.2)
    else if c = 'n' then
      match cs with
      | 'u' :: 'l' :: 'l' :: cs' => some (.null, cs')
      | _ => none
    else (readNat (c :: cs)).map fun r => (.num r.1, r.2)

/-- the members of the one JSON object on a line: `{` members `}` `\n`, nothing else -/
def readLineMembers (line : List Char) : Option (List (List Char × JVal)) :=
  match line with
  | '{' :: cs =>
    match readObjBody (readVal line.length) line.length cs with
    | some (ms, ['\n']) => some ms
    | _ => none
  | _ => none

def knownKeys : List (List Char) :=
  [kTime, kLevel, kMessage, kModulePath, kFile, kLine, kTarget, kThread, kThreadId, kMdc]

def getStr (ms : List (List Char × JVal)) (k : List Char) : Option (List Char) :=
  match ms.lookup k with | some (.str s) => some s | _ => none

def getNum (ms : List (List Char × JVal)) (k : List Char) : Option Nat :=
  match ms.lookup k with | some (.num n) => some n | _ => none

/-- optional string member: absent → `none`; present with another type → reject -/
def getOptStr (ms : List (List Char × JVal)) (k : List Char) : Option (Option (List Char)) :=
  match ms.lookup k with | none => some none | some (.str s) => some (some s) | _ => none

def getOptNum (ms : List (List Char × JVal)) (k : List Char) : Option (Option Nat) :=
  match ms.lookup k with | none => some none | some (.num n) => some (some n) | _ => none

/-- string or `null` -/
def getNullableStr (ms : List (List Char × JVal)) (k : List Char) : Option (Option (List Char)) :=
  match ms.lookup k with | some .null => some none | some (.str s) => some (some s) | _ => none

def getMap (ms : List (List Char × JVal)) (k : List Char) : Option (List (List Char × List Char)) :=
  match ms.lookup k with | some (.map es) => some es | _ => none

def noDupKeys : List (List Char) → Bool
  | [] => true
  | k :: ks => !ks.contains k && noDupKeys ks

/-- interpret the members: keys looked up by name, no unknown or duplicate key (the nested map's
    keys are checked by `toFields`) -/
def toFieldsCore (ms : List (List Char × JVal)) : Option Fields :=
  let keys := ms.map (·.1)
  if keys.all knownKeys.contains && noDupKeys keys then
    match getStr ms kTime, getStr ms kLevel, getStr ms kMessage, getOptStr ms kModulePath,
          getOptStr ms kFile, getOptNum ms kLine, getStr ms kTarget, getNullableStr ms kThread,
          getNum ms kThreadId, getMap ms kMdc with
    | some time, some level, some message, some modulePath, some file, some line, some target,
      some thread, some threadId, some mdc =>
      some { time, level, message, modulePath, file, line, target, thread, threadId, mdc }
    | _, _, _, _, _, _, _, _, _, _ => none
  else none

/-- `toFieldsCore`, and the nested `mdc` object must be a map: no key twice -/
def toFields (ms : List (List Char × JVal)) : Option Fields :=
  match toFieldsCore ms with
  | some f => if noDupKeys (f.mdc.map (·.1)) then some f else none
  | none => none

/-- two association lists denote the same map (both without repeated keys) -/
def sameMap (a b : List (List Char × List Char)) : Bool :=
  noDupKeys (a.map (·.1)) && noDupKeys (b.map (·.1)) && a.length == b.length &&
  b.all fun kv => a.lookup kv.1 == some kv.2

/-- read one output line back -/
def readObj (line : List Char) : Option Fields := (readLineMembers line).bind toFields

/-- the keys present in the object on a line -/
def keysOf (line : List Char) : Option (List (List Char)) :=
  (readLineMembers line).map fun ms => ms.map (·.1)

/-! ### the verdict on an emitted line -/

/-- "exactly one line": the text is `body ++ "\n"` and the body has no character below 0x20 -/
def oneLine (out : List Char) : Bool :=
  match out.reverse with
  | '\n' :: revBody => revBody.all fun c => decide (0x20 ≤ c.toNat)
  | _ => false

inductive Verdict where
  | ok
  | fail (clause : String)
  deriving DecidableEq, Repr

/-- the property evaluated on an emitted text `out` for the record `r` in environment `env` -/
def specLine (env : Env) (r : Record) (out : List Char) : Verdict :=
  if !oneLine out then .fail "not-one-line"
  else match readLineMembers out with
    | none => .fail "unparsable"
    | some ms =>
    match toFields ms with
    | none => .fail "members"
    | some f =>
      let want := fieldsOf env r
      if f.message ≠ want.message then .fail "message"
      else if f.level ≠ want.level then .fail "level"
      else if f.target ≠ want.target then .fail "target"
      else if f.modulePath ≠ want.modulePath then .fail "module_path"
      else if f.file ≠ want.file then .fail "file"
      else if f.line ≠ want.line then .fail "line"
      else if f.thread ≠ want.thread then .fail "thread"
      else if !sameMap f.mdc want.mdc then .fail "mdc"
      else if f.time ≠ want.time ∨ f.threadId ≠ want.threadId then .fail "time-or-thread_id"
      else .ok

/-! ### histories

The statement speaks of *each record*: what a record's line says may depend on that record and its
surroundings (time, thread, MDC) only — never on what was encoded before it on the same thread, be it
successfully or not.  For a step whose writer accepted everything (and whose message could be
rendered) the verdict is therefore `specLine` with that step's own environment and record.  A step
that was cut short must have delivered a prefix of that same line, no longer than the writer allowed. -/

/-- verdict on the bytes of a step that did not complete.  NOTE: this clause is defined through the
    model's line (`jsonLine`): it is a correspondence clause — "the real encoder stopped somewhere
    inside the line the model predicts" — not an independent reading of the English statement, which
    says nothing about unfinished encodes.  (An independent formulation, "a prefix of some line that
    satisfies `specLine`", is not executable.) -/
def specCutStep (s : Step) (got : Bytes) : Bool :=
  got.isPrefixOf (utf8 (jsonLine s.env s.record)) &&
  (match s.writer with
   | .acceptAll => true
   | .failAfter k => decide (got.length ≤ k))

end Log4rs.Json
