import Log4rsModel.Json.LemmasObj
/-
Helper lemmas for C12, part 3: values of the top-level object, the member list of a line, reading a
whole line back.
-/
namespace Log4rs.Json

/-- how the model renders a value of the top-level object -/
def renderVal : JVal → List Char
  | .str s => jstr s
  | .num n => natDigits n
  | .null => jnull
  | .map es => mdcObject es

/-- the members of the emitted object as data: keys in declaration order, absent options omitted -/
def membersOf (env : Env) (r : Record) : List (List Char × JVal) :=
  [(kTime, .str env.time), (kLevel, .str r.level.name), (kMessage, .str r.message)]
  ++ (match r.modulePath with | some m => [(kModulePath, .str m)] | none => [])
  ++ (match r.file with | some f => [(kFile, .str f)] | none => [])
  ++ (match r.line with | some n => [(kLine, .num n)] | none => [])
  ++ [(kTarget, .str r.target),
      (kThread, match env.thread with | some t => .str t | none => .null),
      (kThreadId, .num env.threadId),
      (kMdc, .map env.mdc)]

theorem messageMembers_eq (env : Env) (r : Record) :
    messageMembers env r = (membersOf env r).map fun p => member p.1 (renderVal p.2) := by
  cases hm : r.modulePath <;> cases hf : r.file <;> cases hl : r.line <;> cases ht : env.thread <;>
    simp [messageMembers, membersOf, optMember, renderVal, jstrPieces_eq, Record.message, hm, hf, hl, ht]

theorem jsonLine_eq (env : Env) (r : Record) :
    jsonLine env r
      = '{' :: (joinMembers ((membersOf env r).map fun p => member p.1 (renderVal p.2)) ++ '}' :: ['\n']) := by
  simp [jsonLine, object, NEWLINE, messageMembers_eq]

/-! ### value readers -/

theorem readStrVal_ok (v : List Char) : RVok readStrVal jstr v := by
  intro c rest _
  have : jstr v ++ c :: rest = '"' :: (escape v ++ '"' :: (c :: rest)) := by simp [jstr]
  rw [this]; simp [readStrVal, readStr_escape]

theorem digit_not_syntax (d : Char) (h : isDigit d = true) : d ≠ '"' ∧ d ≠ '{' ∧ d ≠ 'n' := by
  refine ⟨?_, ?_, ?_⟩ <;> (rintro rfl; exact absurd h (by decide))

theorem readVal_ok (fuel : Nat) (v : JVal) (h : ∀ es, v = .map es → es.length ≤ fuel) :
    RVok (readVal fuel) renderVal v := by
  intro c rest hc
  cases v with
  | str s =>
    have : renderVal (.str s) ++ c :: rest = '"' :: (escape s ++ '"' :: (c :: rest)) := by simp [renderVal, jstr]
    rw [this]; simp [readVal, readStr_escape]
  | num n =>
    obtain ⟨d, ds, hd, hdig⟩ := natDigits_head_digit n
    obtain ⟨h1, h2, h3⟩ := digit_not_syntax d hdig
    have hcd : isDigit c = false := by rcases hc with rfl | rfl <;> decide
    have hr := readNat_natDigits n c rest hcd
    simp only [renderVal]
    rw [hd] at hr ⊢
    simp only [List.cons_append] at hr ⊢
    simp [readVal, h1, h2, h3, hr]
  | null => simp [readVal, renderVal, jnull]
  | map es =>
    have hlen := h es rfl
    have hb := readObjBody_ok (rv := readStrVal) (render := jstr) es (fun p _ => readStrVal_ok p.2) fuel hlen (c :: rest)
    have : renderVal (.map es) ++ c :: rest
        = '{' :: (joinMembers (es.map fun p => member p.1 (jstr p.2)) ++ '}' :: (c :: rest)) := by
      simp [renderVal, mdcObject, object]
    rw [this]
    simp [readVal, hb]

/-! ### lengths (the reader's fuel is the length of the line) -/

theorem length_joinMembers_ge (ms : List (List Char)) (h : ∀ m ∈ ms, m ≠ []) :
    ms.length ≤ (joinMembers ms).length := by
  induction ms with
  | nil => simp
  | cons m ms ih =>
    have hm : 1 ≤ m.length := by
      have := h m (by simp)
      cases m with
      | nil => exact absurd rfl this
      | cons _ _ => simp
    cases ms with
    | nil => simpa [joinMembers] using hm
    | cons m' ms' =>
      have := ih (fun x hx => h x (List.mem_cons_of_mem _ hx))
      rw [joinMembers_cons_cons]
      simp only [List.length_append, List.length_cons] at this ⊢
      omega

theorem length_le_joinMembers (ms : List (List Char)) (m : List Char) (h : m ∈ ms) :
    m.length ≤ (joinMembers ms).length := by
  induction ms with
  | nil => cases h
  | cons x xs ih =>
    cases xs with
    | nil =>
      simp only [List.mem_cons, List.not_mem_nil, or_false] at h
      subst h; simp [joinMembers]
    | cons y ys =>
      rw [joinMembers_cons_cons]
      simp only [List.length_append, List.length_cons]
      rcases List.mem_cons.mp h with h | h
      · subst h; omega
      · have := ih h; omega

theorem member_ne_nil (k v : List Char) : member k v ≠ [] := by rw [member_eq]; simp

theorem length_member_ge (k v : List Char) : v.length ≤ (member k v).length := by
  rw [member_eq]; simp; omega

theorem mdc_length_le (mdc : List (List Char × List Char)) : mdc.length ≤ (mdcObject mdc).length := by
  have := length_joinMembers_ge (mdc.map fun kv => member kv.1 (jstr kv.2))
    (by intro m hm; simp only [List.mem_map] at hm; obtain ⟨p, _, rfl⟩ := hm; exact member_ne_nil _ _)
  simp only [List.length_map] at this
  simp only [mdcObject, object, List.length_cons, List.length_append, List.length_nil]
  omega

theorem membersOf_length_le (env : Env) (r : Record) : (membersOf env r).length ≤ (jsonLine env r).length := by
  have h := length_joinMembers_ge (messageMembers env r) (by
    intro m hm; rw [messageMembers_eq] at hm
    simp only [List.mem_map] at hm; obtain ⟨p, _, rfl⟩ := hm; exact member_ne_nil _ _)
  rw [messageMembers_eq, List.length_map] at h
  rw [jsonLine_eq]
  simp only [List.length_cons, List.length_append]
  omega

theorem mdc_member_mem (env : Env) (r : Record) : member kMdc (mdcObject env.mdc) ∈ messageMembers env r := by
  simp [messageMembers]

theorem mdc_length_le_line (env : Env) (r : Record) : env.mdc.length ≤ (jsonLine env r).length := by
  have h1 := mdc_length_le env.mdc
  have h2 := length_member_ge kMdc (mdcObject env.mdc)
  have h3 := length_le_joinMembers _ _ (mdc_member_mem env r)
  simp only [jsonLine, object, NEWLINE, List.length_cons, List.length_append, List.length_nil]
  omega

theorem membersOf_map_mem (env : Env) (r : Record) :
    ∀ p ∈ membersOf env r, ∀ es, p.2 = JVal.map es → es = env.mdc := by
  intro p hp es he
  obtain ⟨k, v⟩ := p
  simp only at he
  subst he
  cases hm : r.modulePath <;> cases hf : r.file <;> cases hl : r.line <;> cases ht : env.thread <;>
    simp [membersOf, hm, hf, hl, ht] at hp <;> exact hp.2

/-- the structural round trip: the reader sees exactly the members the encoder wrote, in order -/
theorem readLineMembers_jsonLine (env : Env) (r : Record) :
    readLineMembers (jsonLine env r) = some (membersOf env r) := by
  have hlen1 := membersOf_length_le env r
  have hlen2 := mdc_length_le_line env r
  have hok : ∀ p ∈ membersOf env r, RVok (readVal (jsonLine env r).length) renderVal p.2 := by
    intro p hp
    apply readVal_ok
    intro es he
    rw [membersOf_map_mem env r p hp es he]; exact hlen2
  have hb := readObjBody_ok (membersOf env r) hok (jsonLine env r).length hlen1 ['\n']
  have e := jsonLine_eq env r
  unfold readLineMembers
  generalize jsonLine env r = line at e hb ⊢
  subst e
  simp only []
  rw [hb]
  rfl

/-! ### interpreting the members -/

theorem toFieldsCore_membersOf (env : Env) (r : Record) : toFieldsCore (membersOf env r) = some (fieldsOf env r) := by
  obtain ⟨level, pieces, mp, file, line, target⟩ := r
  obtain ⟨time, thread, tid, mdc⟩ := env
  cases mp <;> cases file <;> cases line <;> cases thread <;> rfl

/-- the thread's MDC is a map: no key twice -/
def MdcIsMap (env : Env) : Prop := noDupKeys (env.mdc.map (·.1)) = true

instance (env : Env) : Decidable (MdcIsMap env) := by unfold MdcIsMap; infer_instance

theorem toFields_membersOf (env : Env) (r : Record) (h : MdcIsMap env) :
    toFields (membersOf env r) = some (fieldsOf env r) := by
  unfold MdcIsMap at h
  simp [toFields, toFieldsCore_membersOf, fieldsOf, h]

theorem toFields_membersOf_dup (env : Env) (r : Record) (h : ¬ MdcIsMap env) :
    toFields (membersOf env r) = none := by
  unfold MdcIsMap at h
  simp [toFields, toFieldsCore_membersOf, fieldsOf, h]

theorem lookup_self_of_noDup (l : List (List Char × List Char)) (h : noDupKeys (l.map (·.1)) = true) :
    ∀ kv ∈ l, l.lookup kv.1 = some kv.2 := by
  induction l with
  | nil => intro kv hkv; cases hkv
  | cons e rest ih =>
    obtain ⟨k, v⟩ := e
    simp only [List.map_cons, noDupKeys, Bool.and_eq_true, Bool.not_eq_true', List.contains_eq_mem,
      decide_eq_false_iff_not] at h
    intro kv hkv
    rcases List.mem_cons.mp hkv with rfl | hin
    · simp [List.lookup]
    · have hne : kv.1 ≠ k := by
        intro he
        exact h.1 (he ▸ List.mem_map_of_mem hin)
      have : (kv.1 == k) = false := by simpa using hne
      rw [List.lookup_cons, this]
      exact ih h.2 kv hin

theorem sameMap_self (l : List (List Char × List Char)) (h : noDupKeys (l.map (·.1)) = true) :
    sameMap l l = true := by
  simp only [sameMap, h, Bool.true_and, beq_self_eq_true, List.all_eq_true, beq_iff_eq]
  exact lookup_self_of_noDup l h

/-- the keys the emitted object must have, by presence of module path, file, line -/
def expectedKeysB (m f l : Bool) : List (List Char) :=
  [kTime, kLevel, kMessage]
  ++ (if m then [kModulePath] else [])
  ++ (if f then [kFile] else [])
  ++ (if l then [kLine] else [])
  ++ [kTarget, kThread, kThreadId, kMdc]

def expectedKeys (r : Record) : List (List Char) :=
  expectedKeysB r.modulePath.isSome r.file.isSome r.line.isSome

/-- (finite whole domain) an optional key is among the expected keys iff its field is present -/
theorem expectedKeysB_mem : ∀ m f l : Bool,
    (kModulePath ∈ expectedKeysB m f l ↔ m = true) ∧ (kFile ∈ expectedKeysB m f l ↔ f = true) ∧
    (kLine ∈ expectedKeysB m f l ↔ l = true) := by decide

theorem membersOf_keys (env : Env) (r : Record) : (membersOf env r).map (·.1) = expectedKeys r := by
  obtain ⟨level, message, mp, file, line, target⟩ := r
  cases mp <;> cases file <;> cases line <;> rfl

/-! ### the whole line is printable -/

theorem member_printable (k v : List Char) (hv : Printable v) : Printable (member k v) := by
  unfold member
  exact printable_append.mpr ⟨jstr_printable k, printable_cons.mpr ⟨by decide, hv⟩⟩

theorem joinMembers_printable (ms : List (List Char)) (h : ∀ m ∈ ms, Printable m) : Printable (joinMembers ms) := by
  induction ms with
  | nil => exact printable_nil
  | cons m ms ih =>
    cases ms with
    | nil => simpa [joinMembers] using h m (by simp)
    | cons m' ms' =>
      rw [joinMembers_cons_cons]
      exact printable_append.mpr ⟨h m (by simp), printable_cons.mpr ⟨by decide,
        ih (fun x hx => h x (List.mem_cons_of_mem _ hx))⟩⟩

theorem object_printable (ms : List (List Char)) (h : ∀ m ∈ ms, Printable m) : Printable (object ms) := by
  unfold object
  exact printable_cons.mpr ⟨by decide, printable_append.mpr ⟨joinMembers_printable ms h,
    printable_cons.mpr ⟨by decide, printable_nil⟩⟩⟩

theorem renderVal_printable (v : JVal) : Printable (renderVal v) := by
  cases v with
  | str s => exact jstr_printable s
  | num n => exact natDigits_printable n
  | null => simp only [renderVal, jnull, Printable]; decide
  | map es =>
    simp only [renderVal, mdcObject]
    apply object_printable
    intro m hm
    simp only [List.mem_map] at hm
    obtain ⟨p, _, rfl⟩ := hm
    exact member_printable _ _ (jstr_printable _)

theorem body_printable (env : Env) (r : Record) : Printable (object (messageMembers env r)) := by
  apply object_printable
  intro m hm
  rw [messageMembers_eq] at hm
  simp only [List.mem_map] at hm
  obtain ⟨p, _, rfl⟩ := hm
  exact member_printable _ _ (renderVal_printable _)

end Log4rs.Json
