import Log4rsModel.Base.Bytes
/-
Model of `log4rs::encode::json::JsonEncoder::encode` (src/encode/json.rs).

The encoder builds a `Message` struct and hands it to `serde_json::Serializer` (compact formatter),
then writes `NEWLINE`.  What is modelled here, function by function:

* `format_escaped_str` / `format_escaped_str_contents` of serde_json (`escape`, `jstr`): the
  256-entry `ESCAPE` table (`"` `\\` `\b` `\t` `\n` `\f` `\r`, every other byte below 0x20 as
  `\u00XX` with lower-case hex digits, everything else — DEL, U+2028/2029, all non-ASCII — raw).
  The table is indexed by *bytes*; every byte of a multi-byte UTF-8 sequence is ≥ 0x80 and maps to
  "not escaped", so the table acts per character.  Text is `List Char` here; UTF-8 encoding of the
  line is done in the driver/harness comparison, not in the model.
* serde's derived `Serialize for Message`: `serialize_struct` writes `{`, every `serialize_field`
  writes a `,` unless it is the first member, then the key as a JSON string, `:` and the value;
  `skip_serializing_if = "Option::is_none"` skips the member entirely; `end` writes `}`.
* `ser_display` → `collect_str` of the `Display` value (time, message): serde_json's `collect_str`
  writes the opening quote, then runs `write!(adapter, "{}", value)` where the adapter's `write_str`
  calls `format_escaped_str_contents` ONCE PER PIECE the `Display` impl hands over (a
  `fmt::Arguments` hands over every literal piece, every argument's own pieces, every padding
  character separately), then the closing quote.  The message is therefore modelled as the list of
  its pieces (`Record.pieces`, `jstrPieces`); its text (`Record.message`) is their concatenation.
* `Level` serialises as the unit variant names `ERROR WARN INFO DEBUG TRACE`.
* `Option<&str>` without `skip_serializing_if` (`thread`) serialises `None` as `null`.
* `u32` / `usize` via `itoa`: plain decimal (`natDigits`).
* `Mdc`: `serialize_map(None)` writes `{`, entries are `key:value` strings in the iteration order
  of `log_mdc::iter` (a `HashMap`; the order is an *input*: `Env.mdc` is an association list in
  iteration order), `end` writes `}`.
* `NEWLINE` is `"\n"` (unix; the `\r\n` of windows builds is outside this model).

Environment facts that are inputs (never compared as such): the rendered time text, the numeric
thread id, the thread's name, the MDC content in iteration order.
-/
namespace Log4rs.Json

/-- `log::Level` -/
inductive Level where
  | error | warn | info | debug | trace
  deriving DecidableEq, Repr

/-- the variant name `impl Serialize for Level` passes to `serialize_unit_variant` -/
def Level.name : Level → List Char
  | .error => ['E','R','R','O','R']
  | .warn => ['W','A','R','N']
  | .info => ['I','N','F','O']
  | .debug => ['D','E','B','U','G']
  | .trace => ['T','R','A','C','E']

/-- the numbering of the line protocol: `log::Level as usize` (Error = 1 … Trace = 5) -/
def Level.ofNat? : Nat → Option Level
  | 1 => some .error | 2 => some .warn | 3 => some .info | 4 => some .debug | 5 => some .trace
  | _ => none

/-- what the encoder reads from the `log::Record` -/
structure Record where
  level : Level
  /-- `record.args()` as the sequence of `write_str` pieces its `Display` produces -/
  pieces : List (List Char)
  modulePath : Option (List Char)
  file : Option (List Char)
  line : Option Nat
  target : List Char
  deriving Repr

/-- the message text: what `record.args().to_string()` is -/
def Record.message (r : Record) : List Char := r.pieces.flatten

/-- what the encoder reads from its surroundings -/
structure Env where
  /-- `Local::now()` rendered with `Fixed::RFC3339` -/
  time : List Char
  /-- `thread::current().name()` -/
  thread : Option (List Char)
  /-- `thread_id::get()` -/
  threadId : Nat
  /-- the thread's MDC in the iteration order of `log_mdc::iter` -/
  mdc : List (List Char × List Char)
  deriving Repr

/-- `HEX_DIGITS = *b"0123456789abcdef"` -/
def hexDigit : Nat → Char
  | 0 => '0' | 1 => '1' | 2 => '2' | 3 => '3' | 4 => '4' | 5 => '5' | 6 => '6' | 7 => '7'
  | 8 => '8' | 9 => '9' | 10 => 'a' | 11 => 'b' | 12 => 'c' | 13 => 'd' | 14 => 'e' | 15 => 'f'
  | _ => '0'

/-- one entry of the `ESCAPE` table together with `write_char_escape` -/
def escapeChar (c : Char) : List Char :=
  if c = '"' then ['\\', '"']
  else if c = '\\' then ['\\', '\\']
  else if c = '\x08' then ['\\', 'b']
  else if c = '\x0c' then ['\\', 'f']
  else if c = '\n' then ['\\', 'n']
  else if c = '\r' then ['\\', 'r']
  else if c = '\t' then ['\\', 't']
  else if c.toNat < 0x20 then ['\\', 'u', '0', '0', hexDigit (c.toNat / 16), hexDigit (c.toNat % 16)]
  else [c]

/-- `format_escaped_str_contents` -/
def escape : List Char → List Char
  | [] => []
  | c :: cs => escapeChar c ++ escape cs

/-- `format_escaped_str`: `begin_string`, contents, `end_string` -/
def jstr (s : List Char) : List Char := '"' :: escape s ++ ['"']

/-- `collect_str`: `begin_string`, one `format_escaped_str_contents` per `write_str` piece,
    `end_string` -/
def jstrPieces (ps : List (List Char)) : List Char := '"' :: ps.flatMap escape ++ ['"']

/-- `itoa` for unsigned integers: plain decimal, no sign, no leading zero -/
def natDigits (n : Nat) : List Char :=
  if n < 10 then [hexDigit n] else natDigits (n / 10) ++ [hexDigit (n % 10)]
termination_by n
decreasing_by omega

/-- `serialize_key` + `:` + value (already rendered) -/
def member (key : List Char) (value : List Char) : List Char := jstr key ++ ':' :: value

/-- `Compound::serialize_key`: a `,` before every member but the first -/
def joinMembers : List (List Char) → List Char
  | [] => []
  | [m] => m
  | m :: ms => m ++ ',' :: joinMembers ms

/-- `serialize_struct`/`serialize_map` … `end` -/
def object (members : List (List Char)) : List Char := '{' :: joinMembers members ++ ['}']

def kTime : List Char := ['t','i','m','e']
def kLevel : List Char := ['l','e','v','e','l']
def kMessage : List Char := ['m','e','s','s','a','g','e']
def kModulePath : List Char := ['m','o','d','u','l','e','_','p','a','t','h']
def kFile : List Char := ['f','i','l','e']
def kLine : List Char := ['l','i','n','e']
def kTarget : List Char := ['t','a','r','g','e','t']
def kThread : List Char := ['t','h','r','e','a','d']
def kThreadId : List Char := ['t','h','r','e','a','d','_','i','d']
def kMdc : List Char := ['m','d','c']

def jnull : List Char := ['n','u','l','l']

/-- `impl Serialize for Mdc` -/
def mdcObject (mdc : List (List Char × List Char)) : List Char :=
  object (mdc.map fun kv => member kv.1 (jstr kv.2))

/-- a field with `skip_serializing_if = "Option::is_none"` -/
def optMember (key : List Char) (render : α → List Char) : Option α → List (List Char)
  | none => []
  | some v => [member key (render v)]

/-- the members of `Message` in declaration order -/
def messageMembers (env : Env) (r : Record) : List (List Char) :=
  [member kTime (jstr env.time), member kLevel (jstr r.level.name), member kMessage (jstrPieces r.pieces)]
  ++ optMember kModulePath jstr r.modulePath
  ++ optMember kFile jstr r.file
  ++ optMember kLine natDigits r.line
  ++ [member kTarget (jstr r.target),
      member kThread (match env.thread with | some t => jstr t | none => jnull),
      member kThreadId (natDigits env.threadId),
      member kMdc (mdcObject env.mdc)]

/-- `crate::encode::NEWLINE` on unix -/
def NEWLINE : List Char := ['\n']

/-- `JsonEncoder::encode_inner`: everything written to the writer for one record -/
def jsonLine (env : Env) (r : Record) : List Char :=
  object (messageMembers env r) ++ NEWLINE

/-! ### histories: several encodes on one thread with one encoder

`JsonEncoder` is the unit struct `JsonEncoder(())` and `encode_inner` reads nothing but its
arguments, `thread::current()`, `thread_id::get()` and the MDC — no field, `static` or
`thread_local!` of its own.  The state an encode leaves behind for the next one is therefore the
empty structure `EncoderState`; it is threaded through `runHistory` explicitly so that the
sequence-level law is a statement about the model and not an artefact of how it is written. -/

/-- what the writer handed to `encode` does with the bytes -/
inductive WriterBehaviour where
  /-- every write succeeds -/
  | acceptAll
  /-- the first `k` bytes are accepted, the write that would exceed them returns an `io::Error` -/
  | failAfter (k : Nat)
  deriving DecidableEq, Repr

/-- one encode of a history -/
structure Step where
  env : Env
  record : Record
  writer : WriterBehaviour
  /-- `some n`: the `Display` impl behind `record.args()` writes the first `n` characters of the
      message and then returns `fmt::Error` -/
  displayFails : Option Nat
  deriving Repr

/-- everything `JsonEncoder` carries from one encode to the next: nothing -/
structure EncoderState where
  deriving DecidableEq, Repr

inductive OutcomeKind where
  /-- `Ok(())` -/
  | ok
  /-- the writer's `io::Error` comes back as `Err` -/
  | ioErr
  /-- the message's `Display` failed: serde_json's `collect_str` either panics ("there should be an
      error") or reports an error — recorded, not judged -/
  | displayFailed
  deriving DecidableEq, Repr

structure StepResult where
  kind : OutcomeKind
  /-- the bytes the writer accepted -/
  received : Bytes
  deriving DecidableEq, Repr

/-- what the serializer has written when the message's `Display` gives up after `n` characters:
    the object up to and including the escaped first `n` characters of the message -/
def displayCut (env : Env) (r : Record) (n : Nat) : List Char :=
  '{' :: (member kTime (jstr env.time) ++ ',' :: (member kLevel (jstr r.level.name) ++ ',' ::
    (jstr kMessage ++ ':' :: '"' :: escape (r.message.take n))))

/-- the bytes the encoder tries to hand to the writer -/
def intended (s : Step) : Bytes :=
  utf8 (match s.displayFails with
    | none => jsonLine s.env s.record
    | some n => displayCut s.env s.record n)

/-- the bytes the writer ends up with -/
def received (s : Step) : Bytes :=
  match s.writer with
  | .acceptAll => intended s
  | .failAfter k => (intended s).take k

/-- the writer accepted everything it was offered -/
def writerHolds (s : Step) : Bool :=
  match s.writer with
  | .acceptAll => true
  | .failAfter k => decide ((intended s).length ≤ k)

/-- the encode returns `Ok(())` -/
def succeeds (s : Step) : Bool := s.displayFails.isNone && writerHolds s

/-- `Encode::encode` as a state transformer -/
def encodeStep (st : EncoderState) (s : Step) : EncoderState × StepResult :=
  (st, { kind := if !writerHolds s then .ioErr else if s.displayFails.isSome then .displayFailed else .ok,
         received := received s })

/-- a history of encodes on one thread with one encoder -/
def runHistory (st : EncoderState) : List Step → List StepResult
  | [] => []
  | s :: rest => let (st', res) := encodeStep st s; res :: runHistory st' rest

end Log4rs.Json
