import Log4rsModel.Rolling.LemmasNoLoss
import Log4rsModel.Rolling.LemmasWindow
import Log4rsModel.Rolling.LemmasLockSmall
import Log4rsModel.Roller.LemmasName
import Log4rsModel.Properties.C04
/-
C05 — Rolling appender never loses, duplicates, reorders or splits records.

Model: `Rolling/Model.lean` (the appender state machine; any trigger as an abstract `Trigger σ`;
any roller as a `RollFn`), `Roller/Model.lean` (shared delete / fixed-window models) and
`fixedWindowRollC` (the compressing final step in its three sub-steps).

The argument is parametric in the roller through `RollContractE`: every call of the roller
discards at most ONE whole oldest archive, a successful call archives the log file, a call that
reports `Err` left the log file alone or had already archived it. The contract is proved for the
delete roller, for the fixed-window model (any base, count, initial window with gaps, compression
with `decode ∘ codec = id`, every place where the fault oracle stops a rotation), for the real
`{}` pattern substitution (name injectivity from C07), and for the "does its work, then reports
Err" wrapper the harness uses. It is FALSE of the code as it is for one fault: the
`remove_file(src)` sub-step of a compressing rotation (`C05_compress_failure_duplicates`).

Histories (`List XOp`): appends of any record with any roller fault, appends whose encoder fails,
restarts, clock ticks. Mutex: the sequential theorems describe one append at a time;
`C05_concurrent_no_loss` lifts the main theorem to every schedule of the small-step lock machine
(`Rolling/LockSmall.lean`), whose only assumption is mutual exclusion with the guard spanning the
whole append as in the code. A guard narrowed in the code is outside these theorems; it is looked
for by the harness's concurrent runs.
-/
namespace Log4rs.Rolling
open Log4rs.Roller

variable {σ : Type}

/-- retained files oldest → newest, the active file last -/
def retained (cfg : Cfg σ) (arch : Disk → List Bytes) (d : Disk) : List Bytes := arch d ++ [fileOf cfg d]

/-- the invariant holds when the first appender is built on any disk -/
theorem C05_inv_init (cfg : Cfg σ) (arch : Disk → List Bytes) (hc : RollContractE cfg.roll cfg.path arch)
    (d : Disk) (t0 : σ) (now : Nat) : Inv cfg arch (init cfg d t0 now) (Ghost.init cfg arch d) :=
  Inv.atInit cfg arch hc.frame d t0 now

/-- every operation — append of any record with any trigger answer and any roller outcome
(success; failure at any step; failure reported after the work was done), append whose encoder
fails, restart, clock tick — preserves the invariant, in append and in truncate mode -/
theorem C05_inv_step (cfg : Cfg σ) (arch : Disk → List Bytes) (hc : RollContractE cfg.roll cfg.path arch)
    (s : St σ) (g : Ghost) (inv : Inv cfg arch s g) (op : XOp) :
    Inv cfg arch (applyX cfg s op).2 (ghostStepX cfg g op (applyX cfg s op).1 (goneAfter cfg (applyX cfg s op).2)) :=
  inv.stepX hc op

/-- restart in append mode keeps everything; in truncate mode it discards the active segment — at
open, and only that: the archives are untouched and the file is empty -/
theorem C05_restart (cfg : Cfg σ) (arch : Disk → List Bytes) (hc : RollContractE cfg.roll cfg.path arch)
    (s : St σ) (hwf : WF cfg s) :
    arch (restart cfg s).disk = arch s.disk ∧
    fileOf cfg (restart cfg s).disk = (if cfg.appendMode then fileOf cfg s.disk else []) := by
  obtain ⟨ho, hse⟩ := restart_spec cfg s hwf
  exact ⟨hc.frame _ _ hse, fileOf_opened ho⟩

/-- Main theorem. After any history, the files on disk — retained archives oldest to newest, then
the active file — are exactly the segmented stream minus its `k` oldest WHOLE files, and `k` is at
most the number of times the roller was called in that history: nothing missing from the middle,
nothing duplicated, nothing reordered, no record split across files, and whole oldest files are
discarded only by rotations, at most one per rotation request (without a rotation request nothing
is ever discarded: `k = 0`). -/
theorem C05_no_loss_no_dup_order (cfg : Cfg σ) (arch : Disk → List Bytes)
    (hc : RollContractE cfg.roll cfg.path arch)
    (d : Disk) (t0 : σ) (now : Nat) (ops : List XOp) :
    let res := grunX cfg (init cfg d t0 now) (Ghost.init cfg arch d) ops
    ∃ k, k ≤ rollCalls res.1 ∧ k ≤ res.2.2.closed.length ∧
      retained cfg arch res.2.1.disk = ((res.2.2.closed ++ [res.2.2.cur]).drop k).map List.flatten := by
  intro res
  have inv : Inv cfg arch res.2.1 res.2.2 := (C05_inv_init cfg arch hc d t0 now).historyX hc ops
  obtain ⟨k, hkc, hk⟩ := inv.archives
  have hcalls : res.2.2.calls = rollCalls res.1 := by
    have := grunX_calls cfg ops (init cfg d t0 now) (Ghost.init cfg arch d)
    simpa [Ghost.init, res] using this
  refine ⟨min k res.2.2.closed.length, ?_, Nat.min_le_right _ _, ?_⟩
  · rw [← hcalls]; exact Nat.le_trans (Nat.min_le_left _ _) hkc
  have hdrop : res.2.2.closed.drop k = res.2.2.closed.drop (min k res.2.2.closed.length) := by
    by_cases h : k ≤ res.2.2.closed.length
    · rw [Nat.min_eq_left h]
    · rw [Nat.min_eq_right (by omega), List.drop_eq_nil_of_le (by omega), List.drop_length]
  simp only [retained]
  rw [hk, inv.active, hdrop, List.drop_append_of_le_length (Nat.min_le_right _ _)]
  simp

/-- corollary: a history in which the roller is never called loses nothing at all -/
theorem C05_no_rotation_no_loss (cfg : Cfg σ) (arch : Disk → List Bytes)
    (hc : RollContractE cfg.roll cfg.path arch)
    (d : Disk) (t0 : σ) (now : Nat) (ops : List XOp)
    (h0 : rollCalls (grunX cfg (init cfg d t0 now) (Ghost.init cfg arch d) ops).1 = 0) :
    let res := grunX cfg (init cfg d t0 now) (Ghost.init cfg arch d) ops
    retained cfg arch res.2.1.disk = (res.2.2.closed ++ [res.2.2.cur]).map List.flatten := by
  intro res
  obtain ⟨k, hk, _, h⟩ := C05_no_loss_no_dup_order cfg arch hc d t0 now ops
  have : k = 0 := by
    have : k ≤ 0 := h0 ▸ hk
    omega
  subst this
  simpa using h

/-- The segmented stream is the stream of written items. (1) Always — restarts in either mode
included — it is a subsequence of the pre-existing contents followed by the records whose bytes
reached the file, in call order: nothing invented, duplicated or reordered. (2) It is ALL of them
as long as no restart happens in truncate mode. (3) The acknowledged records (append returned
`Ok`) are a subsequence of the written ones; the extras are whole records of appends that returned
`Err` after their write (post-process policy failure). An append whose encoder failed contributes
nothing. (4) The outputs are those of the plain run (`traceX`). -/
theorem C05_stream_is_written (cfg : Cfg σ) (arch : Disk → List Bytes) (d : Disk) (t0 : σ) (now : Nat) (ops : List XOp) :
    let res := grunX cfg (init cfg d t0 now) (Ghost.init cfg arch d) ops
    res.2.2.stream.Sublist ((Ghost.init cfg arch d).stream ++ writtenItemsX cfg.trig.pre ops res.1) ∧
    ((cfg.appendMode = true ∨ ∀ op ∈ ops, op.isRestart = false) →
      res.2.2.stream = (Ghost.init cfg arch d).stream ++ writtenItemsX cfg.trig.pre ops res.1) ∧
    (ackedItemsX ops res.1).Sublist (writtenItemsX cfg.trig.pre ops res.1) ∧
    res.1 = (traceX cfg (init cfg d t0 now) ops).map (·.1) := by
  intro res
  exact ⟨grunX_stream_sublist cfg ops _ _, fun hnr => grunX_stream cfg ops _ _ hnr,
    ackedX_sublist_writtenX _ _ _, grunX_outs cfg _ _ ops⟩

/-- … and what a truncate-mode restart discards is exactly the active segment: after
`ops1 ++ [restart] ++ ops2` (no restart in `ops2`) the stream is what had been ARCHIVED during
`ops1`, followed by everything written during `ops2` -/
theorem C05_stream_after_truncate_restart (cfg : Cfg σ) (arch : Disk → List Bytes) (d : Disk) (t0 : σ) (now : Nat)
    (ops1 ops2 : List XOp) (ham : cfg.appendMode = false) (hnr : ∀ op ∈ ops2, op.isRestart = false) :
    let mid := grunX cfg (init cfg d t0 now) (Ghost.init cfg arch d) ops1
    let fin := grunX cfg (init cfg d t0 now) (Ghost.init cfg arch d) (ops1 ++ .op .restart :: ops2)
    fin.2.2.stream = mid.2.2.closed.flatten ++ writtenItemsX cfg.trig.pre ops2 (fin.1.drop (ops1.length + 1)) :=
  grunX_stream_after_restart cfg ops1 ops2 _ _ ham hnr

/-- the pre-existing part of the stream: the archives found on disk (oldest first) and, in append
mode, the content of the log file -/
theorem C05_initial_stream (cfg : Cfg σ) (arch : Disk → List Bytes) (d : Disk) :
    (Ghost.init cfg arch d).stream = arch d ++ (if cfg.appendMode then [fileOf cfg d] else []) := by
  simp only [Ghost.stream, Ghost.init, List.flatten_append, List.flatten_cons, List.flatten_nil, List.append_nil]
  congr 1
  · induction arch d with
    | nil => rfl
    | cons a t ih => simp [ih]

/-! ### rollers that satisfy the contract -/

/-- the delete roller (it retains nothing), at every fault -/
theorem C05_contract_delete (path : Path) : RollContractE (fun p f d => deleteRoll p f d) path (fun _ => []) :=
  (rollContractB_delete path).toE

/-- the fixed-window model (shared `fixedWindowRoll`: compression as one atomic step), for every
base and count, every initial window (gaps, pre-existing archives), plain or compressed, wherever a
fault stops the rotation — provided slot names are pairwise distinct inside the window and differ
from the log file, and the codec round-trips -/
theorem C05_contract_fixed_window (r : RollerCfg) (path : Path) (decode : Bytes → Bytes)
    (hdec : ∀ x, decode (r.codec x) = x)
    (hinj : ∀ i j, i < r.count → j < r.count → r.nameOf (r.base + i) = r.nameOf (r.base + j) → i = j)
    (hfile : ∀ j, j < r.count → r.nameOf (r.base + j) ≠ path) :
    RollContractE (fixedWindowRoll r) path (fwArch r decode) :=
  (rollContractB_fixedWindow r path decode hdec hinj hfile).toE

/-- the same for the real naming `pattern.replace("{}", i)`: a pattern containing `{}` names the
slots injectively (C07 `substIdx_decimal_inj`), so only "no slot of the window is the log file
itself" remains as a hypothesis (a configuration error the builder does not reject). Environment
references in the pattern are taken as already expanded (`expand = id`). -/
theorem C05_contract_fixed_window_pattern (p : List Char) (hp : hasHole p = true) (codec decode : Bytes → Bytes)
    (base count : Nat) (path : Path) (hdec : ∀ x, decode (codec x) = x)
    (hfile : ∀ j, j < count → name id p (base + j) ≠ path) :
    RollContractE (fixedWindowRoll (mkRoller id codec p base count)) path (fwArch (mkRoller id codec p base count) decode) := by
  apply C05_contract_fixed_window (mkRoller id codec p base count) path decode hdec
  · intro i j _ _ h
    have := substIdx_decimal_inj p hp (base + i) (base + j) (by simpa [mkRoller, name] using h)
    omega
  · exact hfile

/-- a roller that does all its work and then reports `Err` (what the harness's wrapper does for
`g!record`; `Roll::roll` promises nothing on `Err`) still satisfies the contract -/
theorem C05_contract_late_error (inner : RollFn) (path : Path) (arch : Disk → List Bytes)
    (h : RollContractE inner path arch) (late : Nat) : RollContractE (lateRoll inner late) path arch :=
  h.late late

/-- the 3-sub-step model of the compressing rotation satisfies the contract as long as its
`remove_file(src)` sub-step is not made to fail (`noRemoveFault`), whatever the code does there -/
theorem C05_contract_fixed_window_compress_partial (lc : Bool) (r : RollerCfg) (path : Path) (decode : Bytes → Bytes)
    (hdec : ∀ x, decode (r.codec x) = x)
    (hinj : ∀ i j, i < r.count → j < r.count → r.nameOf (r.base + i) = r.nameOf (r.base + j) → i = j)
    (hfile : ∀ j, j < r.count → r.nameOf (r.base + j) ≠ path) :
    RollContractE (noRemoveFault r (fixedWindowRollC lc r)) path (fwArch r decode) :=
  (rollContractB_fixedWindowC_partial lc r path decode hdec hinj hfile).toE

/-- the reading used for the fixed-window roller is the executable `Spec.readBack` the driver
evaluates on real directories (plain files; for compressed patterns the harness decompresses) -/
theorem C05_readBack_is_spec (cfg : Cfg σ) (r : RollerCfg) (d : Disk) :
    (retained cfg (fwArch r id) d).flatten = Spec.readBack r.nameOf r.base r.count cfg.path d.get? := by
  have : fwArch r id d = Spec.archives r.nameOf r.base r.count d.get? := by
    simp only [fwArch, ← winOf_eq_archives]
    cases r.comp <;> simp
  simp [retained, Spec.readBack, Spec.diskFiles, this, fileOf]

/-! ### the compressing final step as the code has it (finding `C05/compress-failure-duplicates`) -/

private def cPath : Path := ['a']
private def cRoller : RollerCfg :=
  { nameOf := fun i => 'b' :: List.replicate i 'x', base := 0, count := 2, comp := .gzip, codec := id }
private def cCfg (lc : Bool) : Cfg (List TrigAns) :=
  { path := cPath, appendMode := true, trig := scriptedTrigger false, roll := fixedWindowRollC lc cRoller }

/-- The full statement for the compressing roller as the code is (`leavesCopy = true`) … -/
def C05_no_dup_compress_statement : Prop :=
  RollContractE (fixedWindowRollC true cRoller) cPath (fwArch cRoller id)

/-- … is false: when `remove_file(src)` fails after the archive was written (fault index `count`),
the roller returns `Err` with the segment BOTH in slot `base` and in the log file. -/
theorem C05_no_dup_compress_statement_false : ¬ C05_no_dup_compress_statement := by
  intro h
  have hr : fixedWindowRollC true cRoller cPath (fun k => k == 2) (Disk.empty.set cPath [1]) =
      (.error (.injected 2), ((Disk.empty.set cPath [1]).erase cPath |>.set ['b'] [1] |>.erase cPath).set cPath [1]) := by
    rfl
  rcases h.err _ _ _ _ [1] hr (by decide) with ⟨_, j, _, harch⟩ | ⟨hgone, _⟩
  · revert harch
    have : fwArch cRoller id (((Disk.empty.set cPath [1]).erase cPath |>.set ['b'] [1] |>.erase cPath).set cPath [1]) = [[1]] := by decide
    rw [this]
    have : fwArch cRoller id (Disk.empty.set cPath [1]) = [] := by decide
    rw [this]
    simp
  · revert hgone; decide

/-- the consequence for the appender (test on a sample): `[1]` is acknowledged, the rotation
requested after `[2]` archives `[1,2]` and then fails to remove the log file; the appender goes on
appending, the next rotation archives `[1,2,3]`: reading back gives `1 2 1 2 3` — the acknowledged
record `[1]` is stored twice. With the intended repair (`leavesCopy = false`) it is `1 2 3`. -/
theorem C05_compress_failure_duplicates :
    let ops : List Op := [.append [[1]] none, .append [[2]] (some 2), .append [[3]] none]
    let old := run (cCfg true) (init (cCfg true) Disk.empty [.no, .yes, .yes] 0) ops
    let new := run (cCfg false) (init (cCfg false) Disk.empty [.no, .yes, .yes] 0) ops
    old.1.map (fun o => o.map (·.res)) = [some .ok, some .errRoll, some .ok] ∧
    Spec.readBack cRoller.nameOf 0 2 cPath old.2.disk.get? = [1, 2, 1, 2, 3] ∧
    Spec.readBack cRoller.nameOf 0 2 cPath new.2.disk.get? = [1, 2, 3] := by
  decide +kernel

/-- for the integrator's repair (remove the destination when `compress` fails; model flag
`leavesCopy = false`, not yet the code): the compressing rotation then satisfies the contract at
EVERY fault, the `remove_file(src)` sub-step included — after the repair this replaces
`C05_contract_fixed_window_compress_partial` and the main theorem covers compressed rollers without
restriction. (Named `Repair_…`: not a statement about the current code, not counted.) -/
theorem Repair_C05_contract_fixed_window_compress (r : RollerCfg) (path : Path) (decode : Bytes → Bytes)
    (hdec : ∀ x, decode (r.codec x) = x)
    (hinj : ∀ i j, i < r.count → j < r.count → r.nameOf (r.base + i) = r.nameOf (r.base + j) → i = j)
    (hfile : ∀ j, j < r.count → r.nameOf (r.base + j) ≠ path) :
    RollContractE (fixedWindowRollC false r) path (fwArch r decode) :=
  (rollContractB_fixedWindowC_fixed r path decode hdec hinj hfile).toE

/-! ### concurrent writers -/

/-- Every state the small-step lock machine can reach from a freshly built appender, under any
scheduler: (1) the commit order is a merge of the threads' programs (restricted to a thread it is
what that thread has completed, a prefix of its program); (2) if the lock is free, the appender's
state and outputs are those of the SEQUENTIAL history of the committed appends in commit order —
and therefore the main theorem holds for it: the files on disk are the segmented stream of that
history minus at most one whole oldest file per rotation request. (While the lock is held the
same is true of the state reached by letting the holder finish: `MInv.lock`.) -/
theorem C05_concurrent_no_loss (cfg : Cfg σ) (arch : Disk → List Bytes) (hc : RollContractE cfg.roll cfg.path arch)
    (d : Disk) (t0 : σ) (now : Nat) (progs : List (List Rec)) (sched : List Nat) :
    let st := mrun (appendMicro cfg) (MState.init { st := init cfg d t0 now, outs := [] } progs) sched
    let ops := (st.log.map (·.2)).map (fun r => XOp.op (.append r none))
    (∀ i t, st.threads[i]? = some t → (st.log.filter (fun e => e.1 == i)).map (·.2) = t.done ∧
        ∃ p, progs[i]? = some p ∧ t.done <+: p) ∧
    (st.holder = none →
      let res := grunX cfg (init cfg d t0 now) (Ghost.init cfg arch d) ops
      st.shared.st = res.2.1 ∧ st.shared.outs = res.1 ∧
      ∃ k, k ≤ rollCalls res.1 ∧ k ≤ res.2.2.closed.length ∧
        retained cfg arch st.shared.st.disk = ((res.2.2.closed ++ [res.2.2.cur]).drop k).map List.flatten) := by
  intro st ops
  have inv : MInv (appendMicro cfg) { st := init cfg d t0 now, outs := [] } progs st :=
    (MInv.init (appendMicro cfg) _ progs).run sched
  refine ⟨?_, ?_⟩
  · intro i t ht
    obtain ⟨hl, p, hp1, hp2⟩ := inv.threads i t ht
    exact ⟨hl, p, hp1, ⟨t.todo, hp2⟩⟩
  · intro hfree res
    have lk := inv.lock
    simp only [hfree] at lk
    -- the serial execution of the micro-steps is the run of the appends
    have hser : ∀ (rs : List Rec) (s : St σ) (o : List (Option Out)) (g : Ghost),
        rs.foldl (fun sh r => runJob (appendMicro cfg) r sh) ({ st := s, outs := o } : Mid σ) =
          { st := (grunX cfg s g (rs.map (fun r => XOp.op (.append r none)))).2.1,
            outs := o ++ (grunX cfg s g (rs.map (fun r => XOp.op (.append r none)))).1 } := by
      intro rs
      induction rs with
      | nil => intro s o g; simp [grunX]
      | cons r rs ih =>
        intro s o g
        simp only [List.foldl_cons, List.map_cons, grunX]
        rw [appendMicro_eq, ih _ _ (ghostStepX cfg g (.op (.append r none)) (applyX cfg s (.op (.append r none))).1
          (goneAfter cfg (applyX cfg s (.op (.append r none))).2))]
        have hf : faultFn none = fun _ => false := by funext k; simp [faultFn]
        simp [applyX, applyOp, hf]
    have hsh : st.shared = { st := res.2.1, outs := res.1 } := by
      rw [lk.2, serialOf, hser _ _ _ (Ghost.init cfg arch d)]
      simp [res, ops]
    have h1 : st.shared.st = res.2.1 := by rw [hsh]
    refine ⟨h1, by rw [hsh], ?_⟩
    rw [h1]
    exact C05_no_loss_no_dup_order cfg arch hc d t0 now ops

/-! ### samples and history (not counted as property theorems) -/

private def wPath : Path := ['a']
private def wRoller : RollerCfg := { nameOf := fun i => 'b' :: List.replicate i 'x', base := 0, count := 1 }
private def wCfg : Cfg (List TrigAns) :=
  { path := wPath, appendMode := false, trig := scriptedTrigger false, roll := fixedWindowRoll wRoller }

/-- test on a sample (regression for the former defect F10, fixed by b8295bc): truncate mode, `[1]`
acknowledged, the roll requested after `[2]` fails, the next append reopens the file — and
everything is still there -/
theorem Sample_C05_truncate_reopen_after_failed_roll_keeps :
    let res := run wCfg (init wCfg (Disk.empty.set wPath [9]) [.no, .yes, .no] 0)
      [.append [[1]] none, .append [[2]] (some 0), .append [[3]] none]
    res.1.map (fun o => o.map (·.res)) = [some .ok, some .errRoll, some .ok] ∧
    res.2.disk.get? wPath = some [1, 2, 3] ∧ res.2.disk.get? (wRoller.nameOf 0) = none := by
  decide +kernel

/-- history (code before 9f38f0b, `appendFailUnfixed`): an encoder failing after its first slice
left that slice in the LogWriter and the next record carried it into the file; the current code
(`appendFail`) writes nothing -/
theorem Hist_C05_encoder_error_tears_record :
    let cfg : Cfg Unit := { path := ['a'], appendMode := true, trig := sizeTrigger 100,
                            roll := fun p f d => deleteRoll p f d }
    let s0 := init cfg Disk.empty () 0
    let old := appendFailUnfixed cfg s0 [[1], [2]] 1 (fun _ => false)
    let new := appendFail cfg s0 [[1], [2]] 1 (fun _ => false)
    old.1.res = .errEncode ∧ (append cfg old.2 [[3]] (fun _ => false)).2.disk.get? ['a'] = some [1, 3] ∧
    new.1.res = .errEncode ∧ (append cfg new.2 [[3]] (fun _ => false)).2.disk.get? ['a'] = some [3] := by
  decide +kernel

/-- test on a sample: fixed window base 0 count 2, size limit 2: three rotations, the oldest file
is evicted, the read-back is the last records in order -/
example :
    let rc : RollerCfg := { nameOf := fun i => 'b' :: List.replicate i 'x', base := 0, count := 2 }
    let cfg : Cfg Unit := { path := ['a'], appendMode := true, trig := sizeTrigger 2, roll := fixedWindowRoll rc }
    let res := run cfg (init cfg Disk.empty () 0)
      [.append [[1, 1, 1]] none, .append [[2, 2, 2]] none, .append [[3, 3, 3]] none, .append [[4]] none]
    Spec.readBack rc.nameOf 0 2 ['a'] res.2.disk.get? = [2, 2, 2, 3, 3, 3, 4] := by
  decide +kernel

/-- Re-export for the rolling appender's FIRST segment (no rotation yet): while the policy never asks
for a rotation `RollingFileAppender::append` is `FileAppender::append` (same `get_writer` open — always
`O_APPEND`, truncate mode empties the file explicitly, commit 3018b7b —, same 1024-byte `BufWriter`,
record encoded into memory first, flush before the return), so on multi-handle histories (a second
appender on the path, a foreign `>>` writer, an external truncation, restarts, failing encoders) what
any reader sees after every operation is the file-appender specification. This is C04's theorem,
unchanged; the tie that the real rolling appender follows this model is the `seqx` case kind
(`Driver/C05.lean::handleSeqx`, `harness/src/c05.rs::exec_seqx`). -/
theorem C05_no_rotation_is_file_appender_spec (m : OpenMode) (pre : Option Bytes) (ops : List MOp)
    (hv : validOps 1 ops = true) :
    Handles.traceV true m (Handles.init m pre true) ops = Spec.expectedTraceM m pre ops :=
  C04_multi_trace_eq_spec m pre ops hv

end Log4rs.Rolling
