import Log4rsModel.Rolling.LemmasNoLoss
import Log4rsModel.Rolling.LemmasWindow
import Log4rsModel.Rolling.LemmasLock
/-
C05 — Rolling appender never loses, duplicates, reorders or splits records.
Model: `Rolling/Model.lean` (the appender state machine, any trigger as an abstract
`Trigger σ`, any roller as a `RollFn`), `Roller/Model.lean` (shared delete / fixed-window models).
The no-loss argument is parametric in the roller through `RollContract`, which is then proved for
the delete roller and for the fixed-window model (any base, count, initial window with gaps,
compression with `decode ∘ codec = id`, and every place where the fault oracle stops a rotation).

Mutex: the sequential theorems describe one append at a time; `C05_schedule_serial_rolling` lifts
them to concurrent writers under the assumption that the guard spans the whole append, as in the
code. A narrowed guard is caught only by the harness's concurrent exploration with the amplifier.
-/
namespace Log4rs.Rolling
open Log4rs.Roller

variable {σ : Type}

/-- retained files oldest → newest, the active file last -/
def retained (cfg : Cfg σ) (arch : Disk → List Bytes) (d : Disk) : List Bytes := arch d ++ [fileOf cfg d]

/-- the invariant holds when the first appender is built on any disk -/
theorem C05_inv_init (cfg : Cfg σ) (arch : Disk → List Bytes) (hc : RollContract cfg.roll cfg.path arch)
    (d : Disk) (t0 : σ) (now : Nat) : Inv cfg arch (init cfg d t0 now) (Ghost.init cfg arch d) :=
  Inv.atInit cfg arch hc.frame d t0 now

/-- every operation — append of any record with any trigger answer and any roller outcome
(success, or failure at any step), restart, clock tick — preserves the invariant, in append and in
truncate mode (since the `fix:` commit b8295bc a reopen after a failed roll no longer truncates:
see `C05_truncate_reopen_after_failed_roll_keeps`). -/
theorem C05_inv_step (cfg : Cfg σ) (arch : Disk → List Bytes) (hc : RollContract cfg.roll cfg.path arch)
    (s : St σ) (g : Ghost) (inv : Inv cfg arch s g) (op : Op) :
    Inv cfg arch (applyOp cfg s op).2 (ghostStep cfg g op (applyOp cfg s op).1) :=
  inv.step hc op

/-- restart in append mode keeps everything; in truncate mode it discards the active segment — at
open, and only that: the archives are untouched and the file is empty -/
theorem C05_restart (cfg : Cfg σ) (arch : Disk → List Bytes) (hc : RollContract cfg.roll cfg.path arch)
    (s : St σ) (hwf : WF cfg s) :
    arch (restart cfg s).disk = arch s.disk ∧
    fileOf cfg (restart cfg s).disk = (if cfg.appendMode then fileOf cfg s.disk else []) := by
  obtain ⟨ho, hse⟩ := restart_spec cfg s hwf
  exact ⟨hc.frame _ _ hse, fileOf_opened ho⟩

/-- Main theorem. After any history (appends of any records with any roller fault, appends whose
encoder fails, restarts, clock ticks; any trigger; any roller satisfying the contract; append mode
or truncate mode), the files
on disk — retained archives oldest to newest, then the active
file — are exactly a suffix, by whole files, of the segmented stream: nothing missing from the
middle, nothing duplicated, nothing reordered, no record split across files. -/
theorem C05_no_loss_no_dup_order (cfg : Cfg σ) (arch : Disk → List Bytes)
    (hc : RollContract cfg.roll cfg.path arch)
    (d : Disk) (t0 : σ) (now : Nat) (ops : List XOp) :
    let res := grunX cfg (init cfg d t0 now) (Ghost.init cfg arch d) ops
    ∃ k, k ≤ res.2.2.closed.length ∧
      retained cfg arch res.2.1.disk = ((res.2.2.closed ++ [res.2.2.cur]).drop k).map List.flatten := by
  intro res
  have inv : Inv cfg arch res.2.1 res.2.2 := (C05_inv_init cfg arch hc d t0 now).historyX hc ops
  obtain ⟨k, hk⟩ := inv.archives
  refine ⟨min k res.2.2.closed.length, Nat.min_le_right _ _, ?_⟩
  have hdrop : res.2.2.closed.drop k = res.2.2.closed.drop (min k res.2.2.closed.length) := by
    by_cases h : k ≤ res.2.2.closed.length
    · rw [Nat.min_eq_left h]
    · rw [Nat.min_eq_right (by omega), List.drop_eq_nil_of_le (by omega), List.drop_length]
  simp only [retained]
  rw [hk, inv.active, hdrop, List.drop_append_of_le_length (Nat.min_le_right _ _)]
  simp

/-- … and that segmented stream is the stream of written items: the pre-existing contents followed
by exactly the records whose bytes reached the file, in call order, each once. The acknowledged
records (append returned `Ok`) are a subsequence of it; the extras are whole records of appends that
returned `Err` after their write (post-process policy failure). An append whose encoder failed
contributes nothing at all (`writtenItemsX`). The outputs are those of the plain run (`traceX`). -/
theorem C05_stream_is_written (cfg : Cfg σ) (arch : Disk → List Bytes) (d : Disk) (t0 : σ) (now : Nat) (ops : List XOp)
    (hnr : cfg.appendMode = true ∨ ∀ op ∈ ops, op.isRestart = false) :
    let res := grunX cfg (init cfg d t0 now) (Ghost.init cfg arch d) ops
    res.2.2.stream = (Ghost.init cfg arch d).stream ++ writtenItemsX cfg.trig.pre ops res.1 ∧
    (ackedItemsX ops res.1).Sublist (writtenItemsX cfg.trig.pre ops res.1) ∧
    res.1 = (traceX cfg (init cfg d t0 now) ops).map (·.1) := by
  intro res
  exact ⟨grunX_stream cfg ops _ _ hnr, ackedX_sublist_writtenX _ _ _, (grunX_outs_state cfg _ _ ops).2⟩

/-- `C05_inv_step` for an append whose encoder fails: the invariant is preserved (nothing is
written; in pre-process mode the rotation the policy may have performed is accounted for) -/
theorem C05_inv_step_failing_encoder (cfg : Cfg σ) (arch : Disk → List Bytes) (hc : RollContract cfg.roll cfg.path arch)
    (s : St σ) (g : Ghost) (inv : Inv cfg arch s g) (op : XOp) :
    Inv cfg arch (applyX cfg s op).2 (ghostStepX cfg g op (applyX cfg s op).1) :=
  inv.stepX hc op

/-- the pre-existing part of the stream: the archives found on disk (oldest first) and, in append
mode, the content of the log file -/
theorem C05_initial_stream (cfg : Cfg σ) (arch : Disk → List Bytes) (d : Disk) :
    (Ghost.init cfg arch d).stream = arch d ++ (if cfg.appendMode then [fileOf cfg d] else []) := by
  simp only [Ghost.stream, Ghost.init, List.flatten_append, List.flatten_cons, List.flatten_nil, List.append_nil]
  congr 1
  · induction arch d with
    | nil => rfl
    | cons a t ih => simp [ih]

/-- In pre-process mode a record is written iff its append returned `Ok`: written = acknowledged. -/
theorem C05_pre_wrote_iff_ok (cfg : Cfg σ) (s : St σ) (r : Rec) (fault : Nat → Bool) (hwf : WF cfg s)
    (hpre : cfg.trig.pre = true) :
    wrote true (append cfg s r fault).1 = true ↔ (append cfg s r fault).1.res = .ok := by
  obtain ⟨_, _, _, _, hno, herr, hyes⟩ := append_pre_spec cfg s r fault hwf hpre _ _
    (append cfg s r fault).1 (append cfg s r fault).2 rfl rfl rfl
  cases hans : (cfg.trig.fire s.tst (openView cfg s).length s.now).1 with
  | no => obtain ⟨hr, hro, _⟩ := hno hans; simp [wrote, hr, hro]
  | err => obtain ⟨hr, hro, _⟩ := herr hans; simp [wrote, hr, hro]
  | yes =>
    obtain ⟨d1, _, _, h⟩ := hyes hans
    rcases h with ⟨_, _, hr, hro, _⟩ | ⟨_, _, hr, hro, _⟩ <;> simp [wrote, hr, hro]

/-- the delete roller satisfies the contract (it retains nothing) -/
theorem C05_contract_delete (path : Path) : RollContract (fun p f d => deleteRoll p f d) path (fun _ => []) :=
  rollContract_delete path

/-- the fixed-window model satisfies the contract, for every base and count, every initial window
(gaps, pre-existing archives), plain or compressed, and wherever a fault stops the rotation —
provided slot names are pairwise distinct inside the window and differ from the log file (C07's
`name_injective`), and the codec round-trips -/
theorem C05_contract_fixed_window (r : RollerCfg) (path : Path) (decode : Bytes → Bytes)
    (hdec : ∀ x, decode (r.codec x) = x)
    (hinj : ∀ i j, i < r.count → j < r.count → r.nameOf (r.base + i) = r.nameOf (r.base + j) → i = j)
    (hfile : ∀ j, j < r.count → r.nameOf (r.base + j) ≠ path) :
    RollContract (fixedWindowRoll r) path (fwArch r decode) :=
  rollContract_fixedWindow r path decode hdec hinj hfile

/-- the reading used for the fixed-window roller is the executable `Spec.readBack` the driver
evaluates on real directories (plain files; for compressed patterns the harness decompresses) -/
theorem C05_readBack_is_spec (cfg : Cfg σ) (r : RollerCfg) (d : Disk) :
    (retained cfg (fwArch r id) d).flatten = Spec.readBack r.nameOf r.base r.count cfg.path d.get? := by
  have : fwArch r id d = Spec.archives r.nameOf r.base r.count d.get? := by
    simp only [fwArch, ← winOf_eq_archives]
    cases r.comp <;> simp
  simp [retained, Spec.readBack, Spec.diskFiles, this, fileOf]

/-- Concurrent writers: every state the lock machine can reach is the sequential execution of the
committed appends in commit order, the commit order being a merge of the threads' completed
appends — so all sequential theorems above apply to it. -/
theorem C05_schedule_serial_rolling (cfg : Cfg σ) (s0 : St σ) (progs : List (List Rec)) (sched : List Nat) :
    let body : Rec → (List (Option Out) × St σ) → (List (Option Out) × St σ) :=
      fun r acc => (acc.1 ++ [some (append cfg acc.2 r (fun _ => false)).1], (append cfg acc.2 r (fun _ => false)).2)
    let st := lrun body (LState.init ([], s0) progs) sched
    st.shared = run cfg s0 ((st.log.map (·.2)).map (fun r => Op.append r none)) ∧
    (∀ i t, st.threads[i]? = some t → (st.log.filter (fun e => e.1 == i)).map (·.2) = t.done ∧
        ∃ p, progs[i]? = some p ∧ t.done <+: p) := by
  intro body st
  have inv : LInv body ([], s0) progs st := (LInv.init body _ progs).run sched
  have hseq : ∀ (rs : List Rec) (acc : List (Option Out) × St σ),
      rs.foldl (fun acc r => body r acc) acc =
        (acc.1 ++ (run cfg acc.2 (rs.map (fun r => Op.append r none))).1,
         (run cfg acc.2 (rs.map (fun r => Op.append r none))).2) := by
    intro rs
    induction rs with
    | nil => intro acc; simp [run]
    | cons r rs ih =>
      intro acc
      simp only [List.foldl_cons, List.map_cons, run, applyOp]
      rw [ih]
      have hf : faultFn none = fun _ => false := by funext k; simp [faultFn]
      simp [body, hf]
  refine ⟨?_, ?_⟩
  · rw [inv.shared, hseq]
    simp
  · intro i t ht
    obtain ⟨hl, p, hp1, hp2⟩ := inv.threads i t ht
    exact ⟨hl, p, hp1, ⟨t.todo, hp2⟩⟩

/-! ### truncate mode after a failed roll (the former defect F10)

Before the `fix:` commit b8295bc the next append after a failed roll reopened the still existing
file with `truncate(true)` and destroyed acknowledged records; the model mirrored that and the
theorems above needed the hypothesis "append mode, or the roller never fails". The code now
truncates at the appender's first open only, the model follows (`St.opened`), the hypothesis is
gone, and the former counter-example is a regression witness. -/

private def wPath : Path := ['a']
private def wRoller : RollerCfg := { nameOf := fun i => 'b' :: List.replicate i 'x', base := 0, count := 1 }
private def wCfg : Cfg (List TrigAns) :=
  { path := wPath, appendMode := false, trig := scriptedTrigger false, roll := fixedWindowRoll wRoller }

/-- witness (test on a sample): `[1]` is acknowledged, the roll requested after `[2]` fails at its
only step, the next append reopens the file — and everything is still there -/
theorem C05_truncate_reopen_after_failed_roll_keeps :
    let res := run wCfg (init wCfg (Disk.empty.set wPath [9]) [.no, .yes, .no] 0)
      [.append [[1]] none, .append [[2]] (some 0), .append [[3]] none]
    res.1.map (fun o => o.map (·.res)) = [some .ok, some .errRoll, some .ok] ∧
    res.2.disk.get? wPath = some [1, 2, 3] ∧ res.2.disk.get? (wRoller.nameOf 0) = none := by
  decide +kernel

/-! ### failing encoders (the former finding `C05/encoder-error-torn`, repaired by 9f38f0b)

Histories are lists of `XOp`: ordinary operations and appends whose encoder fails. The code now
encodes into memory before writing, so a failing encoder writes nothing; the main theorems above
cover such histories. On the `Op` fragment the extended semantics is the plain one. The historical
behaviour (slices written before the error stayed in the `LogWriter`) is `appendFailUnfixed`. -/

theorem C05_traceX_of_ops (cfg : Cfg σ) (s : St σ) (ops : List Op) :
    traceX cfg s (ops.map XOp.op) = trace cfg s ops := by
  induction ops generalizing s with
  | nil => rfl
  | cons op ops ih => simp [traceX, trace, applyX, ih]

/-- witness (test on a sample) of the historical semantics: the encoder of `[1][2]` fails after its
first slice; the append returns `Err`, and after the next, successful append of `[3]` the active
file was `[1, 3]` — the torn `[1]` glued in front of `[3]`; with the repaired code it is `[3]` -/
theorem C05_encoder_error_tears_record_unfixed :
    let cfg : Cfg Unit := { path := ['a'], appendMode := true, trig := sizeTrigger 100,
                            roll := fun p f d => deleteRoll p f d }
    let s0 := init cfg Disk.empty () 0
    let old := appendFailUnfixed cfg s0 [[1], [2]] 1 (fun _ => false)
    let new := appendFail cfg s0 [[1], [2]] 1 (fun _ => false)
    old.1.res = .errEncode ∧ (append cfg old.2 [[3]] (fun _ => false)).2.disk.get? ['a'] = some [1, 3] ∧
    new.1.res = .errEncode ∧ (append cfg new.2 [[3]] (fun _ => false)).2.disk.get? ['a'] = some [3] := by
  decide +kernel

/-! ### non-vacuity (tests on samples) -/

/-- fixed window base 0 count 2, size limit 2: three rotations, the oldest file is evicted, the
read-back is the last records in order -/
example :
    let rc : RollerCfg := { nameOf := fun i => 'b' :: List.replicate i 'x', base := 0, count := 2 }
    let cfg : Cfg Unit := { path := ['a'], appendMode := true, trig := sizeTrigger 2, roll := fixedWindowRoll rc }
    let res := run cfg (init cfg Disk.empty () 0)
      [.append [[1, 1, 1]] none, .append [[2, 2, 2]] none, .append [[3, 3, 3]] none, .append [[4]] none]
    Spec.readBack rc.nameOf 0 2 ['a'] res.2.disk.get? = [2, 2, 2, 3, 3, 3, 4] := by
  decide +kernel

end Log4rs.Rolling
