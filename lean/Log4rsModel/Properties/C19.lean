import Log4rsModel.EnvExpand.LemmasSpec
/-
C19 — `$ENV{NAME}` path expansion substitutes set variables, leaves all else intact.
Only property theorems and non-vacuity examples live here; helpers are in EnvExpand/Lemmas*.lean.

`expand`      = model of the current code (replace-all on the accumulating output, byte offsets)
`expandFixed` = model of the proposed single-pass patch
`specExpand`  = the statement: one left-to-right pass
`alnum`       = `char::is_alphanumeric` (Unicode table, a parameter); the only facts used about it
                are that the syntax characters `$` and `}` are not alphanumeric.
-/
namespace Log4rs.EnvExpand
open Log4rs Log4rs.Str

/-! ### Expansion never panics -/

/-- Every slice the code takes is in bounds and on character boundaries: for each match offset
`m` of `$ENV{`, `m` and `m + 5` are character boundaries of the path (so `split_at` succeeds and
yields the text after the prefix), and whenever the scanner accepts a name, `match_end =
m + 5 + name.len() + 1` (UTF-8 length of the name!) is a character boundary within the path and
`&path[m..match_end]` is exactly `$ENV{name}`. Hence the model never takes a panic branch.
Holds for every `alnum`, i.e. for multi-byte names too. -/
theorem C19_never_panics (alnum : Char → Bool) (env : Env) (path : Text) :
    (∀ m ∈ matchIndices envPrefix path,
      IsCharBoundary path m ∧ IsCharBoundary path (m + ENV_PREFIX_LEN) ∧
      ∃ tail, sliceFrom (m + ENV_PREFIX_LEN) path = some tail ∧
        ∀ name, scanRef alnum tail = some name →
          m ≤ m + ENV_PREFIX_LEN + utf8Len name + ENV_SUFFIX_LEN ∧
          m + ENV_PREFIX_LEN + utf8Len name + ENV_SUFFIX_LEN ≤ utf8Len path ∧
          IsCharBoundary path (m + ENV_PREFIX_LEN + utf8Len name + ENV_SUFFIX_LEN) ∧
          sliceBytes m (m + ENV_PREFIX_LEN + utf8Len name + ENV_SUFFIX_LEN) path = some (refLit name)) ∧
    (expand alnum env path).isPanic = false := by
  refine ⟨?_, by rw [expand_eq_chars]; rfl⟩
  intro m hm
  rw [matchIndices_occs, List.mem_map] at hm
  obtain ⟨o, ho, rfl⟩ := hm
  have hpath := occs_sound ho
  have := @occ_slices alnum o.1 o.2
  simp only at this
  rw [← hpath] at this
  obtain ⟨h1, h2, h3, h4⟩ := this
  refine ⟨h1, h2, o.2, h3, ?_⟩
  intro name hs
  obtain ⟨h5, h6, h7⟩ := h4 name hs
  exact ⟨by omega, h5, h6, h7⟩

/-- The patched algorithm never panics either (all of its slices succeed: it returns `ok`). -/
theorem C19_fixed_never_panics (alnum : Char → Bool) (env : Env) (path : Text) :
    (expandFixed alnum env path).isPanic = false := by
  rw [expandFixed_eq_spec]; rfl

/-! ### References to unset variables, malformed and unterminated references -/

/-- A path that contains no well-formed, terminated reference to a SET variable — whatever else it
contains: references to unset variables, `$ENV{}`, illegal first or inner characters, missing
braces, stray `$ { }`, non-ASCII text — is returned unchanged. No hypothesis on `alnum` or on the
values. -/
theorem C19_unset_and_malformed_untouched (alnum : Char → Bool) (env : Env) (path : Text)
    (h : ∀ a t n, path = a ++ (envPrefix ++ t) → refAt alnum t = some n → lookup env n = none) :
    expand alnum env path = .ok path := by
  rw [expand_eq_chars, expandChars_untouched alnum env path h]

/-! ### Equality with the single pass -/

/-- The current code equals the single left-to-right pass whenever the path is `junctionFree`:
no literal `$` of the path, read together with the EXPANDED text to its right, starts a
well-formed reference to a set variable (so no substituted value, glued to its neighbouring
literal text, spells a reference that a later replace-all hits). Values free of `$` as in the property's quantifier; `$` and `}` not
alphanumeric. -/
theorem C19_expand_eq_spec_partial (alnum : Char → Bool) (env : Env) (path : Text)
    (hd : alnum '$' = false) (hc : alnum '}' = false)
    (hv : ∀ e ∈ env, '$' ∉ e.2)
    (hj : junctionFree alnum env path = true) :
    expand alnum env path = .ok (specExpand alnum env path) := by
  rw [expand_eq_chars]
  exact congrArg _ (expandChars_eq_spec hd hc (fun n v h => hv (n, v) (lookup_mem h)) path hj)

/-- The ordinary use: if every `$` of the path starts a well-formed reference to a set variable
(the single pass leaves no literal `$` behind), the current code equals the single pass. -/
theorem C19_expand_eq_spec_no_stray_dollar (alnum : Char → Bool) (env : Env) (path : Text)
    (hd : alnum '$' = false) (hc : alnum '}' = false)
    (hv : ∀ e ∈ env, '$' ∉ e.2)
    (h : ∀ s ∈ parse alnum env path, s ≠ Seg.chr '$') :
    expand alnum env path = .ok (specExpand alnum env path) :=
  C19_expand_eq_spec_partial alnum env path hd hc hv
    (junctionFreeSegs_of_no_dollar alnum env _ h)

/-- The unrestricted statement (values free of `$`, nothing else assumed about the path). -/
def C19_expand_eq_spec_statement : Prop :=
  ∀ (alnum : Char → Bool) (env : Env) (path : Text),
    alnum '$' = false → alnum '}' = false → (∀ e ∈ env, '$' ∉ e.2) →
    expand alnum env path = .ok (specExpand alnum env path)

/-- F7: the unrestricted statement is FALSE of the current code. Witness `$$ENV{A}NV{B}$ENV{B}`
with A=`E`, B=`v`: the code yields `vv`, the single pass `$ENV{B}v`. (Evaluation of the model on
one input; the same input is replayed against the real crate by the correspondence check.) -/
theorem C19_expand_eq_spec_false : ¬ C19_expand_eq_spec_statement := by
  intro h
  have := h asciiAlnum [(['A'], ['E']), (['B'], ['v'])] ['$', '$', 'E', 'N', 'V', '{', 'A', '}', 'N', 'V', '{', 'B', '}', '$', 'E', 'N', 'V', '{', 'B', '}']
    (by decide) (by decide) (by decide)
  revert this
  decide

/-- what the code returns on the witness, and what the statement asks for -/
theorem C19_witness_values :
    expand asciiAlnum [(['A'], ['E']), (['B'], ['v'])] ['$', '$', 'E', 'N', 'V', '{', 'A', '}', 'N', 'V', '{', 'B', '}', '$', 'E', 'N', 'V', '{', 'B', '}'] = .ok ['v', 'v'] ∧
    specExpand asciiAlnum [(['A'], ['E']), (['B'], ['v'])] ['$', '$', 'E', 'N', 'V', '{', 'A', '}', 'N', 'V', '{', 'B', '}', '$', 'E', 'N', 'V', '{', 'B', '}'] = ['$', 'E', 'N', 'V', '{', 'B', '}', 'v'] ∧
    junctionFree asciiAlnum [(['A'], ['E']), (['B'], ['v'])] ['$', '$', 'E', 'N', 'V', '{', 'A', '}', 'N', 'V', '{', 'B', '}', '$', 'E', 'N', 'V', '{', 'B', '}'] = false := by
  decide

/-- All other text is untouched (current code, junction-free paths): the path splits into literal
characters and references (`origRender segs = path`), the result is the same sequence with every
literal character kept and every reference replaced by its value (`finalRender segs`), and the
split is the one the statement describes (`Complete`): each replaced reference is well formed and
names a set variable with exactly that value, and no literal character starts a well-formed
reference to a set variable — nothing that should have been replaced is left over. -/
theorem C19_other_text_untouched (alnum : Char → Bool) (env : Env) (path : Text)
    (hd : alnum '$' = false) (hc : alnum '}' = false)
    (hv : ∀ e ∈ env, '$' ∉ e.2)
    (hj : junctionFree alnum env path = true) :
    ∃ segs : List Seg, origRender segs = path ∧ expand alnum env path = .ok (finalRender segs) ∧
      Complete alnum env segs := by
  refine ⟨parse alnum env path, origRender_parse alnum env path, ?_, complete_parseGo alnum env path 0⟩
  rw [C19_expand_eq_spec_partial alnum env path hd hc hv hj, specExpand, specGo_eq_final]
  rfl

/-! ### The proposed patch -/

/-- The single-pass patch equals the specification on EVERY path, for every environment (values may
even contain `$`) and every `alnum`. -/
theorem C19_fixed_eq_spec (alnum : Char → Bool) (env : Env) (path : Text) :
    expandFixed alnum env path = .ok (specExpand alnum env path) :=
  expandFixed_eq_spec alnum env path

/-- … and so, for the patch, "substitutes set variables, leaves all else intact" holds without any
restriction: literal characters kept, exactly the well-formed references to set variables found
by one left-to-right pass replaced by their values, nothing left over. -/
theorem C19_fixed_other_text_untouched (alnum : Char → Bool) (env : Env) (path : Text) :
    ∃ segs : List Seg, origRender segs = path ∧ expandFixed alnum env path = .ok (finalRender segs) ∧
      Complete alnum env segs := by
  refine ⟨parse alnum env path, origRender_parse alnum env path, ?_, complete_parseGo alnum env path 0⟩
  rw [expandFixed_eq_spec, specExpand, specGo_eq_final]; rfl

/-- The patch on the F7 witness. -/
theorem C19_fixed_on_witness :
    expandFixed asciiAlnum [(['A'], ['E']), (['B'], ['v'])] ['$', '$', 'E', 'N', 'V', '{', 'A', '}', 'N', 'V', '{', 'B', '}', '$', 'E', 'N', 'V', '{', 'B', '}'] = .ok ['$', 'E', 'N', 'V', '{', 'B', '}', 'v'] := by
  decide

/-! ### Call sites -/

/-- File and rolling appender open the file at `expand path`; the roller's archive of slot `i` is
`expand (pattern with "{}" := i)` — under the junction-free hypothesis on that string, the location
the statement asks for. -/
theorem C19_archive_location (alnum : Char → Bool) (env : Env) (pattern : Text) (i : Nat)
    (hd : alnum '$' = false) (hc : alnum '}' = false) (hv : ∀ e ∈ env, '$' ∉ e.2)
    (hj : junctionFree alnum env (replaceAll ['{', '}'] (decimal i) pattern) = true) :
    archivePath alnum env false pattern i = .ok (specArchive alnum env pattern i) ∧
    archivePath alnum env true pattern i = .ok (specArchive alnum env pattern i) := by
  refine ⟨?_, ?_⟩
  · simp only [archivePath, appenderPath, Bool.false_eq_true, if_false, specArchive]
    exact C19_expand_eq_spec_partial alnum env _ hd hc hv hj
  · simp only [archivePath, appenderPath, if_true, specArchive]
    exact expandFixed_eq_spec alnum env _

/-! ### Non-vacuity (tests on sample inputs, not proofs of the property) -/

/-- the hypotheses of the partial theorem hold on a path with a substituted, a repeated, an unset
and a malformed reference and stray `$ { }`; all three functions agree on it -/
example :
    let env : Env := [(['A'], ['v', 'a', 'l']), (['B', '.', 'c'], [])]
    let path : Text := ['l', '/', '$', 'E', 'N', 'V', '{', 'A', '}', '/', '$', 'E', 'N', 'V', '{', 'U', '}', 'x', '$', '/', '$', 'E', 'N', 'V', '{', 'A', '}', '.', '$', 'E', 'N', 'V', '{', '.', 'A', '}', '{', '}', '$', 'E', 'N', 'V', '{', 'B', '.', 'c', '}', '$', 'E', 'N', 'V', '{', 'A']
    junctionFree asciiAlnum env path = true ∧ (∀ e ∈ env, '$' ∉ e.2) ∧
    specExpand asciiAlnum env path = ['l', '/', 'v', 'a', 'l', '/', '$', 'E', 'N', 'V', '{', 'U', '}', 'x', '$', '/', 'v', 'a', 'l', '.', '$', 'E', 'N', 'V', '{', '.', 'A', '}', '{', '}', '$', 'E', 'N', 'V', '{', 'A'] ∧
    expand asciiAlnum env path = .ok (specExpand asciiAlnum env path) ∧
    expandFixed asciiAlnum env path = .ok (specExpand asciiAlnum env path) := by
  decide

/-- a multi-byte name (`é` = 2 bytes, `中` = 3 bytes) preceded by multi-byte text: the byte offsets
of the slice are character boundaries -/
example :
    let alnum : Char → Bool := fun c => asciiAlnum c || c = 'é' || c = '中'
    let path : Text := ['€', '中', '$', 'E', 'N', 'V', '{', 'é', '中', '}', '€']
    expand alnum [(['é', '中'], ['x'])] path = .ok ['€', '中', 'x', '€'] ∧
    matchIndices envPrefix path = [6] ∧
    sliceBytes 6 (6 + 5 + 5 + 1) path = some (refLit ['é', '中']) := by
  decide

/-- the hypothesis of `C19_unset_and_malformed_untouched` on a path full of malformed references -/
example :
    expand asciiAlnum [(['A'], ['v'])] ['$', 'E', 'N', 'V', '{', '}', '$', 'E', 'N', 'V', '{', '.', 'A', '}', '$', 'E', 'N', 'V', '{', 'A', '-', '}', '$', 'E', 'N', 'V', '{', 'A', '$', 'E', 'N', 'V', '{', 'U', '}', '$'] =
      .ok ['$', 'E', 'N', 'V', '{', '}', '$', 'E', 'N', 'V', '{', '.', 'A', '}', '$', 'E', 'N', 'V', '{', 'A', '-', '}', '$', 'E', 'N', 'V', '{', 'A', '$', 'E', 'N', 'V', '{', 'U', '}', '$'] := by
  decide

end Log4rs.EnvExpand
