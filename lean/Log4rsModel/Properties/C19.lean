import Log4rsModel.EnvExpand.LemmasSites
/-
C19 — `$ENV{NAME}` path expansion substitutes set variables, leaves all else intact.
Only property theorems and non-vacuity examples live here; helpers are in EnvExpand/Lemmas*.lean.
Every `C19_*` theorem is about the CURRENT code (`expand`, the call-site model) or the current
specification; theorems about the code before the fix of finding F7 are named `Hist_C19_*`.

`expand`          = model of `env_util::expand_env_vars` (one pass, byte offsets, partial slices)
`specExpand`      = the statement: one left-to-right pass on characters
`fileBuildFs`, `rollingBuildFs`, `rollingHistoryFs`, `rollFs` = model of the call sites, code-shaped:
                    argument, expanded local, stored field and descriptor are separate variables,
                    on a file system with directories (EnvExpand/CallSites.lean)
`specFileBuild`, `specRollingHistory`, `specRoll` = the statement's third clause: everything at `loc`
`expandOs`, `osVar` = the expansion / `std::env::var` in a process with environment block `os`
`alnum`           = `char::is_alphanumeric` (Unicode table, a parameter)
-/
namespace Log4rs.EnvExpand
open Log4rs Log4rs.Str

/-! ### Expansion never panics -/

/-- Every slice the code takes is in bounds and on character boundaries.
(1) For each match offset `m` of `$ENV{`, `m` and `m + 5` are character boundaries of the path
(`split_at` succeeds and yields the text after the prefix), and whenever the scanner accepts a
name, `match_end = m + 5 + name.len() + 1` (UTF-8 length of the name!) is a character boundary
within the path and `path[m..match_end]` is exactly `$ENV{name}`.
(2) After any number of loop iterations the loop is in an `ok` state (none of the partial
`split_at` / `&path[copied..match_start]` was off a boundary) and the cursor `copied` is a character
boundary within the path — so the final `&path[copied..]` is in bounds as well.
(3) Hence no panic branch is ever taken. Holds for every `alnum`, i.e. for multi-byte names too.
The slices are the only panic sources of the function: `std::env::var` returns `Err` (never
panics) for every name, also an empty one or one with `=` / NUL (the harness asserts this of the
real std at start-up), so `lookup` as a total function loses nothing. -/
theorem C19_never_panics (alnum : Char → Bool) (env : Env) (path : Text) :
    (∀ m ∈ matchIndices envPrefix path,
      IsCharBoundary path m ∧ IsCharBoundary path (m + ENV_PREFIX_LEN) ∧
      ∃ tail, sliceFrom (m + ENV_PREFIX_LEN) path = some tail ∧
        ∀ name, scanRef alnum tail = some name →
          m ≤ m + ENV_PREFIX_LEN + utf8Len name + ENV_SUFFIX_LEN ∧
          m + ENV_PREFIX_LEN + utf8Len name + ENV_SUFFIX_LEN ≤ utf8Len path ∧
          IsCharBoundary path (m + ENV_PREFIX_LEN + utf8Len name + ENV_SUFFIX_LEN) ∧
          sliceBytes m (m + ENV_PREFIX_LEN + utf8Len name + ENV_SUFFIX_LEN) path = some (refLit name)) ∧
    (∀ ms₁ ms₂, matchIndices envPrefix path = ms₁ ++ ms₂ →
      ∃ st, scanFrom alnum env path { out := [], copied := 0 } ms₁ = .ok st ∧
        IsCharBoundary path st.copied ∧ st.copied ≤ utf8Len path) ∧
    (expand alnum env path).isPanic = false := by
  refine ⟨?_, ?_, by rw [expand_eq_spec]; rfl⟩
  · intro m hm
    rw [matchIndices_occs, List.mem_map] at hm
    obtain ⟨o, ho, rfl⟩ := hm
    have hpath := occs_sound ho
    have := @occ_slices alnum o.1 o.2
    simp only at this
    rw [← hpath] at this
    obtain ⟨h1, h2, h3, h4⟩ := this
    refine ⟨h1, h2, o.2, h3, ?_⟩
    intro name hs
    obtain ⟨h5, h6, h7⟩ := h4 name hs
    exact ⟨by omega, h5, h6, h7⟩
  · intro ms₁ ms₂ hms
    obtain ⟨st, h1, h2⟩ := scanFrom_ok alnum env path ms₁ { out := [], copied := 0 }
      (fun m hm => matchIndices_mem (by rw [hms]; simp [hm]))
      ⟨[], path, rfl, rfl⟩
    exact ⟨st, h1, h2, h2.le⟩

/-! ### The expansion is the single pass of the statement -/

/-- The code equals the specification on EVERY path, for every environment (values may even
contain `$`) and every `alnum`: text is copied, every well-formed terminated reference to a set
variable met by one left-to-right pass is replaced by the value, values are never re-scanned. -/
theorem C19_expand_eq_spec (alnum : Char → Bool) (env : Env) (path : Text) :
    expand alnum env path = .ok (specExpand alnum env path) :=
  expand_eq_spec alnum env path

/-- "Substitutes set variables, leaves all else intact": the path splits into literal characters
and references (`origRender segs = path`), the result is the same sequence with every literal
character kept and every reference replaced by its value (`finalRender segs`), and the split is
the one the statement describes (`Complete`): each replaced reference is well formed and names a
set variable with exactly that value, and no literal character starts a well-formed reference to
a set variable — nothing that should have been replaced is left over. -/
theorem C19_other_text_untouched (alnum : Char → Bool) (env : Env) (path : Text) :
    ∃ segs : List Seg, origRender segs = path ∧ expand alnum env path = .ok (finalRender segs) ∧
      Complete alnum env segs := by
  refine ⟨parse alnum env path, origRender_parse alnum env path, ?_, complete_parseGo alnum env path 0⟩
  rw [expand_eq_spec, specExpand, specGo_eq_final]; rfl

/-- A path that contains no well-formed, terminated reference to a SET variable — whatever else it
contains: references to unset variables, `$ENV{}`, illegal first or inner characters, missing
braces, stray `$ { }`, non-ASCII text — is returned unchanged. -/
theorem C19_unset_and_malformed_untouched (alnum : Char → Bool) (env : Env) (path : Text)
    (h : ∀ a t n, path = a ++ (envPrefix ++ t) → refAt alnum t = some n → lookup env n = none) :
    expand alnum env path = .ok path := by
  rw [expand_eq_spec, specExpand, specGo_untouched alnum env path h path [] rfl]

/-- The decomposition of `C19_other_text_untouched` is the only one: any split of the path into
literal characters and references that satisfies `Complete` (replaced references are well formed
and set, no literal character starts such a reference) is `parse path`. Needs only that `}` is not
a name character. -/
theorem C19_decomposition_unique (alnum : Char → Bool) (env : Env) (hc : alnum '}' = false)
    (path : Text) (segs : List Seg) (ho : origRender segs = path) (hcomp : Complete alnum env segs) :
    segs = parse alnum env path := by
  rw [← ho, parse_unique hc segs hcomp]

/-! ### Per occurrence (no decomposition involved)

`$` is not a name character (`hd`); for the two theorems that speak of a well-formed NAME also `}`
is not (`hc`). Both hold of `char::is_alphanumeric`. -/

/-- A `$` is a cut point: what precedes it is expanded on its own. -/
theorem C19_dollar_is_cut_point (alnum : Char → Bool) (env : Env) (hd : alnum '$' = false) (a y : Text) :
    expand alnum env (a ++ '$' :: y) =
      .ok (specExpand alnum env a ++ specExpand alnum env ('$' :: y)) := by
  rw [expand_eq_spec, specExpand_cut_dollar hd]

/-- Literal text without `$` is copied, character by character. -/
theorem C19_literal_text_kept (alnum : Char → Bool) (env : Env) (t r : Text) (ht : '$' ∉ t) :
    expand alnum env (t ++ r) = .ok (t ++ specExpand alnum env r) := by
  rw [expand_eq_spec, specExpand_no_dollar_prefix alnum env t r ht]

/-- EVERY occurrence of a well-formed reference to a set variable — wherever it stands, whatever
precedes and follows — is replaced by the variable's value, and the text before and after it is
expanded independently. -/
theorem C19_set_reference_replaced (alnum : Char → Bool) (env : Env)
    (hd : alnum '$' = false) (hc : alnum '}' = false)
    (n v : Text) (hn : WfName alnum n) (hl : lookup env n = some v) (a r : Text) :
    expand alnum env (a ++ refLit n ++ r) =
      .ok (specExpand alnum env a ++ v ++ specExpand alnum env r) := by
  have h1 : a ++ refLit n ++ r = a ++ '$' :: ((refLit n).tail ++ r) := by simp [refLit_eq]
  have h2 : '$' :: ((refLit n).tail ++ r) = refLit n ++ r := by simp [refLit_eq]
  have hstep : specExpand alnum env (refLit n ++ r) = v ++ specExpand alnum env r :=
    specGo_at_ref (substAt_of_refLit hd hc hn hl)
  rw [expand_eq_spec, h1, specExpand_cut_dollar hd, h2, hstep, List.append_assoc]

/-- EVERY occurrence of a well-formed reference to an UNSET variable stays as written. -/
theorem C19_unset_reference_kept (alnum : Char → Bool) (env : Env)
    (hd : alnum '$' = false) (hc : alnum '}' = false)
    (n : Text) (hn : WfName alnum n) (hl : lookup env n = none) (a r : Text) :
    expand alnum env (a ++ refLit n ++ r) =
      .ok (specExpand alnum env a ++ refLit n ++ specExpand alnum env r) := by
  have h1 : a ++ refLit n ++ r = a ++ '$' :: ((refLit n).tail ++ r) := by simp [refLit_eq]
  have h2 : '$' :: ((refLit n).tail ++ r) = envPrefix ++ (n ++ envSuffix :: r) := by simp [refLit_eq, envPrefix, envBody]
  have hsub : substAt alnum env (envPrefix ++ (n ++ envSuffix :: r)) = none := by
    rw [substAt_of_occ, scanRef_of_wf r hn (isPart_suffix hc)]; simp [hl]
  have hnd : '$' ∉ n ++ [envSuffix] := by
    have := hn.no_dollar hd hc
    simp [envSuffix, this]
  have h3 : n ++ envSuffix :: r = (n ++ [envSuffix]) ++ r := by simp
  rw [expand_eq_spec, h1, specExpand_cut_dollar hd, h2, specExpand_occ_kept alnum env _ hsub, h3,
    specExpand_no_dollar_prefix alnum env _ r hnd]
  simp [refLit]

/-- EVERY occurrence of `$ENV{` that does not begin a well-formed, terminated reference (empty
name, illegal first character, illegal inner character, missing brace) stays as written, and the
scan resumes right after the five characters. -/
theorem C19_malformed_reference_kept (alnum : Char → Bool) (env : Env) (hd : alnum '$' = false)
    (a t : Text) (hm : refAt alnum t = none) :
    expand alnum env (a ++ envPrefix ++ t) =
      .ok (specExpand alnum env a ++ envPrefix ++ specExpand alnum env t) := by
  have h1 : a ++ envPrefix ++ t = a ++ '$' :: (['E', 'N', 'V', '{'] ++ t) := by simp [envPrefix]
  have h2 : '$' :: (['E', 'N', 'V', '{'] ++ t) = envPrefix ++ t := by simp [envPrefix]
  have hsub : substAt alnum env (envPrefix ++ t) = none := by
    rw [substAt_of_occ, scanRef_eq_refAt, hm]
  rw [expand_eq_spec, h1, specExpand_cut_dollar hd, h2, specExpand_occ_kept alnum env _ hsub,
    List.append_assoc]

/-! ### The environment: only the referenced variables matter -/

/-- The expansion depends only on the variables the path references: two environments that agree
on every name occurring in a well-formed reference of the path give the same result. -/
theorem C19_depends_only_on_referenced (alnum : Char → Bool) (env₁ env₂ : Env) (path : Text)
    (h : ∀ a t n, path = a ++ (envPrefix ++ t) → refAt alnum t = some n → lookup env₁ n = lookup env₂ n) :
    expand alnum env₁ path = expand alnum env₂ path := by
  rw [expand_eq_spec, expand_eq_spec, specExpand, specExpand,
    specGo_congr alnum env₁ env₂ path h path [] rfl 0]

/-- `std::env::var` as the process sees it: on an environment block with unique names (what
`setenv` maintains; `execve` would also accept duplicates) first-match `getenv` followed by the
Unicode check — `osVar`, i.e. `if let Ok(v) = std::env::var(name)` — is the lookup the model uses. -/
theorem C19_env_var_is_getenv (os : OsEnv) (hnd : (os.map (·.1)).Nodup) (n : Text) :
    lookup (unicodeView os) n = (match osVar os n with | .ok v => some v | .error _ => none) :=
  (varOk_eq_lookup os hnd n).symm

/-- Bystanders are irrelevant, whatever they are: a variable `b` of the process environment —
name and value arbitrary byte strings, valid Unicode or not — that no well-formed reference of the
path names can be added or removed without changing the result, and the expansion does not panic
in its presence (`std::env::var` is asked per reference; nothing enumerates the environment).
With unique names (`hnd`) the variable reads of both sides are `getenv`'s answers. -/
theorem C19_bystanders_irrelevant (alnum : Char → Bool) (os₁ os₂ : OsEnv) (b : Bytes × Bytes) (path : Text)
    (hnd : ((os₁ ++ b :: os₂).map (·.1)).Nodup)
    (hb : ∀ a t n, path = a ++ (envPrefix ++ t) → refAt alnum t = some n → decodeUtf8 b.1 ≠ some n) :
    expandOs alnum (os₁ ++ b :: os₂) path = expandOs alnum (os₁ ++ os₂) path ∧
    (expandOs alnum (os₁ ++ b :: os₂) path).isPanic = false ∧
    ∀ n, lookup (unicodeView (os₁ ++ b :: os₂)) n =
      (match osVar (os₁ ++ b :: os₂) n with | .ok v => some v | .error _ => none) := by
  refine ⟨?_, by rw [expandOs, expand_eq_spec]; rfl, fun n => C19_env_var_is_getenv _ hnd n⟩
  apply C19_depends_only_on_referenced
  intro a t n hp hr
  exact lookup_unicodeView_remove os₁ os₂ b n (hb a t n hp hr)

/-- READING DECISION made by the code (`std::env::var`, not `var_os`), adopted by the model and the
specification and listed under `assumptions`: a variable whose value (or name) is not valid
Unicode counts as NOT SET — `std::env::var` answers `Err(NotUnicode)` for it (second clause), the
expansion is the one of the block without it (first clause): a reference to it stays as written. -/
theorem C19_not_unicode_is_unset (alnum : Char → Bool) (os₁ os₂ : OsEnv) (b : Bytes × Bytes) (path : Text)
    (hnd : ((os₁ ++ b :: os₂).map (·.1)).Nodup)
    (hb : decodeUtf8 b.1 = none ∨ decodeUtf8 b.2 = none) :
    expandOs alnum (os₁ ++ b :: os₂) path = expandOs alnum (os₁ ++ os₂) path ∧
    ∀ n, b.1 = utf8 n → osVar (os₁ ++ b :: os₂) n = .error .notUnicode := by
  have hsplit : os₁ ++ b :: os₂ = os₁ ++ ([b] ++ os₂) := by simp
  have hview : unicodeView [b] = [] := by
    rcases hb with h | h
    · simp [unicodeView, h]
    · cases h1 : decodeUtf8 b.1 <;> simp [unicodeView, h, h1]
  refine ⟨?_, ?_⟩
  · simp only [expandOs]
    rw [hsplit, unicodeView_append, unicodeView_append, hview, List.nil_append, ← unicodeView_append]
  · intro n hn
    have hval : decodeUtf8 b.2 = none := by
      rcases hb with h | h
      · rw [hn, decodeUtf8_complete] at h; exact absurd h (by simp)
      · exact h
    have hbmem : b ∈ os₁ ++ b :: os₂ := by simp
    cases hf : (os₁ ++ b :: os₂).find? (fun e => e.1 == utf8 n) with
    | none =>
      have := List.find?_eq_none.1 hf b hbmem
      simp [hn] at this
    | some e =>
      have hpe := List.find?_some hf
      have hme := List.mem_of_find?_eq_some hf
      have hen : e.1 = b.1 := by rw [hn]; simpa using hpe
      have heq : e = b := nodup_map_inj (·.1) _ hnd e hme b hbmem hen
      simp only [osVar, hf, heq, hval]

/-! ### Call sites: "create their files at the expanded location"

The model of the call sites (EnvExpand/CallSites.lean) follows the Rust code variable by variable
on a file system with directories; the specification (EnvExpand/Spec.lean) mentions one location,
`loc`. Each theorem says: for EVERY file system state and EVERY outcome (errors included) the
model does exactly what the specification does at `loc = specExpand given` — the given text
expanded once. That the real `build`/`append`/`rotate` behave as the model says is what the
correspondence check observes (files, their content, directories, the descriptor held open). -/

/-- File appender, `FileAppender::builder().build(given)` for a path that is valid Unicode: the
parent directories created, the file created and the descriptor all records are written to are
those of `specExpand given`; the stored `path` is that text too. The configuration deserializer
hands the configured scalar to `build` as written, so a configured path lands where the same text
given to the builder lands. -/
theorem C19_file_appender_at_expanded_location (alnum : Char → Bool) (env : Env) (cwd : Comps)
    (given : Text) (fs : Fs) :
    fileBuildFs alnum env cwd (utf8 given) fs =
      bindO (specFileBuild cwd (specExpand alnum env given) fs) (fun (fd, fs') =>
        .ok ({ path := specExpand alnum env given, file := fd }, fs')) ∧
    fileDeserializeFs alnum env cwd given fs = fileBuildFs alnum env cwd (utf8 given) fs ∧
    ∀ a data fs', fileAppendFs a data fs' = fs'.appendTo a.file data :=
  ⟨fileBuildFs_eq alnum env cwd given fs, rfl, fun _ _ _ => rfl⟩

/-- … spelled out for a plain relative location `d₁/…/dₖ/name` (no `.`/`..`, no trailing `/`) in
an empty working directory: the build succeeds, creates exactly the directories `d₁`, `d₁/d₂`, …,
`d₁/…/dₖ` and exactly one (empty) file, `d₁/…/dₖ/name`, and holds that file open. -/
theorem C19_file_appender_fresh_directory (alnum : Char → Bool) (env : Env) (given : Text)
    (ds : List Text) (name : Text)
    (hr : rpath (specExpand alnum env given) = { abs := false, comps := ds ++ [name], trailing := false })
    (hdd : dotdot ∉ ds ++ [name]) :
    fileBuildFs alnum env [] (utf8 given) Fs.empty =
      .ok ({ path := specExpand alnum env given, file := ds ++ [name] },
           { files := [(ds ++ [name], [])], dirs := dirChain [] ds }) := by
  rw [fileBuildFs_eq, specFileBuild_fresh _ ds name hr hdd]; rfl

/-- The path argument is an `OsStr`: the code converts it with `to_string_lossy` BEFORE expanding.
For bytes that are not valid UTF-8 the location is the expansion of the lossy text (ill-formed
sequences replaced by U+FFFD) — "byte-for-byte unchanged" holds for valid Unicode only, where the
conversion is the identity. -/
theorem C19_path_argument_lossy (alnum : Char → Bool) (env : Env) (cwd : Comps) (given : Bytes) (fs : Fs) :
    fileBuildFs alnum env cwd given fs =
      bindO (specFileBuild cwd (specExpand alnum env (toStringLossy given)) fs) (fun (fd, fs') =>
        .ok ({ path := specExpand alnum env (toStringLossy given), file := fd }, fs')) ∧
    ∀ t, toStringLossy (utf8 t) = t := by
  refine ⟨?_, toStringLossy_utf8⟩
  simp only [fileBuildFs, expandAt_eq, bindO_ok, specFileBuild, bindO_assoc]

/-- Rolling appender: `build` creates the directory and opens the file of `specExpand given`, and in
EVERY history of appends — any records, any trigger decisions, post-process (size trigger) or
pre-process (time trigger) policy, any roller — every reopen, every write and every file handed
to the roller is at that one location: the stored `path` never differs from it. -/
theorem C19_rolling_appender_at_expanded_location (alnum : Char → Bool) (env : Env) (cwd : Comps)
    (given : Text) (pre : Bool) (roller : RollerFn) (ops : List AppendOp) (fs : Fs) :
    rollingBuildFs alnum env cwd (utf8 given) fs =
      bindO (specRollingBuild cwd (specExpand alnum env given) fs) (fun (w, fs') =>
        .ok ({ path := specExpand alnum env given, writer := w }, fs')) ∧
    rollingDeserializeFs alnum env cwd given fs = rollingBuildFs alnum env cwd (utf8 given) fs ∧
    ∀ w fs', rollingHistoryFs cwd pre roller { path := specExpand alnum env given, writer := w } ops fs' =
      bindO (specRollingHistory cwd pre roller (specExpand alnum env given) w ops fs') (fun (w', fs'') =>
        .ok ({ path := specExpand alnum env given, writer := w' }, fs'')) :=
  ⟨rollingBuildFs_eq alnum env cwd given fs, rfl,
   fun w fs' => rollingHistoryFs_eq cwd pre roller ops { path := specExpand alnum env given, writer := w } fs'⟩

/-- Fixed-window roller: one `roll` shifts and fills the slots `specSlot pattern i` — the pattern
with the index filled in (the specification's own `fillIndex`), expanded once — creating the
directory of slot `base` and of every destination slot that lies elsewhere; nothing else is
touched. (`rotate()` recomputes each name from the pattern, up to three times per slot.) -/
theorem C19_roller_archives_at_expanded_locations (alnum : Char → Bool) (env : Env) (cwd : Comps)
    (pattern : Text) (base count : Nat) :
    rollFs alnum env cwd pattern base count = specRoll cwd (specSlot alnum env pattern) base count ∧
    ∀ i, slotName alnum env pattern i = .ok (specExpand alnum env (fillIndex (decimal i) pattern)) :=
  ⟨rollFs_eq alnum env cwd pattern base count, fun i => slotName_eq alnum env pattern i⟩

/-- The roller's builder: a pattern without `{}` and an index range beyond `u32` are REJECTED (no
roller, hence no location); otherwise the pattern is stored as written — unexpanded — whether it
comes from the builder API or from a configuration. -/
theorem C19_roller_build (pattern : Text) (base count : Nat) :
    (hasInfix ['{', '}'] pattern = false → ∃ w, rollerBuild pattern base count = .err (.build w)) ∧
    (hasInfix ['{', '}'] pattern = true → count > 0 → base + (count - 1) > U32_MAX →
      ∃ w, rollerBuild pattern base count = .err (.build w)) ∧
    (hasInfix ['{', '}'] pattern = true → (count = 0 ∨ base + (count - 1) ≤ U32_MAX) →
      rollerBuild pattern base count = .ok pattern) ∧
    rollerDeserialize pattern base count = rollerBuild pattern base count := by
  refine ⟨?_, ?_, ?_, rfl⟩
  · intro h; exact ⟨"pattern does not contain `{}`", by simp [rollerBuild, h]⟩
  · intro h hc ho
    refine ⟨"base + count - 1 exceeds u32::MAX", ?_⟩
    simp only [rollerBuild, h, Bool.not_true, Bool.false_eq_true, if_false]
    rw [if_pos]
    simp [hc, ho]
  · intro h hc
    simp only [rollerBuild, h, Bool.not_true, Bool.false_eq_true, if_false]
    rw [if_neg]
    rcases hc with hc | hc
    · simp [hc]
    · simp; intro _; omega

/-- Why "once" matters: expansion is not idempotent. `p$ENV{$ENV{W}}q` with W=`T`, T=`r`: one
application gives `p$ENV{T}q` (the outer reference is malformed and stays), a second application
would turn that into `prq`. (Evaluation on one input.) -/
theorem C19_expand_not_idempotent :
    specExpand asciiAlnum [(['W'], ['T']), (['T'], ['r'])] ['p', '$', 'E', 'N', 'V', '{', '$', 'E', 'N', 'V', '{', 'W', '}', '}', 'q'] = ['p', '$', 'E', 'N', 'V', '{', 'T', '}', 'q'] ∧
    specExpand asciiAlnum [(['W'], ['T']), (['T'], ['r'])] (specExpand asciiAlnum [(['W'], ['T']), (['T'], ['r'])] ['p', '$', 'E', 'N', 'V', '{', '$', 'E', 'N', 'V', '{', 'W', '}', '}', 'q']) = ['p', 'r', 'q'] ∧
    expand asciiAlnum [(['W'], ['T']), (['T'], ['r'])] ['p', '$', 'E', 'N', 'V', '{', '$', 'E', 'N', 'V', '{', 'W', '}', '}', 'q'] = .ok ['p', '$', 'E', 'N', 'V', '{', 'T', '}', 'q'] := by
  decide

/-! ### Historical: the code before the fix of finding F7 (`expand_unfixed`) -/

/-- The historical code never panicked either. -/
theorem Hist_C19_unfixed_never_panics (alnum : Char → Bool) (env : Env) (path : Text) :
    (expand_unfixed alnum env path).isPanic = false := by
  rw [expand_unfixed_eq_chars]; rfl

/-- The historical code equalled the single pass whenever the path is `junctionFree`: no literal
`$` of the path, read together with the EXPANDED text to its right, starts a well-formed
reference to a set variable (so no substituted value, glued to its neighbouring literal text,
spells a reference that a later replace-all hits). Values free of `$` as in the property's
quantifier; `$` and `}` not alphanumeric. -/
theorem Hist_C19_unfixed_eq_spec_partial (alnum : Char → Bool) (env : Env) (path : Text)
    (hd : alnum '$' = false) (hc : alnum '}' = false)
    (hv : ∀ e ∈ env, '$' ∉ e.2)
    (hj : junctionFree alnum env path = true) :
    expand_unfixed alnum env path = .ok (specExpand alnum env path) := by
  rw [expand_unfixed_eq_chars]
  exact congrArg _ (expandChars_eq_spec hd hc (fun n v h => hv (n, v) (lookup_mem h)) path hj)

/-- … hence, on those paths, old and new code agree (the fix changes nothing there). -/
theorem Hist_C19_unfixed_eq_expand_partial (alnum : Char → Bool) (env : Env) (path : Text)
    (hd : alnum '$' = false) (hc : alnum '}' = false)
    (hv : ∀ e ∈ env, '$' ∉ e.2)
    (hj : junctionFree alnum env path = true) :
    expand_unfixed alnum env path = expand alnum env path := by
  rw [Hist_C19_unfixed_eq_spec_partial alnum env path hd hc hv hj, expand_eq_spec]

/-- The ordinary use: if every `$` of the path starts a well-formed reference to a set variable,
the historical code equalled the single pass. -/
theorem Hist_C19_unfixed_eq_spec_no_stray_dollar (alnum : Char → Bool) (env : Env) (path : Text)
    (hd : alnum '$' = false) (hc : alnum '}' = false)
    (hv : ∀ e ∈ env, '$' ∉ e.2)
    (h : ∀ s ∈ parse alnum env path, s ≠ Seg.chr '$') :
    expand_unfixed alnum env path = .ok (specExpand alnum env path) :=
  Hist_C19_unfixed_eq_spec_partial alnum env path hd hc hv
    (junctionFreeSegs_of_no_dollar alnum env _ h)

/-- The unrestricted statement about the historical code (values free of `$`). -/
def Hist_C19_unfixed_eq_spec_statement : Prop :=
  ∀ (alnum : Char → Bool) (env : Env) (path : Text),
    alnum '$' = false → alnum '}' = false → (∀ e ∈ env, '$' ∉ e.2) →
    expand_unfixed alnum env path = .ok (specExpand alnum env path)

/-- F7: the unrestricted statement was FALSE of the historical code. Witness
`$$ENV{A}NV{B}$ENV{B}` with A=`E`, B=`v`: that code yields `vv`, the single pass `$ENV{B}v`.
(Evaluation of the model on one input; the same input is in the corpus of the correspondence check.) -/
theorem Hist_C19_unfixed_eq_spec_false : ¬ Hist_C19_unfixed_eq_spec_statement := by
  intro h
  have := h asciiAlnum [(['A'], ['E']), (['B'], ['v'])] ['$', '$', 'E', 'N', 'V', '{', 'A', '}', 'N', 'V', '{', 'B', '}', '$', 'E', 'N', 'V', '{', 'B', '}']
    (by decide) (by decide) (by decide)
  revert this
  decide

/-- the F7 witness: historical code, statement, hypothesis of the partial theorem, and the code -/
theorem Hist_C19_unfixed_witness_values :
    expand_unfixed asciiAlnum [(['A'], ['E']), (['B'], ['v'])] ['$', '$', 'E', 'N', 'V', '{', 'A', '}', 'N', 'V', '{', 'B', '}', '$', 'E', 'N', 'V', '{', 'B', '}'] = .ok ['v', 'v'] ∧
    specExpand asciiAlnum [(['A'], ['E']), (['B'], ['v'])] ['$', '$', 'E', 'N', 'V', '{', 'A', '}', 'N', 'V', '{', 'B', '}', '$', 'E', 'N', 'V', '{', 'B', '}'] = ['$', 'E', 'N', 'V', '{', 'B', '}', 'v'] ∧
    junctionFree asciiAlnum [(['A'], ['E']), (['B'], ['v'])] ['$', '$', 'E', 'N', 'V', '{', 'A', '}', 'N', 'V', '{', 'B', '}', '$', 'E', 'N', 'V', '{', 'B', '}'] = false ∧
    expand asciiAlnum [(['A'], ['E']), (['B'], ['v'])] ['$', '$', 'E', 'N', 'V', '{', 'A', '}', 'N', 'V', '{', 'B', '}', '$', 'E', 'N', 'V', '{', 'B', '}'] = .ok ['$', 'E', 'N', 'V', '{', 'B', '}', 'v'] := by
  decide

/-! ### Non-vacuity (tests on sample inputs, not proofs of the property) -/

/-- a path with a substituted, a repeated, an unset and a malformed reference and stray `$ { }` -/
example :
    let env : Env := [(['A'], ['v', 'a', 'l']), (['B', '.', 'c'], [])]
    let path : Text := ['l', '/', '$', 'E', 'N', 'V', '{', 'A', '}', '/', '$', 'E', 'N', 'V', '{', 'U', '}', 'x', '$', '/', '$', 'E', 'N', 'V', '{', 'A', '}', '.', '$', 'E', 'N', 'V', '{', '.', 'A', '}', '{', '}', '$', 'E', 'N', 'V', '{', 'B', '.', 'c', '}', '$', 'E', 'N', 'V', '{', 'A']
    junctionFree asciiAlnum env path = true ∧ (∀ e ∈ env, '$' ∉ e.2) ∧
    specExpand asciiAlnum env path = ['l', '/', 'v', 'a', 'l', '/', '$', 'E', 'N', 'V', '{', 'U', '}', 'x', '$', '/', 'v', 'a', 'l', '.', '$', 'E', 'N', 'V', '{', '.', 'A', '}', '{', '}', '$', 'E', 'N', 'V', '{', 'A'] ∧
    expand asciiAlnum env path = .ok (specExpand asciiAlnum env path) ∧
    expand_unfixed asciiAlnum env path = .ok (specExpand asciiAlnum env path) := by
  decide

/-- a multi-byte name (`é` = 2 bytes, `中` = 3 bytes) preceded by multi-byte text: the byte offsets
of the slices are character boundaries -/
example :
    let alnum : Char → Bool := fun c => asciiAlnum c || c = 'é' || c = '中'
    let path : Text := ['€', '中', '$', 'E', 'N', 'V', '{', 'é', '中', '}', '€']
    expand alnum [(['é', '中'], ['x'])] path = .ok ['€', '中', 'x', '€'] ∧
    matchIndices envPrefix path = [6] ∧
    sliceBytes 6 (6 + 5 + 5 + 1) path = some (refLit ['é', '中']) ∧
    scan alnum [(['é', '中'], ['x'])] path = .ok { out := ['€', '中', 'x'], copied := 17 } := by
  decide

/-- the hypothesis of `C19_unset_and_malformed_untouched` on a path full of malformed references -/
example :
    expand asciiAlnum [(['A'], ['v'])] ['$', 'E', 'N', 'V', '{', '}', '$', 'E', 'N', 'V', '{', '.', 'A', '}', '$', 'E', 'N', 'V', '{', 'A', '-', '}', '$', 'E', 'N', 'V', '{', 'A', '$', 'E', 'N', 'V', '{', 'U', '}', '$'] =
      .ok ['$', 'E', 'N', 'V', '{', '}', '$', 'E', 'N', 'V', '{', '.', 'A', '}', '$', 'E', 'N', 'V', '{', 'A', '-', '}', '$', 'E', 'N', 'V', '{', 'A', '$', 'E', 'N', 'V', '{', 'U', '}', '$'] := by
  decide

/-- the roller: the index is filled in first, so `$ENV{A{}}` names `A0`, `A1`, … -/
example :
    slotName asciiAlnum [(['A', '0'], ['z']), (['A', '1'], ['o'])] ['p', '$', 'E', 'N', 'V', '{', 'A', '{', '}', '}', '.', '{', '}'] 1 = .ok ['p', 'o', '.', '1'] ∧
    rollerBuild ['p', '$', 'E', 'N', 'V', '{', 'A', '{', '}', '}', '.', '{', '}'] 0 2 = .ok ['p', '$', 'E', 'N', 'V', '{', 'A', '{', '}', '}', '.', '{', '}'] ∧
    rollerBuild ['a', '.', 'l', 'o', 'g'] 0 2 = .err (.build "pattern does not contain `{}`") := by
  decide

/-- a file appender whose whole path is one reference with a directory in the value -/
example :
    fileBuildFs asciiAlnum [(['A'], ['d', '/', 'e', '/', 'x'])] [] (utf8 ['$', 'E', 'N', 'V', '{', 'A', '}']) Fs.empty =
      .ok ({ path := ['d', '/', 'e', '/', 'x'], file := [['d'], ['e'], ['x']] },
           { files := [([['d'], ['e'], ['x']], [])], dirs := [[['d']], [['d'], ['e']]] }) := by
  decide

end Log4rs.EnvExpand
