import Log4rsModel.EnvExpand.LemmasSpec
/-
C19 — `$ENV{NAME}` path expansion substitutes set variables, leaves all else intact.
Only property theorems and non-vacuity examples live here; helpers are in EnvExpand/Lemmas*.lean.

`expand`          = model of the code (`env_util::expand_env_vars`: one pass, byte offsets, partial slices)
`specExpand`      = the statement: one left-to-right pass on characters
`location`        = model of the call sites (builders, configuration deserializers, `rotate()`)
`rollingTrace`    = every use of its location by a rolling appender over a history of appends
`expandOs`        = `expand` in a process whose environment block (byte strings) is `os`
`expand_unfixed`  = the historical code (replace-all on the accumulating output, finding F7), kept
                    with its witness and its partial theorem
`alnum`           = `char::is_alphanumeric` (Unicode table, a parameter); only the historical
                    theorems use facts about it (`$` and `}` are not alphanumeric).
-/
namespace Log4rs.EnvExpand
open Log4rs Log4rs.Str

/-! ### Expansion never panics -/

/-- Every slice the code takes is in bounds and on character boundaries.
(1) For each match offset `m` of `$ENV{`, `m` and `m + 5` are character boundaries of the path
(`split_at` succeeds and yields the text after the prefix), and whenever the scanner accepts a
name, `match_end = m + 5 + name.len() + 1` (UTF-8 length of the name!) is a character boundary
within the path and `path[m..match_end]` is exactly `$ENV{name}`.
(2) After any number of loop iterations the loop is in an `ok` state (none of the partial
`split_at` / `&path[copied..match_start]` was off a boundary) and the cursor `copied` is a character
boundary within the path — so the final `&path[copied..]` is in bounds as well.
(3) Hence no panic branch is ever taken. Holds for every `alnum`, i.e. for multi-byte names too. -/
theorem C19_never_panics (alnum : Char → Bool) (env : Env) (path : Text) :
    (∀ m ∈ matchIndices envPrefix path,
      IsCharBoundary path m ∧ IsCharBoundary path (m + ENV_PREFIX_LEN) ∧
      ∃ tail, sliceFrom (m + ENV_PREFIX_LEN) path = some tail ∧
        ∀ name, scanRef alnum tail = some name →
          m ≤ m + ENV_PREFIX_LEN + utf8Len name + ENV_SUFFIX_LEN ∧
          m + ENV_PREFIX_LEN + utf8Len name + ENV_SUFFIX_LEN ≤ utf8Len path ∧
          IsCharBoundary path (m + ENV_PREFIX_LEN + utf8Len name + ENV_SUFFIX_LEN) ∧
          sliceBytes m (m + ENV_PREFIX_LEN + utf8Len name + ENV_SUFFIX_LEN) path = some (refLit name)) ∧
    (∀ ms₁ ms₂, matchIndices envPrefix path = ms₁ ++ ms₂ →
      ∃ st, scanFrom alnum env path { out := [], copied := 0 } ms₁ = .ok st ∧
        IsCharBoundary path st.copied ∧ st.copied ≤ utf8Len path) ∧
    (expand alnum env path).isPanic = false := by
  refine ⟨?_, ?_, by rw [expand_eq_spec]; rfl⟩
  · intro m hm
    rw [matchIndices_occs, List.mem_map] at hm
    obtain ⟨o, ho, rfl⟩ := hm
    have hpath := occs_sound ho
    have := @occ_slices alnum o.1 o.2
    simp only at this
    rw [← hpath] at this
    obtain ⟨h1, h2, h3, h4⟩ := this
    refine ⟨h1, h2, o.2, h3, ?_⟩
    intro name hs
    obtain ⟨h5, h6, h7⟩ := h4 name hs
    exact ⟨by omega, h5, h6, h7⟩
  · intro ms₁ ms₂ hms
    obtain ⟨st, h1, h2⟩ := scanFrom_ok alnum env path ms₁ { out := [], copied := 0 }
      (fun m hm => matchIndices_mem (by rw [hms]; simp [hm]))
      ⟨[], path, rfl, rfl⟩
    exact ⟨st, h1, h2, h2.le⟩

/-! ### The expansion is the single pass of the statement -/

/-- The code equals the specification on EVERY path, for every environment (values may even
contain `$`) and every `alnum`: text is copied, every well-formed terminated reference to a set
variable met by one left-to-right pass is replaced by the value, values are never re-scanned. -/
theorem C19_expand_eq_spec (alnum : Char → Bool) (env : Env) (path : Text) :
    expand alnum env path = .ok (specExpand alnum env path) :=
  expand_eq_spec alnum env path

/-- "Substitutes set variables, leaves all else intact": the path splits into literal characters
and references (`origRender segs = path`), the result is the same sequence with every literal
character kept and every reference replaced by its value (`finalRender segs`), and the split is
the one the statement describes (`Complete`): each replaced reference is well formed and names a
set variable with exactly that value, and no literal character starts a well-formed reference to
a set variable — nothing that should have been replaced is left over. -/
theorem C19_other_text_untouched (alnum : Char → Bool) (env : Env) (path : Text) :
    ∃ segs : List Seg, origRender segs = path ∧ expand alnum env path = .ok (finalRender segs) ∧
      Complete alnum env segs := by
  refine ⟨parse alnum env path, origRender_parse alnum env path, ?_, complete_parseGo alnum env path 0⟩
  rw [expand_eq_spec, specExpand, specGo_eq_final]; rfl

/-- A path that contains no well-formed, terminated reference to a SET variable — whatever else it
contains: references to unset variables, `$ENV{}`, illegal first or inner characters, missing
braces, stray `$ { }`, non-ASCII text — is returned unchanged. -/
theorem C19_unset_and_malformed_untouched (alnum : Char → Bool) (env : Env) (path : Text)
    (h : ∀ a t n, path = a ++ (envPrefix ++ t) → refAt alnum t = some n → lookup env n = none) :
    expand alnum env path = .ok path := by
  rw [expand_eq_spec, specExpand, specGo_untouched alnum env path h path [] rfl]

/-! ### The environment: only the referenced variables matter -/

/-- The expansion depends only on the variables the path references: two environments that agree
on every name occurring in a well-formed reference of the path give the same result. -/
theorem C19_depends_only_on_referenced (alnum : Char → Bool) (env₁ env₂ : Env) (path : Text)
    (h : ∀ a t n, path = a ++ (envPrefix ++ t) → refAt alnum t = some n → lookup env₁ n = lookup env₂ n) :
    expand alnum env₁ path = expand alnum env₂ path := by
  rw [expand_eq_spec, expand_eq_spec, specExpand, specExpand,
    specGo_congr alnum env₁ env₂ path h path [] rfl 0]

/-- Bystanders are irrelevant, whatever they are: a variable `b` of the process environment —
name and value arbitrary byte strings, valid Unicode or not — that no well-formed reference of the
path names can be added or removed without changing the result, and the expansion does not panic
in its presence (`std::env::var` is asked per reference; nothing enumerates the environment). -/
theorem C19_bystanders_irrelevant (alnum : Char → Bool) (os₁ os₂ : OsEnv) (b : Bytes × Bytes) (path : Text)
    (hb : ∀ a t n, path = a ++ (envPrefix ++ t) → refAt alnum t = some n → decodeUtf8 b.1 ≠ some n) :
    expandOs alnum (os₁ ++ b :: os₂) path = expandOs alnum (os₁ ++ os₂) path ∧
    (expandOs alnum (os₁ ++ b :: os₂) path).isPanic = false := by
  refine ⟨?_, by rw [expandOs, expand_eq_spec]; rfl⟩
  apply C19_depends_only_on_referenced
  intro a t n hp hr
  exact lookup_unicodeView_remove os₁ os₂ b n (hb a t n hp hr)

/-- A variable whose value (or name) is not valid Unicode is, for the expansion, an unset variable:
it is invisible to `std::env::var`, a reference to it stays as written. -/
theorem C19_not_unicode_is_unset (alnum : Char → Bool) (os₁ os₂ : OsEnv) (b : Bytes × Bytes) (path : Text)
    (hb : decodeUtf8 b.1 = none ∨ decodeUtf8 b.2 = none) :
    expandOs alnum (os₁ ++ b :: os₂) path = expandOs alnum (os₁ ++ os₂) path := by
  have hsplit : os₁ ++ b :: os₂ = os₁ ++ ([b] ++ os₂) := by simp
  have hview : unicodeView [b] = [] := by
    rcases hb with h | h
    · simp [unicodeView, h]
    · cases h1 : decodeUtf8 b.1 <;> simp [unicodeView, h, h1]
  simp only [expandOs]
  rw [hsplit, unicodeView_append, unicodeView_append, hview, List.nil_append, ← unicodeView_append]

/-! ### Call sites -/

/-- The rolling appender keeps to one location for its whole life: in every history of
appends (`rolls k` = the policy rolls at the k-th append), the directory created and the file
opened in `build`, the file handed to the roller at every roll and the file reopened after every
roll are all the ONE location computed in `build` — the given text expanded once. -/
theorem C19_rolling_location_stable (alnum : Char → Bool) (env : Env) (given : Text) (rolls : List Bool) :
    ∃ trace, rollingTrace alnum env given rolls = .ok trace ∧
      ∀ u ∈ trace, u.path = specLocation alnum env .rollingBuilder given := by
  have hb : rollingBuildState alnum env given = .ok { path := specExpand alnum env given } := by
    simp [rollingBuildState, rollingBuild, expand_eq_spec]
  refine ⟨_, by simp only [rollingTrace, hb]; rfl, ?_⟩
  have key : ∀ (rs : List Bool) (w : Bool), ∀ u ∈ appendTrace { path := specExpand alnum env given } w rs,
      u.path = specExpand alnum env given := by
    intro rs
    induction rs with
    | nil => intro w u hu; simp [appendTrace] at hu
    | cons r rs ih =>
      intro w u hu
      simp only [appendTrace, List.mem_append] at hu
      rcases hu with (hu | hu) | hu
      · split at hu
        · simp at hu
        · simp only [List.mem_singleton] at hu; subst hu; rfl
      · split at hu
        · simp only [List.mem_singleton] at hu; subst hu; rfl
        · simp at hu
      · exact ih _ u hu
  intro u hu
  simp only [List.mem_cons] at hu
  rcases hu with rfl | rfl | hu
  · rfl
  · rfl
  · exact key rolls true u hu

/-- Every call site — `FileAppender::builder().build`, `RollingFileAppender::builder().build`, the
two configuration deserializers, and `rotate()` for every slot of a roller built directly or from
a configuration — puts its file at the text it was given (for the roller: the pattern with the
index filled in) expanded exactly ONCE; in particular a configured path lands where the same text
given to the builder lands. (On the model of the call sites in EnvExpand/Model.lean; that the
real deserializers hand the configured text to `build` unexpanded is what the `file-cfg`,
`rolling-cfg`, `roller-cfg` cases of the correspondence check observe.) For the rolling appender
the location is computed once, in `build`, and every later open, roll and reopen uses it
(last clause; `C19_rolling_location_stable`). -/
theorem C19_call_sites_expand_once (alnum : Char → Bool) (env : Env) (site : CallSite) (given : Text) :
    location alnum env site given = .ok (specLocation alnum env site given) ∧
    location alnum env .fileConfig given = location alnum env .fileBuilder given ∧
    location alnum env .rollingConfig given = location alnum env .rollingBuilder given ∧
    (∀ i, location alnum env (.rollerConfig i) given = location alnum env (.rollerBuilder i) given) ∧
    ∀ rolls, ∃ trace, rollingTrace alnum env given rolls = .ok trace ∧
      ∀ u ∈ trace, u.path = specLocation alnum env .rollingBuilder given := by
  refine ⟨?_, rfl, rfl, fun _ => rfl, C19_rolling_location_stable alnum env given⟩
  cases site <;>
    simp [location, specLocation, CallSite.submitted, fileBuild, fileDeserialize, rollingBuild,
      rollingDeserialize, rollerSlot, rollerBuild, rollerDeserialize, expand_eq_spec]

/-- Why "once" matters: expansion is not idempotent. `p$ENV{$ENV{W}}q` with W=`T`, T=`r`: one
application gives `p$ENV{T}q` (the outer reference is malformed and stays), a second application
would turn that into `prq`. (Evaluation on one input.) -/
theorem C19_expand_not_idempotent :
    specExpand asciiAlnum [(['W'], ['T']), (['T'], ['r'])] ['p', '$', 'E', 'N', 'V', '{', '$', 'E', 'N', 'V', '{', 'W', '}', '}', 'q'] = ['p', '$', 'E', 'N', 'V', '{', 'T', '}', 'q'] ∧
    specExpand asciiAlnum [(['W'], ['T']), (['T'], ['r'])] (specExpand asciiAlnum [(['W'], ['T']), (['T'], ['r'])] ['p', '$', 'E', 'N', 'V', '{', '$', 'E', 'N', 'V', '{', 'W', '}', '}', 'q']) = ['p', 'r', 'q'] ∧
    location asciiAlnum [(['W'], ['T']), (['T'], ['r'])] .fileConfig ['p', '$', 'E', 'N', 'V', '{', '$', 'E', 'N', 'V', '{', 'W', '}', '}', 'q'] = .ok ['p', '$', 'E', 'N', 'V', '{', 'T', '}', 'q'] := by
  decide

/-! ### Historical: the code before the fix of finding F7 (`expand_unfixed`) -/

/-- The historical code never panicked either. -/
theorem C19_unfixed_never_panics (alnum : Char → Bool) (env : Env) (path : Text) :
    (expand_unfixed alnum env path).isPanic = false := by
  rw [expand_unfixed_eq_chars]; rfl

/-- The historical code equalled the single pass whenever the path is `junctionFree`: no literal
`$` of the path, read together with the EXPANDED text to its right, starts a well-formed
reference to a set variable (so no substituted value, glued to its neighbouring literal text,
spells a reference that a later replace-all hits). Values free of `$` as in the property's
quantifier; `$` and `}` not alphanumeric. -/
theorem C19_unfixed_eq_spec_partial (alnum : Char → Bool) (env : Env) (path : Text)
    (hd : alnum '$' = false) (hc : alnum '}' = false)
    (hv : ∀ e ∈ env, '$' ∉ e.2)
    (hj : junctionFree alnum env path = true) :
    expand_unfixed alnum env path = .ok (specExpand alnum env path) := by
  rw [expand_unfixed_eq_chars]
  exact congrArg _ (expandChars_eq_spec hd hc (fun n v h => hv (n, v) (lookup_mem h)) path hj)

/-- … hence, on those paths, old and new code agree (the fix changes nothing there). -/
theorem C19_unfixed_eq_expand_partial (alnum : Char → Bool) (env : Env) (path : Text)
    (hd : alnum '$' = false) (hc : alnum '}' = false)
    (hv : ∀ e ∈ env, '$' ∉ e.2)
    (hj : junctionFree alnum env path = true) :
    expand_unfixed alnum env path = expand alnum env path := by
  rw [C19_unfixed_eq_spec_partial alnum env path hd hc hv hj, expand_eq_spec]

/-- The ordinary use: if every `$` of the path starts a well-formed reference to a set variable,
the historical code equalled the single pass. -/
theorem C19_unfixed_eq_spec_no_stray_dollar (alnum : Char → Bool) (env : Env) (path : Text)
    (hd : alnum '$' = false) (hc : alnum '}' = false)
    (hv : ∀ e ∈ env, '$' ∉ e.2)
    (h : ∀ s ∈ parse alnum env path, s ≠ Seg.chr '$') :
    expand_unfixed alnum env path = .ok (specExpand alnum env path) :=
  C19_unfixed_eq_spec_partial alnum env path hd hc hv
    (junctionFreeSegs_of_no_dollar alnum env _ h)

/-- The unrestricted statement about the historical code (values free of `$`). -/
def C19_unfixed_eq_spec_statement : Prop :=
  ∀ (alnum : Char → Bool) (env : Env) (path : Text),
    alnum '$' = false → alnum '}' = false → (∀ e ∈ env, '$' ∉ e.2) →
    expand_unfixed alnum env path = .ok (specExpand alnum env path)

/-- F7: the unrestricted statement was FALSE of the historical code. Witness
`$$ENV{A}NV{B}$ENV{B}` with A=`E`, B=`v`: that code yields `vv`, the single pass `$ENV{B}v`.
(Evaluation of the model on one input; the same input is in the corpus of the correspondence check.) -/
theorem C19_unfixed_eq_spec_false : ¬ C19_unfixed_eq_spec_statement := by
  intro h
  have := h asciiAlnum [(['A'], ['E']), (['B'], ['v'])] ['$', '$', 'E', 'N', 'V', '{', 'A', '}', 'N', 'V', '{', 'B', '}', '$', 'E', 'N', 'V', '{', 'B', '}']
    (by decide) (by decide) (by decide)
  revert this
  decide

/-- the F7 witness: historical code, statement, hypothesis of the partial theorem, and the code -/
theorem C19_unfixed_witness_values :
    expand_unfixed asciiAlnum [(['A'], ['E']), (['B'], ['v'])] ['$', '$', 'E', 'N', 'V', '{', 'A', '}', 'N', 'V', '{', 'B', '}', '$', 'E', 'N', 'V', '{', 'B', '}'] = .ok ['v', 'v'] ∧
    specExpand asciiAlnum [(['A'], ['E']), (['B'], ['v'])] ['$', '$', 'E', 'N', 'V', '{', 'A', '}', 'N', 'V', '{', 'B', '}', '$', 'E', 'N', 'V', '{', 'B', '}'] = ['$', 'E', 'N', 'V', '{', 'B', '}', 'v'] ∧
    junctionFree asciiAlnum [(['A'], ['E']), (['B'], ['v'])] ['$', '$', 'E', 'N', 'V', '{', 'A', '}', 'N', 'V', '{', 'B', '}', '$', 'E', 'N', 'V', '{', 'B', '}'] = false ∧
    expand asciiAlnum [(['A'], ['E']), (['B'], ['v'])] ['$', '$', 'E', 'N', 'V', '{', 'A', '}', 'N', 'V', '{', 'B', '}', '$', 'E', 'N', 'V', '{', 'B', '}'] = .ok ['$', 'E', 'N', 'V', '{', 'B', '}', 'v'] := by
  decide

/-! ### Non-vacuity (tests on sample inputs, not proofs of the property) -/

/-- a path with a substituted, a repeated, an unset and a malformed reference and stray `$ { }` -/
example :
    let env : Env := [(['A'], ['v', 'a', 'l']), (['B', '.', 'c'], [])]
    let path : Text := ['l', '/', '$', 'E', 'N', 'V', '{', 'A', '}', '/', '$', 'E', 'N', 'V', '{', 'U', '}', 'x', '$', '/', '$', 'E', 'N', 'V', '{', 'A', '}', '.', '$', 'E', 'N', 'V', '{', '.', 'A', '}', '{', '}', '$', 'E', 'N', 'V', '{', 'B', '.', 'c', '}', '$', 'E', 'N', 'V', '{', 'A']
    junctionFree asciiAlnum env path = true ∧ (∀ e ∈ env, '$' ∉ e.2) ∧
    specExpand asciiAlnum env path = ['l', '/', 'v', 'a', 'l', '/', '$', 'E', 'N', 'V', '{', 'U', '}', 'x', '$', '/', 'v', 'a', 'l', '.', '$', 'E', 'N', 'V', '{', '.', 'A', '}', '{', '}', '$', 'E', 'N', 'V', '{', 'A'] ∧
    expand asciiAlnum env path = .ok (specExpand asciiAlnum env path) ∧
    expand_unfixed asciiAlnum env path = .ok (specExpand asciiAlnum env path) := by
  decide

/-- a multi-byte name (`é` = 2 bytes, `中` = 3 bytes) preceded by multi-byte text: the byte offsets
of the slices are character boundaries -/
example :
    let alnum : Char → Bool := fun c => asciiAlnum c || c = 'é' || c = '中'
    let path : Text := ['€', '中', '$', 'E', 'N', 'V', '{', 'é', '中', '}', '€']
    expand alnum [(['é', '中'], ['x'])] path = .ok ['€', '中', 'x', '€'] ∧
    matchIndices envPrefix path = [6] ∧
    sliceBytes 6 (6 + 5 + 5 + 1) path = some (refLit ['é', '中']) ∧
    scan alnum [(['é', '中'], ['x'])] path = .ok { out := ['€', '中', 'x'], copied := 17 } := by
  decide

/-- the hypothesis of `C19_unset_and_malformed_untouched` on a path full of malformed references -/
example :
    expand asciiAlnum [(['A'], ['v'])] ['$', 'E', 'N', 'V', '{', '}', '$', 'E', 'N', 'V', '{', '.', 'A', '}', '$', 'E', 'N', 'V', '{', 'A', '-', '}', '$', 'E', 'N', 'V', '{', 'A', '$', 'E', 'N', 'V', '{', 'U', '}', '$'] =
      .ok ['$', 'E', 'N', 'V', '{', '}', '$', 'E', 'N', 'V', '{', '.', 'A', '}', '$', 'E', 'N', 'V', '{', 'A', '-', '}', '$', 'E', 'N', 'V', '{', 'A', '$', 'E', 'N', 'V', '{', 'U', '}', '$'] := by
  decide

/-- the roller: the index is filled in first, so `$ENV{A{}}` names `A0`, `A1`, … -/
example :
    location asciiAlnum [(['A', '0'], ['z']), (['A', '1'], ['o'])] (.rollerConfig 1) ['p', '$', 'E', 'N', 'V', '{', 'A', '{', '}', '}', '.', '{', '}'] =
      .ok ['p', 'o', '.', '1'] := by
  decide

end Log4rs.EnvExpand
