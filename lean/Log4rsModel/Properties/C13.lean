import Log4rsModel.Routing.BuilderLemmas
/-
C13 — Config building accepts exactly well-formed configs; lossy keeps the valid part.
Only property theorems and non-vacuity examples live here; helpers are in Routing/BuilderLemmas.lean.
Model (`appLoop`/`refLoop`/`logLoop`/`buildLossy`/`build`/`resolveAll`) and specification
(`specName`, `WellFormed`, `Offending`, `specErrors`, `specLossy`): Routing/Builder.lean; the name
automaton `checkLoggerName` and `Valid`: Routing/Config.lean. All statements are for builder inputs
of any size.
-/
namespace Log4rs.Routing

/-! ### logger names -/

/-- `check_logger_name` accepts exactly the non-empty names in which every maximal run of ':' has
length 2 and whose last character is not ':'. (`colonRuns` lists the lengths of the maximal runs.) -/
theorem C13_checkName_iff (s : Name) :
    checkLoggerName s = true ↔
      s ≠ [] ∧ (∀ n ∈ colonRuns s, n = 2) ∧ s.getLast? ≠ some ':' := by
  rw [checkLoggerName_eq_specName]
  simp [specName, and_assoc]

/-- `colonRuns` is "the lengths of the maximal runs of ':'": these three equations determine it on
every string (a colon-free word has none; a colon-free word followed by a final run of `n+1` colons
has exactly that run; a run that is followed by a non-colon is listed and the rest is read the same
way). -/
theorem C13_colonRuns_maximal_runs (w : Name) (hw : ∀ c ∈ w, c ≠ ':') (n : Nat) :
    colonRuns w = [] ∧
    colonRuns (w ++ List.replicate (n + 1) ':') = [n + 1] ∧
    ∀ c rest, c ≠ ':' →
      colonRuns (w ++ List.replicate (n + 1) ':' ++ c :: rest) = (n + 1) :: colonRuns (c :: rest) :=
  ⟨colonRuns_free w hw, colonRuns_run_end w n hw, fun c rest hc => colonRuns_run_mid w n c rest hw hc⟩

/-- What the code does with a leading "::" — it is accepted: a name `::rest` with `rest` not
starting with ':' is valid exactly when `rest` is. ("colons only in pairs, none trailing" does not
exclude a leading pair, and the automaton does not either.) -/
theorem C13_checkName_leading_pair (c : Char) (s : Name) (hc : c ≠ ':') :
    checkLoggerName (':' :: ':' :: c :: s) = checkLoggerName (c :: s) := by
  simp [checkLoggerName, checkNameAux, hc]

/-- … whereas a trailing "::" is always rejected. -/
theorem C13_checkName_trailing_colon (s : Name) : checkLoggerName (s ++ [':']) = false := by
  rw [checkLoggerName_eq_specName]
  simp [specName]

/-! ### strict building -/

/-- the statement's well-formedness (with the declarative name predicate) is `Valid` of the input
taken as a configuration (with the code's name automaton) -/
theorem C13_wellFormed_iff_valid (inp : BuilderInput) : WellFormed inp ↔ Valid inp.toConfig := by
  simp only [WellFormed, Valid, BuilderInput.toConfig, checkLoggerName_eq_specName]

/-- the Bool the executable Spec uses is the Prop of the theorems -/
theorem C13_wellFormedB_iff (inp : BuilderInput) : wellFormedB inp = true ↔ WellFormed inp := by
  simp [wellFormedB, WellFormed, and_assoc]

/-- Well-formedness item by item ("raw defects"): an input is well-formed iff no appender repeats an
earlier name, every logger has a new, well-formed name and only declared references — whether or
not the logger would be kept —, and the root has only declared references. -/
theorem C13_wellFormed_iff_no_raw_defect (inp : BuilderInput) : WellFormed inp ↔
    (∀ i a, inp.appenders[i]? = some a → a.name ∉ (inp.appenders.take i).map (·.name)) ∧
    (∀ i l, inp.loggers[i]? = some l → l.name ∉ (inp.loggers.take i).map (·.name) ∧
       specName l.name = true ∧ ∀ r ∈ l.appenders, r ∈ declared inp) ∧
    (∀ r ∈ inp.rootAppenders, r ∈ declared inp) := by
  unfold WellFormed declared
  rw [nodup_iff_no_earlier (fun a : AppenderDecl => a.name) inp.appenders,
    nodup_iff_no_earlier (fun l : LoggerCfg => l.name) inp.loggers]
  constructor
  · rintro ⟨h1, h2, h3, h4⟩
    refine ⟨h1, ?_, h4⟩
    intro i l hl
    have hm : l ∈ inp.loggers := List.mem_of_getElem? hl
    exact ⟨h2 i l hl, h3 l hm⟩
  · rintro ⟨h1, h2, h4⟩
    refine ⟨h1, fun i l hl => (h2 i l hl).1, ?_, h4⟩
    intro l hm
    obtain ⟨i, hi⟩ := List.getElem?_of_mem hm
    exact (h2 i l hi).2

/-- "Strict building succeeds exactly for [well-formed] configurations" -/
theorem C13_build_ok_iff (inp : BuilderInput) : isOk (build inp) = true ↔ WellFormed inp := by
  rw [← specErrors_nil_iff, ← (buildLossy_eq_spec inp).2]
  simp only [build]
  cases h : (buildLossy inp).errors <;> simp [isOk]

/-- … and then returns the input unchanged: every appender (name and identity of the boxed object —
filters and the object's content travel with it and are not modelled), the root, every logger. -/
theorem C13_build_ok_returns_input (inp : BuilderInput) (h : WellFormed inp) :
    build inp = .ok inp.toConfig ∧ (buildLossy inp).kept = inp.appenders := by
  have hs := (buildLossy_eq_spec inp).1
  rw [specLossy_of_wellFormed inp h] at hs
  have he : (buildLossy inp).errors = [] := by
    rw [(buildLossy_eq_spec inp).2]; exact (specErrors_nil_iff inp).mpr h
  simp only [Prod.mk.injEq] at hs
  simp [build, he, hs.1, hs.2]

/-- "otherwise it fails" with the same error list the lossy path reports, which is not empty. -/
theorem C13_build_err (inp : BuilderInput) (h : ¬ WellFormed inp) :
    build inp = .error (specErrors inp) ∧ specErrors inp ≠ [] := by
  have hne : specErrors inp ≠ [] := fun hc => h ((specErrors_nil_iff inp).mp hc)
  refine ⟨?_, hne⟩
  have he := (buildLossy_eq_spec inp).2
  simp only [build, he]
  cases hs : specErrors inp with
  | nil => exact absurd hs hne
  | cons e es => simp

/-! ### the reported errors -/

/-- The error list is exactly the list of named offending items in the order appenders, root
references, loggers (each logger: duplicate, else invalid name, else its dangling references). -/
theorem C13_errors_exact (inp : BuilderInput) : (buildLossy inp).errors = specErrors inp :=
  (buildLossy_eq_spec inp).2

/-- "no error naming an innocent item": every reported error names an offending item
(`Offending`, Routing/Builder.lean). -/
theorem C13_errors_sound (inp : BuilderInput) (e : CfgError) (h : e ∈ (buildLossy inp).errors) :
    Offending inp e := by
  rw [C13_errors_exact] at h
  exact (mem_specErrors_iff inp e).mp h

/-- "every offending item is named in the reported errors" — for the offending items as the builder
names them (`Offending`); for the references inside dropped loggers see `C13_every_defect_covered`. -/
theorem C13_errors_complete (inp : BuilderInput) (e : CfgError) (h : Offending inp e) :
    e ∈ (buildLossy inp).errors := by
  rw [C13_errors_exact]
  exact (mem_specErrors_iff inp e).mpr h

/-- What happens to the defects that are NOT separately reported: a dangling reference `r` of ANY
logger item — kept or not — is either reported itself, or sits in a logger that is reported as a
duplicate or as badly named. No raw defect is silently swallowed. (Appender duplicates and dangling
root references are always reported themselves: `Offending.dupAppender`, `.danglingRoot`.) -/
theorem C13_every_defect_covered (inp : BuilderInput) (i : Nat) (l : LoggerCfg) (r : Name)
    (hl : inp.loggers[i]? = some l) (hr : r ∈ l.appenders) (hd : r ∉ declared inp) :
    ⟨.nonexistent, r⟩ ∈ (buildLossy inp).errors ∨
    ⟨.dupLogger, l.name⟩ ∈ (buildLossy inp).errors ∨
    ⟨.invalidName, l.name⟩ ∈ (buildLossy inp).errors := by
  by_cases hdup : l.name ∈ (inp.loggers.take i).map (·.name)
  · exact Or.inr (Or.inl (C13_errors_complete inp _ (Offending.dupLogger i l hl hdup)))
  · by_cases hv : specName l.name = true
    · exact Or.inl (C13_errors_complete inp _ (Offending.danglingLogger i l r hl hdup hv hr hd))
    · have hv' : specName l.name = false := by simpa using hv
      exact Or.inr (Or.inr (C13_errors_complete inp _ (Offending.invalidName i l hl hdup hv')))

/-- … and every badly named or repeated logger is reported whatever else is wrong with it. -/
theorem C13_every_bad_logger_reported (inp : BuilderInput) (i : Nat) (l : LoggerCfg)
    (hl : inp.loggers[i]? = some l)
    (hbad : l.name ∈ (inp.loggers.take i).map (·.name) ∨ specName l.name = false) :
    ⟨.dupLogger, l.name⟩ ∈ (buildLossy inp).errors ∨ ⟨.invalidName, l.name⟩ ∈ (buildLossy inp).errors := by
  by_cases hdup : l.name ∈ (inp.loggers.take i).map (·.name)
  · exact Or.inl (C13_errors_complete inp _ (Offending.dupLogger i l hl hdup))
  · rcases hbad with h | h
    · exact absurd h hdup
    · exact Or.inr (C13_errors_complete inp _ (Offending.invalidName i l hl hdup h))

/-- the strict path reports the same errors -/
theorem C13_strict_errors_sound_complete (inp : BuilderInput) (es : List CfgError)
    (h : build inp = .error es) : ∀ e, e ∈ es ↔ Offending inp e := by
  have : es = (buildLossy inp).errors := by
    simp only [build] at h
    split at h
    · cases h
    · simpa using h.symm
  intro e
  rw [this]
  exact ⟨C13_errors_sound inp e, C13_errors_complete inp e⟩

/-! ### lossy building -/

/-- "Lossy building always returns the configuration made of exactly the valid items in their
original order (first occurrence wins among duplicates, dangling references stripped)" — including
which `Append` objects survive. -/
theorem C13_lossy_exact (inp : BuilderInput) :
    ((buildLossy inp).config, (buildLossy inp).kept) = specLossy inp :=
  (buildLossy_eq_spec inp).1

/-- "first occurrence wins", read item by item: the kept items of `xs ++ [x]` are those of `xs`,
and `x` itself exactly when no item of `xs` has its name. (With `firstsBy key [] = []` this
determines `firstsBy`.) -/
theorem C13_first_occurrence_wins {α} (key : α → Name) (xs : List α) (x : α) :
    firstsBy key ([] : List α) = [] ∧
    firstsBy key (xs ++ [x]) = firstsBy key xs ++ (if key x ∈ xs.map key then [] else [x]) :=
  ⟨firstsBy_nil key, firstsBy_snoc key xs x⟩

/-- the lossy configuration satisfies what `build` guarantees -/
theorem C13_lossy_valid (inp : BuilderInput) : Valid (buildLossy inp).config := by
  have h := C13_lossy_exact inp
  have hv := specLossy_valid inp
  rw [← h] at hv
  exact hv

/-- every configuration the strict path returns is valid -/
theorem C13_build_valid (inp : BuilderInput) (cfg : Config) (h : build inp = .ok cfg) : Valid cfg := by
  simp only [build] at h
  split at h
  · cases h; exact C13_lossy_valid inp
  · cases h

/-! ### installing -/

/-- A valid configuration installs: no `appender_map[name]` lookup hits a missing key, every
reference is resolved to the index of an appender of that name, every index is in range of the
appender table (so `appenders[idx]` in `ConfiguredLogger::log` cannot go out of bounds). -/
theorem C13_install_no_panic (cfg : Config) (h : Valid cfg) :
    ∃ r, install cfg = .ok r ∧
      ResolvedTo cfg.appenders cfg.rootAppenders r.root ∧
      r.loggers.map (·.1) = cfg.loggers ∧
      (∀ p ∈ r.loggers, ResolvedTo cfg.appenders p.1.appenders p.2) ∧
      (∀ i ∈ r.root, i < cfg.appenders.length) ∧
      (∀ p ∈ r.loggers, ∀ i ∈ p.2, i < cfg.appenders.length) := by
  obtain ⟨_, _, hlog, hroot⟩ := h
  obtain ⟨ri, hr1, hr2⟩ := resolveRefs_ok cfg.appenders cfg.rootAppenders hroot
  obtain ⟨li, hl1, hl2, hl3⟩ := resolveLoggers_ok cfg.appenders cfg.loggers (fun l hl => (hlog l hl).2)
  have hrange : ∀ (refs : List Name) (idxs : List Nat), ResolvedTo cfg.appenders refs idxs →
      ∀ i ∈ idxs, i < cfg.appenders.length := by
    intro refs idxs hres i hi
    have hm : cfg.appenders[i]? ∈ idxs.map (cfg.appenders[·]?) := List.mem_map.mpr ⟨i, hi, rfl⟩
    rw [hres] at hm
    obtain ⟨r, _, hr⟩ := List.mem_map.mp hm
    exact (List.getElem?_eq_some_iff.mp hr.symm).1
  refine ⟨⟨ri, li⟩, by simp [install, resolveAll, hr1, hl1], hr2, hl2, hl3, hrange _ _ hr2, ?_⟩
  intro p hp
  exact hrange _ _ (hl3 p hp)

/-- The `appender_map[name]` lookups of `SharedLogger::new` succeed exactly when every reference
names a declared appender (uniqueness and name validity are not needed for THIS panic; they are what
the routing theorems of C01 need). -/
theorem C13_install_ok_iff (cfg : Config) :
    (∃ r, install cfg = .ok r) ↔
      (∀ a ∈ cfg.rootAppenders, a ∈ cfg.appenders) ∧
      (∀ l ∈ cfg.loggers, ∀ a ∈ l.appenders, a ∈ cfg.appenders) := by
  constructor
  · rintro ⟨r, hr⟩
    simp only [install, resolveAll] at hr
    cases h1 : resolveRefs cfg.appenders cfg.rootAppenders with
    | none => simp [h1] at hr
    | some ri =>
      cases h2 : resolveLoggers cfg.appenders cfg.loggers with
      | none => simp [h1, h2] at hr
      | some li =>
        exact ⟨resolveRefs_some_imp _ _ ri h1, resolveLoggers_some_imp _ _ li h2⟩
  · rintro ⟨hroot, hlog⟩
    obtain ⟨ri, hr1, _⟩ := resolveRefs_ok cfg.appenders cfg.rootAppenders hroot
    obtain ⟨li, hl1, _⟩ := resolveLoggers_ok cfg.appenders cfg.loggers hlog
    exact ⟨⟨ri, li⟩, by simp [install, resolveAll, hr1, hl1]⟩

/-- "any configuration returned by either path can be installed … without panicking" (the name
resolution part; the logger tree is C01's). -/
theorem C13_returned_config_installs (inp : BuilderInput) :
    (∃ r, install (buildLossy inp).config = .ok r) ∧
    (∀ cfg, build inp = .ok cfg → ∃ r, install cfg = .ok r) := by
  constructor
  · obtain ⟨r, hr, _⟩ := C13_install_no_panic _ (C13_lossy_valid inp)
    exact ⟨r, hr⟩
  · intro cfg h
    obtain ⟨r, hr, _⟩ := C13_install_no_panic _ (C13_build_valid inp cfg h)
    exact ⟨r, hr⟩

/-! ### Non-vacuity (tests on samples, not proofs of the property) -/

def sampleInput : BuilderInput :=
  { appenders := [⟨['a'], 0⟩, ⟨['b'], 1⟩, ⟨['a'], 2⟩],
    rootLevel := 3,
    rootAppenders := [['a'], ['z']],
    loggers := [
      { name := ['x', ':'], level := 4, appenders := [['q']] },          -- invalid name, its dangling ref is not reported
      { name := ['x', ':', ':', 'y'], level := 4, appenders := [['b'], ['q']] },
      { name := ['x', ':'], level := 2 },                               -- duplicate of an invalid name
      { name := ['x', ':', ':', 'y'], level := 1, appenders := [['q']] } ] }

/-- the four error kinds in the code's order; the lossy result keeps the first `a`, drops `z`/`q` -/
example : (buildLossy sampleInput).errors =
    [⟨.dupAppender, ['a']⟩, ⟨.nonexistent, ['z']⟩, ⟨.invalidName, ['x', ':']⟩, ⟨.nonexistent, ['q']⟩,
     ⟨.dupLogger, ['x', ':']⟩, ⟨.dupLogger, ['x', ':', ':', 'y']⟩] := by decide
example : (buildLossy sampleInput).kept = [⟨['a'], 0⟩, ⟨['b'], 1⟩] := by decide
example : (buildLossy sampleInput).config.loggers =
    [{ name := ['x', ':', ':', 'y'], level := 4, appenders := [['b']] }] := by decide
/-- a well-formed, non-trivial input exists (hypothesis of `C13_build_ok_returns_input`) -/
def sampleWellFormed : BuilderInput :=
  { appenders := [⟨['a'], 0⟩, ⟨['b'], 1⟩], rootLevel := 3, rootAppenders := [['b']],
    loggers := [{ name := [':', ':', 'x'], level := 4, appenders := [['a'], ['a']] }] }
example : WellFormed sampleWellFormed := by
  refine ⟨by decide, by decide, ?_, ?_⟩ <;> decide
/-- the panic `install` guards against is real: a dangling reference makes the lookup fail -/
example : install { appenders := [['a']], rootLevel := 3, rootAppenders := [['b']], loggers := [] } =
    .panic "appender_map[name]: key not found" := by decide
/-- name samples: leading pair accepted, single colon / triple colon / trailing pair rejected -/
example : checkLoggerName [':', ':', 'a'] = true ∧ checkLoggerName ['a', ':', 'b'] = false ∧
    checkLoggerName ['a', ':', ':', ':', 'b'] = false ∧ checkLoggerName ['a', ':', ':'] = false ∧
    checkLoggerName [':', ':'] = false ∧ checkLoggerName [] = false := by decide

end Log4rs.Routing
