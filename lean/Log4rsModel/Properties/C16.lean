import Log4rsModel.TimeTrigger.Lemmas
/-
C16 — Time trigger schedules the right boundary, fires once per boundary, never panics.
Only property theorems and non-vacuity examples live here; helpers are in TimeTrigger/Lemmas.lean.

Shape of the result. In a zone of constant UTC offset and inside the representable range the
statement holds of the model of the code (boundary, strictly-after, firing, rescheduling, delay,
no panic). The unconditional statement is false of the code: `C16_no_panic_statement_false`
(DST overlap, absurd interval) and `C16_after_now_statement_false` (day unit on a 25-hour day);
both negations are proved on witnesses observed on the real crate. The repaired algorithm
(`getNextTimeFixed`, selected by `codeFixed`) satisfies the full statements in every zone:
`C16_no_panic_fixed`, `C16_after_now_fixed`, `C16_boundary_fixed_*`, `C16_trigger_fixed`.
-/
namespace Log4rs.TimeTrigger

/-! ### second … week: pure arithmetic on local seconds -/

/-- Units of fixed length, zone of constant offset, representable result: the schedule is exactly
the specification's boundary — start of the current unit + n units, or with modulation the start
of the enclosing period + (field / n + 1)·n units (week: Monday alignment through the weekday). -/
theorem C16_boundary_fixed_units {c : Civil} {L off : Int} {mk : CivilTime → LocalResult}
    (h : FixedOffsetView c L off mk) (u : IUnit) (hu : isCalendarUnit u = false) (n : Int) (m : Bool)
    (hn : 1 ≤ n) (hdur : n * unitSecs u ≤ DUR_MAX)
    (hlo : DT_MIN + 518400 ≤ truncLocal L u - off) (hhi : truncLocal L u - off + n * unitSecs u ≤ DT_MAX) :
    getNextTime c u n m mk = .ok (expectedLocal c L u n m - off) := by
  have hf := field_nonneg h u hu
  have hmk := h.mk_trunc u hu
  have hmod := incVal_mod (fieldOf c u) n
  have hwd := h.weekday
  generalize hq : (fieldOf c u / n + 1) * n = q at hmod
  cases u <;> simp [isCalendarUnit] at hu <;>
    simp only [fieldOf, unitSecs, truncLocal] at hf hdur hlo hhi hmod hq
  · -- second
    simp only [getNextTime, hmk, unwrapLR, bind_ok, truncLocal]
    rw [addUnits_eq m hf hn (by decide) hdur (by simp only [DT_MIN] at hlo ⊢; omega) hhi]
    simp only [expectedLocal, startOfPeriod, startOfUnit, fieldOf, unitSecs, hq]
    cases m <;> simp [incVal] at hmod ⊢ <;> omega
  · -- minute
    simp only [getNextTime, hmk, unwrapLR, bind_ok, truncLocal]
    rw [addUnits_eq m hf hn (by decide) hdur (by simp only [DT_MIN] at hlo ⊢; omega) hhi]
    simp only [expectedLocal, startOfPeriod, startOfUnit, fieldOf, unitSecs, hq]
    cases m <;> simp [incVal] at hmod ⊢ <;> omega
  · -- hour
    simp only [getNextTime, hmk, unwrapLR, bind_ok, truncLocal]
    rw [addUnits_eq m hf hn (by decide) hdur (by simp only [DT_MIN] at hlo ⊢; omega) hhi]
    simp only [expectedLocal, startOfPeriod, startOfUnit, fieldOf, unitSecs, hq]
    cases m <;> simp [incVal] at hmod ⊢ <;> omega
  · -- day
    simp only [getNextTime, hmk, unwrapLR, bind_ok, truncLocal]
    rw [addUnits_eq m hf hn (by decide) hdur (by simp only [DT_MIN] at hlo ⊢; omega) hhi]
    simp only [expectedLocal, startOfPeriod, startOfUnit, fieldOf, unitSecs, hq]
    cases m <;> simp [incVal] at hmod ⊢ <;> omega
  · -- week
    simp only [getNextTime, hmk, unwrapLR, bind_ok, truncLocal]
    have hwr : 0 ≤ c.weekday ∧ c.weekday ≤ 6 := by omega
    rw [addWeeks_eq m hf hn hdur hwr hlo hhi]
    simp only [expectedLocal, startOfPeriod, startOfUnit, fieldOf, unitSecs, hq]
    cases m <;> simp [incVal] at hmod ⊢ <;> omega

/-- … and that boundary lies strictly after the current instant (`L - off` is `now` in UTC seconds;
the returned instant has zero nanoseconds, so this is "strictly after" for every sub-second part) -/
theorem C16_next_after_now_fixed_units {c : Civil} {L off : Int} {mk : CivilTime → LocalResult}
    (h : FixedOffsetView c L off mk) (u : IUnit) (hu : isCalendarUnit u = false) (n : Int) (m : Bool)
    (hn : 1 ≤ n) (hdur : n * unitSecs u ≤ DUR_MAX)
    (hlo : DT_MIN + 518400 ≤ truncLocal L u - off) (hhi : truncLocal L u - off + n * unitSecs u ≤ DT_MAX) :
    ∃ t, getNextTime c u n m mk = .ok t ∧ L - off < t := by
  refine ⟨_, C16_boundary_fixed_units h u hu n m hn hdur hlo hhi, ?_⟩
  have hf := field_nonneg h u hu
  have hwd := h.weekday
  have hs := startOfUnit_le c L u (by omega) hu
  have hmod := incVal_mod (fieldOf c u) n
  obtain ⟨hi1, _⟩ := incVal_bounds (f := fieldOf c u) true hn
  have hpos : 1 ≤ unitSecs u := by cases u <;> simp [isCalendarUnit] at hu <;> decide
  simp only [expectedLocal, startOfPeriod]
  cases m
  · -- plain: start + n·unit ≥ start + unit > L
    have : 1 * unitSecs u ≤ n * unitSecs u := mul_le_of_le hn (by omega)
    simp; omega
  · -- modulated: (field / n + 1)·n ≥ field + 1
    have hq : (fieldOf c u + 1) * unitSecs u ≤ (fieldOf c u / n + 1) * n * unitSecs u :=
      mul_le_of_le (by omega) (by omega)
    rw [Int.add_mul, Int.one_mul] at hq
    simp; omega

/-- without modulation: exactly n units after the start of the current unit -/
theorem C16_boundary_plain {c : Civil} {L off : Int} {mk : CivilTime → LocalResult}
    (h : FixedOffsetView c L off mk) (u : IUnit) (hu : isCalendarUnit u = false) (n : Int)
    (hn : 1 ≤ n) (hdur : n * unitSecs u ≤ DUR_MAX)
    (hlo : DT_MIN + 518400 ≤ truncLocal L u - off) (hhi : truncLocal L u - off + n * unitSecs u ≤ DT_MAX) :
    getNextTime c u n false mk = .ok (startOfUnit c L u + n * unitSecs u - off) := by
  simpa [expectedLocal] using C16_boundary_fixed_units h u hu n false hn hdur hlo hhi

/-- with modulation: the next multiple of n counted from the start of the enclosing period -/
theorem C16_boundary_modulated {c : Civil} {L off : Int} {mk : CivilTime → LocalResult}
    (h : FixedOffsetView c L off mk) (u : IUnit) (hu : isCalendarUnit u = false) (n : Int)
    (hn : 1 ≤ n) (hdur : n * unitSecs u ≤ DUR_MAX)
    (hlo : DT_MIN + 518400 ≤ truncLocal L u - off) (hhi : truncLocal L u - off + n * unitSecs u ≤ DT_MAX) :
    getNextTime c u n true mk
      = .ok (startOfPeriod c L u + (fieldOf c u / n + 1) * n * unitSecs u - off) := by
  simpa [expectedLocal] using C16_boundary_fixed_units h u hu n true hn hdur hlo hhi

/-! ### month and year: lexicographic order on (year, month0) -/

/-- Month unit: the code asks chrono for the first of the month whose index (12·year + month0) is
the specification's, and that month is strictly later than the current one. -/
theorem C16_boundary_month (c : Civil) (n : Int) (m : Bool) (mk : CivilTime → LocalResult)
    (hy : 0 ≤ c.year) (hm0 : 0 ≤ c.month0 ∧ c.month0 ≤ 11) (hn : 1 ≤ n)
    (hb : 12 * c.year + c.month0 + n ≤ U32_MAX) :
    getNextTime c .month n m mk = unwrapLR (mk (civilOfMonthIndex (expectedMonthIndex c .month n m)))
      ∧ 12 * c.year + c.month0 < expectedMonthIndex c .month n m := by
  simp only [U32_MAX] at hb
  obtain ⟨hi1, hi2⟩ := incVal_bounds (f := c.month0) m hn
  have hmod := incVal_mod c.month0 n
  have hwn : wrapU32 n = n := by simp only [wrapU32]; omega
  have hwy : wrapU32 c.year = c.year := by simp only [wrapU32]; omega
  have hinc : (if m then bind (remU c.month0 n) (fun r => chkU32 (n - r)) else (.ok n : Out Int))
      = .ok (incVal c.month0 n m) := by
    cases m
    · simp [incVal]
    · have h1 := Int.emod_nonneg c.month0 (b := n) (by omega)
      have h2 := Int.emod_lt_of_pos c.month0 (b := n) (by omega)
      have hne : n ≠ 0 := by omega
      have : 0 ≤ n - c.month0 % n ∧ n - c.month0 % n ≤ U32_MAX := by simp only [U32_MAX]; omega
      simp [remU, hne, chkU32, this, incVal]
      omega
  have h12 : chkU32 (c.year * 12) = .ok (c.year * 12) := by
    have : 0 ≤ c.year * 12 ∧ c.year * 12 ≤ U32_MAX := by simp only [U32_MAX]; omega
    simp [chkU32, this]
  have hnm : chkU32 (c.year * 12 + c.month0) = .ok (c.year * 12 + c.month0) := by
    have : 0 ≤ c.year * 12 + c.month0 ∧ c.year * 12 + c.month0 ≤ U32_MAX := by simp only [U32_MAX]; omega
    simp [chkU32, this]
  have hnew : chkU32 (c.year * 12 + c.month0 + incVal c.month0 n m)
      = .ok (c.year * 12 + c.month0 + incVal c.month0 n m) := by
    have : 0 ≤ c.year * 12 + c.month0 + incVal c.month0 n m
        ∧ c.year * 12 + c.month0 + incVal c.month0 n m ≤ U32_MAX := by simp only [U32_MAX]; omega
    simp [chkU32, this]
  have hidx : expectedMonthIndex c .month n m = c.year * 12 + c.month0 + incVal c.month0 n m := by
    generalize hq : (c.month0 / n + 1) * n = q at hmod
    cases m <;> simp [expectedMonthIndex, incVal, hq] at hmod ⊢ <;> omega
  constructor
  · simp only [getNextTime, hwn, hwy, hinc, bind_ok, h12, hnm, hnew, hidx, civilOfMonthIndex]
    have hw : wrapI32 ((c.year * 12 + c.month0 + incVal c.month0 n m) / 12)
        = (c.year * 12 + c.month0 + incVal c.month0 n m) / 12 := by
      simp only [wrapI32]; omega
    rw [hw]
  · rw [hidx]; omega

/-- Year unit: the code asks chrono for 1 January of the specification's year, strictly later than
the current year. -/
theorem C16_boundary_year (c : Civil) (n : Int) (m : Bool) (mk : CivilTime → LocalResult)
    (hy : 0 ≤ c.year) (hm0 : 0 ≤ c.month0 ∧ c.month0 ≤ 11) (hn : 1 ≤ n) (hb : c.year + n ≤ I32_MAX) :
    getNextTime c .year n m mk = unwrapLR (mk (civilOfMonthIndex (expectedMonthIndex c .year n m)))
      ∧ 12 * c.year + c.month0 < expectedMonthIndex c .year n m := by
  simp only [I32_MAX] at hb
  obtain ⟨hi1, hi2⟩ := incVal_bounds (f := c.year) m hn
  have hmod := incVal_mod c.year n
  have hwn : wrapI32 n = n := by simp only [wrapI32]; omega
  have hinc : (if m then bind (remS I32_MIN c.year n) (fun r => chkI32 (n - r)) else (.ok n : Out Int))
      = .ok (incVal c.year n m) := by
    cases m
    · simp [incVal]
    · have h1 := Int.emod_nonneg c.year (b := n) (by omega)
      have h2 := Int.emod_lt_of_pos c.year (b := n) (by omega)
      have hne : n ≠ 0 := by omega
      have hm1 : n ≠ -1 := by omega
      have : I32_MIN ≤ n - c.year % n ∧ n - c.year % n ≤ I32_MAX := by simp only [I32_MIN, I32_MAX]; omega
      simp [remS, hne, hm1, Int.tmod_eq_emod_of_nonneg hy, chkI32, this, incVal]
  have hnew : chkI32 (c.year + incVal c.year n m) = .ok (c.year + incVal c.year n m) := by
    have : I32_MIN ≤ c.year + incVal c.year n m ∧ c.year + incVal c.year n m ≤ I32_MAX := by
      simp only [I32_MIN, I32_MAX]; omega
    simp [chkI32, this]
  have hidx : expectedMonthIndex c .year n m = 12 * (c.year + incVal c.year n m) := by
    generalize hq : (c.year / n + 1) * n = q at hmod
    cases m <;> simp [expectedMonthIndex, incVal, hq] at hmod ⊢ <;> omega
  constructor
  · simp only [getNextTime, hwn, hinc, bind_ok, hnew, hidx, civilOfMonthIndex]
    have h1 : 12 * (c.year + incVal c.year n m) / 12 = c.year + incVal c.year n m := by omega
    have h2 : 12 * (c.year + incVal c.year n m) % 12 + 1 = 1 := by omega
    rw [h1, h2]
  · rw [hidx]; omega

/-- chrono's calendar in a zone of constant offset, as far as month and year units need it: the
first of month number `M` (months since year 0) starts at local second `monthStart M`, later
months start later, and `with_ymd_and_hms(y, mo, 1, 0, 0, 0)` is that single instant. -/
structure FixedOffsetCalendar (off : Int) (monthStart : Int → Int) (mk : CivilTime → LocalResult) : Prop where
  mono : ∀ a b, a < b → monthStart a < monthStart b
  mk_month : ∀ M, mk (civilOfMonthIndex M) = .single (monthStart M - off)

/-- Month and year units: the schedule is the start of the specification's month and lies strictly
after the current instant (`L` = local seconds of now, inside its month). -/
theorem C16_next_after_now_calendar {off : Int} {monthStart : Int → Int} {mk : CivilTime → LocalResult}
    (h : FixedOffsetCalendar off monthStart mk) (c : Civil) (L : Int) (u : IUnit)
    (hu : isCalendarUnit u = true) (n : Int) (m : Bool)
    (hy : 0 ≤ c.year) (hm0 : 0 ≤ c.month0 ∧ c.month0 ≤ 11) (hn : 1 ≤ n)
    (hb : if u = .year then c.year + n ≤ I32_MAX else 12 * c.year + c.month0 + n ≤ U32_MAX)
    (hin : L < monthStart (12 * c.year + c.month0 + 1)) :
    getNextTime c u n m mk = .ok (monthStart (expectedMonthIndex c u n m) - off)
      ∧ L - off < monthStart (expectedMonthIndex c u n m) - off := by
  have key : getNextTime c u n m mk = unwrapLR (mk (civilOfMonthIndex (expectedMonthIndex c u n m)))
      ∧ 12 * c.year + c.month0 < expectedMonthIndex c u n m := by
    cases u <;> simp [isCalendarUnit] at hu
    · exact C16_boundary_month c n m mk hy hm0 hn (by simpa using hb)
    · exact C16_boundary_year c n m mk hy hm0 hn (by simpa using hb)
  obtain ⟨h1, h2⟩ := key
  refine ⟨by rw [h1, h.mk_month]; rfl, ?_⟩
  have : monthStart (12 * c.year + c.month0 + 1) ≤ monthStart (expectedMonthIndex c u n m) := by
    by_cases he : 12 * c.year + c.month0 + 1 = expectedMonthIndex c u n m
    · rw [he]; exact Int.le_refl _
    · exact Int.le_of_lt (h.mono _ _ (by omega))
  omega

/-! ### no panic inside the representable range -/

/-- the multiplier fits the machine types and chrono's duration range for this unit -/
def Representable (c : Civil) (u : IUnit) (n : Int) : Prop :=
  match u with
  | .month => 12 * c.year + c.month0 + n ≤ U32_MAX
  | .year => c.year + n ≤ I32_MAX
  | u => n * unitSecs u ≤ DUR_MAX

/-- civil fields in the ranges chrono produces (years of the common era) -/
structure CivilSane (c : Civil) : Prop where
  year : 0 ≤ c.year
  month0 : 0 ≤ c.month0 ∧ c.month0 ≤ 11
  ordinal0 : 0 ≤ c.ordinal0
  week0 : 0 ≤ c.week0
  weekday : 0 ≤ c.weekday ∧ c.weekday ≤ 6
  hour : 0 ≤ c.hour
  minute : 0 ≤ c.minute
  second : 0 ≤ c.second

/-- If chrono never answers ambiguous/none (no DST transition at the truncated time, date in
range) and the interval is representable, `get_next_time` does not panic — any zone, all seven
units, both modes. -/
theorem C16_no_panic_partial (c : Civil) (u : IUnit) (n : Int) (m : Bool) (mk : CivilTime → LocalResult)
    (hc : CivilSane c) (hn : 1 ≤ n) (hrep : Representable c u n)
    (hmk : ∀ q, ∃ t, mk q = .single t ∧ DT_MIN + 518400 ≤ t ∧ t + n * unitSecs u ≤ DT_MAX) :
    ∃ t, getNextTime c u n m mk = .ok t := by
  cases u
  case month =>
    obtain ⟨t, ht, _⟩ := hmk (civilOfMonthIndex (expectedMonthIndex c .month n m))
    exact ⟨t, by rw [(C16_boundary_month c n m mk hc.year hc.month0 hn hrep).1, ht]; rfl⟩
  case year =>
    obtain ⟨t, ht, _⟩ := hmk (civilOfMonthIndex (expectedMonthIndex c .year n m))
    exact ⟨t, by rw [(C16_boundary_year c n m mk hc.year hc.month0 hn hrep).1, ht]; rfl⟩
  case week =>
    obtain ⟨t, ht, hlo, hhi⟩ := hmk (truncated c .week)
    simp only [unitSecs] at hhi
    exact ⟨_, by
      simp only [getNextTime, ht, unwrapLR, bind_ok]
      exact addWeeks_eq m hc.week0 hn hrep hc.weekday hlo hhi⟩
  case day =>
    obtain ⟨t, ht, hlo, hhi⟩ := hmk (truncated c .day)
    exact ⟨_, by
      simp only [getNextTime, ht, unwrapLR, bind_ok]
      exact addUnits_eq m hc.ordinal0 hn (by decide) hrep (by simp only [DT_MIN] at hlo ⊢; omega) hhi⟩
  case hour =>
    obtain ⟨t, ht, hlo, hhi⟩ := hmk (truncated c .hour)
    exact ⟨_, by
      simp only [getNextTime, ht, unwrapLR, bind_ok]
      exact addUnits_eq m hc.hour hn (by decide) hrep (by simp only [DT_MIN] at hlo ⊢; omega) hhi⟩
  case minute =>
    obtain ⟨t, ht, hlo, hhi⟩ := hmk (truncated c .minute)
    exact ⟨_, by
      simp only [getNextTime, ht, unwrapLR, bind_ok]
      exact addUnits_eq m hc.minute hn (by decide) hrep (by simp only [DT_MIN] at hlo ⊢; omega) hhi⟩
  case second =>
    obtain ⟨t, ht, hlo, hhi⟩ := hmk (truncated c .second)
    exact ⟨_, by
      simp only [getNextTime, ht, unwrapLR, bind_ok]
      exact addUnits_eq m hc.second hn (by decide) hrep (by simp only [DT_MIN] at hlo ⊢; omega) hhi⟩

/-! ### random delay -/

/-- `TimeTrigger::new` with a random delay `d ∈ [0, max)`: the schedule is `next + d`, so it is
not earlier than the undelayed boundary (and with `max = 0` it is the boundary itself). -/
theorem C16_delay_bounds (next maxDelay d : Int) (hd : 0 ≤ d ∧ d < maxDelay) (hmax : maxDelay ≤ DUR_MAX)
    (hr : DT_MIN ≤ next ∧ next + maxDelay ≤ DT_MAX) :
    schedule (.ok next) maxDelay d = .ok (next + d) ∧ next ≤ next + d ∧ next + d < next + maxDelay := by
  simp only [DUR_MAX, DT_MIN, DT_MAX] at *
  have hw : wrapI64 d = d := by simp only [wrapI64]; omega
  have hpos : maxDelay > 0 := by omega
  refine ⟨?_, by omega, by omega⟩
  simp only [schedule, bind_ok, hpos, if_true, hw]
  rw [dur_ok (by simp only [DUR_MAX]; omega), bind_ok, dtAdd_ok (by simp only [DT_MIN, DT_MAX]; omega)]
  simp

theorem C16_no_delay (next : Out Int) (d : Int) : schedule next 0 d = next := by
  cases next <;> simp [schedule, bind]

/-! ### firing: exactly on the first arrival at or after the schedule, once per boundary -/

/-- the specification of a run: at every arrival the trigger answers "fire" exactly when the arrival
is at or after the instant scheduled before it; a firing replaces the schedule by an instant
strictly after that arrival, a non-firing leaves it alone; no consultation panics. -/
def GoodRun : Int → List Int → List (Out Bool × TState) → Prop
  | _, [], [] => True
  | s, a :: as, (o, st) :: os =>
      (a < s ∧ o = .ok false ∧ st = .live s ∧ GoodRun s as os)
      ∨ (s ≤ a ∧ o = .ok true ∧ ∃ t, st = .live t ∧ a < t ∧ GoodRun t as os)
  | _, _, _ => False

/-- Induction over the arrival list: whatever the arrival times (any order, any repetition), if
every reschedule succeeds strictly into the future of its arrival, the run is a `GoodRun`. -/
theorem C16_fires_once (steps : List (Int × Out Int))
    (hfut : ∀ p ∈ steps, ∃ t, p.2 = .ok t ∧ p.1 < t) (s : Int) :
    GoodRun s (steps.map (·.1)) (run (.live s) steps) := by
  induction steps generalizing s with
  | nil => simp [run, GoodRun]
  | cons p rest ih =>
    obtain ⟨a, r⟩ := p
    obtain ⟨t, hr, hat⟩ := hfut (a, r) (by simp)
    have hrest : ∀ p ∈ rest, ∃ t, p.2 = .ok t ∧ p.1 < t := fun p hp => hfut p (by simp [hp])
    simp only at hr hat
    subst hr
    by_cases hge : a ≥ s
    · have hrun : run (.live s) ((a, .ok t) :: rest) = (.ok true, .live t) :: run (.live t) rest := by
        simp [run, step, hge]
      rw [List.map_cons, hrun]
      unfold GoodRun
      exact Or.inr ⟨hge, rfl, t, rfl, hat, ih hrest t⟩
    · have hrun : run (.live s) ((a, .ok t) :: rest) = (.ok false, .live s) :: run (.live s) rest := by
        simp [run, step, hge]
      rw [List.map_cons, hrun]
      unfold GoodRun
      exact Or.inl ⟨by omega, rfl, rfl, ih hrest s⟩

/-- "The first record at or after the scheduled instant": arrivals before the schedule do not fire
and leave it unchanged; the first one at or after it fires and moves the schedule strictly past
itself; the rest of the history continues from the new schedule. -/
theorem C16_fires_on_first_arrival_at_or_after (pre post : List (Int × Out Int)) (a t s : Int)
    (hpre : ∀ p ∈ pre, p.1 < s) (ha : s ≤ a) :
    run (.live s) (pre ++ (a, .ok t) :: post)
      = pre.map (fun _ => (.ok false, .live s)) ++ (.ok true, .live t) :: run (.live t) post := by
  induction pre with
  | nil => simp [run, step, ha]
  | cons p rest ih =>
    have hp : ¬ p.1 ≥ s := by have := hpre p (by simp); omega
    have hrest : ∀ q ∈ rest, q.1 < s := fun q hq => hpre q (by simp [hq])
    simp [run, step, hp, ih hrest]

/-- "Once per boundary": after a firing, no arrival before the new schedule fires again. -/
theorem C16_no_refire_before_next (steps : List (Int × Out Int)) (t : Int) (h : ∀ p ∈ steps, p.1 < t) :
    run (.live t) steps = steps.map (fun _ => (.ok false, .live t)) := by
  induction steps with
  | nil => simp [run]
  | cons p rest ih =>
    have hp : ¬ p.1 ≥ t := by have := h p (by simp); omega
    simp [run, step, hp, ih (fun q hq => h q (by simp [hq]))]

/-- Pre-process order: a record on which the trigger fires is the first record of a new file, the
records before it stay in the closed file (`segment` mirrors `RollingFileAppender::append`, where
the policy runs before the record is encoded). -/
theorem C16_fired_record_opens_new_file (k : Nat) :
    segment ((List.replicate k (some false)) ++ [some true])
      = [List.range' 1 k, [k + 1]] := by
  have gen : ∀ (k i : Nat) (cur : List Nat) (done : List (List Nat)),
      segment.go i cur done ((List.replicate k (some false)) ++ [some true])
        = done.reverse ++ [cur.reverse ++ List.range' i k, [i + k]] := by
    intro k
    induction k with
    | zero => intro i cur done; simp [segment.go]
    | succ k ih =>
      intro i cur done
      simp only [List.replicate_succ, List.cons_append, segment.go]
      rw [ih]
      simp [List.range'_succ, Nat.add_assoc, Nat.add_comm 1 k]
  simpa [segment, Nat.add_comm] using gen k 1 [] []

/-! ### the pieces together -/

/-- the boundary is at most n units after the truncated time (used for the range of the delay) -/
theorem C16_next_upper_bound {c : Civil} {L off : Int} {mk : CivilTime → LocalResult}
    (h : FixedOffsetView c L off mk) (u : IUnit) (hu : isCalendarUnit u = false) (n : Int) (m : Bool)
    (hn : 1 ≤ n) : expectedLocal c L u n m ≤ truncLocal L u + n * unitSecs u := by
  have hwd := h.weekday
  have hmod := incVal_mod (fieldOf c u) n
  obtain ⟨_, hi2⟩ := incVal_bounds (f := fieldOf c u) true hn
  have hpos : 0 ≤ unitSecs u := by cases u <;> decide
  have hmul : incVal (fieldOf c u) n true * unitSecs u ≤ n * unitSecs u := mul_le_of_le hi2 hpos
  have hst : startOfUnit c L u ≤ truncLocal L u := by
    cases u <;> simp [isCalendarUnit] at hu <;> simp only [startOfUnit, truncLocal] <;> omega
  simp only [expectedLocal, startOfPeriod]
  cases m
  · simp; omega
  · have e : (fieldOf c u / n + 1) * n * unitSecs u
        = fieldOf c u * unitSecs u + incVal (fieldOf c u) n true * unitSecs u := by
      rw [← hmod, Int.add_mul]
    simp only [if_true]; rw [e]; omega

/-- The whole trigger in a zone of constant offset: whatever the arrival times, with every
consultation answered from chrono's fixed-offset view of that arrival and any random delays in
`[0, max)`, the run is a `GoodRun`: fires exactly at arrivals at or after the schedule, reschedules
strictly later, never panics. -/
theorem C16_trigger_in_fixed_offset_zone (u : IUnit) (hu : isCalendarUnit u = false) (n : Int) (m : Bool)
    (hn : 1 ≤ n) (hdur : n * unitSecs u ≤ DUR_MAX) (off maxDelay : Int) (mk : CivilTime → LocalResult)
    (hmax : 0 ≤ maxDelay ∧ maxDelay ≤ DUR_MAX) (steps : List (Int × Out Int))
    (hsteps : ∀ p ∈ steps, ∃ (c : Civil) (d : Int), FixedOffsetView c (p.1 + off) off mk
      ∧ DT_MIN + 518400 ≤ truncLocal (p.1 + off) u - off
      ∧ truncLocal (p.1 + off) u - off + n * unitSecs u + maxDelay ≤ DT_MAX
      ∧ (0 < maxDelay → 0 ≤ d ∧ d < maxDelay)
      ∧ p.2 = schedule (getNextTime c u n m mk) maxDelay d) (s : Int) :
    GoodRun s (steps.map (·.1)) (run (.live s) steps) := by
  apply C16_fires_once
  intro p hp
  obtain ⟨c, d, hv, hlo, hhi, hd, hp2⟩ := hsteps p hp
  have hb := C16_boundary_fixed_units hv u hu n m hn hdur hlo (by omega)
  obtain ⟨t, ht, hlt⟩ := C16_next_after_now_fixed_units hv u hu n m hn hdur hlo (by omega)
  have hub := C16_next_upper_bound hv u hu n m hn
  have htr : truncLocal (p.1 + off) u ≤ p.1 + off := by
    cases u <;> simp only [truncLocal] <;> omega
  rw [hb] at ht
  cases ht
  rw [hp2, hb]
  by_cases hz : 0 < maxDelay
  · obtain ⟨hd0, hd1⟩ := hd hz
    obtain ⟨e, _, _⟩ := C16_delay_bounds (expectedLocal c (p.1 + off) u n m - off) maxDelay d ⟨hd0, hd1⟩ hmax.2
      ⟨by simp only [DT_MIN] at hlo ⊢; omega, by omega⟩
    exact ⟨_, e, by omega⟩
  · have : maxDelay = 0 := by omega
    subst this
    exact ⟨_, C16_no_delay _ d, by omega⟩

/-! ### the unconditional statements, and why they are false of the code -/

/-- "None of this panics for any time zone, daylight-saving transition or configured interval." -/
def C16_no_panic_statement : Prop :=
  ∀ (c : Civil) (u : IUnit) (n : Int) (m : Bool) (mk : CivilTime → LocalResult), CivilSane c → 1 ≤ n →
    ∃ t, getNextTime c u n m mk = .ok t

/-- chrono's decomposition of 2026-10-25 02:30:00 local in Europe/Berlin (either occurrence) -/
def berlinOverlap : Civil := ⟨2026, 9, 25, 297, 42, 6, 2, 30, 0⟩
/-- `Local.with_ymd_and_hms(2026, 10, 25, 2, 0, 0)` under TZ=Europe/Berlin, as observed -/
def berlinOverlapMk : CivilTime → LocalResult := fun q =>
  if q = ⟨2026, 10, 25, 2, 0, 0⟩ then .ambiguous 1792886400 1792890000 else .none

/-- F9 on its witness: 1-hour interval, any record between 02:00 and 03:00 (twice) on the day the
clocks go back: `unwrap` of an ambiguous local time panics. -/
theorem C16_panics_in_dst_overlap :
    getNextTime berlinOverlap .hour 1 false berlinOverlapMk = .panic "mk-ambiguous" := by decide

/-- an absurd interval: `Duration::seconds(i64::MAX)` is outside chrono's range -/
theorem C16_panics_on_absurd_interval (c : Civil) (t : Int) :
    getNextTime c .second I64_MAX false (fun _ => .single t) = .panic "duration" := by
  simp [getNextTime, unwrapLR, incI64, dur, I64_MAX, I64_MIN, DUR_MAX]

theorem C16_no_panic_statement_false : ¬ C16_no_panic_statement := by
  intro h
  obtain ⟨t, ht⟩ := h berlinOverlap .hour 1 false berlinOverlapMk
    ⟨by decide, by decide, by decide, by decide, by decide, by decide, by decide, by decide⟩ (by decide)
  rw [C16_panics_in_dst_overlap] at ht
  cases ht

/-- "The next scheduled rotation lies strictly after the current instant", for the day unit in an
arbitrary zone: all that is known of the zone is that today's local midnight resolves to a single
instant `time` not after `now`, and that a local day lasts at most 25 hours. -/
def C16_after_now_statement : Prop :=
  ∀ (c : Civil) (n : Int) (m : Bool) (mk : CivilTime → LocalResult) (time now : Int), CivilSane c → 1 ≤ n →
    mk (truncated c .day) = .single time → time ≤ now → now < time + 90000 →
    ∀ t, getNextTime c .day n m mk = .ok t → now < t

/-- chrono's decomposition of 2026-10-25 23:30:00 CET in Europe/Berlin (a 25-hour day) -/
def berlinLongDay : Civil := ⟨2026, 9, 25, 297, 42, 6, 23, 30, 0⟩
/-- midnight of that day is 2026-10-24T22:00:00Z (CEST) -/
def berlinLongDayMk : CivilTime → LocalResult := fun q =>
  if q = ⟨2026, 10, 25, 0, 0, 0⟩ then .single 1792879200 else .none

/-- F12 on its witness: now = 2026-10-25T22:30:00Z, the schedule is 22:00:00Z — half an hour ago. -/
theorem C16_day_schedule_not_after_now :
    getNextTime berlinLongDay .day 1 false berlinLongDayMk = .ok 1792965600 ∧ ¬ (1792967400 < (1792965600 : Int)) := by
  decide

theorem C16_after_now_statement_false : ¬ C16_after_now_statement := by
  intro h
  have := h berlinLongDay 1 false berlinLongDayMk 1792879200 1792967400
    ⟨by decide, by decide, by decide, by decide, by decide, by decide, by decide, by decide⟩
    (by decide) (by decide) (by decide) (by decide) 1792965600 C16_day_schedule_not_after_now.1
  omega

/-- the consequence for the trigger: with a schedule that is not after now, every record fires
(records at 23:30:10, 23:30:20 CET both roll the file; compare `C16_no_refire_before_next`) -/
theorem C16_fires_on_every_record_on_long_day :
    (run (.live 1792965600) [(1792967410, .ok 1792965600), (1792967420, .ok 1792965600)]).map (·.1)
      = [.ok true, .ok true] := by decide

/-! ### the repaired code (`getNextTimeFixed`, `scheduleFixed`, `runFixed`): the full statements

The statements that are false of the current code (`C16_no_panic_statement`,
`C16_after_now_statement`) hold of the repaired algorithm without any hypothesis on the zone. -/

/-- FULL no-panic statement for the repaired code: every civil decomposition, every answer of
chrono (any zone, any DST transition), every unit, every multiplier (even below 1), both modes. -/
theorem C16_no_panic_fixed (c : Civil) (e : Env) (u : IUnit) (n : Int) (m : Bool) :
    ∃ t, getNextTimeFixed c e u n m = .ok t := by
  obtain ⟨r, hr⟩ := checkedNextFixed_no_panic c e u n m
  unfold getNextTimeFixed
  rw [hr, bind_ok]
  cases r
  · exact ⟨_, rfl⟩
  · simp only []; split <;> exact ⟨_, rfl⟩

/-- FULL strictly-after statement for the repaired code: unconditional in zone, unit, multiplier
and chrono's answers; the only hypothesis is that the clock is before the "never" instant
(9999-12-31T23:59:59Z). -/
theorem C16_after_now_fixed (c : Civil) (e : Env) (u : IUnit) (n : Int) (m : Bool) (hnow : e.now < FAR) :
    ∃ t, getNextTimeFixed c e u n m = .ok t ∧ e.now < t := by
  obtain ⟨r, hr⟩ := checkedNextFixed_no_panic c e u n m
  unfold getNextTimeFixed
  rw [hr, bind_ok]
  cases r
  · exact ⟨_, rfl, hnow⟩
  · rename_i t
    simp only []
    by_cases h : t > e.now
    · exact ⟨t, by simp [h], h⟩
    · exact ⟨FAR, by simp [h], hnow⟩

/-- Hour, minute, second in ANY zone: with `off` the UTC offset at `current`, the schedule is the
instant whose rendering under that same offset is the specification's boundary — so wherever the
offset does not change before it, it falls on the unit boundary in local time. No answer of
chrono about local times is involved (the unit start is found on the UTC time line). -/
theorem C16_boundary_fixed_subday (c : Civil) (e : Env) (off : Int) (u : IUnit)
    (hu : u = .second ∨ u = .minute ∨ u = .hour) (n : Int) (m : Bool) (hn : 1 ≤ n)
    (hsec : c.second = e.L % 60) (hmin : c.minute = e.L / 60 % 60) (hhour : c.hour = e.L / 3600 % 24)
    (hnow : e.now = e.L - off) (hdur : n * unitSecs u ≤ DUR_MAX)
    (hlo : DT_MIN ≤ e.now) (hhi : e.now + n * unitSecs u ≤ DT_MAX) :
    getNextTimeFixed c e u n m = .ok (expectedLocal c e.L u n m - off) := by
  have hmod := incVal_mod (fieldOf c u) n
  generalize hq : (fieldOf c u / n + 1) * n = q at hmod
  obtain ⟨hi1, hi2⟩ := incVal_bounds (f := fieldOf c u) m hn
  simp only [DUR_MAX, DT_MIN, DT_MAX] at hdur hlo hhi
  rcases hu with rfl | rfl | rfl <;> simp only [fieldOf, unitSecs] at hdur hhi hmod hq hi1 hi2
  · -- second
    have hnb : n ≤ I64_MAX := by simp only [I64_MAX]; omega
    have hsp := spanFixed_ok (count := incVal c.second n m) (unit := 1) (by omega) (by simp only [DUR_MAX]; omega)
    have hr : DT_MIN ≤ e.now + (incVal c.second n m * 1 - 0) ∧ e.now + (incVal c.second n m * 1 - 0) ≤ DT_MAX := by
      simp only [DT_MIN, DT_MAX]; omega
    have hgt : e.now + (incVal c.second n m * 1 - 0) > e.now := by omega
    simp only [getNextTimeFixed, checkedNextFixed, incFixed_eq m hn (by omega : 0 ≤ c.second) hnb,
      unitStartPlus, hsp, bind_ok, hr, and_self, if_true, hgt]
    simp only [expectedLocal, startOfPeriod, startOfUnit, fieldOf, unitSecs, hq]
    cases m <;> simp [incVal] at hmod ⊢ <;> omega
  · -- minute
    have hnb : n ≤ I64_MAX := by simp only [I64_MAX]; omega
    have hsp := spanFixed_ok (count := incVal c.minute n m) (unit := 60) (by omega) (by simp only [DUR_MAX]; omega)
    have hr : DT_MIN ≤ e.now + (incVal c.minute n m * 60 - c.second) ∧ e.now + (incVal c.minute n m * 60 - c.second) ≤ DT_MAX := by
      simp only [DT_MIN, DT_MAX]; omega
    have hgt : e.now + (incVal c.minute n m * 60 - c.second) > e.now := by omega
    simp only [getNextTimeFixed, checkedNextFixed, incFixed_eq m hn (by omega : 0 ≤ c.minute) hnb,
      unitStartPlus, hsp, bind_ok, hr, and_self, if_true, hgt]
    simp only [expectedLocal, startOfPeriod, startOfUnit, fieldOf, unitSecs, hq]
    cases m <;> simp [incVal] at hmod ⊢ <;> omega
  · -- hour
    have hnb : n ≤ I64_MAX := by simp only [I64_MAX]; omega
    have hsp := spanFixed_ok (count := incVal c.hour n m) (unit := 3600) (by omega) (by simp only [DUR_MAX]; omega)
    have hr : DT_MIN ≤ e.now + (incVal c.hour n m * 3600 - (c.minute * 60 + c.second))
        ∧ e.now + (incVal c.hour n m * 3600 - (c.minute * 60 + c.second)) ≤ DT_MAX := by
      simp only [DT_MIN, DT_MAX]; omega
    have hgt : e.now + (incVal c.hour n m * 3600 - (c.minute * 60 + c.second)) > e.now := by omega
    simp only [getNextTimeFixed, checkedNextFixed, incFixed_eq m hn (by omega : 0 ≤ c.hour) hnb,
      unitStartPlus, hsp, bind_ok, hr, and_self, if_true, hgt]
    simp only [expectedLocal, startOfPeriod, startOfUnit, fieldOf, unitSecs, hq]
    cases m <;> simp [incVal] at hmod ⊢ <;> omega

/-- Day and week in ANY zone: unless the boundary's local time falls in a DST gap, the schedule is
an instant chrono offers for exactly the specification's local boundary (local midnight, Monday
aligned for weeks) — or "never" if that instant were not after `current`. -/
theorem C16_boundary_fixed_day_week (c : Civil) (e : Env) (u : IUnit) (hu : u = .day ∨ u = .week)
    (n : Int) (m : Bool) (hn : 1 ≤ n) (hf : 0 ≤ fieldOf c u) (hwd : 0 ≤ c.weekday ∧ c.weekday ≤ 6)
    (hdur : n * unitSecs u ≤ DUR_MAX)
    (hlo : DT_MIN + 518400 ≤ e.L - e.L % 86400) (hhi : e.L + n * unitSecs u ≤ DT_MAX)
    (hgap : e.mkL (expectedLocal c e.L u n m) ≠ .none) :
    ∃ t, Occurrence e.mkL (expectedLocal c e.L u n m) t
      ∧ getNextTimeFixed c e u n m = .ok (if t > e.now then t else FAR) := by
  have htgt := target_day_week c e.L u hu n m
  obtain ⟨t, hres, hocc⟩ := resolveAfter_occurrence (now := e.now) 199 hgap
  refine ⟨t, hocc, ?_⟩
  obtain ⟨hi1, hi2⟩ := incVal_bounds (f := fieldOf c u) m hn
  simp only [DUR_MAX, DT_MIN, DT_MAX] at hdur hlo hhi
  have hnb : n ≤ I64_MAX := by
    rcases hu with rfl | rfl <;> simp only [unitSecs] at hdur <;> simp only [I64_MAX] <;> omega
  rcases hu with rfl | rfl <;> simp only [fieldOf, unitSecs] at hdur hhi hi1 hi2 hf
  · -- day
    simp only [if_false, reduceCtorEq] at htgt
    have hsp := spanFixed_ok (count := incVal c.ordinal0 n m) (unit := 86400) (by omega) (by simp only [DUR_MAX]; omega)
    have hr : DT_MIN ≤ e.L - e.L % 86400 + incVal c.ordinal0 n m * 86400
        ∧ e.L - e.L % 86400 + incVal c.ordinal0 n m * 86400 ≤ DT_MAX := by simp only [DT_MIN, DT_MAX]; omega
    rw [htgt] at hr
    simp only [getNextTimeFixed, checkedNextFixed, incFixed_eq m hn hf hnb, midnightPlus, hsp, bind_ok, hr,
      and_self, if_true, htgt, hres]
    split <;> rfl
  · -- week
    simp only [if_true] at htgt
    have h7 : inI64 (incVal c.week0 n m * 7) = true ∧ inI64 (incVal c.week0 n m * 7 - c.weekday) = true := by
      constructor <;> (unfold inI64; exact decide_eq_true (by simp only [I64_MIN, I64_MAX]; omega))
    have hsp := spanFixed_ok (count := incVal c.week0 n m * 7 - c.weekday) (unit := 86400) (by omega)
      (by simp only [DUR_MAX]; omega)
    have hr : DT_MIN ≤ e.L - e.L % 86400 + (incVal c.week0 n m * 7 - c.weekday) * 86400
        ∧ e.L - e.L % 86400 + (incVal c.week0 n m * 7 - c.weekday) * 86400 ≤ DT_MAX := by
      simp only [DT_MIN, DT_MAX]; omega
    rw [htgt] at hr
    simp only [getNextTimeFixed, checkedNextFixed, incFixed_eq m hn hf hnb, h7, and_self, if_true, midnightPlus,
      hsp, bind_ok, hr, htgt, hres]
    split <;> rfl

/-- … and where the offset does not change in between (chrono resolves the boundary's local time
with the offset `off` of `current`) the schedule is that boundary, in UTC seconds. -/
theorem C16_boundary_fixed_day_week_same_offset (c : Civil) (e : Env) (off : Int) (u : IUnit)
    (hu : u = .day ∨ u = .week) (n : Int) (m : Bool) (hn : 1 ≤ n) (hf : 0 ≤ fieldOf c u)
    (hwd : 0 ≤ c.weekday ∧ c.weekday ≤ 6) (hdur : n * unitSecs u ≤ DUR_MAX)
    (hlo : DT_MIN + 518400 ≤ e.L - e.L % 86400) (hhi : e.L + n * unitSecs u ≤ DT_MAX)
    (hnow : e.now = e.L - off)
    (hmk : e.mkL (expectedLocal c e.L u n m) = .single (expectedLocal c e.L u n m - off)) :
    getNextTimeFixed c e u n m = .ok (expectedLocal c e.L u n m - off) := by
  obtain ⟨t, hocc, hres⟩ := C16_boundary_fixed_day_week c e u hu n m hn hf hwd hdur hlo hhi (by rw [hmk]; simp)
  have ht : t = expectedLocal c e.L u n m - off := by
    rcases hocc with h | ⟨a, b, h, _⟩
    · rw [hmk] at h; cases h; rfl
    · rw [hmk] at h; cases h
  subst ht
  -- the boundary is after `current` in local time
  have hgt : expectedLocal c e.L u n m > e.L := by
    obtain ⟨hi1, _⟩ := incVal_bounds (f := fieldOf c u) m hn
    rw [← target_day_week c e.L u hu n m]
    rcases hu with rfl | rfl <;> simp [fieldOf] at hi1 ⊢ <;> omega
  rw [hres, if_pos (by omega)]

/-- Month and year in any zone where the target date exists and is not in a gap: the schedule is
an instant chrono offers for local midnight of the first of the specification's month. With the
same offset as `current` (`hmk`) and a calendar in which a later month starts later (`hlater`) it is
exactly that boundary. -/
theorem C16_boundary_fixed_calendar (c : Civil) (e : Env) (off : Int) (u : IUnit)
    (hu : isCalendarUnit u = true) (n : Int) (m : Bool) (hn : 1 ≤ n)
    (hy : 0 ≤ c.year) (hm0 : 0 ≤ c.month0 ∧ c.month0 ≤ 11) (hb : c.year + n ≤ I32_MAX)
    (lt : Int) (hnaive : e.naiveOf (civilOfMonthIndex (expectedMonthIndex c u n m)) = some lt)
    (hmk : e.mkL lt = .single (lt - off)) (hnow : e.now = e.L - off) (hlater : e.L < lt) :
    getNextTimeFixed c e u n m = .ok (lt - off) := by
  simp only [I32_MAX] at hb
  have hnb : n ≤ I64_MAX := by simp only [I64_MAX]; omega
  have hres : resolveAfter e.mkL e.now 200 lt = some (lt - off) := by
    show resolveAfter e.mkL e.now (199 + 1) lt = _
    unfold resolveAfter; rw [hmk]
  have hgt : lt - off > e.now := by omega
  cases u <;> simp [isCalendarUnit] at hu
  · -- month
    obtain ⟨hi1, hi2⟩ := incVal_bounds (f := c.month0) m hn
    have hmod := incVal_mod c.month0 n
    have hidx : expectedMonthIndex c .month n m = incVal c.month0 n m + (c.year * 12 + c.month0) := by
      generalize hq : (c.month0 / n + 1) * n = q at hmod
      cases m <;> simp [expectedMonthIndex, incVal, hq] at hmod ⊢ <;> omega
    rw [hidx] at hnaive
    simp only [civilOfMonthIndex] at hnaive
    have h1 : inI64 (incVal c.month0 n m + (c.year * 12 + c.month0)) = true := by
      unfold inI64; exact decide_eq_true (by simp only [I64_MIN, I64_MAX]; omega)
    have h2 : I32_MIN ≤ (incVal c.month0 n m + (c.year * 12 + c.month0)) / 12
        ∧ (incVal c.month0 n m + (c.year * 12 + c.month0)) / 12 ≤ I32_MAX := by
      simp only [I32_MIN, I32_MAX]; omega
    simp only [getNextTimeFixed, checkedNextFixed, incFixed_eq m hn hm0.1 hnb, h1, if_true, firstOfMonth, h2,
      and_self, hnaive, hres, bind_ok, hgt]
  · -- year
    obtain ⟨hi1, hi2⟩ := incVal_bounds (f := c.year) m hn
    have hmod := incVal_mod c.year n
    have hidx : expectedMonthIndex c .year n m = (incVal c.year n m + c.year) * 12 := by
      generalize hq : (c.year / n + 1) * n = q at hmod
      cases m <;> simp [expectedMonthIndex, incVal, hq] at hmod ⊢ <;> omega
    rw [hidx] at hnaive
    simp only [civilOfMonthIndex] at hnaive
    have h1 : inI64 (incVal c.year n m + c.year) = true ∧ inI64 ((incVal c.year n m + c.year) * 12) = true := by
      constructor <;> (unfold inI64; exact decide_eq_true (by simp only [I64_MIN, I64_MAX]; omega))
    have h2 : I32_MIN ≤ (incVal c.year n m + c.year) * 12 / 12 ∧ (incVal c.year n m + c.year) * 12 / 12 ≤ I32_MAX := by
      simp only [I32_MIN, I32_MAX]; omega
    simp only [getNextTimeFixed, checkedNextFixed, incFixed_eq m hn hy hnb, h1, and_self, if_true, firstOfMonth, h2,
      hnaive, hres, bind_ok, hgt]

/-! ### the repaired trigger: fires once per boundary in every zone -/

/-- The whole repaired trigger, in EVERY zone and for every configuration: whatever chrono answers
at each arrival, whatever the unit, multiplier, mode and (non-negative) random delays, and whatever
the arrival times (before the "never" instant), the run is a `GoodRun` — it fires exactly on
arrivals at or after the schedule, reschedules strictly after them, and never panics. -/
theorem C16_trigger_fixed (u : IUnit) (n : Int) (m : Bool) (maxDelay : Int) (steps : List (Int × Out Int))
    (hsteps : ∀ p ∈ steps, p.1 < FAR ∧ ∃ (c : Civil) (e : Env) (d : Int), e.now = p.1 ∧ 0 ≤ d
      ∧ p.2 = scheduleFixed (getNextTimeFixed c e u n m) maxDelay d) (s : Int) :
    GoodRun s (steps.map (·.1)) (runFixed (.live s) steps) := by
  have hfut : ∀ p ∈ steps, ∃ t, p.2 = .ok t ∧ p.1 < t := by
    intro p hp
    obtain ⟨hfar, c, e, d, hnow, hd, hp2⟩ := hsteps p hp
    obtain ⟨t, ht, hlt⟩ := C16_after_now_fixed c e u n m (by omega)
    obtain ⟨t', ht', hle⟩ := scheduleFixed_ok t maxDelay d hd
    exact ⟨t', by rw [hp2, ht, ht'], by omega⟩
  rw [runFixed_eq_run steps (fun p hp => let ⟨t, ht, _⟩ := hfut p hp; ⟨t, ht⟩)]
  exact C16_fires_once steps hfut s

/-- test (sample), the F12 witness under the repaired algorithm: Europe/Berlin 2026-10-25 23:30 CET,
1 day: the schedule is local midnight 2026-10-26 00:00 CET = 23:00:00Z, half an hour ahead -/
example : getNextTimeFixed berlinLongDay
    { L := 1792971000, now := 1792967400, naiveOf := fun _ => none,
      mkL := fun l => if l = 1792972800 then .single 1792969200 else .none } .day 1 false
    = .ok 1792969200 := by decide

/-- test (sample), the F9 witness under the repaired algorithm: 02:30 CEST (first occurrence), 1 hour:
the unit started 30 minutes ago on the UTC time line, the schedule is 01:00:00Z = 02:00 CET; chrono
is not asked about any local time -/
example : getNextTimeFixed berlinOverlap
    { L := 1792895400, now := 1792888200, naiveOf := fun _ => none, mkL := fun _ => .none } .hour 1 false
    = .ok 1792890000 := by decide

/-- test (sample): an absurd interval saturates to "never" instead of panicking -/
example : getNextTimeFixed berlinOverlap
    { L := 1792895400, now := 1792888200, naiveOf := fun _ => none, mkL := fun _ => .none } .second I64_MAX false
    = .ok FAR := by decide

/-! ### non-vacuity: the hypotheses hold on concrete non-trivial inputs -/

/-- 2024-02-29 23:59:58 UTC+5:45 (Asia/Kathmandu): L = 1709251198, a leap day, modulated 7-second
interval crossing the minute, day and month end -/
def kathmanduLeap : Civil := ⟨2024, 1, 29, 59, 8, 3, 23, 59, 58⟩

example : FixedOffsetView kathmanduLeap 1709251198 20700
    (fun q => .single ((truncLocal 1709251198
      (if q.s ≠ 0 then .second else if q.mi ≠ 0 then .minute else if q.h ≠ 0 then .hour else .day)) - 20700)) :=
  ⟨by decide, by decide, by decide, by decide, by decide, by decide, by
    intro u hu; cases u <;> simp [isCalendarUnit] at hu <;> decide⟩

/-- test (sample): modulated 7 s at 23:59:58 → 00:00:03 next day (56 + 7 = 63 s from the minute start) -/
example : expectedLocal kathmanduLeap 1709251198 .second 7 true = 1709251203 := by decide

/-- test (sample): a run with two boundaries: fires at the first arrival ≥ 10, not at 12, 14, fires at 20 -/
example : (run (.live 10) [(3, .ok 15), (11, .ok 15), (12, .ok 15), (14, .ok 15), (20, .ok 25)]).map (·.1)
    = [.ok false, .ok true, .ok false, .ok false, .ok true] := by decide

example : Representable kathmanduLeap .month 61 := by simp [Representable, kathmanduLeap, U32_MAX]

end Log4rs.TimeTrigger
