import Log4rsModel.TimeTrigger.Lemmas
import Log4rsModel.TimeTrigger.Historic
/-
C16 — Time trigger schedules the right boundary, fires once per boundary, never panics.

Every theorem named `C16_*` is about the CURRENT code (`time.rs` since the `fix:` commit 80d997f),
modelled by `getNextTimeFixed` / `scheduleFixed` / `stepFixed` / `runFixed` (TimeTrigger/Model.lean),
or about the executable specification (TimeTrigger/Spec.lean). chrono is an input of the model:
`Civil` = its decomposition of `current`, `Env.L` / `Env.now` = local and UTC seconds of `current`,
`Env.mkL` = `Local.from_local_datetime`, `Env.naiveOf` = `NaiveDate::from_ymd_opt(..).and_hms_opt(..)`.
The theorems about the code before the fix (and the negative witnesses of the repaired defects) are
in TimeTrigger/Historic.lean under the names `Hist_C16_*`; they are not obligations of C16.

Map of the statement:
  strictly after now            C16_after_now_fixed, C16_next_within_n_units_subday
  boundary, plain / modulated   C16_boundary_fixed_subday(_from_L), C16_boundary_fixed_day_week(_same_offset, _gap),
                                C16_boundary_fixed_calendar(_any_zone); what the boundary IS: C16_expected_from_L_*,
                                C16_plain_is_unit_boundary, C16_week_is_monday_midnight, C16_modulated_is_multiple_of_n
  fires on first arrival ≥ schedule, reschedules to the boundary, once per boundary
                                C16_fires_once_fixed, C16_trigger_fixed, C16_trigger_fixed_on_boundary(_day_week, _calendar),
                                C16_fires_on_first_arrival_at_or_after_fixed, C16_no_refire_before_next_fixed,
                                C16_schedules_strictly_increase
  before the record is written  C16_files_meet_spec, C16_files_of_run
  random delay                  C16_delay_bounds_fixed, C16_delay_total_fixed
  never panics                  C16_no_panic_fixed, C16_trigger_fixed
-/
namespace Log4rs.TimeTrigger

/-! ### what the specification's boundary is -/

/-- the time-of-day fields chrono reports are those of the local seconds `L` -/
structure SubdayView (c : Civil) (L : Int) : Prop where
  second : c.second = L % 60
  minute : c.minute = L / 60 % 60
  hour : c.hour = L / 3600 % 24

/-- Second, minute, hour: with chrono's fields being those of `L`, the specification is a function
of the local seconds alone; in particular the enclosing period starts at the minute / hour / day
containing `L`, not at whatever a field says. -/
theorem C16_expected_from_L_subday {c : Civil} {L : Int} (h : SubdayView c L) (u : IUnit)
    (hu : u = .second ∨ u = .minute ∨ u = .hour) (n : Int) (m : Bool) :
    expectedLocal c L u n m = expectedFromL L u n m := by
  have h1 := h.second; have h2 := h.minute; have h3 := h.hour
  rcases hu with rfl | rfl | rfl <;> cases m <;>
    simp [expectedLocal, expectedFromL, startOfPeriod, startOfUnit, fieldOf, unitSecs, h1, h2, h3] <;> omega

/-- … and the start of the enclosing period is the start of the minute / hour / day of `L` -/
theorem C16_period_start_from_L {c : Civil} {L : Int} (h : SubdayView c L) :
    startOfPeriod c L .second = L - L % 60 ∧ startOfPeriod c L .minute = L - L % 3600
      ∧ startOfPeriod c L .hour = L - L % 86400 := by
  have h1 := h.second; have h2 := h.minute; have h3 := h.hour
  simp only [startOfPeriod, startOfUnit, fieldOf, unitSecs, h1, h2, h3]
  omega

/-- Plain day and week: with the weekday being that of `L` (1970-01-01 was a Thursday) the
specification is local midnight + n days, resp. Monday 00:00 of this week + n weeks. -/
theorem C16_expected_from_L_day_week_plain (c : Civil) (L n : Int) (hwd : c.weekday = (L / 86400 + 3) % 7) :
    expectedLocal c L .day n false = expectedFromL L .day n false
      ∧ expectedLocal c L .week n false = expectedFromL L .week n false := by
  simp [expectedLocal, expectedFromL, startOfUnit, unitSecs, hwd]

/-- The plain boundary of a fixed-length unit other than the week is a whole multiple of the unit
in local time: a full second, minute (`% 60 = 0`), hour, or local midnight. -/
theorem C16_plain_is_unit_boundary (c : Civil) (L n : Int) (u : IUnit)
    (hu : u = .second ∨ u = .minute ∨ u = .hour ∨ u = .day) : expectedLocal c L u n false % unitSecs u = 0 := by
  rcases hu with rfl | rfl | rfl | rfl <;> simp only [expectedLocal, startOfUnit, unitSecs] <;> simp <;> omega

/-- The week boundary (plain or modulated) is a Monday, 00:00 local time, when chrono's weekday is
that of `L`. -/
theorem C16_week_is_monday_midnight (c : Civil) (L n : Int) (m : Bool) (hwd : c.weekday = (L / 86400 + 3) % 7) :
    (expectedLocal c L .week n m / 86400 + 3) % 7 = 0 ∧ expectedLocal c L .week n m % 86400 = 0 := by
  generalize hq : (c.week0 / n + 1) * n = q
  cases m <;> simp [expectedLocal, startOfPeriod, startOfUnit, fieldOf, unitSecs, hwd, hq] <;> omega

/-- With modulation the boundary of second / minute / hour lies a whole multiple of `n` units after
the start of the minute / hour / day of `L`. -/
theorem C16_modulated_is_multiple_of_n (L n : Int) :
    (expectedFromL L .second n true - (L - L % 60)) % n = 0
      ∧ (expectedFromL L .minute n true - (L - L % 3600)) % (n * 60) = 0
      ∧ (expectedFromL L .hour n true - (L - L % 86400)) % (n * 3600) = 0 := by
  simp only [expectedFromL, if_true]
  refine ⟨?_, ?_, ?_⟩
  · have : L - L % 60 + (L % 60 / n + 1) * n - (L - L % 60) = (L % 60 / n + 1) * n := by omega
    rw [this]; exact Int.mul_emod_left _ _
  · have : L - L % 3600 + (L / 60 % 60 / n + 1) * n * 60 - (L - L % 3600) = (L / 60 % 60 / n + 1) * (n * 60) := by
      rw [Int.mul_assoc]; omega
    rw [this]; exact Int.mul_emod_left _ _
  · have : L - L % 86400 + (L / 3600 % 24 / n + 1) * n * 3600 - (L - L % 86400) = (L / 3600 % 24 / n + 1) * (n * 3600) := by
      rw [Int.mul_assoc]; omega
    rw [this]; exact Int.mul_emod_left _ _

/-! ### no panic, strictly after now: the full statements, every zone -/

/-- FULL no-panic statement for the repaired code: every civil decomposition, every answer of
chrono (any zone, any DST transition), every unit, every multiplier (even below 1), both modes. -/
theorem C16_no_panic_fixed (c : Civil) (e : Env) (u : IUnit) (n : Int) (m : Bool) :
    ∃ t, getNextTimeFixed c e u n m = .ok t := by
  obtain ⟨r, hr⟩ := checkedNextFixed_no_panic c e u n m
  unfold getNextTimeFixed
  rw [hr, bind_ok]
  cases r
  · exact ⟨_, rfl⟩
  · simp only []; split <;> exact ⟨_, rfl⟩

/-- FULL strictly-after statement for the repaired code: unconditional in zone, unit, multiplier
and chrono's answers; the only hypothesis is that the clock is before the "never" instant
(9999-12-31T23:59:59Z). -/
theorem C16_after_now_fixed (c : Civil) (e : Env) (u : IUnit) (n : Int) (m : Bool) (hnow : e.now < FAR) :
    ∃ t, getNextTimeFixed c e u n m = .ok t ∧ e.now < t := by
  obtain ⟨r, hr⟩ := checkedNextFixed_no_panic c e u n m
  unfold getNextTimeFixed
  rw [hr, bind_ok]
  cases r
  · exact ⟨_, rfl, hnow⟩
  · rename_i t
    simp only []
    by_cases h : t > e.now
    · exact ⟨t, by simp [h], h⟩
    · exact ⟨FAR, by simp [h], hnow⟩

/-- Hour, minute, second in ANY zone: with `off` the UTC offset at `current`, the schedule is the
instant whose rendering under that same offset is the specification's boundary — so wherever the
offset does not change before it, it falls on the unit boundary in local time. No answer of
chrono about local times is involved (the unit start is found on the UTC time line). -/
theorem C16_boundary_fixed_subday (c : Civil) (e : Env) (off : Int) (u : IUnit)
    (hu : u = .second ∨ u = .minute ∨ u = .hour) (n : Int) (m : Bool) (hn : 1 ≤ n)
    (hsec : c.second = e.L % 60) (hmin : c.minute = e.L / 60 % 60) (hhour : c.hour = e.L / 3600 % 24)
    (hnow : e.now = e.L - off) (hdur : n * unitSecs u ≤ DUR_MAX)
    (hlo : DT_MIN ≤ e.now) (hhi : e.now + n * unitSecs u ≤ DT_MAX) :
    getNextTimeFixed c e u n m = .ok (expectedLocal c e.L u n m - off) := by
  have hmod := incVal_mod (fieldOf c u) n
  generalize hq : (fieldOf c u / n + 1) * n = q at hmod
  obtain ⟨hi1, hi2⟩ := incVal_bounds (f := fieldOf c u) m hn
  simp only [DUR_MAX, DT_MIN, DT_MAX] at hdur hlo hhi
  rcases hu with rfl | rfl | rfl <;> simp only [fieldOf, unitSecs] at hdur hhi hmod hq hi1 hi2
  · -- second
    have hnb : n ≤ I64_MAX := by simp only [I64_MAX]; omega
    have hsp := spanFixed_ok (count := incVal c.second n m) (unit := 1) (by omega) (by simp only [DUR_MAX]; omega)
    have hr : DT_MIN ≤ e.now + (incVal c.second n m * 1 - 0) ∧ e.now + (incVal c.second n m * 1 - 0) ≤ DT_MAX := by
      simp only [DT_MIN, DT_MAX]; omega
    have hgt : e.now + (incVal c.second n m * 1 - 0) > e.now := by omega
    simp only [getNextTimeFixed, checkedNextFixed, incFixed_eq m hn (by omega : 0 ≤ c.second) hnb,
      unitStartPlus, hsp, bind_ok, hr, and_self, if_true, hgt]
    simp only [expectedLocal, startOfPeriod, startOfUnit, fieldOf, unitSecs, hq]
    cases m <;> simp [incVal] at hmod ⊢ <;> omega
  · -- minute
    have hnb : n ≤ I64_MAX := by simp only [I64_MAX]; omega
    have hsp := spanFixed_ok (count := incVal c.minute n m) (unit := 60) (by omega) (by simp only [DUR_MAX]; omega)
    have hr : DT_MIN ≤ e.now + (incVal c.minute n m * 60 - c.second) ∧ e.now + (incVal c.minute n m * 60 - c.second) ≤ DT_MAX := by
      simp only [DT_MIN, DT_MAX]; omega
    have hgt : e.now + (incVal c.minute n m * 60 - c.second) > e.now := by omega
    simp only [getNextTimeFixed, checkedNextFixed, incFixed_eq m hn (by omega : 0 ≤ c.minute) hnb,
      unitStartPlus, hsp, bind_ok, hr, and_self, if_true, hgt]
    simp only [expectedLocal, startOfPeriod, startOfUnit, fieldOf, unitSecs, hq]
    cases m <;> simp [incVal] at hmod ⊢ <;> omega
  · -- hour
    have hnb : n ≤ I64_MAX := by simp only [I64_MAX]; omega
    have hsp := spanFixed_ok (count := incVal c.hour n m) (unit := 3600) (by omega) (by simp only [DUR_MAX]; omega)
    have hr : DT_MIN ≤ e.now + (incVal c.hour n m * 3600 - (c.minute * 60 + c.second))
        ∧ e.now + (incVal c.hour n m * 3600 - (c.minute * 60 + c.second)) ≤ DT_MAX := by
      simp only [DT_MIN, DT_MAX]; omega
    have hgt : e.now + (incVal c.hour n m * 3600 - (c.minute * 60 + c.second)) > e.now := by omega
    simp only [getNextTimeFixed, checkedNextFixed, incFixed_eq m hn (by omega : 0 ≤ c.hour) hnb,
      unitStartPlus, hsp, bind_ok, hr, and_self, if_true, hgt]
    simp only [expectedLocal, startOfPeriod, startOfUnit, fieldOf, unitSecs, hq]
    cases m <;> simp [incVal] at hmod ⊢ <;> omega

/-- the same, with the boundary read off the local seconds alone -/
theorem C16_boundary_fixed_subday_from_L (c : Civil) (e : Env) (off : Int) (u : IUnit)
    (hu : u = .second ∨ u = .minute ∨ u = .hour) (n : Int) (m : Bool) (hn : 1 ≤ n)
    (hv : SubdayView c e.L) (hnow : e.now = e.L - off) (hdur : n * unitSecs u ≤ DUR_MAX)
    (hlo : DT_MIN ≤ e.now) (hhi : e.now + n * unitSecs u ≤ DT_MAX) :
    getNextTimeFixed c e u n m = .ok (expectedFromL e.L u n m - off) := by
  rw [← C16_expected_from_L_subday hv u hu n m]
  exact C16_boundary_fixed_subday c e off u hu n m hn hv.second hv.minute hv.hour hnow hdur hlo hhi

/-- Liveness for hour, minute, second in ANY zone: the schedule is never "never" — it lies in
`(now, now + n units]`. -/
theorem C16_next_within_n_units_subday (c : Civil) (e : Env) (off : Int) (u : IUnit)
    (hu : u = .second ∨ u = .minute ∨ u = .hour) (n : Int) (m : Bool) (hn : 1 ≤ n)
    (hv : SubdayView c e.L) (hnow : e.now = e.L - off) (hdur : n * unitSecs u ≤ DUR_MAX)
    (hlo : DT_MIN ≤ e.now) (hhi : e.now + n * unitSecs u ≤ DT_MAX) :
    ∃ t, getNextTimeFixed c e u n m = .ok t ∧ e.now < t ∧ t ≤ e.now + n * unitSecs u := by
  refine ⟨_, C16_boundary_fixed_subday c e off u hu n m hn hv.second hv.minute hv.hour hnow hdur hlo hhi, ?_, ?_⟩
  all_goals
    rw [expectedLocal_eq]
    obtain ⟨hi1, hi2⟩ := incVal_bounds (f := fieldOf c u) m hn
    have hpos : 0 ≤ unitSecs u := by cases u <;> decide
    have h1 : 1 * unitSecs u ≤ incVal (fieldOf c u) n m * unitSecs u := mul_le_of_le hi1 hpos
    have h2 : incVal (fieldOf c u) n m * unitSecs u ≤ n * unitSecs u := mul_le_of_le hi2 hpos
    rcases hu with rfl | rfl | rfl <;> simp only [startOfUnit, unitSecs] at h1 h2 ⊢ <;> omega

/-- Day and week, the core: in ANY zone and for whatever chrono answers, the code resolves exactly
the specification's local boundary (local midnight, Monday-aligned for weeks, counted as the
statement says) with `resolve_after`, and answers "never" only if that yields nothing after
`current`. -/
theorem C16_day_week_resolves_boundary (c : Civil) (e : Env) (u : IUnit) (hu : u = .day ∨ u = .week)
    (n : Int) (m : Bool) (hn : 1 ≤ n) (hf : 0 ≤ fieldOf c u) (hwd : 0 ≤ c.weekday ∧ c.weekday ≤ 6)
    (hdur : n * unitSecs u ≤ DUR_MAX)
    (hlo : DT_MIN + 518400 ≤ e.L - e.L % 86400) (hhi : e.L + n * unitSecs u ≤ DT_MAX) :
    getNextTimeFixed c e u n m = .ok (match resolveAfter e.mkL e.now 200 (expectedLocal c e.L u n m) with
      | some t => if t > e.now then t else FAR
      | none => FAR) := by
  have htgt := target_day_week c e.L u hu n m
  obtain ⟨hi1, hi2⟩ := incVal_bounds (f := fieldOf c u) m hn
  simp only [DUR_MAX, DT_MIN, DT_MAX] at hdur hlo hhi
  have hnb : n ≤ I64_MAX := by
    rcases hu with rfl | rfl <;> simp only [unitSecs] at hdur <;> simp only [I64_MAX] <;> omega
  rcases hu with rfl | rfl <;> simp only [fieldOf, unitSecs] at hdur hhi hi1 hi2 hf
  · -- day
    simp only [if_false, reduceCtorEq] at htgt
    have hsp := spanFixed_ok (count := incVal c.ordinal0 n m) (unit := 86400) (by omega) (by simp only [DUR_MAX]; omega)
    have hr : DT_MIN ≤ e.L - e.L % 86400 + incVal c.ordinal0 n m * 86400
        ∧ e.L - e.L % 86400 + incVal c.ordinal0 n m * 86400 ≤ DT_MAX := by simp only [DT_MIN, DT_MAX]; omega
    rw [htgt] at hr
    simp only [getNextTimeFixed, checkedNextFixed, incFixed_eq m hn hf hnb, midnightPlus, hsp, bind_ok, hr,
      and_self, if_true, htgt]
    cases resolveAfter e.mkL e.now 200 (expectedLocal c e.L IUnit.day n m) with
    | none => rfl
    | some t => simp only []; split <;> rfl
  · -- week
    simp only [if_true] at htgt
    have h7 : inI64 (incVal c.week0 n m * 7) = true ∧ inI64 (incVal c.week0 n m * 7 - c.weekday) = true := by
      constructor <;> (unfold inI64; exact decide_eq_true (by simp only [I64_MIN, I64_MAX]; omega))
    have hsp := spanFixed_ok (count := incVal c.week0 n m * 7 - c.weekday) (unit := 86400) (by omega)
      (by simp only [DUR_MAX]; omega)
    have hr : DT_MIN ≤ e.L - e.L % 86400 + (incVal c.week0 n m * 7 - c.weekday) * 86400
        ∧ e.L - e.L % 86400 + (incVal c.week0 n m * 7 - c.weekday) * 86400 ≤ DT_MAX := by
      simp only [DT_MIN, DT_MAX]; omega
    rw [htgt] at hr
    simp only [getNextTimeFixed, checkedNextFixed, incFixed_eq m hn hf hnb, h7, and_self, if_true, midnightPlus,
      hsp, bind_ok, hr, htgt]
    cases resolveAfter e.mkL e.now 200 (expectedLocal c e.L IUnit.week n m) with
    | none => rfl
    | some t => simp only []; split <;> rfl

/-- Day and week where the boundary's local time exists: the schedule is chrono's instant for
exactly that local time — for an ambiguous one (DST overlap) the first of chrono's two instants if
it is after `current`, else the second (`resolve1`). -/
theorem C16_boundary_fixed_day_week (c : Civil) (e : Env) (u : IUnit) (hu : u = .day ∨ u = .week)
    (n : Int) (m : Bool) (hn : 1 ≤ n) (hf : 0 ≤ fieldOf c u) (hwd : 0 ≤ c.weekday ∧ c.weekday ≤ 6)
    (hdur : n * unitSecs u ≤ DUR_MAX)
    (hlo : DT_MIN + 518400 ≤ e.L - e.L % 86400) (hhi : e.L + n * unitSecs u ≤ DT_MAX)
    (hgap : e.mkL (expectedLocal c e.L u n m) ≠ .none) :
    ∃ t, resolve1 e.now (e.mkL (expectedLocal c e.L u n m)) = some t
      ∧ getNextTimeFixed c e u n m = .ok (if t > e.now then t else FAR) := by
  rw [C16_day_week_resolves_boundary c e u hu n m hn hf hwd hdur hlo hhi,
    show (200 : Nat) = 199 + 1 from rfl, resolveAfter_resolve1 199 hgap]
  cases hm : e.mkL (expectedLocal c e.L u n m) with
  | single t => exact ⟨t, rfl, rfl⟩
  | ambiguous a b => exact ⟨_, rfl, rfl⟩
  | none => exact absurd hm hgap

/-- Day and week where the boundary's local time falls in a DST gap of `k` quarter-hours: the
schedule is chrono's instant for the first local time after the gap that exists (in 15-minute
steps) — not "never". -/
theorem C16_boundary_fixed_day_week_gap (c : Civil) (e : Env) (u : IUnit) (hu : u = .day ∨ u = .week)
    (n : Int) (m : Bool) (hn : 1 ≤ n) (hf : 0 ≤ fieldOf c u) (hwd : 0 ≤ c.weekday ∧ c.weekday ≤ 6)
    (hdur : n * unitSecs u ≤ DUR_MAX)
    (hlo : DT_MIN + 518400 ≤ e.L - e.L % 86400) (hhi : e.L + n * unitSecs u ≤ DT_MAX)
    (k : Nat) (hk : k < 200)
    (hnone : ∀ j : Nat, j < k → e.mkL (expectedLocal c e.L u n m + 900 * j) = .none)
    (hrange : ∀ j : Nat, j < k → DT_MIN ≤ expectedLocal c e.L u n m + 900 * (j + 1)
      ∧ expectedLocal c e.L u n m + 900 * (j + 1) ≤ DT_MAX)
    (hex : e.mkL (expectedLocal c e.L u n m + 900 * k) ≠ .none) :
    ∃ t, resolve1 e.now (e.mkL (expectedLocal c e.L u n m + 900 * k)) = some t
      ∧ getNextTimeFixed c e u n m = .ok (if t > e.now then t else FAR) := by
  rw [C16_day_week_resolves_boundary c e u hu n m hn hf hwd hdur hlo hhi,
    resolveAfter_gap k 200 _ hk hnone hrange hex]
  cases hm : e.mkL (expectedLocal c e.L u n m + 900 * k) with
  | single t => exact ⟨t, rfl, rfl⟩
  | ambiguous a b => exact ⟨_, rfl, rfl⟩
  | none => exact absurd hm hex

/-- … and where the offset does not change in between (chrono resolves the boundary's local time
with the offset `off` of `current`) the schedule is that boundary, in UTC seconds. -/
theorem C16_boundary_fixed_day_week_same_offset (c : Civil) (e : Env) (off : Int) (u : IUnit)
    (hu : u = .day ∨ u = .week) (n : Int) (m : Bool) (hn : 1 ≤ n) (hf : 0 ≤ fieldOf c u)
    (hwd : 0 ≤ c.weekday ∧ c.weekday ≤ 6) (hdur : n * unitSecs u ≤ DUR_MAX)
    (hlo : DT_MIN + 518400 ≤ e.L - e.L % 86400) (hhi : e.L + n * unitSecs u ≤ DT_MAX)
    (hnow : e.now = e.L - off)
    (hmk : e.mkL (expectedLocal c e.L u n m) = .single (expectedLocal c e.L u n m - off)) :
    getNextTimeFixed c e u n m = .ok (expectedLocal c e.L u n m - off) := by
  obtain ⟨t, ht, hres⟩ := C16_boundary_fixed_day_week c e u hu n m hn hf hwd hdur hlo hhi (by rw [hmk]; simp)
  rw [hmk] at ht
  simp only [resolve1, Option.some.injEq] at ht
  subst ht
  have hgt : expectedLocal c e.L u n m > e.L := by
    obtain ⟨hi1, _⟩ := incVal_bounds (f := fieldOf c u) m hn
    rw [← target_day_week c e.L u hu n m]
    rcases hu with rfl | rfl <;> simp [fieldOf] at hi1 ⊢ <;> omega
  rw [hres, if_pos (by omega)]

/-- the week schedule of the previous theorem, rendered in local time, is a Monday 00:00 when
chrono's weekday is that of `L` -/
theorem C16_week_schedule_is_monday_midnight (c : Civil) (e : Env) (off : Int) (n : Int) (m : Bool) (hn : 1 ≤ n)
    (hf : 0 ≤ c.week0) (hwdL : c.weekday = (e.L / 86400 + 3) % 7) (hdur : n * 604800 ≤ DUR_MAX)
    (hlo : DT_MIN + 518400 ≤ e.L - e.L % 86400) (hhi : e.L + n * 604800 ≤ DT_MAX) (hnow : e.now = e.L - off)
    (hmk : e.mkL (expectedLocal c e.L .week n m) = .single (expectedLocal c e.L .week n m - off)) :
    ∃ t, getNextTimeFixed c e .week n m = .ok t ∧ ((t + off) / 86400 + 3) % 7 = 0 ∧ (t + off) % 86400 = 0 := by
  refine ⟨_, C16_boundary_fixed_day_week_same_offset c e off .week (Or.inr rfl) n m hn hf (by omega) hdur hlo hhi hnow hmk, ?_⟩
  have := C16_week_is_monday_midnight c e.L n m hwdL
  rw [Int.sub_add_cancel]; exact this

/-- Month and year, the core: in ANY zone the code asks chrono for local midnight of the first of
the specification's month (`expectedMonthIndex`: `n` months / years on, or with modulation the next
multiple of `n` counted from January / from year 0), resolves it with `resolve_after`, and answers
"never" only if chrono has no such date or nothing after `current` comes out. -/
theorem C16_calendar_resolves_boundary (c : Civil) (e : Env) (u : IUnit) (hu : isCalendarUnit u = true)
    (n : Int) (m : Bool) (hn : 1 ≤ n) (hy : 0 ≤ c.year) (hm0 : 0 ≤ c.month0 ∧ c.month0 ≤ 11)
    (hb : c.year + n ≤ I32_MAX) :
    getNextTimeFixed c e u n m = .ok (match e.naiveOf (civilOfMonthIndex (expectedMonthIndex c u n m)) with
      | some lt => (match resolveAfter e.mkL e.now 200 lt with
        | some t => if t > e.now then t else FAR
        | none => FAR)
      | none => FAR)
      ∧ 12 * c.year + c.month0 < expectedMonthIndex c u n m := by
  simp only [I32_MAX] at hb
  have hnb : n ≤ I64_MAX := by simp only [I64_MAX]; omega
  cases u <;> simp [isCalendarUnit] at hu
  · -- month
    obtain ⟨hi1, hi2⟩ := incVal_bounds (f := c.month0) m hn
    have hmod := incVal_mod c.month0 n
    have hidx : expectedMonthIndex c .month n m = incVal c.month0 n m + (c.year * 12 + c.month0) := by
      generalize hq : (c.month0 / n + 1) * n = q at hmod
      cases m <;> simp [expectedMonthIndex, incVal, hq] at hmod ⊢ <;> omega
    have h1 : inI64 (incVal c.month0 n m + (c.year * 12 + c.month0)) = true := by
      unfold inI64; exact decide_eq_true (by simp only [I64_MIN, I64_MAX]; omega)
    have h2 : I32_MIN ≤ (incVal c.month0 n m + (c.year * 12 + c.month0)) / 12
        ∧ (incVal c.month0 n m + (c.year * 12 + c.month0)) / 12 ≤ I32_MAX := by
      simp only [I32_MIN, I32_MAX]; omega
    refine ⟨?_, by rw [hidx]; omega⟩
    rw [hidx]
    simp only [getNextTimeFixed, checkedNextFixed, incFixed_eq m hn hm0.1 hnb, h1, if_true, firstOfMonth, h2,
      and_self, bind_ok, civilOfMonthIndex]
    cases e.naiveOf ⟨(incVal c.month0 n m + (c.year * 12 + c.month0)) / 12,
        (incVal c.month0 n m + (c.year * 12 + c.month0)) % 12 + 1, 1, 0, 0, 0⟩ with
    | none => rfl
    | some lt =>
      simp only []
      cases resolveAfter e.mkL e.now 200 lt with
      | none => rfl
      | some t => simp only []; split <;> rfl
  · -- year
    obtain ⟨hi1, hi2⟩ := incVal_bounds (f := c.year) m hn
    have hmod := incVal_mod c.year n
    have hidx : expectedMonthIndex c .year n m = (incVal c.year n m + c.year) * 12 := by
      generalize hq : (c.year / n + 1) * n = q at hmod
      cases m <;> simp [expectedMonthIndex, incVal, hq] at hmod ⊢ <;> omega
    have h1 : inI64 (incVal c.year n m + c.year) = true ∧ inI64 ((incVal c.year n m + c.year) * 12) = true := by
      constructor <;> (unfold inI64; exact decide_eq_true (by simp only [I64_MIN, I64_MAX]; omega))
    have h2 : I32_MIN ≤ (incVal c.year n m + c.year) * 12 / 12 ∧ (incVal c.year n m + c.year) * 12 / 12 ≤ I32_MAX := by
      simp only [I32_MIN, I32_MAX]; omega
    refine ⟨?_, by rw [hidx]; omega⟩
    rw [hidx]
    simp only [getNextTimeFixed, checkedNextFixed, incFixed_eq m hn hy hnb, h1, and_self, if_true, firstOfMonth, h2,
      bind_ok, civilOfMonthIndex]
    cases e.naiveOf ⟨(incVal c.year n m + c.year) * 12 / 12, (incVal c.year n m + c.year) * 12 % 12 + 1, 1, 0, 0, 0⟩ with
    | none => rfl
    | some lt =>
      simp only []
      cases resolveAfter e.mkL e.now 200 lt with
      | none => rfl
      | some t => simp only []; split <;> rfl

/-- Month and year where that local midnight exists (`lt` = chrono's naive seconds of it): the
schedule is chrono's instant for it, chosen as `resolve1` says when it is ambiguous. -/
theorem C16_boundary_fixed_calendar_any_zone (c : Civil) (e : Env) (u : IUnit) (hu : isCalendarUnit u = true)
    (n : Int) (m : Bool) (hn : 1 ≤ n) (hy : 0 ≤ c.year) (hm0 : 0 ≤ c.month0 ∧ c.month0 ≤ 11)
    (hb : c.year + n ≤ I32_MAX) (lt : Int)
    (hnaive : e.naiveOf (civilOfMonthIndex (expectedMonthIndex c u n m)) = some lt) (hgap : e.mkL lt ≠ .none) :
    ∃ t, resolve1 e.now (e.mkL lt) = some t ∧ getNextTimeFixed c e u n m = .ok (if t > e.now then t else FAR) := by
  rw [(C16_calendar_resolves_boundary c e u hu n m hn hy hm0 hb).1, hnaive]
  simp only []
  rw [show (200 : Nat) = 199 + 1 from rfl, resolveAfter_resolve1 199 hgap]
  cases hm : e.mkL lt with
  | single t => exact ⟨t, rfl, rfl⟩
  | ambiguous a b => exact ⟨_, rfl, rfl⟩
  | none => exact absurd hm hgap

/-- chrono's calendar as far as month and year units need it: the first of month number `M`
(months since year 0) has naive local seconds `monthStart M`, and a later month starts later -/
structure MonthStarts (e : Env) (monthStart : Int → Int) : Prop where
  naive : ∀ M, e.naiveOf (civilOfMonthIndex M) = some (monthStart M)
  mono : ∀ a b, a < b → monthStart a < monthStart b

/-- Month and year where the offset does not change in between (chrono resolves the boundary with
the offset `off` of `current`): the schedule is the start of the specification's month, a month
strictly later than the current one; that it is after `current` is derived from the calendar being
monotone and `current` lying before the start of the next month. -/
theorem C16_boundary_fixed_calendar (c : Civil) (e : Env) (off : Int) (u : IUnit)
    (hu : isCalendarUnit u = true) (n : Int) (m : Bool) (hn : 1 ≤ n)
    (hy : 0 ≤ c.year) (hm0 : 0 ≤ c.month0 ∧ c.month0 ≤ 11) (hb : c.year + n ≤ I32_MAX)
    (monthStart : Int → Int) (hcal : MonthStarts e monthStart)
    (hin : e.L < monthStart (12 * c.year + c.month0 + 1)) (hnow : e.now = e.L - off)
    (hmk : e.mkL (monthStart (expectedMonthIndex c u n m))
      = .single (monthStart (expectedMonthIndex c u n m) - off)) :
    getNextTimeFixed c e u n m = .ok (monthStart (expectedMonthIndex c u n m) - off)
      ∧ 12 * c.year + c.month0 < expectedMonthIndex c u n m := by
  obtain ⟨hres, hlt⟩ := C16_calendar_resolves_boundary c e u hu n m hn hy hm0 hb
  refine ⟨?_, hlt⟩
  have hle : monthStart (12 * c.year + c.month0 + 1) ≤ monthStart (expectedMonthIndex c u n m) := by
    by_cases he : 12 * c.year + c.month0 + 1 = expectedMonthIndex c u n m
    · rw [he]; exact Int.le_refl _
    · exact Int.le_of_lt (hcal.mono _ _ (by omega))
  rw [hres, hcal.naive]
  simp only []
  rw [show (200 : Nat) = 199 + 1 from rfl, resolveAfter_resolve1 199 (by rw [hmk]; simp), hmk]
  simp only [resolve1]
  rw [if_pos (by omega)]

/-! ### random delay -/

/-- `TimeTrigger::new` never panics and never wraps, whatever `max_random_delay` and whatever the
generator returns: the schedule is the boundary plus the delay, or — when that cannot be represented
(delay above `i64::MAX`, above chrono's duration range, or past the end of chrono's time line) — the
undelayed boundary. -/
theorem C16_delay_total_fixed (t maxDelay d : Int) (hd : 0 ≤ d) :
    ∃ t', scheduleFixed (.ok t) maxDelay d = .ok t' ∧ (t' = t ∨ t' = t + d) := by
  unfold scheduleFixed
  rw [bind_ok]
  split
  · split
    · obtain ⟨r, hr⟩ := spanFixed_no_panic (count := d) (unit := 1) (by simp only [I64_MIN]; omega)
      rw [hr, bind_ok]
      cases r with
      | none => exact ⟨t, rfl, Or.inl rfl⟩
      | some v =>
        have hv : v = d * 1 := by
          unfold spanFixed at hr
          simp only [] at hr
          repeat' split at hr
          all_goals first | (cases hr; done) | (injection hr with h; injection h with h; exact h.symm)
        simp only []
        split
        · exact ⟨t + v, rfl, Or.inr (by omega)⟩
        · exact ⟨t, rfl, Or.inl rfl⟩
    · exact ⟨t, rfl, Or.inl rfl⟩
  · exact ⟨t, rfl, Or.inl rfl⟩

/-- With a representable bound the delayed schedule is exactly boundary + d, `d ∈ [0, max)`. -/
theorem C16_delay_bounds_fixed (t maxDelay d : Int) (hd : 0 ≤ d ∧ d < maxDelay) (hmax : maxDelay ≤ DUR_MAX)
    (hr : DT_MIN ≤ t ∧ t + maxDelay ≤ DT_MAX) :
    scheduleFixed (.ok t) maxDelay d = .ok (t + d) ∧ t ≤ t + d ∧ t + d < t + maxDelay := by
  simp only [DUR_MAX, DT_MIN, DT_MAX] at *
  have hpos : maxDelay > 0 := by omega
  have hle : d ≤ I64_MAX := by simp only [I64_MAX]; omega
  have hsp := spanFixed_ok (count := d) (unit := 1) (by omega) (by simp only [DUR_MAX]; omega)
  have hrange : DT_MIN ≤ t + d * 1 ∧ t + d * 1 ≤ DT_MAX := by simp only [DT_MIN, DT_MAX]; omega
  refine ⟨?_, by omega, by omega⟩
  simp only [scheduleFixed, bind_ok, hpos, hle, if_true, hsp, hrange, and_self]
  congr 1; omega

theorem C16_no_delay_fixed (next : Out Int) (d : Int) : scheduleFixed next 0 d = next := by
  cases next <;> simp [scheduleFixed, bind]

/-! ### firing: exactly on the first arrival at or after the schedule, once per boundary -/

/-- The specification of a run of the trigger. `s` is the instant scheduled before the first
arrival; for every arrival `a` with answer `o` and schedule `st` afterwards: either `a` is before
the schedule, the trigger answers "no" and the schedule is unchanged, or `a` is at or after it, the
trigger answers "fire", and the new schedule is strictly after `a` and is one the relation `B`
allows for an arrival at `a` (`B a st`: "`st` is the boundary after `a`"). No consultation panics. -/
def GoodRunOn (B : Int → Int → Prop) : Int → List Int → List (Out Bool × Int) → Prop
  | _, [], [] => True
  | s, a :: as, (o, st) :: os =>
      (a < s ∧ o = .ok false ∧ st = s ∧ GoodRunOn B s as os)
      ∨ (s ≤ a ∧ o = .ok true ∧ a < st ∧ B a st ∧ GoodRunOn B st as os)
  | _, _, _ => False

/-- Induction over the arrival list: whatever the arrival times (any order, any repetition), if at
every arrival the reschedule succeeds with an instant after the arrival that `B` allows, the run
of `Trigger::trigger` is a `GoodRunOn B`. -/
theorem C16_fires_once_fixed (B : Int → Int → Prop) (steps : List (Int × Out Int))
    (hfut : ∀ p ∈ steps, ∃ t, p.2 = .ok t ∧ p.1 < t ∧ B p.1 t) (s : Int) :
    GoodRunOn B s (steps.map (·.1)) (runFixed s steps) := by
  induction steps generalizing s with
  | nil => simp [runFixed, GoodRunOn]
  | cons p rest ih =>
    obtain ⟨a, r⟩ := p
    obtain ⟨t, hr, hat, hB⟩ := hfut (a, r) (by simp)
    have hrest : ∀ p ∈ rest, ∃ t, p.2 = .ok t ∧ p.1 < t ∧ B p.1 t := fun p hp => hfut p (by simp [hp])
    simp only at hr hat hB
    subst hr
    by_cases hge : a ≥ s
    · have hrun : runFixed s ((a, .ok t) :: rest) = (.ok true, t) :: runFixed t rest := by
        simp [runFixed, stepFixed, hge]
      rw [List.map_cons, hrun]
      unfold GoodRunOn
      exact Or.inr ⟨hge, rfl, hat, hB, ih hrest t⟩
    · have hrun : runFixed s ((a, .ok t) :: rest) = (.ok false, s) :: runFixed s rest := by
        simp [runFixed, stepFixed, hge]
      rw [List.map_cons, hrun]
      unfold GoodRunOn
      exact Or.inl ⟨by omega, rfl, rfl, ih hrest s⟩

/-- "The first record at or after the scheduled instant": arrivals before the schedule do not fire
and leave it unchanged; the first one at or after it fires and installs its reschedule; the rest of
the history continues from there. -/
theorem C16_fires_on_first_arrival_at_or_after_fixed (pre post : List (Int × Out Int)) (a t s : Int)
    (hpre : ∀ p ∈ pre, p.1 < s) (ha : s ≤ a) :
    runFixed s (pre ++ (a, .ok t) :: post)
      = pre.map (fun _ => (.ok false, s)) ++ (.ok true, t) :: runFixed t post := by
  induction pre with
  | nil => simp [runFixed, stepFixed, ha]
  | cons p rest ih =>
    have hp : ¬ p.1 ≥ s := by have := hpre p (by simp); omega
    have hrest : ∀ q ∈ rest, q.1 < s := fun q hq => hpre q (by simp [hq])
    simp [runFixed, stepFixed, hp, ih hrest]

/-- "Once per boundary", first half: after a firing no arrival before the new schedule fires. -/
theorem C16_no_refire_before_next_fixed (steps : List (Int × Out Int)) (t : Int) (h : ∀ p ∈ steps, p.1 < t) :
    runFixed t steps = steps.map (fun _ => (.ok false, t)) := by
  induction steps with
  | nil => simp [runFixed]
  | cons p rest ih =>
    have hp : ¬ p.1 ≥ t := by have := h p (by simp); omega
    simp [runFixed, stepFixed, hp, ih (fun q hq => h q (by simp [hq]))]

/-- the schedules installed by the firings of a run, in order -/
def firedSchedules : List (Out Bool × Int) → List Int
  | [] => []
  | (.ok true, st) :: rest => st :: firedSchedules rest
  | _ :: rest => firedSchedules rest

def Increasing : Int → List Int → Prop
  | _, [] => True
  | s, t :: ts => s < t ∧ Increasing t ts

/-- "Once per boundary", second half: every firing consumes its schedule — the schedules installed
by successive firings are strictly increasing (starting above the initial one), so no scheduled
instant is ever fired for twice, in any order of arrivals. -/
theorem C16_schedules_strictly_increase (B : Int → Int → Prop) :
    ∀ (as : List Int) (s : Int) (outs : List (Out Bool × Int)), GoodRunOn B s as outs →
      Increasing s (firedSchedules outs) := by
  intro as
  induction as with
  | nil =>
    intro s outs h
    cases outs with
    | nil => trivial
    | cons _ _ => simp [GoodRunOn] at h
  | cons a rest ih =>
    intro s outs h
    cases outs with
    | nil => simp [GoodRunOn] at h
    | cons p os =>
      obtain ⟨o, st⟩ := p
      unfold GoodRunOn at h
      rcases h with ⟨_, ho, hst, hr⟩ | ⟨hs, ho, hat, _, hr⟩
      · subst ho; subst hst
        simpa [firedSchedules] using ih _ os hr
      · subst ho
        simp only [firedSchedules, Increasing]
        exact ⟨by omega, ih st os hr⟩

/-- The whole trigger in EVERY zone and for every configuration: whatever chrono answers at each
arrival, whatever the unit, multiplier, mode and (non-negative) random delays, and whatever the
arrival times (before the "never" instant), the run fires exactly on arrivals at or after the
schedule, reschedules strictly after them, and never panics. (Each consultation reads the clock
once: `e.now` is the arrival.) -/
theorem C16_trigger_fixed (u : IUnit) (n : Int) (m : Bool) (maxDelay : Int) (steps : List (Int × Out Int))
    (hsteps : ∀ p ∈ steps, p.1 < FAR ∧ ∃ (c : Civil) (e : Env) (d : Int), e.now = p.1 ∧ 0 ≤ d
      ∧ p.2 = scheduleFixed (getNextTimeFixed c e u n m) maxDelay d) (s : Int) :
    GoodRunOn (fun _ _ => True) s (steps.map (·.1)) (runFixed s steps) := by
  apply C16_fires_once_fixed
  intro p hp
  obtain ⟨hfar, c, e, d, hnow, hd, hp2⟩ := hsteps p hp
  obtain ⟨t, ht, hlt⟩ := C16_after_now_fixed c e u n m (by omega)
  obtain ⟨t', ht', hor⟩ := C16_delay_total_fixed t maxDelay d hd
  exact ⟨t', by rw [hp2, ht, ht'], by omega, trivial⟩

/-- END TO END for hour, minute, second in ANY zone (`off a` = the zone's UTC offset at instant `a`):
for every arrival sequence, with chrono's time-of-day fields being those of the local seconds, the
trigger fires exactly on the arrivals at or after the schedule and every firing installs the
specification's boundary after that arrival — `expectedFromL`, read off the local seconds alone,
rendered with the offset at the arrival — plus a delay in `[0, max)`. So it fires once per boundary
and is rescheduled to the next boundary; an implementation that ever answered "never" inside the
representable range would not satisfy this. -/
theorem C16_trigger_fixed_on_boundary (u : IUnit) (hu : u = .second ∨ u = .minute ∨ u = .hour)
    (n : Int) (m : Bool) (hn : 1 ≤ n) (hdur : n * unitSecs u ≤ DUR_MAX) (off : Int → Int)
    (maxDelay : Int) (hmax : 0 ≤ maxDelay ∧ maxDelay ≤ DUR_MAX) (steps : List (Int × Out Int))
    (hsteps : ∀ p ∈ steps, ∃ (c : Civil) (e : Env) (d : Int), e.now = p.1 ∧ e.L = p.1 + off p.1
      ∧ SubdayView c e.L ∧ DT_MIN ≤ p.1 ∧ p.1 + n * unitSecs u + maxDelay ≤ DT_MAX
      ∧ (0 < maxDelay → 0 ≤ d ∧ d < maxDelay)
      ∧ p.2 = scheduleFixed (getNextTimeFixed c e u n m) maxDelay d) (s : Int) :
    GoodRunOn (fun a t => expectedFromL (a + off a) u n m - off a ≤ t
        ∧ t < expectedFromL (a + off a) u n m - off a + max maxDelay 1)
      s (steps.map (·.1)) (runFixed s steps) := by
  apply C16_fires_once_fixed
  intro p hp
  obtain ⟨c, e, d, hnow, hL, hv, hlo, hhi, hd, hp2⟩ := hsteps p hp
  have hnow' : e.now = e.L - off p.1 := by omega
  have hb := C16_boundary_fixed_subday_from_L c e (off p.1) u hu n m hn hv hnow' hdur (by omega) (by omega)
  obtain ⟨t, ht, hlt, hub⟩ := C16_next_within_n_units_subday c e (off p.1) u hu n m hn hv hnow' hdur (by omega) (by omega)
  rw [hb] at ht
  cases ht
  rw [hp2, hb, hL]
  rw [hL] at hlt hub
  by_cases hz : 0 < maxDelay
  · obtain ⟨hd0, hd1⟩ := hd hz
    obtain ⟨e1, _, _⟩ := C16_delay_bounds_fixed (expectedFromL (p.1 + off p.1) u n m - off p.1) maxDelay d ⟨hd0, hd1⟩
      hmax.2 ⟨by simp only [DT_MIN] at hlo ⊢; omega, by omega⟩
    exact ⟨_, e1, by omega, by omega, by omega⟩
  · have : maxDelay = 0 := by omega
    subst this
    exact ⟨_, C16_no_delay_fixed _ d, by omega, by omega, by omega⟩

/-- END TO END for day and week where the offset does not change between an arrival and its
boundary (`off` = that offset; chrono resolves the boundary's local time with it), no delay: every
firing installs exactly the specification's boundary computed from chrono's decomposition of the
arrival instant (local midnight + n days, Monday 00:00 + n weeks, or the next multiple of n days /
ISO weeks of the year). -/
theorem C16_trigger_fixed_on_boundary_day_week (u : IUnit) (hu : u = .day ∨ u = .week)
    (n : Int) (m : Bool) (hn : 1 ≤ n) (hdur : n * unitSecs u ≤ DUR_MAX) (off : Int)
    (civ : Int → Civil) (steps : List (Int × Out Int))
    (hsteps : ∀ p ∈ steps, ∃ (e : Env), e.now = p.1 ∧ e.L = p.1 + off
      ∧ 0 ≤ fieldOf (civ p.1) u ∧ (0 ≤ (civ p.1).weekday ∧ (civ p.1).weekday ≤ 6)
      ∧ DT_MIN + 518400 ≤ e.L - e.L % 86400 ∧ e.L + n * unitSecs u ≤ DT_MAX
      ∧ e.mkL (expectedLocal (civ p.1) e.L u n m) = .single (expectedLocal (civ p.1) e.L u n m - off)
      ∧ p.2 = scheduleFixed (getNextTimeFixed (civ p.1) e u n m) 0 0) (s : Int) :
    GoodRunOn (fun a t => t = expectedLocal (civ a) (a + off) u n m - off)
      s (steps.map (·.1)) (runFixed s steps) := by
  apply C16_fires_once_fixed
  intro p hp
  obtain ⟨e, hnow, hL, hf, hwd, hlo, hhi, hmk, hp2⟩ := hsteps p hp
  have hb := C16_boundary_fixed_day_week_same_offset (civ p.1) e off u hu n m hn hf hwd hdur hlo hhi (by omega) hmk
  have hgt : expectedLocal (civ p.1) e.L u n m > e.L := by
    obtain ⟨hi1, _⟩ := incVal_bounds (f := fieldOf (civ p.1) u) m hn
    rw [← target_day_week (civ p.1) e.L u hu n m]
    rcases hu with rfl | rfl <;> simp [fieldOf] at hi1 ⊢ <;> omega
  refine ⟨_, by rw [hp2, hb, C16_no_delay_fixed], by omega, by rw [hL]⟩

/-- END TO END for month and year, same reading: every firing installs the start of the
specification's month (`monthStart` = chrono's calendar, monotone), a month after the arrival's. -/
theorem C16_trigger_fixed_on_boundary_calendar (u : IUnit) (hu : isCalendarUnit u = true)
    (n : Int) (m : Bool) (hn : 1 ≤ n) (off : Int) (civ : Int → Civil) (monthStart : Int → Int)
    (steps : List (Int × Out Int))
    (hsteps : ∀ p ∈ steps, ∃ (e : Env), e.now = p.1 ∧ e.L = p.1 + off
      ∧ 0 ≤ (civ p.1).year ∧ (0 ≤ (civ p.1).month0 ∧ (civ p.1).month0 ≤ 11) ∧ (civ p.1).year + n ≤ I32_MAX
      ∧ MonthStarts e monthStart ∧ e.L < monthStart (12 * (civ p.1).year + (civ p.1).month0 + 1)
      ∧ e.mkL (monthStart (expectedMonthIndex (civ p.1) u n m))
          = .single (monthStart (expectedMonthIndex (civ p.1) u n m) - off)
      ∧ p.2 = scheduleFixed (getNextTimeFixed (civ p.1) e u n m) 0 0) (s : Int) :
    GoodRunOn (fun a t => t = monthStart (expectedMonthIndex (civ a) u n m) - off
        ∧ 12 * (civ a).year + (civ a).month0 < expectedMonthIndex (civ a) u n m)
      s (steps.map (·.1)) (runFixed s steps) := by
  apply C16_fires_once_fixed
  intro p hp
  obtain ⟨e, hnow, hL, hy, hm0, hb, hcal, hin, hmk, hp2⟩ := hsteps p hp
  obtain ⟨hres, hlt⟩ := C16_boundary_fixed_calendar (civ p.1) e off u hu n m hn hy hm0 hb monthStart hcal hin (by omega) hmk
  have hle : monthStart (12 * (civ p.1).year + (civ p.1).month0 + 1) ≤ monthStart (expectedMonthIndex (civ p.1) u n m) := by
    by_cases he : 12 * (civ p.1).year + (civ p.1).month0 + 1 = expectedMonthIndex (civ p.1) u n m
    · rw [he]; exact Int.le_refl _
    · exact Int.le_of_lt (hcal.mono _ _ (by omega))
  exact ⟨_, by rw [hp2, hres, C16_no_delay_fixed], by omega, rfl, hlt⟩

/-! ### before the record is written: the files -/

theorem consHead_ne_nil (i : Nat) (segs : List (List Nat)) : consHead i segs ≠ [] := by
  cases segs <;> simp [consHead]

theorem segmentFrom_ne_nil (i : Nat) (flags : List (Option Bool)) : segmentFrom i flags ≠ [] := by
  cases flags with
  | nil => simp [segmentFrom]
  | cons f rest =>
    induction rest generalizing i f with
    | nil => cases f with
      | none => simp [segmentFrom]
      | some b => cases b <;> simp [segmentFrom, consHead]
    | cons g rest ih =>
      cases f with
      | none => simpa [segmentFrom] using ih (i + 1) g
      | some b => cases b <;> simp [segmentFrom, consHead_ne_nil]

theorem consHead_flatten (i : Nat) (segs : List (List Nat)) (h : segs ≠ []) :
    (consHead i segs).flatten = i :: segs.flatten := by
  cases segs with
  | nil => exact absurd rfl h
  | cons s more => simp [consHead]

theorem consHead_tail (i : Nat) (segs : List (List Nat)) (h : segs ≠ []) :
    (consHead i segs).tail = segs.tail := by
  cases segs with
  | nil => exact absurd rfl h
  | cons s more => simp [consHead]

theorem consHead_head (i : Nat) (segs : List (List Nat)) : ((consHead i segs).head?).bind List.head? = some i := by
  cases segs <;> simp [consHead]

theorem segmentFrom_flatten (i : Nat) (flags : List (Option Bool)) :
    (segmentFrom i flags).flatten = writtenFrom i flags := by
  induction flags generalizing i with
  | nil => simp [segmentFrom, writtenFrom]
  | cons f rest ih =>
    cases f with
    | none => simpa [segmentFrom, writtenFrom] using ih (i + 1)
    | some b =>
      cases b <;>
        simp [segmentFrom, writtenFrom, consHead_flatten _ _ (segmentFrom_ne_nil (i + 1) rest), ih (i + 1)]

theorem segmentFrom_heads (i : Nat) (flags : List (Option Bool)) :
    (segmentFrom i flags).tail.map List.head? = (firedFrom i flags).map some := by
  induction flags generalizing i with
  | nil => simp [segmentFrom, firedFrom]
  | cons f rest ih =>
    cases f with
    | none => simpa [segmentFrom, firedFrom] using ih (i + 1)
    | some b =>
      cases b
      · simpa [segmentFrom, firedFrom, consHead_tail _ _ (segmentFrom_ne_nil (i + 1) rest)] using ih (i + 1)
      · have hne := segmentFrom_ne_nil (i + 1) rest
        have := ih (i + 1)
        cases hs : segmentFrom (i + 1) rest with
        | nil => exact absurd hs hne
        | cons sg more =>
          rw [hs] at this
          simpa [segmentFrom, firedFrom, hs, consHead] using this

/-- "Before that record is written", for EVERY history (any mix of firings, non-firings, records
lost to an error; any number of firings): the files the model of `RollingFileAppender::append`
produces satisfy the declarative specification `filesOk` — concatenated they are exactly the written
records in order, and the files after the oldest begin with exactly the records on which the
trigger fired. -/
theorem C16_files_meet_spec (flags : List (Option Bool)) : filesOk flags (segment flags) = true := by
  have h := segmentFrom_heads 1 flags
  rw [List.map_tail] at h
  simp [filesOk, segment, segmentFrom_ne_nil, segmentFrom_flatten, h]

/-- what the trigger's answers mean for the appender: `some fired` the record is written (after a
roll if `fired`), `none` a panic, the record is lost -/
def flagsOfRun (outs : List (Out Bool × Int)) : List (Option Bool) :=
  outs.map fun p => match p.1 with
    | .ok b => some b
    | _ => none

theorem writtenFrom_all_some (i : Nat) (flags : List (Option Bool)) (h : ∀ f ∈ flags, f ≠ none) :
    writtenFrom i flags = List.range' i flags.length := by
  induction flags generalizing i with
  | nil => simp [writtenFrom]
  | cons f rest ih =>
    cases f with
    | none => exact absurd rfl (h none (by simp))
    | some b => simp [writtenFrom, List.range'_succ, ih (i + 1) (fun f hf => h f (by simp [hf]))]

theorem flags_of_good_run (B : Int → Int → Prop) :
    ∀ (as : List Int) (s : Int) (outs : List (Out Bool × Int)), GoodRunOn B s as outs →
      (∀ f ∈ flagsOfRun outs, f ≠ none) ∧ (flagsOfRun outs).length = as.length := by
  intro as
  induction as with
  | nil =>
    intro s outs h
    cases outs with
    | nil => simp [flagsOfRun]
    | cons _ _ => simp [GoodRunOn] at h
  | cons a rest ih =>
    intro s outs h
    cases outs with
    | nil => simp [GoodRunOn] at h
    | cons p os =>
      obtain ⟨o, st⟩ := p
      unfold GoodRunOn at h
      rcases h with ⟨_, ho, _, hr⟩ | ⟨_, ho, _, _, hr⟩ <;> subst ho <;>
        · obtain ⟨h1, h2⟩ := ih _ os hr
          refine ⟨?_, by simp [flagsOfRun] at h2 ⊢; omega⟩
          intro f hf
          simp only [flagsOfRun, List.map_cons, List.mem_cons] at hf
          rcases hf with rfl | hf
          · simp
          · exact h1 f (by simpa [flagsOfRun] using hf)

/-- The trigger's run and the files together: in a good run every record is written (none is lost),
the files, read in order, are records 1 … k, and the files after the oldest begin with exactly the
records whose arrival was at or after the schedule — the roll precedes the write of the record that
fired. -/
theorem C16_files_of_run (B : Int → Int → Prop) (steps : List (Int × Out Int))
    (hfut : ∀ p ∈ steps, ∃ t, p.2 = .ok t ∧ p.1 < t ∧ B p.1 t) (s : Int) :
    let flags := flagsOfRun (runFixed s steps)
    (segment flags).flatten = List.range' 1 steps.length
      ∧ (segment flags).tail.map List.head? = (firedFrom 1 flags).map some := by
  have hg := C16_fires_once_fixed B steps hfut s
  obtain ⟨h1, h2⟩ := flags_of_good_run B _ s _ hg
  simp only [List.length_map] at h2
  refine ⟨?_, segmentFrom_heads 1 _⟩
  show (segmentFrom 1 _).flatten = _
  rw [segmentFrom_flatten, writtenFrom_all_some 1 _ h1, h2]

/-! ### the two clock readings of `trigger()` — a finding

`Trigger::trigger` reads the clock, and when it fires, `TimeTrigger::new(self.config)` reads it
AGAIN and schedules from that second reading. "Reschedules strictly into the future" is meant of
the arrival that fired (the first reading). It holds when the second reading is not earlier than the
first (`C16_reschedule_after_arrival_partial`); if the clock steps back between the two readings
the new schedule can be at or before the arrival, and the next record fires for the same boundary
again (`C16_reschedule_after_arrival_statement_false`, witness reproduced on the real code:
sig `C16/second-clock-reading-earlier-than-first`). Proposed patch: pass `current` on to the
schedule computation; `secondReadFixed` in Model.lean then selects the first reading. -/

/-- the arrival read `a`; `TimeTrigger::new` read `e.now` — any value — and computed the schedule -/
def C16_reschedule_after_arrival_statement : Prop :=
  ∀ (a : Int) (c : Civil) (e : Env) (u : IUnit) (n : Int) (m : Bool) (maxDelay d : Int), 1 ≤ n → 0 ≤ d →
    a < FAR → e.now < FAR → ∀ t, scheduleFixed (getNextTimeFixed c e u n m) maxDelay d = .ok t → a < t

theorem C16_reschedule_after_arrival_partial (a : Int) (c : Civil) (e : Env) (u : IUnit) (n : Int) (m : Bool)
    (maxDelay d : Int) (hd : 0 ≤ d) (hfar : e.now < FAR) (hmono : a ≤ e.now) :
    ∃ t, scheduleFixed (getNextTimeFixed c e u n m) maxDelay d = .ok t ∧ a < t := by
  obtain ⟨t, ht, hlt⟩ := C16_after_now_fixed c e u n m hfar
  obtain ⟨t', ht', hor⟩ := C16_delay_total_fixed t maxDelay d hd
  exact ⟨t', by rw [ht, ht'], by omega⟩

/-- UTC, every 10 seconds; the record arrives at …15 (schedule …10: it fires), the second reading
is …04: the new schedule is …14, not after the arrival — the record at …16 fires again. -/
theorem C16_reschedule_after_arrival_statement_false : ¬ C16_reschedule_after_arrival_statement := by
  intro h
  have := h 1790000015 ⟨2026, 8, 21, 263, 38, 0, 14, 13, 24⟩
    { L := 1790000004, now := 1790000004, naiveOf := fun _ => none, mkL := fun _ => .none }
    .second 10 false 0 0 (by decide) (by decide) (by decide) (by decide) 1790000014 (by decide)
  omega

theorem C16_refires_after_backward_clock_step :
    (runFixed 1790000010 [(1790000015, .ok 1790000014), (1790000016, .ok 1790000026)]).map (·.1)
      = [.ok true, .ok true] := by decide

/-! ### non-vacuity: the hypotheses hold on concrete non-trivial inputs (tests on samples) -/

/-- 2024-02-29 23:59:58 local (a leap day, two seconds before the minute, day and month end) -/
def leapEve : Civil := ⟨2024, 1, 29, 59, 8, 3, 23, 59, 58⟩

example : SubdayView leapEve 1709251198 := ⟨by decide, by decide, by decide⟩

/-- modulated 7 s at 23:59:58: 56 + 7 = 63 s after the start of the minute, i.e. 00:00:03 next day -/
example : expectedFromL 1709251198 .second 7 true = 1709251203 := by decide

/-- Asia/Kathmandu (+5:45): the same instant through the code's model -/
example : getNextTimeFixed leapEve
    { L := 1709251198, now := 1709230498, naiveOf := fun _ => none, mkL := fun _ => .none } .second 7 true
    = .ok (1709251203 - 20700) := by decide

/-- the F12 witness under the current algorithm: Europe/Berlin 2026-10-25 23:30 CET (25-hour day),
1 day: local midnight 2026-10-26 00:00 CET = 23:00:00Z, half an hour ahead -/
example : getNextTimeFixed ⟨2026, 9, 25, 297, 42, 6, 23, 30, 0⟩
    { L := 1792971000, now := 1792967400, naiveOf := fun _ => none,
      mkL := fun l => if l = 1792972800 then .single 1792969200 else .none } .day 1 false
    = .ok 1792969200 := by decide

/-- the F9 witness: Berlin 02:30 CEST, first occurrence, 1 hour: the unit started 30 minutes ago on
the UTC time line, the schedule is 01:00:00Z = 02:00 CET; chrono is not asked about a local time -/
example : getNextTimeFixed ⟨2026, 9, 25, 297, 42, 6, 2, 30, 0⟩
    { L := 1792895400, now := 1792888200, naiveOf := fun _ => none, mkL := fun _ => .none } .hour 1 false
    = .ok 1792890000 := by decide

/-- an overlap (fold) at the target: zone `ZST1ZDT,M3.2.6/23:30,M11.1.0/0:30`, 2026-10-31 23:45 first
pass, 1 day: local midnight is ambiguous; chrono 0.4.45 lists the later instant first, `resolve1`
takes it (observed on the real code, corpus) -/
example : getNextTimeFixed ⟨2026, 9, 31, 303, 43, 5, 23, 45, 0⟩
    { L := 1793490300, now := 1793490300, naiveOf := fun _ => none,
      mkL := fun l => if l = 1793491200 then .ambiguous 1793494800 1793491200 else .none } .day 1 false
    = .ok 1793494800 := by decide

/-- a gap at the target: same zone, 2026-03-14 23:00, 1 day: 00:00 and 00:15 do not exist, the
schedule is chrono's instant for 00:30 (`C16_boundary_fixed_day_week_gap` with k = 2) -/
example : getNextTimeFixed ⟨2026, 2, 14, 72, 10, 5, 23, 0, 0⟩
    { L := 1773529200, now := 1773532800, naiveOf := fun _ => none,
      mkL := fun l => if l = 1773534600 then .single 1773534600 else .none } .day 1 false
    = .ok 1773534600 := by decide

/-- an absurd interval saturates to "never" instead of panicking -/
example : getNextTimeFixed leapEve
    { L := 1709251198, now := 1709230498, naiveOf := fun _ => none, mkL := fun _ => .none } .second I64_MAX false
    = .ok FAR := by decide

/-- `MonthStarts` is satisfiable (30-day months: a monotone calendar) -/
example : MonthStarts { L := 0, now := 0, naiveOf := fun q => some ((12 * q.y + (q.mo - 1)) * 2592000), mkL := fun _ => .none }
    (fun M => M * 2592000) :=
  ⟨fun M => by simp only [civilOfMonthIndex]; congr 1; congr 1; omega, fun a b h => by omega⟩

/-- a history with three firings, one record lost to an error: files and declarative spec -/
example : segment [some false, some true, some false, none, some true, some true]
    = [[1], [2, 3], [5], [6]] := by decide

example : filesOk [some false, some true, some false, none, some true, some true] [[1], [2, 3], [5], [6]] = true := by
  decide

/-- a wrong cut is rejected by the declarative spec: record 2 fired but sits in the old file -/
example : filesOk [some false, some true, some false] [[1, 2], [3]] = false := by decide

/-- a run with two boundaries: fires at the first arrival ≥ 10, not at 12, 14, fires at 20 -/
example : (runFixed 10 [(3, .ok 15), (11, .ok 15), (12, .ok 15), (14, .ok 15), (20, .ok 25)]).map (·.1)
    = [.ok false, .ok true, .ok false, .ok false, .ok true] := by decide

end Log4rs.TimeTrigger
