import Log4rsModel.System.RollingLemmas
import Log4rsModel.Properties.System
/-
System slice, stage 2 (C) (audited under C01 through `extra_proof_modules`): rolling appenders
(`RollingFileAppender` + `CompoundPolicy(SizeTrigger(limit), FixedWindowRoller | DeleteRoller)`) as a
third kind of sink next to plain file appenders, in one configuration with them.

The generic theorem `C01_sys_sinks_see_delivered_stream` says that the appender behind every name —
whatever it is — is fed exactly the stream of encoded records the specification delivers to it
(`deliveredStream`: per record `specCopies` copies of `specLine`, in call order). For a rolling
appender the feed is a history of the C05 / C06 appender model (Rolling/Model.lean), so the C05 / C06
theorems apply to it verbatim (`C01_sys_rolling_eq_spec`, `C01_sys_rolling_bounded`).
Only property theorems and examples live here.
-/
set_option linter.unusedSimpArgs false
namespace Log4rs.System
open Log4rs Log4rs.Routing Log4rs.Routing.Tree Log4rs.Pattern Log4rs.Pattern.Parse Log4rs.Rolling Log4rs.Roller

/-- GENERIC. For every configuration with a `Valid` routing part whose pattern appenders carry
printed well-formed ASTs — file appenders and rolling appenders mixed in any way — and every history:
nothing panics, and the built appender behind every name of the table ends in the state obtained by
handing it, one after the other, exactly the encoded records the specification delivers to that name
(`specCopies` copies of `specLine` per record, in call order) — nothing else, nothing missing. -/
theorem C01_sys_sinks_see_delivered_stream (cfg : SysConfig) (asts : Name → List Pat) (h : SysWFR cfg asts)
    (rs : List SysRecord) (hd : ∀ r ∈ rs, DatesOkR cfg asts r) :
    ∃ st, sysRun cfg rs = .ok st ∧
      ∀ a ∈ cfg.routing.appenders, getApp st.apps a =
        some ((deliveredStream cfg asts a rs).foldl fileAppend (openSink (cfg.app a) (chunksFor cfg asts a))) :=
  sysRun_sinks cfg asts h rs hd

/-- a record routed `k` times to an appender is `k` consecutive whole records of its stream -/
theorem C01_sys_stream_copies_consecutive (cfg : SysConfig) (asts : Name → List Pat) (a : Name)
    (rs₁ rs₂ : List SysRecord) (r : SysRecord) :
    deliveredStream cfg asts a (rs₁ ++ r :: rs₂) =
      deliveredStream cfg asts a rs₁ ++ List.replicate (specCopies cfg a r) (specLine cfg asts a r) ++
        deliveredStream cfg asts a rs₂ := by
  simp [deliveredStream, List.flatMap_append, List.flatMap_cons]

/-- The rolling appender of the system IS the C05 / C06 appender model run on the delivered stream:
its directory after the history is the disk of `Rolling.grunX` (the run the C05 theorems speak about)
on one `append` per delivered record. -/
theorem C01_sys_rolling_is_c05_run (cfg : SysConfig) (asts : Name → List Pat) (h : SysWFR cfg asts)
    (rs : List SysRecord) (hd : ∀ r ∈ rs, DatesOkR cfg asts r)
    (a : Name) (ha : a ∈ cfg.routing.appenders) (spec : RollSpec) (hr : (cfg.app a).rolling = some spec)
    (arch : Disk → List Bytes) :
    let c := spec.cfg ((cfg.app a).mode == .append)
    ∃ st, sysRun cfg rs = .ok st ∧
      st.dir a = some (grunX c (init c spec.dir () 0) (Ghost.init c arch spec.dir)
        (streamOps (deliveredStream cfg asts a rs))).2.1.disk := by
  intro c
  obtain ⟨st, hs, hp⟩ := C01_sys_sinks_see_delivered_stream cfg asts h rs hd
  refine ⟨st, hs, ?_⟩
  have hopen : openSink (cfg.app a) (chunksFor cfg asts a) =
      { enc := chunksFor cfg asts a, file := { disk := [], buf := [] }, roll := some (c, init c spec.dir () 0) } := by
    simp [openSink, hr, c]
  simp only [FilesState.dir, hp a ha, hopen, foldl_fileAppend_roll, grunX_state, Option.bind_some, Option.map_some]

theorem writtenItems_streamOps (stream : List Bytes) (outs : List (Option Rolling.Out)) (hl : outs.length = stream.length)
    (hsome : ∀ o ∈ outs, o.isSome = true) :
    writtenItemsX false (streamOps stream) outs = stream := by
  induction stream generalizing outs with
  | nil => cases outs <;> simp [streamOps, writtenItemsX]
  | cons x xs ih =>
    cases outs with
    | nil => simp at hl
    | cons o os =>
      cases o with
      | none => simpa using hsome none (by simp)
      | some out =>
        have := ih os (by simpa using hl) (fun o ho => hsome o (by simp [ho]))
        simp only [streamOps, List.map_cons] at this ⊢
        simp [writtenItemsX, wrote, encBytes, this]

theorem rollCalls_le_length : ∀ outs : List (Option Rolling.Out), rollCalls outs ≤ outs.length := by
  intro outs
  induction outs with
  | nil => simp [rollCalls]
  | cons o os ih =>
    unfold rollCalls at ih ⊢
    simp only [List.map_cons, List.sum_cons, List.length_cons]
    cases o with
    | none => simp only []; omega
    | some out =>
      have hle : callsOfOut out ≤ 1 := by unfold callsOfOut; split <;> omega
      simp only []
      omega

theorem traceX_streamOps_some (c : Cfg Unit) (stream : List Bytes) :
    ∀ (s : St Unit), ∀ o ∈ (traceX c s (streamOps stream)).map (·.1), o.isSome = true := by
  induction stream with
  | nil => intro s o ho; simp [streamOps, traceX] at ho
  | cons x xs ih =>
    intro s o ho
    simp only [streamOps, List.map_cons, traceX, List.mem_cons] at ho
    rcases ho with rfl | ho
    · simp [applyX, applyOp]
    · exact ih _ o ho

/-- MAIN THEOREM (C). For a rolling appender `a` of a well-formed configuration whose roller honours
`Roll::roll`'s contract with respect to a reading `arch` of its archives (`RollContractE`, proved in
C05 for the delete roller and for the fixed-window roller with an injective `{}` pattern): after any
history the retained files of `a`'s directory — archives oldest to newest, then the active file —
are the SEGMENTED STREAM minus its `k` oldest whole segments, `k` at most the number of rotations;
and the segmented stream is, item by item, what the directory held when the appender was built
(archives, then in append mode the log file) followed by exactly the encoded records routing and the
appender's filters delivered to it, each whole, in order, `specCopies` times — nothing lost from the
middle, duplicated, reordered or split (C05_no_loss_no_dup_order + C05_stream_is_written on the
delivered stream). -/
theorem C01_sys_rolling_eq_spec (cfg : SysConfig) (asts : Name → List Pat) (h : SysWFR cfg asts)
    (rs : List SysRecord) (hd : ∀ r ∈ rs, DatesOkR cfg asts r)
    (a : Name) (ha : a ∈ cfg.routing.appenders) (spec : RollSpec) (hr : (cfg.app a).rolling = some spec)
    (arch : Disk → List Bytes)
    (hc : RollContractE spec.roller.fn spec.active arch) :
    let c := spec.cfg ((cfg.app a).mode == .append)
    ∃ (st : FilesState) (d : Disk) (segs : List (List Bytes)) (k : Nat), sysRun cfg rs = .ok st ∧ st.dir a = some d ∧
      retained c arch d = (segs.drop k).map List.flatten ∧
      k < segs.length ∧ k ≤ (deliveredStream cfg asts a rs).length ∧
      segs.flatten = arch spec.dir ++ (if (cfg.app a).mode == .append then [fileOf c spec.dir] else []) ++
        deliveredStream cfg asts a rs := by
  intro c
  obtain ⟨st, hs, hdir⟩ := C01_sys_rolling_is_c05_run cfg asts h rs hd a ha spec hr arch
  have hc' : RollContractE c.roll c.path arch := hc
  obtain ⟨k, hk1, hk2, hret⟩ := C05_no_loss_no_dup_order c arch hc' spec.dir () 0
    (streamOps (deliveredStream cfg asts a rs))
  obtain ⟨_, hst, _, houts⟩ := C05_stream_is_written c arch spec.dir () 0 (streamOps (deliveredStream cfg asts a rs))
  have hnr : ∀ op ∈ streamOps (deliveredStream cfg asts a rs), op.isRestart = false := by
    intro op hop
    simp only [streamOps, List.mem_map] at hop
    obtain ⟨x, _, rfl⟩ := hop
    rfl
  have hstream := hst (Or.inr hnr)
  have hlen : (grunX c (init c spec.dir () 0) (Ghost.init c arch spec.dir)
      (streamOps (deliveredStream cfg asts a rs))).1.length = (deliveredStream cfg asts a rs).length := by
    rw [houts, List.length_map, traceX_length]; simp [streamOps]
  have hwritten := writtenItems_streamOps (deliveredStream cfg asts a rs) _ hlen (by
    rw [houts]; exact traceX_streamOps_some c _ _)
  refine ⟨st, _, _, k, hs, hdir, hret, by simp; omega, ?_, ?_⟩
  · refine Nat.le_trans hk1 ?_
    have := rollCalls_le_length
    exact hlen ▸ this _
  · have hcp : c.trig.pre = false := rfl
    rw [hcp] at hstream
    have : ((grunX c (init c spec.dir () 0) (Ghost.init c arch spec.dir)
        (streamOps (deliveredStream cfg asts a rs))).2.2.closed ++
        [(grunX c (init c spec.dir () 0) (Ghost.init c arch spec.dir)
        (streamOps (deliveredStream cfg asts a rs))).2.2.cur]).flatten = _ := hstream
    rw [this, hwritten, C05_initial_stream]
    rfl

/-- the delete roller honours the contract (it retains nothing): `C01_sys_rolling_eq_spec` applies
with `arch = fun _ => []` — the retained "files" are the active file alone -/
theorem C01_sys_rolling_contract_delete (active : List Char) :
    RollContractE RollerKind.delete.fn active (fun _ => []) := C05_contract_delete active

/-- the fixed-window roller with a `{}` pattern none of whose slots is the log file honours the
contract for the reading "slots `base+count-1 … base`, oldest first": `C01_sys_rolling_eq_spec` applies -/
theorem C01_sys_rolling_contract_fixed_window (p : List Char) (hp : hasHole p = true) (base count : Nat)
    (active : List Char) (hfile : ∀ j, j < count → name id p (base + j) ≠ active) :
    RollContractE (RollerKind.fixedWindow p base count).fn active (fwArch (mkRoller id id p base count) id) :=
  C05_contract_fixed_window_pattern p hp id id base count active (fun _ => rfl) hfile

/-- … and that reading is the executable `Spec.readBack` the driver evaluates on real directories -/
theorem C01_sys_rolling_readback (spec : RollSpec) (p : List Char) (base count : Nat)
    (am : Bool) (d : Disk) :
    (retained (spec.cfg am) (fwArch (mkRoller id id p base count) id) d).flatten =
      Spec.readBack (mkRoller id id p base count).nameOf base count spec.active d.get? :=
  C05_readBack_is_spec (spec.cfg am) (mkRoller id id p base count) d

theorem WF_rollFinal (c : Cfg Unit) (ops : List XOp) : ∀ (s : St Unit), WF c s → WF c (rollFinal c s ops) := by
  induction ops with
  | nil => intro s h; exact h
  | cons op ops ih => intro s h; exact ih _ (WF_applyX c s op h)

/-- C06 inside the system: at EVERY delivery to a rolling appender — whatever was delivered before,
including the other copies of the same record — the policy is shown exactly the size of the log file
on disk plus the encoded record, and the roller is invoked iff that exceeds the limit; never
earlier, never deferred. (`pre`: the part of the delivered stream before this delivery.) -/
theorem C01_sys_rolling_rolls_iff_exceeds (spec : RollSpec) (am : Bool) (pre : List Bytes) (x : Bytes) :
    let c := spec.cfg am
    let s := rollFinal c (init c spec.dir () 0) (streamOps pre)
    let L := (fileOf c s.disk).length + x.length
    (append c s [x] (faultFn none)).1.consult = some (L, L) ∧
    ((append c s [x] (faultFn none)).1.rolled.isSome ↔ L > spec.limit) := by
  intro c s L
  have hwf : WF c s := WF_rollFinal c _ _ (WF_init c spec.dir () 0)
  have := C06_rolls_iff_exceeds spec.active am spec.limit spec.roller.fn s [x] (faultFn none) hwf
  have hc : sizeCfg spec.active am spec.limit spec.roller.fn = c := rfl
  rw [hc] at this
  simpa [encBytes, L] using this

/-- THE FULL STATEMENT of the bound (C06 "S4") inside the system: after every delivery the log file
of a rolling appender has just been rotated away or holds at most `limit` bytes. Proved for the
delete roller and every plain fixed-window roller (`C01_sys_rolling_bounded_partial`, below); open
for compressed fixed-window patterns (`.gz` / `.zst`), where "the roller never returns `Err` without
an injected fault" needs more than `RollContractE`. The correspondence check evaluates the bound on
every snapshot (`specRollingOk`). -/
def C01_sys_rolling_bounded_statement : Prop :=
  ∀ (spec : RollSpec) (am : Bool) (arch : Disk → List Bytes), RollContractE spec.roller.fn spec.active arch →
    ∀ (pre : List Bytes) (x : Bytes),
      let c := spec.cfg am
      let d := (rollFinal c (init c spec.dir () 0) (streamOps (pre ++ [x]))).disk
      d.get? spec.active = none ∨ ∃ b, d.get? spec.active = some b ∧ b.length ≤ spec.limit

/-! ### the bound (C06 "S4") inside the system -/

/-- a roller that cannot fail without an injected fault while the log file exists -/
def NoErr (roll : RollFn) (path : Path) : Prop :=
  ∀ d a, d.get? path = some a → ∃ x, (roll path (faultFn none) d).1 = .ok x

theorem faultFn_none (k : Nat) : faultFn none k = false := by simp [faultFn]

/-- (i) the delete roller: `remove_file` of an existing file, no injected fault -/
theorem C01_sys_rolling_delete_never_errs (path : Path) : NoErr RollerKind.delete.fn path := by
  intro d a hg
  simp [RollerKind.fn, deleteRoll, faultFn_none, hg]

theorem runSteps_plain_ok (r : RollerCfg) (hc : r.comp = .none) (file : Path) (steps : List Roller.Step) :
    ∀ (k : Nat) (d : Disk), ∃ x, (runSteps r file (faultFn none) k steps d).1 = .ok x := by
  induction steps with
  | nil => intro k d; exact ⟨d, rfl⟩
  | cons st rest ih =>
    intro k d
    cases st with
    | shift i => simp only [runSteps, faultFn_none, applyStep]; exact ih _ _
    | final => simp only [runSteps, faultFn_none, applyStep, finalStep, hc]; exact ih _ _

/-- (i) the fixed-window roller with a plain (uncompressed) pattern: every step of the rotation is a
rename that tolerates a missing source, so without an injected fault it cannot fail (any base, any
count, `count = 0` included: then it is `remove_file` of the existing log file) -/
theorem C01_sys_rolling_plain_window_never_errs (p : List Char) (hplain : compressionOf p = .none)
    (base count : Nat) (path : Path) : NoErr (RollerKind.fixedWindow p base count).fn path := by
  intro d a hg
  simp only [RollerKind.fn, fixedWindowRoll]
  by_cases hc : (mkRoller id id p base count).count = 0
  · simp [hc, faultFn_none, hg]
  · simp only [hc, if_false]
    exact runSteps_plain_ok (mkRoller id id p base count) (show compressionOf p = .none from hplain) path _ 0 d

theorem rollFinal_append (c : Cfg Unit) (ops1 ops2 : List XOp) :
    ∀ (s : St Unit), rollFinal c s (ops1 ++ ops2) = rollFinal c (rollFinal c s ops1) ops2 := by
  induction ops1 with
  | nil => intro s; rfl
  | cons op ops ih => intro s; simp [rollFinal, ih]

/-- THE BOUND, for every roller that honours `Roll::roll`'s contract (`RollContractE`) and cannot
fail without an injected fault (`NoErr`): after EVERY delivery to a rolling appender — whatever the
directory held before, whatever was delivered before, both open modes, any limit including 0 — the
log file has just been rotated away or holds at most `limit` bytes. -/
theorem C01_sys_rolling_bounded_of_noErr (spec : RollSpec) (am : Bool) (arch : Disk → List Bytes)
    (hc : RollContractE spec.roller.fn spec.active arch) (hne : NoErr spec.roller.fn spec.active)
    (pre : List Bytes) (x : Bytes) :
    let c := spec.cfg am
    let d := (rollFinal c (init c spec.dir () 0) (streamOps (pre ++ [x]))).disk
    d.get? spec.active = none ∨ ∃ b, d.get? spec.active = some b ∧ b.length ≤ spec.limit := by
  intro c d
  let s := rollFinal c (init c spec.dir () 0) (streamOps pre)
  have hwf : WF c s := WF_rollFinal c _ _ (WF_init c spec.dir () 0)
  have hd : d = (append c s [x] (faultFn none)).2.disk := by
    simp only [d, streamOps, List.map_append, rollFinal_append, List.map_cons, List.map_nil, rollFinal, applyX, applyOp]
    rfl
  obtain ⟨_, _, _, _, hno, _, hyes⟩ :=
    append_post_spec c s [x] (faultFn none) hwf rfl _ _ (append c s [x] (faultFn none)).1
      (append c s [x] (faultFn none)).2 rfl rfl rfl
  rw [hd]
  by_cases hgt : (openView c s ++ encBytes [x]).length > spec.limit
  · have hans : (c.trig.fire s.tst (openView c s ++ encBytes [x]).length s.now).1 = .yes := by
      show ((sizeCfg spec.active am spec.limit spec.roller.fn).trig.fire _ _ _).1 = _
      rw [sizeCfg_fire, if_pos hgt]
    obtain ⟨d1, hg1, _, _, hdisk, _⟩ := hyes hans
    left
    rw [hdisk]
    obtain ⟨y, hy⟩ := hne d1 _ hg1
    have hroll : spec.roller.fn spec.active (faultFn none) d1 =
        (.ok y, (spec.roller.fn spec.active (faultFn none) d1).2) := by
      rw [← hy]
    exact (hc.ok (faultFn none) d1 y _ _ hroll hg1).1
  · have hans : (c.trig.fire s.tst (openView c s ++ encBytes [x]).length s.now).1 = .no := by
      show ((sizeCfg spec.active am spec.limit spec.roller.fn).trig.fire _ _ _).1 = _
      rw [sizeCfg_fire, if_neg hgt]
    obtain ⟨_, _, ⟨w, _, _, hg, _⟩, _⟩ := hno hans
    right
    exact ⟨_, hg, Nat.le_of_not_gt hgt⟩

/-- a roller of the system that is the delete roller or a fixed-window roller with a plain pattern -/
def PlainRoller : RollerKind → Prop
  | .delete => True
  | .fixedWindow p _ _ => compressionOf p = .none

/-- `C01_sys_rolling_bounded_statement` for the rollers the system slice builds and the harness
exercises: the delete roller and the fixed-window roller with a plain pattern (any base and count).
Still open in the full statement: fixed-window patterns ending in `.gz` / `.zst` (there the final
step opens the log file and can fail when a slot name coincides with it; `RollContractE` alone does
not exclude that in this proof). -/
theorem C01_sys_rolling_bounded_partial (spec : RollSpec) (am : Bool) (arch : Disk → List Bytes)
    (hc : RollContractE spec.roller.fn spec.active arch) (hplain : PlainRoller spec.roller)
    (pre : List Bytes) (x : Bytes) :
    let c := spec.cfg am
    let d := (rollFinal c (init c spec.dir () 0) (streamOps (pre ++ [x]))).disk
    d.get? spec.active = none ∨ ∃ b, d.get? spec.active = some b ∧ b.length ≤ spec.limit := by
  apply C01_sys_rolling_bounded_of_noErr spec am arch hc
  cases hk : spec.roller with
  | delete => exact C01_sys_rolling_delete_never_errs _
  | fixedWindow p base count =>
    rw [hk] at hplain
    exact C01_sys_rolling_plain_window_never_errs p hplain base count _

/-- … inside the system: after a history whose delivered stream to the rolling appender `a` is not
empty, the log file in `a`'s directory is gone or within the limit -/
theorem C01_sys_rolling_bounded_in_system (cfg : SysConfig) (asts : Name → List Pat) (h : SysWFR cfg asts)
    (rs : List SysRecord) (hd : ∀ r ∈ rs, DatesOkR cfg asts r)
    (a : Name) (ha : a ∈ cfg.routing.appenders) (spec : RollSpec) (hr : (cfg.app a).rolling = some spec)
    (arch : Disk → List Bytes) (hc : RollContractE spec.roller.fn spec.active arch)
    (hplain : PlainRoller spec.roller) (hne : deliveredStream cfg asts a rs ≠ []) :
    ∃ st d, sysRun cfg rs = .ok st ∧ st.dir a = some d ∧
      (d.get? spec.active = none ∨ ∃ b, d.get? spec.active = some b ∧ b.length ≤ spec.limit) := by
  obtain ⟨st, hs, hdir⟩ := C01_sys_rolling_is_c05_run cfg asts h rs hd a ha spec hr arch
  refine ⟨st, _, hs, hdir, ?_⟩
  rw [grunX_state]
  obtain ⟨pre, x, hsplit⟩ : ∃ pre x, deliveredStream cfg asts a rs = pre ++ [x] :=
    ⟨_, _, (List.dropLast_concat_getLast hne).symm⟩
  rw [hsplit]
  exact C01_sys_rolling_bounded_partial spec _ arch hc hplain pre x

/-! ### non-vacuity (tests on samples, not proofs of the property)

The stage-1 example with appender `f` (attached to the root, to `a` and to `a::b`: three copies of the
first record) turned into a rolling appender: limit 25 bytes, fixed window `arch.{}.log`, base 0,
count 2, log file `active.log` holding `P` beforehand, append mode. -/

def exRollSpec : RollSpec :=
  { limit := 25, roller := .fixedWindow cs!"arch.{}.log" 0 2, active := cs!"active.log",
    dir := ⟨[(cs!"active.log", [80])]⟩ }

def exCfgR : SysConfig :=
  { exCfg with app := fun a => if a = exF then { exCfg.app a with rolling := some exRollSpec } else exCfg.app a }

example : SysWFR exCfgR exAsts where
  valid := by unfold Valid; decide
  cc := by intro c hc; simp [exCfgR, exCfg, asciiClass, hc]
  us := rfl
  dcp := rfl
  mdc := rfl
  mdcE := rfl
  printed := by
    intro a ha _
    simp only [exCfgR, exCfg, exRouting, List.mem_cons, List.not_mem_nil, or_false] at ha
    rcases ha with rfl | rfl <;> rfl
  wf := by
    intro a ha _
    simp only [exCfgR, exCfg, exRouting, List.mem_cons, List.not_mem_nil, or_false] at ha
    rcases ha with rfl | rfl <;> decide

/-- the hypothesis of `C01_sys_rolling_contract_fixed_window` holds of the example's roller -/
example : hasHole cs!"arch.{}.log" = true ∧ ∀ j, j < 2 → name id cs!"arch.{}.log" (0 + j) ≠ cs!"active.log" := by
  refine ⟨rfl, ?_⟩
  intro j hj
  have : j = 0 ∨ j = 1 := by omega
  rcases this with rfl | rfl <;> decide

/-- test on a sample: the stream delivered to `f` is three copies of the first record's line and one
of the last record's (the second is rejected by `f`'s threshold, the third by the logger's level) -/
example : (deliveredStream exCfgR exAsts exF exRecords).map List.length = [11, 11, 11, 12] := by decide +kernel

/-- test on a sample: the directory after the history. `P` + line 1 (12 bytes) stays; + line 2 = 23;
+ line 3 = 34 > 25: rotation BETWEEN the copies of one record — the three copies are whole and
consecutive in `arch.0.log`; the last record starts the new log file. The executable C05 / C06
specification accepts it. -/
example : (sysRun exCfgR exRecords |> fun o => match o with | .ok st => st.dir exF | _ => none) =
    some ⟨[(cs!"arch.0.log", [80,
        32, 32, 73, 78, 70, 79, 195, 169, 104, 105, 10,
        32, 32, 73, 78, 70, 79, 195, 169, 104, 105, 10,
        32, 32, 73, 78, 70, 79, 195, 169, 104, 105, 10]),
      (cs!"active.log", [32, 69, 82, 82, 79, 82, 195, 169, 226, 130, 172, 10])]⟩ ∧
    specRollingOk exRollSpec true (deliveredStream exCfgR exAsts exF exRecords)
      (fun n => if n = cs!"arch.0.log" then some ((([80] : Bytes) :: (deliveredStream exCfgR exAsts exF exRecords).take 3).flatten)
        else if n = cs!"active.log" then (deliveredStream exCfgR exAsts exF exRecords)[3]? else none) = true := by
  decide +kernel

end Log4rs.System
