import Log4rsModel.Routing.FiltersLemmas
/-
C03 — Filter chains decide per appender; rejections and errors are isolated.
Only property theorems and non-vacuity examples live here; helpers are in Routing/FiltersLemmas.lean.
Model and specification: Routing/Filters.lean. All statements are for chains, appender tables and
attachment lists of any length.
-/
namespace Log4rs.Routing

/-- The chain interpreter of `Appender::append` computes exactly (number of filters up to and
including the first non-Neutral answer, else the chain length; delivered iff that answer is Accept
or there is none). -/
theorem C03_runChain_spec (lvl : Nat) (chain : List Filter) :
    runChain lvl chain = (specConsulted lvl chain, specDelivered lvl chain) :=
  runChain_eq_spec lvl chain

/-- The same without `find?`: with `rs` the answers the filters would give and `k` the number of
filters consulted — the first `k-1` answered Neutral (declaration order, no gaps), and either all
answered Neutral, all were consulted and the record is delivered, or the `k`-th answer is the first
non-Neutral one and the record is delivered iff it is Accept. Filters after the `k`-th are not
consulted. -/
theorem C03_runChain_declarative (lvl : Nat) (chain : List Filter) :
    let rs := chain.map (·.respond lvl)
    let k := (runChain lvl chain).1
    k ≤ chain.length ∧ (∀ j, j + 1 < k → rs[j]? = some .neutral) ∧
    (((∀ r ∈ rs, r = .neutral) ∧ k = chain.length ∧ (runChain lvl chain).2 = true) ∨
     ∃ r, 1 ≤ k ∧ rs[k - 1]? = some r ∧ r ≠ .neutral ∧ ((runChain lvl chain).2 = true ↔ r = .accept)) := by
  induction chain with
  | nil => simp [runChain]
  | cons f rest ih =>
    obtain ⟨ih1, ih2, ih3⟩ := ih
    cases h : f.respond lvl
    · simp [runChain, h]
    · simp only [runChain, h, List.map_cons, List.length_cons]
      refine ⟨by omega, ?_, ?_⟩
      · intro j hj
        cases j with
        | zero => simp
        | succ j => simpa using ih2 j (by omega)
      · rcases ih3 with ⟨ha, hk, hd⟩ | ⟨r, hk, hr, hne, hd⟩
        · left
          refine ⟨?_, by omega, hd⟩
          intro r hr
          rcases List.mem_cons.mp hr with rfl | hr
          · rfl
          · exact ha r hr
        · right
          refine ⟨r, by omega, ?_, hne, hd⟩
          have : (runChain lvl rest).1 + 1 - 1 = ((runChain lvl rest).1 - 1) + 1 := by omega
          rw [this]
          simpa using hr
    · simp [runChain, h]

/-- Delivery in terms of the first decisive answer. -/
theorem C03_delivered_iff (lvl : Nat) (chain : List Filter) :
    (runChain lvl chain).2 = true ↔
      firstDecisive lvl chain = none ∨ firstDecisive lvl chain = some .accept := by
  rw [runChain_eq_spec]
  simp only [specDelivered]
  cases firstDecisive lvl chain <;> simp

/-- Short circuit: whatever stands behind the consulted prefix of a decided chain has no influence
(and is not consulted: the count stays the same). -/
theorem C03_later_filters_irrelevant (lvl : Nat) (chain other : List Filter)
    (h : firstDecisive lvl chain ≠ none) :
    runChain lvl (chain.take (runChain lvl chain).1 ++ other) = runChain lvl chain := by
  induction chain with
  | nil => simp [firstDecisive] at h
  | cons f rest ih =>
    cases hf : f.respond lvl
    · simp [runChain, hf]
    · have h' : firstDecisive lvl rest ≠ none := by
        simpa [firstDecisive, List.find?_cons, hf] using h
      simp only [runChain, hf, List.take_succ_cons, List.cons_append, ih h']
    · simp [runChain, hf]

/-- "the threshold filter rejects exactly the records more verbose than its level" -/
theorem C03_threshold_rejects_iff (thr lvl : Nat) :
    (Filter.threshold thr).respond lvl = .reject ↔ lvl > thr := by
  simp only [Filter.respond, thresholdFilter]
  split <;> simp_all

/-- … and is Neutral (never Accept) on all other records. -/
theorem C03_threshold_neutral_iff (thr lvl : Nat) :
    (Filter.threshold thr).respond lvl = .neutral ↔ lvl ≤ thr := by
  simp only [Filter.respond, thresholdFilter]
  by_cases h : lvl > thr
  · simp only [h, if_true]; constructor
    · intro hc; cases hc
    · intro hc; omega
  · simp only [h, if_false]; constructor
    · intro _; omega
    · intro _; trivial

/-- A threshold filter alone in a chain delivers exactly the records at most as verbose as its level. -/
theorem C03_threshold_chain (thr lvl : Nat) :
    (runChain lvl [Filter.threshold thr]).2 = true ↔ lvl ≤ thr := by
  simp only [runChain, Filter.respond, thresholdFilter]
  by_cases h : lvl > thr
  · simp only [h, if_true]; constructor
    · intro hc; cases hc
    · intro hc; omega
  · simp only [h, if_false]; constructor
    · intro _; omega
    · intro _; trivial

/-- Several thresholds, anywhere before the first scripted decision: with `pre` made of threshold
filters and scripted-Neutral filters only, the chain `pre ++ rest` delivers exactly when the record
is at most as verbose as EVERY threshold in `pre` — i.e. as their minimum — and `rest` delivers.
(`rest = []`: a chain of thresholds; `rest = Accept :: _` / `Reject :: _`: the thresholds consulted
before the first decisive scripted answer.) -/
theorem C03_thresholds_conjoin (lvl : Nat) (pre rest : List Filter) (h : ∀ f ∈ pre, LevelGate f) :
    (runChain lvl (pre ++ rest)).2 = true ↔
      (∀ t ∈ thresholdsOf pre, lvl ≤ t) ∧ (runChain lvl rest).2 = true := by
  rw [runChain_prefix_no_accept lvl pre rest (gates_no_accept lvl pre h), gates_all_neutral lvl pre h]
  simp

/-- the same with the minimum named: if `m` is the least threshold level in `pre`, the chain
delivers iff `lvl ≤ m` and `rest` delivers; without any threshold in `pre`, iff `rest` delivers. -/
theorem C03_thresholds_minimum (lvl : Nat) (pre rest : List Filter) (h : ∀ f ∈ pre, LevelGate f) :
    (∀ m, (thresholdsOf pre).min? = some m →
      ((runChain lvl (pre ++ rest)).2 = true ↔ lvl ≤ m ∧ (runChain lvl rest).2 = true)) ∧
    ((thresholdsOf pre).min? = none →
      (runChain lvl (pre ++ rest)).2 = (runChain lvl rest).2) := by
  constructor
  · intro m hm
    rw [C03_thresholds_conjoin lvl pre rest h, all_le_iff_le_min lvl _ m hm]
  · intro hn
    have : thresholdsOf pre = [] := List.min?_eq_none_iff.mp hn
    rw [runChain_prefix_no_accept lvl pre rest (gates_no_accept lvl pre h), gates_all_neutral lvl pre h,
      this]
    simp

/-- a chain of thresholds alone (any number, any order) delivers exactly the records at most as
verbose as the strictest of them; the order of the thresholds does not matter -/
theorem C03_threshold_chain_many (lvl : Nat) (thrs : List Nat) :
    (runChain lvl (thrs.map Filter.threshold)).2 = true ↔ ∀ t ∈ thrs, lvl ≤ t := by
  have hg : ∀ f ∈ thrs.map Filter.threshold, LevelGate f := by
    intro f hf
    obtain ⟨t, _, rfl⟩ := List.mem_map.mp hf
    trivial
  have hts : thresholdsOf (thrs.map Filter.threshold) = thrs := by
    induction thrs with
    | nil => rfl
    | cons t ts ih =>
      simp only [List.map_cons, thresholdsOf]
      rw [ih]
      intro f hf
      obtain ⟨t', _, rfl⟩ := List.mem_map.mp hf
      trivial
  have := C03_thresholds_conjoin lvl (thrs.map Filter.threshold) [] hg
  simpa [hts, runChain] using this

/-- an earlier Accept bypasses every later threshold, however strict -/
theorem C03_accept_bypasses_thresholds (lvl : Nat) (pre later : List Filter)
    (h : ∀ f ∈ pre, f.respond lvl = .neutral) :
    runChain lvl (pre ++ Filter.fixed .accept :: later) = (pre.length + 1, true) := by
  induction pre with
  | nil => simp [runChain, Filter.respond]
  | cons f fs ih =>
    have hf := h f (by simp)
    have ih' := ih (fun g hg => h g (by simp [hg]))
    simp only [List.cons_append, runChain, hf, ih', List.length_cons]

/-! ### the construction path does not matter -/

/-- Declaration order is consultation order on every construction path: the chain attached through
`Appender::builder().filter(…)…` and the chain attached from the `filters:` list of a
configuration document whose entries all deserialize are both the declared list itself, so every
theorem above about `runChain` speaks about both. (The harness constructs every chain through the
builder, a YAML file and a JSON `RawConfig`.) -/
theorem C03_chain_order_is_declaration_order (declared : List Filter) (lvl : Nat) :
    builderChain declared = declared ∧
    configChain (declared.map FilterEntry.ok) = (declared, 0) ∧
    runChain lvl (configChain (declared.map FilterEntry.ok)).1 = runChain lvl (builderChain declared) := by
  have h1 := builderChain_eq declared
  have h2 : configChain (declared.map FilterEntry.ok) = (declared, 0) := by
    rw [configChain_eq, validEntries_map_ok, count_bad_map_ok]
  exact ⟨h1, h2, by rw [h1, h2]⟩

/-- lossy document path in general: the chain is the entries that deserialize, in document order
(never re-ordered, whatever their kind), and each entry that does not is reported once. -/
theorem C03_config_chain_keeps_document_order (doc : List FilterEntry) :
    configChain doc = (validEntries doc, doc.count .bad) :=
  configChain_eq doc

/-- The whole call sequence of one `Log::log` is the one assembled from each attached appender's own
chain; in particular no panic when the attachment indices are in range (C13 guarantees that). -/
theorem C03_fanout_eq_spec (table : List AppenderM) (nodeLevel : Nat) (attached : List Nat) (lvl : Nat)
    (h : ∀ j ∈ attached, j < table.length) :
    fanout table nodeLevel attached lvl = .ok (specTrace table nodeLevel attached lvl) :=
  fanout_eq_spec table nodeLevel attached lvl h

/-- Isolation: the calls that concern appender `i` (its filters, its `append`, the handler calls for
its errors) are the same under any replacement of the other appenders — their chains, whether they
fail, even their number. -/
theorem C03_fanout_isolated (t t' : List AppenderM) (nodeLevel : Nat) (attached : List Nat)
    (lvl i : Nat) (hi : t[i]? = t'[i]?)
    (h : ∀ j ∈ attached, j < t.length) (h' : ∀ j ∈ attached, j < t'.length) :
    ∃ tr tr', fanout t nodeLevel attached lvl = .ok tr ∧ fanout t' nodeLevel attached lvl = .ok tr' ∧
      project i tr = project i tr' := by
  refine ⟨_, _, fanout_eq_spec t nodeLevel attached lvl h, fanout_eq_spec t' nodeLevel attached lvl h', ?_⟩
  simp only [specTrace_eq]
  split
  · simp only [project_append, project_flatMap, project_handlers]
    have h1 : specAttachEvents t lvl i = specAttachEvents t' lvl i := by simp [specAttachEvents, hi]
    have h2 : specErrs t lvl i = specErrs t' lvl i := by simp [specErrs, hi]
    rw [h1, h2]
  · rfl

/-- What appender `i` receives, explicitly: per attachment of `i` to the logger, the consulted
prefix of its own chain and then (if its chain delivers) one `append`; afterwards one handler call
per attachment if it is reached and fails. Nothing else in the trace concerns `i`. -/
theorem C03_received_formula (t : List AppenderM) (nodeLevel : Nat) (attached : List Nat)
    (lvl i : Nat) (a : AppenderM) (hi : t[i]? = some a) (hadm : admits nodeLevel lvl = true)
    (h : ∀ j ∈ attached, j < t.length) :
    ∃ tr, fanout t nodeLevel attached lvl = .ok tr ∧
      project i tr =
        (List.replicate (attached.count i) (specAppenderEvents i a lvl)).flatten ++
        List.replicate (if specDelivered lvl a.chain && a.fails then attached.count i else 0)
          (Event.handler i) := by
  refine ⟨_, fanout_eq_spec t nodeLevel attached lvl h, ?_⟩
  simp only [specTrace_eq, hadm, if_true, project_append, project_flatMap, project_handlers]
  simp [specAttachEvents, specErrs, hi]

/-- "each appender error is handed to the configured error handler exactly once": the handler calls
are exactly the attachments whose appender is reached and fails, once each, in attachment order,
and they come after every filter and append call. -/
theorem C03_errors_once (t : List AppenderM) (nodeLevel : Nat) (attached : List Nat) (lvl : Nat)
    (hadm : admits nodeLevel lvl = true) (h : ∀ j ∈ attached, j < t.length) :
    ∃ calls, fanout t nodeLevel attached lvl =
        .ok (calls ++ (attached.filter (specErrs t lvl)).map Event.handler) ∧
      ∀ e ∈ calls, ∀ j, e ≠ Event.handler j := by
  refine ⟨attached.flatMap (specAttachEvents t lvl), ?_, ?_⟩
  · rw [fanout_eq_spec t nodeLevel attached lvl h, specTrace_eq, hadm]; rfl
  · intro e he j hej
    subst hej
    simp only [List.mem_flatMap] at he
    obtain ⟨k, _, hk⟩ := he
    unfold specAttachEvents at hk
    split at hk
    · simp only [specAppenderEvents, List.mem_append, List.mem_map] at hk
      rcases hk with ⟨_, _, hk⟩ | hk
      · cases hk
      · split at hk <;> simp at hk
    · simp at hk

/-- A record the node does not admit causes no call at all. -/
theorem C03_not_admitted_silent (t : List AppenderM) (nodeLevel : Nat) (attached : List Nat) (lvl : Nat)
    (hadm : admits nodeLevel lvl = false) :
    fanout t nodeLevel attached lvl = .ok [] := by
  simp [fanout, hadm]

/-- A rejection is not an error: an appender whose chain rejects gets no `append` call and causes
no handler call, however often it is attached and whether or not it would fail. -/
theorem C03_rejection_silent (t : List AppenderM) (nodeLevel : Nat) (attached : List Nat)
    (lvl i : Nat) (a : AppenderM) (hi : t[i]? = some a) (hrej : (runChain lvl a.chain).2 = false)
    (h : ∀ j ∈ attached, j < t.length) :
    ∃ tr, fanout t nodeLevel attached lvl = .ok tr ∧ Event.append i ∉ tr ∧ Event.handler i ∉ tr := by
  rw [runChain_eq_spec] at hrej
  simp only at hrej
  refine ⟨_, fanout_eq_spec t nodeLevel attached lvl h, ?_, ?_⟩
  · simp only [specTrace_eq]
    split
    · simp only [List.mem_append, List.mem_flatMap, List.mem_map, List.mem_filter, not_or, not_exists,
        not_and]
      refine ⟨?_, ?_⟩
      · intro j _ hmem
        have := specAttachEvents_app t lvl j _ hmem
        simp only [Event.app] at this
        subst this
        simp [specAttachEvents, hi, specAppenderEvents, hrej] at hmem
      · intro j _ hc; cases hc
    · simp
  · simp only [specTrace_eq]
    split
    · simp only [List.mem_append, List.mem_flatMap, List.mem_map, List.mem_filter, not_or, not_exists,
        not_and]
      refine ⟨?_, ?_⟩
      · intro j _ hmem
        have := specAttachEvents_app t lvl j _ hmem
        simp only [Event.app] at this
        subst this
        simp [specAttachEvents, hi, specAppenderEvents, hrej] at hmem
      · intro j hj hc
        cases hc
        simp [specErrs, hi, hrej] at hj
    · simp

/-! ### Non-vacuity (tests on samples, not proofs of the property) -/

/-- Accept before Reject delivers after two consultations; the third filter is not consulted. -/
example : runChain 3 [.fixed .neutral, .fixed .accept, .fixed .reject] = (2, true) := by decide
/-- Reject before Accept drops. -/
example : runChain 3 [.fixed .neutral, .fixed .reject, .fixed .accept] = (2, false) := by decide
/-- all-Neutral delivers. -/
example : runChain 3 [.fixed .neutral, .threshold 4] = (2, true) := by decide
/-- a failing appender before a healthy one: both are called, one handler call at the end. -/
example : fanout [⟨[.fixed .neutral], true⟩, ⟨[.threshold 2], false⟩, ⟨[], false⟩] 5 [0, 1, 2] 3 =
    .ok [.filter 0 0, .append 0, .filter 1 0, .append 2, .handler 0] := by decide
/-- two leading thresholds of different levels: the stricter one decides, in either order -/
example : (runChain 2 [.threshold 2, .threshold 1]).2 = false ∧ (runChain 2 [.threshold 1, .threshold 2]).2 = false ∧
    (runChain 1 [.threshold 0, .threshold 1]).2 = false ∧ (runChain 1 [.threshold 2, .threshold 1]).2 = true := by decide
/-- Accept declared before a strict threshold delivers; declared after it does not -/
example : (runChain 3 [.fixed .accept, .threshold 1]).2 = true ∧ (runChain 3 [.threshold 1, .fixed .accept]).2 = false := by
  decide
/-- a document with a bad entry in the middle keeps the others in order -/
example : configChain [.ok (.fixed .accept), .bad, .ok (.threshold 1)] = ([.fixed .accept, .threshold 1], 1) := by
  decide
/-- an out-of-range attachment is an explicit panic of the model, so the range hypothesis matters. -/
example : fanout [⟨[], false⟩] 5 [1] 3 = .panic "appenders[idx]: index out of bounds" := by decide

end Log4rs.Routing
