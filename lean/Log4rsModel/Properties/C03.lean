import Log4rsModel.Routing.FiltersLemmas
/-
C03 — Filter chains decide per appender; rejections and errors are isolated.
Only property theorems and non-vacuity examples live here; helpers are in Routing/FiltersLemmas.lean.
Model and specification: Routing/Filters.lean. All statements are for chains, appender tables and
attachment lists of any length.
-/
namespace Log4rs.Routing

/-- The chain interpreter of `Appender::append` computes exactly (number of filters up to and
including the first non-Neutral answer, else the chain length; delivered iff that answer is Accept
or there is none). -/
theorem C03_runChain_spec (lvl : Nat) (chain : List Filter) :
    runChain lvl chain = (specConsulted lvl chain, specDelivered lvl chain) :=
  runChain_eq_spec lvl chain

/-- The same without `find?`: with `rs` the answers the filters would give and `k` the number of
filters consulted — the first `k-1` answered Neutral (declaration order, no gaps), and either all
answered Neutral, all were consulted and the record is delivered, or the `k`-th answer is the first
non-Neutral one and the record is delivered iff it is Accept. Filters after the `k`-th are not
consulted. -/
theorem C03_runChain_declarative (lvl : Nat) (chain : List Filter) :
    let rs := chain.map (·.respond lvl)
    let k := (runChain lvl chain).1
    k ≤ chain.length ∧ (∀ j, j + 1 < k → rs[j]? = some .neutral) ∧
    (((∀ r ∈ rs, r = .neutral) ∧ k = chain.length ∧ (runChain lvl chain).2 = true) ∨
     ∃ r, 1 ≤ k ∧ rs[k - 1]? = some r ∧ r ≠ .neutral ∧ ((runChain lvl chain).2 = true ↔ r = .accept)) := by
  induction chain with
  | nil => simp [runChain]
  | cons f rest ih =>
    obtain ⟨ih1, ih2, ih3⟩ := ih
    cases h : f.respond lvl
    · simp [runChain, h]
    · simp only [runChain, h, List.map_cons, List.length_cons]
      refine ⟨by omega, ?_, ?_⟩
      · intro j hj
        cases j with
        | zero => simp
        | succ j => simpa using ih2 j (by omega)
      · rcases ih3 with ⟨ha, hk, hd⟩ | ⟨r, hk, hr, hne, hd⟩
        · left
          refine ⟨?_, by omega, hd⟩
          intro r hr
          rcases List.mem_cons.mp hr with rfl | hr
          · rfl
          · exact ha r hr
        · right
          refine ⟨r, by omega, ?_, hne, hd⟩
          have : (runChain lvl rest).1 + 1 - 1 = ((runChain lvl rest).1 - 1) + 1 := by omega
          rw [this]
          simpa using hr
    · simp [runChain, h]

/-- Delivery in terms of the first decisive answer. -/
theorem C03_delivered_iff (lvl : Nat) (chain : List Filter) :
    (runChain lvl chain).2 = true ↔
      firstDecisive lvl chain = none ∨ firstDecisive lvl chain = some .accept := by
  rw [runChain_eq_spec]
  simp only [specDelivered]
  cases firstDecisive lvl chain <;> simp

/-- Short circuit: whatever stands behind the consulted prefix of a decided chain has no influence
(and is not consulted: the count stays the same). -/
theorem C03_later_filters_irrelevant (lvl : Nat) (chain other : List Filter)
    (h : firstDecisive lvl chain ≠ none) :
    runChain lvl (chain.take (runChain lvl chain).1 ++ other) = runChain lvl chain := by
  induction chain with
  | nil => simp [firstDecisive] at h
  | cons f rest ih =>
    cases hf : f.respond lvl
    · simp [runChain, hf]
    · have h' : firstDecisive lvl rest ≠ none := by
        simpa [firstDecisive, List.find?_cons, hf] using h
      simp only [runChain, hf, List.take_succ_cons, List.cons_append, ih h']
    · simp [runChain, hf]

/-- "the threshold filter rejects exactly the records more verbose than its level" -/
theorem C03_threshold_rejects_iff (thr lvl : Nat) :
    (Filter.threshold thr).respond lvl = .reject ↔ lvl > thr := by
  simp only [Filter.respond, thresholdFilter]
  split <;> simp_all

/-- … and is Neutral (never Accept) on all other records. -/
theorem C03_threshold_neutral_iff (thr lvl : Nat) :
    (Filter.threshold thr).respond lvl = .neutral ↔ lvl ≤ thr := by
  simp only [Filter.respond, thresholdFilter]
  by_cases h : lvl > thr
  · simp only [h, if_true]; constructor
    · intro hc; cases hc
    · intro hc; omega
  · simp only [h, if_false]; constructor
    · intro _; omega
    · intro _; trivial

/-- A threshold filter alone in a chain delivers exactly the records at most as verbose as its level. -/
theorem C03_threshold_chain (thr lvl : Nat) :
    (runChain lvl [Filter.threshold thr]).2 = true ↔ lvl ≤ thr := by
  simp only [runChain, Filter.respond, thresholdFilter]
  by_cases h : lvl > thr
  · simp only [h, if_true]; constructor
    · intro hc; cases hc
    · intro hc; omega
  · simp only [h, if_false]; constructor
    · intro _; omega
    · intro _; trivial

/-- The whole call sequence of one `Log::log` is the one assembled from each attached appender's own
chain; in particular no panic when the attachment indices are in range (C13 guarantees that). -/
theorem C03_fanout_eq_spec (table : List AppenderM) (nodeLevel : Nat) (attached : List Nat) (lvl : Nat)
    (h : ∀ j ∈ attached, j < table.length) :
    fanout table nodeLevel attached lvl = .ok (specTrace table nodeLevel attached lvl) :=
  fanout_eq_spec table nodeLevel attached lvl h

/-- Isolation: the calls that concern appender `i` (its filters, its `append`, the handler calls for
its errors) are the same under any replacement of the other appenders — their chains, whether they
fail, even their number. -/
theorem C03_fanout_isolated (t t' : List AppenderM) (nodeLevel : Nat) (attached : List Nat)
    (lvl i : Nat) (hi : t[i]? = t'[i]?)
    (h : ∀ j ∈ attached, j < t.length) (h' : ∀ j ∈ attached, j < t'.length) :
    ∃ tr tr', fanout t nodeLevel attached lvl = .ok tr ∧ fanout t' nodeLevel attached lvl = .ok tr' ∧
      project i tr = project i tr' := by
  refine ⟨_, _, fanout_eq_spec t nodeLevel attached lvl h, fanout_eq_spec t' nodeLevel attached lvl h', ?_⟩
  simp only [specTrace_eq]
  split
  · simp only [project_append, project_flatMap, project_handlers]
    have h1 : specAttachEvents t lvl i = specAttachEvents t' lvl i := by simp [specAttachEvents, hi]
    have h2 : specErrs t lvl i = specErrs t' lvl i := by simp [specErrs, hi]
    rw [h1, h2]
  · rfl

/-- What appender `i` receives, explicitly: per attachment of `i` to the logger, the consulted
prefix of its own chain and then (if its chain delivers) one `append`; afterwards one handler call
per attachment if it is reached and fails. Nothing else in the trace concerns `i`. -/
theorem C03_received_formula (t : List AppenderM) (nodeLevel : Nat) (attached : List Nat)
    (lvl i : Nat) (a : AppenderM) (hi : t[i]? = some a) (hadm : admits nodeLevel lvl = true)
    (h : ∀ j ∈ attached, j < t.length) :
    ∃ tr, fanout t nodeLevel attached lvl = .ok tr ∧
      project i tr =
        (List.replicate (attached.count i) (specAppenderEvents i a lvl)).flatten ++
        List.replicate (if specDelivered lvl a.chain && a.fails then attached.count i else 0)
          (Event.handler i) := by
  refine ⟨_, fanout_eq_spec t nodeLevel attached lvl h, ?_⟩
  simp only [specTrace_eq, hadm, if_true, project_append, project_flatMap, project_handlers]
  simp [specAttachEvents, specErrs, hi]

/-- "each appender error is handed to the configured error handler exactly once": the handler calls
are exactly the attachments whose appender is reached and fails, once each, in attachment order,
and they come after every filter and append call. -/
theorem C03_errors_once (t : List AppenderM) (nodeLevel : Nat) (attached : List Nat) (lvl : Nat)
    (hadm : admits nodeLevel lvl = true) (h : ∀ j ∈ attached, j < t.length) :
    ∃ calls, fanout t nodeLevel attached lvl =
        .ok (calls ++ (attached.filter (specErrs t lvl)).map Event.handler) ∧
      ∀ e ∈ calls, ∀ j, e ≠ Event.handler j := by
  refine ⟨attached.flatMap (specAttachEvents t lvl), ?_, ?_⟩
  · rw [fanout_eq_spec t nodeLevel attached lvl h, specTrace_eq, hadm]; rfl
  · intro e he j hej
    subst hej
    simp only [List.mem_flatMap] at he
    obtain ⟨k, _, hk⟩ := he
    unfold specAttachEvents at hk
    split at hk
    · simp only [specAppenderEvents, List.mem_append, List.mem_map] at hk
      rcases hk with ⟨_, _, hk⟩ | hk
      · cases hk
      · split at hk <;> simp at hk
    · simp at hk

/-- A record the node does not admit causes no call at all. -/
theorem C03_not_admitted_silent (t : List AppenderM) (nodeLevel : Nat) (attached : List Nat) (lvl : Nat)
    (hadm : admits nodeLevel lvl = false) :
    fanout t nodeLevel attached lvl = .ok [] := by
  simp [fanout, hadm]

/-- A rejection is not an error: an appender whose chain rejects gets no `append` call and causes
no handler call, however often it is attached and whether or not it would fail. -/
theorem C03_rejection_silent (t : List AppenderM) (nodeLevel : Nat) (attached : List Nat)
    (lvl i : Nat) (a : AppenderM) (hi : t[i]? = some a) (hrej : (runChain lvl a.chain).2 = false)
    (h : ∀ j ∈ attached, j < t.length) :
    ∃ tr, fanout t nodeLevel attached lvl = .ok tr ∧ Event.append i ∉ tr ∧ Event.handler i ∉ tr := by
  rw [runChain_eq_spec] at hrej
  simp only at hrej
  refine ⟨_, fanout_eq_spec t nodeLevel attached lvl h, ?_, ?_⟩
  · simp only [specTrace_eq]
    split
    · simp only [List.mem_append, List.mem_flatMap, List.mem_map, List.mem_filter, not_or, not_exists,
        not_and]
      refine ⟨?_, ?_⟩
      · intro j _ hmem
        have := specAttachEvents_app t lvl j _ hmem
        simp only [Event.app] at this
        subst this
        simp [specAttachEvents, hi, specAppenderEvents, hrej] at hmem
      · intro j _ hc; cases hc
    · simp
  · simp only [specTrace_eq]
    split
    · simp only [List.mem_append, List.mem_flatMap, List.mem_map, List.mem_filter, not_or, not_exists,
        not_and]
      refine ⟨?_, ?_⟩
      · intro j _ hmem
        have := specAttachEvents_app t lvl j _ hmem
        simp only [Event.app] at this
        subst this
        simp [specAttachEvents, hi, specAppenderEvents, hrej] at hmem
      · intro j hj hc
        cases hc
        simp [specErrs, hi, hrej] at hj
    · simp

/-! ### Non-vacuity (tests on samples, not proofs of the property) -/

/-- Accept before Reject delivers after two consultations; the third filter is not consulted. -/
example : runChain 3 [.fixed .neutral, .fixed .accept, .fixed .reject] = (2, true) := by decide
/-- Reject before Accept drops. -/
example : runChain 3 [.fixed .neutral, .fixed .reject, .fixed .accept] = (2, false) := by decide
/-- all-Neutral delivers. -/
example : runChain 3 [.fixed .neutral, .threshold 4] = (2, true) := by decide
/-- a failing appender before a healthy one: both are called, one handler call at the end. -/
example : fanout [⟨[.fixed .neutral], true⟩, ⟨[.threshold 2], false⟩, ⟨[], false⟩] 5 [0, 1, 2] 3 =
    .ok [.filter 0 0, .append 0, .filter 1 0, .append 2, .handler 0] := by decide
/-- an out-of-range attachment is an explicit panic of the model, so the range hypothesis matters. -/
example : fanout [⟨[], false⟩] 5 [1] 3 = .panic "appenders[idx]: index out of bounds" := by decide

end Log4rs.Routing
