import Log4rsModel.Routing.FiltersLemmas
/-
C03 — Filter chains decide per appender; rejections and errors are isolated.
Only property theorems and non-vacuity examples live here; helpers are in Routing/FiltersLemmas.lean.
Model and specification: Routing/Filters.lean. The record type `ρ` is arbitrary, a filter is any
function `ρ → Response`, an appender's `append` may return a different result on every call; chains,
appender tables and attachment lists have any length. The composition with the logger tree (which
node `find` returns, inherited attachments, index ranges) is `Compose_log_record_eq_spec` in
Properties/Compose.lean.

Reading decisions (also in props.d/C03.json):
* "the configured error handler" = the closure given to `Logger::new_with_err_handler`; with
  `Logger::new` the configured handler is the default stderr one.
* panics of filters or appenders are outside the statement ("a returned error"); what the code does
  then is stated as `C03_panic_not_isolated`, labelled as a limitation.
-/
set_option linter.unusedSimpArgs false
namespace Log4rs.Routing
variable {ρ : Type}

/-! ### the chain interpreter -/

/-- The loop of `Appender::append` consults exactly the first `specConsulted` filters of the
appender's vector, in vector order (their labels are returned in that order), and reaches the
appender iff the first non-Neutral answer is Accept or there is none. -/
theorem C03_runChain_spec (r : ρ) (ch : List (LFilter ρ)) :
    runChainL r ch = ((ch.take (specConsulted r (fns ch))).map (·.1), specDelivered r (fns ch)) :=
  runChainL_eq_spec r ch

/-- "filters are consulted in declaration order": for a chain declared as `fs` (labels = positions of
declaration) the labels consulted are `0, 1, …, k-1` in this order, `k` the position of the first
decisive answer + 1 (or the length). This is a statement about the labels the interpreter
returns, not about how events are named: a vector holding the declared filters in another order
returns other labels (see the example at the end). -/
theorem C03_consulted_in_declaration_order (r : ρ) (fs : List (ρ → Response)) :
    (runChainL r (declare fs)).1 = List.range (specConsulted r fs) ∧
    specConsulted r fs ≤ fs.length := by
  refine ⟨?_, specConsulted_le r fs⟩
  rw [runChainL_eq_spec, fns_declare]
  exact labels_declare_take fs _ (specConsulted_le r fs)

/-- The same without `find?`: with `rs` the answers the filters would give and `k` the number of
filters consulted — the consulted ones are the first `k` of the vector, the first `k-1` answered
Neutral, and either all answered Neutral, all were consulted and the record is delivered, or the
`k`-th answer is the first non-Neutral one and the record is delivered iff it is Accept. -/
theorem C03_runChain_declarative (r : ρ) (ch : List (LFilter ρ)) :
    let rs := (fns ch).map (· r)
    let out := runChainL r ch
    let k := out.1.length
    k ≤ ch.length ∧ out.1 = (ch.take k).map (·.1) ∧ (∀ j, j + 1 < k → rs[j]? = some .neutral) ∧
    (((∀ a ∈ rs, a = .neutral) ∧ k = ch.length ∧ out.2 = true) ∨
     ∃ a, 1 ≤ k ∧ rs[k - 1]? = some a ∧ a ≠ .neutral ∧ (out.2 = true ↔ a = .accept)) := by
  induction ch with
  | nil => simp [runChainL, fns]
  | cons lf rest ih =>
    obtain ⟨l, f⟩ := lf
    obtain ⟨ih1, ih0, ih2, ih3⟩ := ih
    cases h : f r
    · simp [runChainL, h, fns]
    · simp only [runChainL, h, fns, List.map_cons, List.length_cons] at ih1 ih0 ih2 ih3 ⊢
      refine ⟨by omega, by rw [List.take_succ_cons, List.map_cons, ← ih0], ?_, ?_⟩
      · intro j hj
        cases j with
        | zero => simp [h]
        | succ j => simpa using ih2 j (by omega)
      · rcases ih3 with ⟨ha, hk, hd⟩ | ⟨a, hk, hr, hne, hd⟩
        · left
          refine ⟨?_, by omega, hd⟩
          intro a ha'
          rcases List.mem_cons.mp ha' with rfl | ha'
          · rfl
          · exact ha a ha'
        · right
          refine ⟨a, by omega, ?_, hne, hd⟩
          have : (runChainL r rest).1.length + 1 - 1 = ((runChainL r rest).1.length - 1) + 1 := by omega
          rw [this]
          simpa using hr
    · simp [runChainL, h, fns]

/-- Delivery in terms of the first decisive answer. -/
theorem C03_delivered_iff (r : ρ) (ch : List (LFilter ρ)) :
    (runChainL r ch).2 = true ↔
      firstDecisive r (fns ch) = none ∨ firstDecisive r (fns ch) = some .accept := by
  rw [runChainL_eq_spec]
  simp only [specDelivered]
  cases firstDecisive r (fns ch) <;> simp

/-- Short circuit: whatever stands behind the consulted prefix of a decided chain has no influence
and is not consulted. -/
theorem C03_later_filters_irrelevant (r : ρ) (ch other : List (LFilter ρ))
    (h : firstDecisive r (fns ch) ≠ none) :
    runChainL r (ch.take (runChainL r ch).1.length ++ other) = runChainL r ch := by
  induction ch with
  | nil => simp [firstDecisive, fns] at h
  | cons lf rest ih =>
    obtain ⟨l, f⟩ := lf
    cases hf : f r
    · simp [runChainL, hf]
    · have h' : firstDecisive r (fns rest) ≠ none := by
        simpa [firstDecisive, fns, List.find?_cons, hf] using h
      simp only [runChainL, hf, List.length_cons, List.take_succ_cons, List.cons_append, ih h']
    · simp [runChainL, hf]

/-! ### the threshold filter -/

/-- "the threshold filter rejects exactly the records more verbose than its level" -/
theorem C03_threshold_rejects_iff (thr lvl : Nat) :
    (Filter.threshold thr).respond lvl = .reject ↔ lvl > thr := by
  simp only [Filter.respond, thresholdFilter]
  split <;> simp_all

/-- … and is Neutral (never Accept) on all other records. -/
theorem C03_threshold_neutral_iff (thr lvl : Nat) :
    (Filter.threshold thr).respond lvl = .neutral ↔ lvl ≤ thr := by
  simp only [Filter.respond, thresholdFilter]
  by_cases h : lvl > thr
  · simp [h]
  · simp [h]; omega

/-- a filter whose answer depends on the level alone and is never Accept: a threshold, or a scripted
Neutral -/
def LevelGate : Filter → Prop
  | .threshold _ => True
  | .fixed r => r = .neutral

/-- the thresholds among the filters of a list -/
def thresholdsOf : List Filter → List Nat
  | [] => []
  | .threshold t :: rest => t :: thresholdsOf rest
  | .fixed _ :: rest => thresholdsOf rest

theorem runChain_delivered (lvl : Nat) (chain : List Filter) :
    (runChain lvl chain).2 = specDelivered lvl (chain.map Filter.respond) := by
  simp [runChain, runChainL_eq_spec, fns_declare]

theorem gates_all_neutral (lvl : Nat) (pre : List Filter) (h : ∀ f ∈ pre, LevelGate f) :
    (pre.map Filter.respond).all (fun f => f lvl = .neutral) =
      (thresholdsOf pre).all (fun t => decide (lvl ≤ t)) := by
  induction pre with
  | nil => rfl
  | cons f fs ih =>
    have ih' := ih (fun g hg => h g (by simp [hg]))
    have hf := h f (by simp)
    cases f with
    | threshold t =>
      simp only [List.map_cons, List.all_cons, thresholdsOf, ih']
      congr 1
      rw [Bool.eq_iff_iff]
      simp [C03_threshold_neutral_iff]
    | fixed a =>
      simp only [LevelGate] at hf
      subst hf
      simp only [List.map_cons, List.all_cons, thresholdsOf, ← ih']
      simp [Filter.respond]

theorem gates_no_accept (lvl : Nat) (pre : List Filter) (h : ∀ f ∈ pre, LevelGate f) :
    ∀ f ∈ pre.map Filter.respond, f lvl ≠ .accept := by
  intro f hf
  obtain ⟨g, hg, rfl⟩ := List.mem_map.mp hf
  have := h g hg
  cases g with
  | threshold t => simp only [Filter.respond, thresholdFilter]; split <;> simp
  | fixed a => simp only [LevelGate] at this; subst this; simp [Filter.respond]

/-- Several thresholds, anywhere before the first scripted decision: with `pre` made of threshold
filters and scripted-Neutral filters only, the chain `pre ++ rest` delivers exactly when the record
is at most as verbose as EVERY threshold in `pre` — i.e. as their minimum — and `rest` delivers. -/
theorem C03_thresholds_conjoin (lvl : Nat) (pre rest : List Filter) (h : ∀ f ∈ pre, LevelGate f) :
    (runChain lvl (pre ++ rest)).2 = true ↔
      (∀ t ∈ thresholdsOf pre, lvl ≤ t) ∧ (runChain lvl rest).2 = true := by
  rw [runChain_delivered, runChain_delivered, List.map_append,
    specDelivered_prefix_no_accept lvl _ _ (gates_no_accept lvl pre h), gates_all_neutral lvl pre h]
  simp

/-- the same with the minimum named -/
theorem C03_thresholds_minimum (lvl : Nat) (pre rest : List Filter) (h : ∀ f ∈ pre, LevelGate f) :
    (∀ m, (thresholdsOf pre).min? = some m →
      ((runChain lvl (pre ++ rest)).2 = true ↔ lvl ≤ m ∧ (runChain lvl rest).2 = true)) ∧
    ((thresholdsOf pre).min? = none →
      (runChain lvl (pre ++ rest)).2 = (runChain lvl rest).2) := by
  constructor
  · intro m hm
    rw [C03_thresholds_conjoin lvl pre rest h, ← List.le_min?_iff hm]
  · intro hn
    have : thresholdsOf pre = [] := List.min?_eq_none_iff.mp hn
    rw [runChain_delivered, runChain_delivered, List.map_append,
      specDelivered_prefix_no_accept lvl _ _ (gates_no_accept lvl pre h), gates_all_neutral lvl pre h,
      this]
    simp

/-- a chain of thresholds alone (any number, any order) delivers exactly the records at most as
verbose as the strictest of them -/
theorem C03_threshold_chain_many (lvl : Nat) (thrs : List Nat) :
    (runChain lvl (thrs.map Filter.threshold)).2 = true ↔ ∀ t ∈ thrs, lvl ≤ t := by
  have hg : ∀ f ∈ thrs.map Filter.threshold, LevelGate f := by
    intro f hf
    obtain ⟨t, _, rfl⟩ := List.mem_map.mp hf
    trivial
  have hts : thresholdsOf (thrs.map Filter.threshold) = thrs := by
    induction thrs with
    | nil => rfl
    | cons t ts ih =>
      simp only [List.map_cons, thresholdsOf]
      rw [ih]
      intro f hf
      obtain ⟨t', _, rfl⟩ := List.mem_map.mp hf
      trivial
  have := C03_thresholds_conjoin lvl (thrs.map Filter.threshold) [] hg
  simpa [hts, runChain, runChainL, declare] using this

/-- an earlier Accept bypasses every later filter, thresholds included: after `pre` (all Neutral on
this record) exactly `pre.length + 1` filters are consulted and the record is delivered -/
theorem C03_accept_bypasses_later (r : ρ) (pre later : List (ρ → Response)) (g : ρ → Response)
    (h : ∀ f ∈ pre, f r = .neutral) (hg : g r = .accept) :
    runChainL r (declare (pre ++ g :: later)) = (List.range (pre.length + 1), true) := by
  obtain ⟨h1, h2⟩ := specDelivered_accept_after_neutrals r pre later g h hg
  have := C03_consulted_in_declaration_order r (pre ++ g :: later)
  rw [h2] at this
  rw [Prod.ext_iff]
  exact ⟨this.1, by rw [runChainL_eq_spec, fns_declare]; exact h1⟩

/-! ### how the chain comes to be attached -/

/-- Builder path: whatever mix of `.filter(f)` and `.filters(iter)` calls is made, the appender's
vector is the declared filters in declaration order. Configuration-file path: a `filters:` sequence
whose entries all deserialize gives the same labelled chain as declaring them through the builder;
no error is reported. -/
theorem C03_chain_order_is_declaration_order (calls : List (BuilderCall ρ)) (fs : List (ρ → Response)) :
    builderVec calls = calls.flatMap BuilderCall.declared ∧
    configChain (fs.map FilterEntry.ok) = (declare fs, 0) := by
  refine ⟨builderVec_eq calls, ?_⟩
  rw [configChain_eq]
  obtain ⟨h1, h2⟩ := validEntries_all_ok fs 0
  rw [h1, h2]; rfl

/-- Lossy document path in general: the chain is the entries that deserialize, each keeping the
position it has in the document as its label, these positions strictly increasing (document order is
never changed, whatever the kinds); each entry that does not deserialize is reported once. -/
theorem C03_config_chain_keeps_document_order (doc : List (FilterEntry ρ)) :
    configChain doc =
      (validEntries (doc.zipIdx.map fun p => (p.2, p.1)), badCount (doc.zipIdx.map fun p => (p.2, p.1))) ∧
    ((configChain doc).1.map (·.1)).Pairwise (· < ·) := by
  refine ⟨configChain_eq doc, ?_⟩
  rw [configChain_eq]
  exact (validEntries_labels_sorted doc 0).1

/-- `filters:` that is not a sequence costs the whole appender (one reported error), an absent key
means no filters. -/
theorem C03_config_filters_value (result : Nat → CallResult) :
    (configAppender (FiltersValue.notSeq : FiltersValue ρ) result).1.isNone = true ∧
    (configAppender (FiltersValue.notSeq : FiltersValue ρ) result).2 = 1 ∧
    ((configAppender (FiltersValue.absent : FiltersValue ρ) result).1.map (·.chain.length)) = some 0 := by
  simp [configAppender]

/-! ### the fan-out -/

/-- The whole call sequence of one `Log::log` is the one assembled from each attached appender's own
chain, when the attachment indices are in range (discharged for every node of a built tree in
`Compose_log_record_eq_spec`) and no reached `append` panics. -/
theorem C03_fanout_eq_spec (table : List (AppenderG ρ)) (nodeLevel : Nat) (attached : List Nat)
    (lvlOf : ρ → Nat) (r : ρ) (hnp : NoPanic table) (h : ∀ j ∈ attached, j < table.length) :
    fanoutG table nodeLevel attached lvlOf r = .returned (specTraceG table nodeLevel attached lvlOf r) :=
  fanoutG_eq_spec table nodeLevel attached lvlOf r hnp h

/-- Isolation: the calls that concern appender `i` (its filters, its `append`, the handler calls for
its errors) are the same under any replacement of the other appenders — their chains, their
results, even their number. -/
theorem C03_fanout_isolated (t t' : List (AppenderG ρ)) (nodeLevel : Nat) (attached : List Nat)
    (lvlOf : ρ → Nat) (r : ρ) (i : Nat) (hi : t[i]? = t'[i]?)
    (hnp : NoPanic t) (hnp' : NoPanic t')
    (h : ∀ j ∈ attached, j < t.length) (h' : ∀ j ∈ attached, j < t'.length) :
    ∃ tr tr', fanoutG t nodeLevel attached lvlOf r = .returned tr ∧
      fanoutG t' nodeLevel attached lvlOf r = .returned tr' ∧ project i tr = project i tr' :=
  ⟨_, _, fanoutG_eq_spec t nodeLevel attached lvlOf r hnp h,
    fanoutG_eq_spec t' nodeLevel attached lvlOf r hnp' h',
    project_specTraceG_congr t t' nodeLevel attached lvlOf r i hi⟩

/-- What appender `i` receives, explicitly: per attachment of `i` to the logger, the consulted
prefix of its own chain and then (if its chain delivers) one `append`; afterwards one handler call
for each of these calls that returned `Err` (`errCount … 0 n` counts the calls number `0 … n-1` of
appender `i` that are errors). Nothing else in the trace concerns `i`. -/
theorem C03_received_formula (t : List (AppenderG ρ)) (nodeLevel : Nat) (attached : List Nat)
    (lvlOf : ρ → Nat) (r : ρ) (i : Nat) (a : AppenderG ρ) (hi : t[i]? = some a)
    (hadm : admits nodeLevel (lvlOf r) = true) (hnp : NoPanic t) (h : ∀ j ∈ attached, j < t.length) :
    ∃ tr, fanoutG t nodeLevel attached lvlOf r = .returned tr ∧
      project i tr =
        (List.replicate (attached.count i) (specAppenderEvents i a r)).flatten ++
        List.replicate (errCount t r i 0 (attached.count i)) (Event.handler i) := by
  refine ⟨_, fanoutG_eq_spec t nodeLevel attached lvlOf r hnp h, ?_⟩
  rw [project_specTraceG t _ _ _ _ _ hadm]
  simp [specAttachEvents, hi]

/-- "each appender error is handed to the … error handler exactly once": the handler calls are
exactly the attachments whose call returned `Err` (per call, not per appender: the k-th call of an
appender attached several times counts iff that call failed), once each, in attachment order, and
they come after every filter and append call. -/
theorem C03_errors_once (t : List (AppenderG ρ)) (nodeLevel : Nat) (attached : List Nat)
    (lvlOf : ρ → Nat) (r : ρ) (hadm : admits nodeLevel (lvlOf r) = true) (hnp : NoPanic t)
    (h : ∀ j ∈ attached, j < t.length) :
    ∃ calls, fanoutG t nodeLevel attached lvlOf r =
        .returned (calls ++ (specErrList t r attached).map Event.handler) ∧
      ∀ e ∈ calls, ∀ j, e ≠ Event.handler j ∧ e ≠ Event.stderr j := by
  refine ⟨attached.flatMap (specAttachEvents t r), ?_, ?_⟩
  · rw [fanoutG_eq_spec t nodeLevel attached lvlOf r hnp h]
    simp [specTraceG, hadm]
  · intro e he j
    simp only [List.mem_flatMap] at he
    obtain ⟨k, _, hk⟩ := he
    unfold specAttachEvents at hk
    split at hk
    · simp only [specAppenderEvents, List.mem_append, List.mem_map] at hk
      rcases hk with ⟨w, _, rfl⟩ | hk
      · exact ⟨(fun hc => by cases hc), (fun hc => by cases hc)⟩
      · split at hk
        · simp only [List.mem_singleton] at hk
          subst hk
          exact ⟨(fun hc => by cases hc), (fun hc => by cases hc)⟩
        · simp at hk
    · simp at hk

/-- A record the node does not admit causes no call at all. -/
theorem C03_not_admitted_silent (t : List (AppenderG ρ)) (nodeLevel : Nat) (attached : List Nat)
    (lvlOf : ρ → Nat) (r : ρ) (hadm : admits nodeLevel (lvlOf r) = false) :
    fanoutG t nodeLevel attached lvlOf r = .returned [] := by
  simp [fanoutG, hadm]

/-- A rejection is not an error: an appender whose chain rejects gets no `append` call and causes
no handler call, however often it is attached and whatever its `append` would do. -/
theorem C03_rejection_silent (t : List (AppenderG ρ)) (nodeLevel : Nat) (attached : List Nat)
    (lvlOf : ρ → Nat) (r : ρ) (i : Nat) (a : AppenderG ρ) (hi : t[i]? = some a)
    (hrej : (runChainL r a.chain).2 = false) (hnp : NoPanic t) (h : ∀ j ∈ attached, j < t.length) :
    ∃ tr, fanoutG t nodeLevel attached lvlOf r = .returned tr ∧
      Event.append i ∉ tr ∧ Event.handler i ∉ tr := by
  rw [runChainL_eq_spec] at hrej
  simp only at hrej
  have hev : ∀ e ∈ specAttachEvents t r i, ∃ l, e = Event.filter i l := by
    intro e he
    simp only [specAttachEvents, hi, specAppenderEvents, hrej, Bool.false_eq_true, if_false,
      List.append_nil, List.mem_map] at he
    obtain ⟨w, _, rfl⟩ := he
    exact ⟨_, rfl⟩
  have hz : errCount t r i 0 (attached.count i) = 0 := by
    simp [errCount, errAt, hi, hrej]
  have hproj : ∀ e ∈ project i (specTraceG t nodeLevel attached lvlOf r), ∃ l, e = Event.filter i l := by
    intro e he
    by_cases hadm : admits nodeLevel (lvlOf r) = true
    · rw [project_specTraceG t _ _ _ _ _ hadm, hz] at he
      simp only [List.replicate_zero, List.append_nil, List.mem_flatten, List.mem_replicate] at he
      obtain ⟨l, ⟨_, rfl⟩, hm⟩ := he
      exact hev e hm
    · simp [specTraceG, hadm, project] at he
  refine ⟨_, fanoutG_eq_spec t nodeLevel attached lvlOf r hnp h, ?_, ?_⟩
  · intro hc
    obtain ⟨l, hl⟩ := hproj (Event.append i) (by simp [project, hc, Event.app])
    cases hl
  · intro hc
    obtain ⟨l, hl⟩ := hproj (Event.handler i) (by simp [project, hc, Event.app])
    cases hl

/-! ### which handler gets the errors -/

/-- A logger hands its errors to the handler its snapshot holds: created with a configured
handler, the trace is that of `fanoutG`; with the default one every handler call is a stderr line. -/
theorem C03_log_uses_snapshot_handler (s : Shared ρ) (lvlOf : ρ → Nat) (r : ρ) :
    (s.handler = .configured → s.log lvlOf r = fanoutG s.table s.nodeLevel s.attached lvlOf r) ∧
    (s.handler = .default → ∀ tr, s.log lvlOf r = .returned tr → ∀ a, Event.handler a ∉ tr) := by
  constructor
  · intro h
    have hid : viaHandler HandlerId.configured = id := by funext e; cases e <;> rfl
    simp only [Shared.log, h, hid]
    cases fanoutG s.table s.nodeLevel s.attached lvlOf r <;> simp [LogResult.map]
  · intro h tr htr a ha
    simp only [Shared.log, h] at htr
    cases hf : fanoutG s.table s.nodeLevel s.attached lvlOf r with
    | returned tr0 =>
      simp only [hf, LogResult.map, LogResult.returned.injEq] at htr
      subst htr
      obtain ⟨e, _, he⟩ := List.mem_map.mp ha
      cases e <;> simp [viaHandler] at he
    | panicked tr0 => simp [hf, LogResult.map] at htr

/-- THE FULL STATEMENT for the handler: whatever sequence of `Handle::set_config` calls follows the
creation of a logger, its errors keep going to the handler it was created with. -/
def C03_configured_handler_statement (kept : Bool) : Prop :=
  ∀ (ρ : Type) (s : Shared ρ) (cfgs : List (List (AppenderG ρ) × Nat × List Nat)),
    (s.reconfigureWith kept cfgs).handler = s.handler

/-- … holds of the code as it is (`handlerKeptAcrossSetConfig = true`, /repo 4b40d58): after any
number of reconfigurations, to any configurations, the snapshot holds the handler the logger was
created with; together with `C03_log_uses_snapshot_handler` and `C03_errors_once` every returned
error is handed to THAT handler exactly once. -/
theorem C03_configured_handler_kept :
    C03_configured_handler_statement handlerKeptAcrossSetConfig := by
  intro ρ s cfgs
  induction cfgs generalizing s with
  | nil => rfl
  | cons c cs ih =>
    simpa [Shared.reconfigureWith, Shared.setConfigWith, handlerKeptAcrossSetConfig] using ih _

/-- HISTORICAL (code before /repo 4b40d58, model flag `false`; not a statement about the current
code): `set_config` built `SharedLogger::new(config)`, so after one reconfiguration the handler was
the default stderr closure, for every configuration — the full statement was false. Kept as the
record of finding `C03/err-handler-lost-on-set-config`; the executable Spec still fails with that
signature should the behaviour recur. -/
theorem Hist_C03_configured_handler_lost_on_set_config :
    ¬ C03_configured_handler_statement false ∧
    ∀ (ρ : Type) (s : Shared ρ) (c : List (AppenderG ρ) × Nat × List Nat)
      (cs : List (List (AppenderG ρ) × Nat × List Nat)),
      (s.reconfigureWith false (c :: cs)).handler = .default := by
  have hall : ∀ (ρ : Type) (cs : List (List (AppenderG ρ) × Nat × List Nat)) (s : Shared ρ),
      s.handler = .default → (s.reconfigureWith false cs).handler = .default := by
    intro ρ cs
    induction cs with
    | nil => intro s h; exact h
    | cons c cs ih => intro s _; exact ih _ rfl
  constructor
  · intro h
    have := h Nat (Shared.create .configured [] 0 []) [([], 0, [])]
    simp [Shared.reconfigureWith, Shared.setConfigWith, Shared.create] at this
  · intro ρ s c cs
    exact hall ρ cs _ rfl

/-! ### panics (outside the statement — stated as a limitation) -/

/-- The statement speaks of returned errors. When an appender's `append` PANICS, the unwinding
leaves `ConfiguredLogger::log` at once: later appenders are not called and the errors already
collected from earlier appenders never reach the handler — neither isolation nor "exactly once"
extends to panics. Witness: a failing appender followed by a panicking one and a healthy one. -/
theorem C03_panic_not_isolated :
    fanout [{ chain := [], rest := .err }, { chain := [], rest := .panic }, { chain := [] }] 5 [0, 1, 2] 3 =
      .panicked [.append 0, .append 1] := by decide

/-! ### Non-vacuity (tests on samples, not proofs of the property) -/

/-- Accept before Reject delivers after two consultations; the third filter is not consulted. -/
example : runChain 3 [.fixed .neutral, .fixed .accept, .fixed .reject] = ([0, 1], true) := by decide
/-- Reject before Accept drops. -/
example : runChain 3 [.fixed .neutral, .fixed .reject, .fixed .accept] = ([0, 1], false) := by decide
/-- all-Neutral delivers. -/
example : runChain 3 [.fixed .neutral, .threshold 4] = ([0, 1], true) := by decide
/-- labels are those of the declaration, not positions in the vector: a vector holding the declared
chain [N, A, R] in the order [A, N, R] reports that it consulted the filter declared second. -/
example : runChainL 3 [(1, Filter.respond (.fixed .accept)), (0, Filter.respond (.fixed .neutral)),
    (2, Filter.respond (.fixed .reject))] = ([1], true) := by decide
/-- a failing appender before a healthy one: both are called, one handler call at the end. -/
example : fanout [⟨[.fixed .neutral], [], .err⟩, ⟨[.threshold 2], [], .ok⟩, ⟨[], [], .ok⟩] 5 [0, 1, 2] 3 =
    .returned [.filter 0 0, .append 0, .filter 1 0, .append 2, .handler 0] := by decide
/-- per-call results: an appender attached three times that fails on its second call only -/
example : fanout [⟨[], [.ok, .err], .ok⟩] 5 [0, 0, 0] 3 =
    .returned [.append 0, .append 0, .append 0, .handler 0] := by decide
/-- an out-of-range attachment is an explicit panic of the model, so the range hypothesis matters. -/
example : fanout [⟨[], [], .ok⟩] 5 [1] 3 = .panicked [] := by decide
/-- two leading thresholds of different levels: the stricter one decides, in either order -/
example : (runChain 2 [.threshold 2, .threshold 1]).2 = false ∧ (runChain 2 [.threshold 1, .threshold 2]).2 = false ∧
    (runChain 1 [.threshold 0, .threshold 1]).2 = false ∧ (runChain 1 [.threshold 2, .threshold 1]).2 = true := by decide
/-- Accept declared before a strict threshold delivers; declared after it does not -/
example : (runChain 3 [.fixed .accept, .threshold 1]).2 = true ∧ (runChain 3 [.threshold 1, .fixed .accept]).2 = false := by
  decide
/-- the witness of the (fixed) handler finding: created with a configured handler, reconfigured once
with the same configuration, a failing appender's error still reaches the configured handler; with
the historical `set_config` it went to stderr -/
example : ((Shared.create .configured [(⟨[.fixed .neutral], [], .err⟩ : AppenderM).toG, (⟨[], [], .ok⟩ : AppenderM).toG] 5 [0, 1]).setConfig
      [(⟨[.fixed .neutral], [], .err⟩ : AppenderM).toG, (⟨[], [], .ok⟩ : AppenderM).toG] 5 [0, 1]).log id 1 =
    .returned [.filter 0 0, .append 0, .append 1, .handler 0] := by decide
example : ((Shared.create .configured [(⟨[.fixed .neutral], [], .err⟩ : AppenderM).toG, (⟨[], [], .ok⟩ : AppenderM).toG] 5 [0, 1]).setConfigWith false
      [(⟨[.fixed .neutral], [], .err⟩ : AppenderM).toG, (⟨[], [], .ok⟩ : AppenderM).toG] 5 [0, 1]).log id 1 =
    .returned [.filter 0 0, .append 0, .append 1, .stderr 0] := by decide

end Log4rs.Routing
