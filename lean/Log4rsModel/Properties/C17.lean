import Log4rsModel.Rolling.Ext17Startup
import Log4rsModel.Rolling.Ext17Refine
import Log4rsModel.Rolling.Ext17OnceLemmas
/-
C17 — On-start-up trigger rolls at most once, on the first record, if big enough.

Model: `Rolling/Model.lean` with `onStartupTrigger minSize` (state = "the `Once` has run";
pre-process), the fixed-window / delete roller models of `Roller/Model.lean`, and the harness's
roller wrapper (`Spec17.lateWrap`). Statement as an executable function: `Rolling/Ext17Spec.lean`
(`Spec17.step`), evaluated by the driver on the real directory; `C17_model_refines_spec` proves the
model refines it. All theorems below are about the CURRENT code (after 9f38f0b: the record is
encoded into memory after the policy has run).

Clause map
  (a) at most one rotation request per appender   C17_at_most_one_per_lifetime, C17_at_most_one_roll(_failing_encoders)
  (b) only while the first record is handled,
  (c) iff the file then holds ≥ min_size bytes     C17_rolls_iff_first_and_big (one iff over all histories),
                                                   C17_only_first(_ops), C17_iff_big_enough(_ops)
  (d) old content becomes the newest archive,
  (e) the first record starts a fresh file         C17_content_placement_fw / _dense / _delete, C17_model_refines_spec
      … when the roller or the encoder fails        C17_first_record_roller_fails, C17_first_record_encoder_fails
  (f) simultaneous first appends                   C17_concurrent_first (appender mutex assumed),
                                                   C17_once_at_most_one_yes (trigger alone, atomic `Once` assumed),
                                                   C17_once_racy_flag_breaks (what the assumption buys)
-/
namespace Log4rs.Rolling
open Log4rs.Roller

/-! ### (a) at most one rotation request -/

/-- Over any history of appends (any record, any injected roller fault), clock ticks and restarts
the on-start-up trigger requests at most one rotation per appender built: `1 + restarts` in total.
`rolls` counts every invocation of the roller, successful or failed (`Out.rolled.isSome`):
`process` calls `cfg.roll` exactly once per firing of the trigger. (The per-appender form is
`C17_at_most_one_per_lifetime`.) -/
theorem C17_at_most_one_roll (path : Path) (am : Bool) (m : Nat) (roll : RollFn) (d : Disk) (now : Nat) (ops : List Op) :
    rolls (run (startupCfg path am m roll) (init (startupCfg path am m roll) d false now) ops).1 ≤ 1 + restarts ops := by
  have h := rolls_bound path am m roll ops _ (WF_init (startupCfg path am m roll) d false now)
  simpa [init_tst] using h

/-- at most one rotation request per appender built, from any well-formed state, over histories
in which encoders may fail -/
theorem C17_at_most_one_roll_failing_encoders (path : Path) (am : Bool) (m : Nat) (roll : RollFn) (ops : List XOp)
    (s : St Bool) (hwf : WF (startupCfg path am m roll) s) :
    ((traceX (startupCfg path am m roll) s ops).filter isRollX).length ≤ (if s.tst then 0 else 1) + restartsX ops := by
  induction ops generalizing s with
  | nil => simp [traceX]
  | cons op ops ih =>
    have hwf' := WF_applyX (startupCfg path am m roll) s op hwf
    have ih' := ih _ hwf'
    have htst := startup_applyX_tst path am m roll s op hwf
    simp only [traceX, List.filter_cons]
    have hnone : s.tst = true → isRollX (applyX (startupCfg path am m roll) s op) = false := by
      intro hst
      cases op with
      | appendFail r n f =>
        simp [isRollX, isRoll, applyX, (startup_appendFail path am m roll s r n (faultFn f) hwf).2.1 hst]
      | op o =>
        cases o with
        | append r f => simp [isRollX, isRoll, applyX, applyOp, (startup_append path am m roll s r (faultFn f) hwf).2.1 hst]
        | restart => rfl
        | tick dt => rfl
    cases op with
    | appendFail r n f =>
      have hres : restartsX (XOp.appendFail r n f :: ops) = restartsX ops := by simp [restartsX, xIsRestart]
      rw [hres]
      simp [htst] at ih'
      cases hst : s.tst with
      | true => simp only [hnone hst]; simp only [Bool.false_eq_true, if_false, if_true]; omega
      | false => simp only [Bool.false_eq_true, if_false]; split <;> first | (simp only [List.length_cons]; omega) | omega
    | op o =>
      cases o with
      | append r f =>
        have hres : restartsX (XOp.op (.append r f) :: ops) = restartsX ops := by simp [restartsX, xIsRestart]
        rw [hres]
        simp [htst] at ih'
        cases hst : s.tst with
        | true => simp only [hnone hst]; simp only [Bool.false_eq_true, if_false, if_true]; omega
        | false => simp only [Bool.false_eq_true, if_false]; split <;> first | (simp only [List.length_cons]; omega) | omega
      | restart =>
        have hres : restartsX (XOp.op .restart :: ops) = restartsX ops + 1 := by
          simp [restartsX, xIsRestart, List.filter_cons]
        have : isRollX (applyX (startupCfg path am m roll) s (.op .restart)) = false := rfl
        rw [hres, this]
        simp only [htst] at ih'
        simp only [Bool.false_eq_true, if_false] at ih' ⊢
        split <;> omega
      | tick dt =>
        have hres : restartsX (XOp.op (.tick dt) :: ops) = restartsX ops := by simp [restartsX, xIsRestart]
        have : isRollX (applyX (startupCfg path am m roll) s (.op (.tick dt))) = false := rfl
        rw [hres, this]
        simp only [htst] at ih'
        simpa using ih'

/-- In the lifetime of ONE appender: whatever happened before (`pre`: any history, restarts
included), a stretch of operations without a restart (`ops`: appends with working or failing
encoders, any roller faults, clock ticks) contains at most one rotation request. -/
theorem C17_at_most_one_per_lifetime (path : Path) (am : Bool) (m : Nat) (roll : RollFn) (d : Disk) (now : Nat)
    (pre ops : List XOp) (hnr : restartsX ops = 0) :
    let cfg := startupCfg path am m roll
    ((traceX cfg (finalX cfg (init cfg d false now) pre) ops).filter isRollX).length ≤ 1 := by
  intro cfg
  have hwf := WF_finalX cfg pre _ (WF_init cfg d false now)
  have h : ((traceX cfg (finalX cfg (init cfg d false now) pre) ops).filter isRollX).length ≤
      (if (finalX cfg (init cfg d false now) pre).tst then 0 else 1) + restartsX ops :=
    C17_at_most_one_roll_failing_encoders path am m roll ops _ hwf
  rw [hnr] at h
  have : (if (finalX cfg (init cfg d false now) pre).tst = true then 0 else 1) ≤ 1 := by split <;> omega
  omega

/-! ### (b) + (c) only the first record after start-up, iff the file is big enough -/

/-- A rotation is requested only while handling the first record after start-up: if the roller is
invoked by an append that follows the history `ops`, then no append has happened since the
appender was built (`fresh ops`). -/
theorem C17_only_first_ops (path : Path) (am : Bool) (m : Nat) (roll : RollFn) (d : Disk) (now : Nat) (ops : List Op)
    (r : Rec) (fault : Nat → Bool) :
    let s := (run (startupCfg path am m roll) (init (startupCfg path am m roll) d false now) ops).2
    (append (startupCfg path am m roll) s r fault).1.rolled.isSome → fresh ops = true := by
  intro s hroll
  have hwf0 := WF_init (startupCfg path am m roll) d false now
  have hwf : WF (startupCfg path am m roll) s := run_invariant _ (fun s op h => WF_applyOp _ s op h) ops _ hwf0
  have ht := startup_tst_run path am m roll ops _ hwf0 true (init_tst path am m roll d now)
  have hs := startup_append path am m roll s r fault hwf
  cases hf : fresh ops with
  | true => rfl
  | false =>
    have : s.tst = true := by
      show (run _ _ ops).2.tst = true
      rw [ht]
      simp only [fresh] at hf
      simp [hf]
    rw [hs.2.1 this] at hroll
    simp at hroll

/-- A rotation is requested only while handling the first record that ARRIVES after start-up: if
any operation following the history `ops` — an append, or an append whose encoder fails — invokes
the roller, then no record has arrived since the appender was built (`freshX ops`), whatever
happened to the encoders of the records in `ops`. -/
theorem C17_only_first (path : Path) (am : Bool) (m : Nat) (roll : RollFn) (d : Disk) (now : Nat) (ops : List XOp)
    (op : XOp) (out : Out) :
    let cfg := startupCfg path am m roll
    (applyX cfg (finalX cfg (init cfg d false now) ops) op).1 = some out → out.rolled.isSome → freshX ops = true := by
  intro cfg hout hroll
  have hwf0 := WF_init cfg d false now
  have hwf := WF_finalX cfg ops _ hwf0
  have ht := startup_tst_finalX path am m roll ops _ hwf0 true (init_tst path am m roll d now)
  cases hf : freshX ops with
  | true => rfl
  | false =>
    have hst : (finalX cfg (init cfg d false now) ops).tst = true := by
      rw [ht]
      simp only [freshX] at hf
      simp [hf]
    exfalso
    cases op with
    | appendFail r n f =>
      have := (startup_appendFail path am m roll _ r n (faultFn f) hwf).2.1 hst
      simp only [applyX] at hout
      rw [← Option.some.inj hout, this] at hroll
      simp at hroll
    | op o =>
      cases o with
      | append r f =>
        have := (startup_append path am m roll _ r (faultFn f) hwf).2.1 hst
        simp only [applyX, applyOp] at hout
        rw [← Option.some.inj hout, this] at hroll
        simp at hroll
      | restart => simp [applyX, applyOp] at hout
      | tick dt => simp [applyX, applyOp] at hout

/-- Clauses (b) and (c) as one equivalence over ALL histories: after any history `pre` (records with
working or failing encoders, roller faults, ticks, restarts, on any initial disk, both modes), a
record that arrives — whether or not its encoder then fails — requests a rotation IFF no record has
arrived since the appender was built AND the log file on disk at that moment holds at least
`min_size` bytes (`min_size = 0` and an empty or absent file included). -/
theorem C17_rolls_iff_first_and_big (path : Path) (am : Bool) (m : Nat) (roll : RollFn) (d : Disk) (now : Nat)
    (pre : List XOp) (op : XOp) (harr : arrival op = true) :
    let cfg := startupCfg path am m roll
    let s := finalX cfg (init cfg d false now) pre
    ∃ out, (applyX cfg s op).1 = some out ∧
      (out.rolled.isSome ↔ (freshX pre = true ∧ (fileOf cfg s.disk).length ≥ m)) := by
  intro cfg s
  have hwf0 := WF_init cfg d false now
  have hwf : WF cfg s := WF_finalX cfg pre _ hwf0
  have ht := startup_tst_finalX path am m roll pre _ hwf0 true (init_tst path am m roll d now)
  cases hf : freshX pre with
  | false =>
    have hst : s.tst = true := by
      show (finalX cfg _ pre).tst = true
      rw [ht]; simp only [freshX] at hf; simp [hf]
    obtain ⟨⟨out, ho, hr⟩, _, _⟩ := arrive_after_fired path am m roll s op hwf hst harr
    exact ⟨out, ho, by simp [hr]⟩
  | true =>
    have hst : s.tst = false := by
      show (finalX cfg _ pre).tst = false
      rw [ht]; simp only [freshX] at hf; simp [hf]
    obtain ⟨out, ho, hiff, _⟩ := first_arrival path am m roll s op hwf hst harr
    exact ⟨out, ho, by simpa using hiff⟩

/-- The first record of the first appender, in terms of what was on the disk before the process
started: it rolls iff the pre-existing content (append mode) / nothing (truncate mode: the open has
emptied the file) has at least `min_size` bytes. -/
theorem C17_iff_big_enough_ops (path : Path) (am : Bool) (m : Nat) (roll : RollFn) (d : Disk) (now : Nat)
    (r : Rec) (fault : Nat → Bool) :
    let cfg := startupCfg path am m roll
    ((append cfg (init cfg d false now) r fault).1.rolled.isSome ↔
      (if am then fileOf cfg d else []).length ≥ m) := by
  intro cfg
  have hwf := WF_init cfg d false now
  have := (startup_append path am m roll (init cfg d false now) r fault hwf).2.2 (init_tst path am m roll d now)
  rw [openView_of_opened cfg _ hwf.1, init_fileOf] at this
  exact this

/-- … also when the first record's encoder fails: the decision is taken before the record is
encoded -/
theorem C17_iff_big_enough (path : Path) (am : Bool) (m : Nat) (roll : RollFn) (d : Disk) (now : Nat)
    (op : XOp) (harr : arrival op = true) :
    let cfg := startupCfg path am m roll
    ∃ out, (applyX cfg (init cfg d false now) op).1 = some out ∧
      (out.rolled.isSome ↔ (if am then fileOf cfg d else []).length ≥ m) := by
  intro cfg
  obtain ⟨out, ho, hiff⟩ := C17_rolls_iff_first_and_big path am m roll d now [] op harr
  refine ⟨out, ho, ?_⟩
  have hfile := init_fileOf path am m roll d now
  simp only [finalX, List.foldl_nil] at hiff
  rw [hfile] at hiff
  simpa [freshX] using hiff

/-! ### (d) + (e) where the old content goes, what the new file holds -/

/-- EXACT placement for the fixed-window roller (any base, count — `count = 0` keeps nothing —,
plain or compressing pattern, any pre-existing window, gaps and bystanders included; any fault
oracle, as long as the append succeeds): when the first record finds a file of at least
`min_size` bytes,
* the log file afterwards holds exactly the encoded record — a fresh file;
* the window, slot by slot and decoded, is `rotateSlots` of the window before and the OLD CONTENT:
  slot `base` holds the old content, every older archive has moved up by one slot, the one pushed
  out of the last slot is dropped;
* (raw) the file `name(base)` holds the old content (compressed when the pattern says so);
* nothing else on the disk changes.
A roller that wipes the directory does not satisfy this. -/
theorem C17_content_placement_fw (r : RollerCfg) (decode : Bytes → Bytes) (hdec : ∀ x, decode (r.codec x) = x)
    (path : Path) (hinj : r.count ≠ 0 → NamesInj r) (hfa : r.count ≠ 0 → FileApart r path)
    (am : Bool) (m : Nat) (s : St Bool) (rec : Rec) (fault : Nat → Bool)
    (hwf : WF (startupCfg path am m (fixedWindowRoll r)) s) (hfresh : s.tst = false)
    (hbig : (fileOf (startupCfg path am m (fixedWindowRoll r)) s.disk).length ≥ m)
    (hok : (append (startupCfg path am m (fixedWindowRoll r)) s rec fault).1.res = .ok) :
    let cfg := startupCfg path am m (fixedWindowRoll r)
    let s' := (append cfg s rec fault).2
    let old := fileOf cfg s.disk
    s'.disk.get? path = some (encBytes rec) ∧
    slotsOf r decode s'.disk = Spec17.rotateSlots r.count (slotsOf r decode s.disk) old ∧
    (r.count ≠ 0 → s'.disk.get? (r.nameOf r.base) = some (r.enc old)) ∧
    (∀ q, Outside r path q → s'.disk.get? q = s.disk.get? q) := by
  intro cfg s' old
  obtain ⟨_, _, _, _, _, _, hyes⟩ := append_pre_spec cfg s rec fault hwf rfl _ _
    (append cfg s rec fault).1 (append cfg s rec fault).2 rfl rfl rfl
  rw [openView_of_opened cfg s hwf.1] at hyes
  have key : (cfg.trig.fire s.tst (fileOf cfg s.disk).length s.now).1 = .yes := by
    simp [cfg, startupCfg, onStartupTrigger, hfresh]
    exact hbig
  obtain ⟨d1, hg1, hse1, h⟩ := hyes key
  rcases h with ⟨x, hx, _, _, ho, hse⟩ | ⟨e, _, hr, _⟩
  · have hroll : fixedWindowRoll r path fault d1 = (.ok x, (fixedWindowRoll r path fault d1).2) := by
      have : (fixedWindowRoll r path fault d1).1 = .ok x := hx
      rw [← this]
    have hff := fixedWindowRoll_ok_faultfree r path fault d1 x _ hroll
    obtain ⟨d', hfree, hgone, hslots⟩ := roll_free r decode hdec path hinj hfa d1 (fileOf cfg s.disk) hg1
    have hd' : (fixedWindowRoll r path fault d1).2 = d' := by
      rw [hfree] at hff
      exact ((Prod.mk.inj hff).2).symm
    have hrd : (cfg.roll cfg.path fault d1).2 = d' := hd'
    rw [hrd] at ho hse
    have hfile0 : fileOf cfg d' = [] := by
      show (d'.get? path).getD [] = []
      rw [hgone]; rfl
    rw [hfile0] at ho
    obtain ⟨w, _, _, hg, _⟩ := ho
    have hs1 : slotsOf r decode d1 = slotsOf r decode s.disk := slotsOf_sameElse r decode path hfa _ _ hse1
    have hg' : s'.disk.get? path = some ([] ++ encBytes rec) := hg
    refine ⟨by simpa using hg', ?_, ?_, ?_⟩
    · rw [slotsOf_sameElse r decode path hfa _ _ hse, hslots, hs1]
    · intro hc
      rw [hse _ (hfa hc _)]
      obtain ⟨d'', hroll'', hq⟩ := fixedWindowRoll_ok r path d1 (fileOf cfg s.disk) hc (hfa hc) hg1
      have : d'' = d' := by
        rw [hfree] at hroll''
        exact ((Prod.mk.inj hroll'').2).symm
      rw [← this, hq, if_pos rfl]
    · intro q hq
      rw [hse q hq.1, ← hd']
      rw [fixedWindowRoll_frame r path fault d1 q hq.1 (by
        intro i h1 h2
        have := hq.2 (i - r.base) (by omega)
        rwa [show r.base + (i - r.base) = i from by omega] at this)]
      exact hse1 q hq.1
  · rw [hr] at hok
    cases hok

/-- On a DENSE pre-existing window (the `k ≤ count` newest archives `ws`, newest first, at
`base … base+k-1`, nothing above) the exact placement is the statement's `Spec.rotateWindow`:
the window afterwards is `(old :: ws).take count` — "the pre-existing content becomes the newest
archive". -/
theorem C17_content_placement_dense (r : RollerCfg) (decode : Bytes → Bytes) (hdec : ∀ x, decode (r.codec x) = x)
    (path : Path) (hinj : r.count ≠ 0 → NamesInj r) (hfa : r.count ≠ 0 → FileApart r path)
    (am : Bool) (m : Nat) (s : St Bool) (rec : Rec) (fault : Nat → Bool) (ws : List Bytes)
    (hwf : WF (startupCfg path am m (fixedWindowRoll r)) s) (hfresh : s.tst = false)
    (hbig : (fileOf (startupCfg path am m (fixedWindowRoll r)) s.disk).length ≥ m)
    (hok : (append (startupCfg path am m (fixedWindowRoll r)) s rec fault).1.res = .ok)
    (hw : slotsOf r decode s.disk = Spec17.ofWindow r.count ws) :
    let cfg := startupCfg path am m (fixedWindowRoll r)
    slotsOf r decode (append cfg s rec fault).2.disk =
      Spec17.ofWindow r.count (Spec.rotateWindow r.count ws (fileOf cfg s.disk)) := by
  intro cfg
  have h := (C17_content_placement_fw r decode hdec path hinj hfa am m s rec fault hwf hfresh hbig hok).2.1
  rw [h, hw, Spec17.rotateSlots_dense]

/-- The delete roller keeps nothing: when the first record rolls, the log file afterwards holds
exactly the encoded record and no other file is touched (the old content is gone — with this
roller "becomes the newest archive" has no archive to refer to). -/
theorem C17_content_placement_delete (path : Path) (am : Bool) (m : Nat) (s : St Bool) (rec : Rec) (fault : Nat → Bool)
    (hwf : WF (startupCfg path am m (fun p f d => deleteRoll p f d)) s) (hfresh : s.tst = false)
    (hbig : (fileOf (startupCfg path am m (fun p f d => deleteRoll p f d)) s.disk).length ≥ m)
    (hok : (append (startupCfg path am m (fun p f d => deleteRoll p f d)) s rec fault).1.res = .ok) :
    let cfg := startupCfg path am m (fun p f d => deleteRoll p f d)
    (append cfg s rec fault).2.disk.get? path = some (encBytes rec) ∧
    ∀ q, q ≠ path → (append cfg s rec fault).2.disk.get? q = s.disk.get? q := by
  intro cfg
  let r0 : RollerCfg := { nameOf := fun _ => [], base := 0, count := 0 }
  have hroll : (fun p f d => deleteRoll p f d) = fixedWindowRoll r0 := by
    funext p f d
    exact deleteRoll_eq r0 rfl p f d
  show (append (startupCfg path am m (fun p f d => deleteRoll p f d)) s rec fault).2.disk.get? path = _ ∧
    ∀ q, q ≠ path → (append (startupCfg path am m (fun p f d => deleteRoll p f d)) s rec fault).2.disk.get? q = _
  rw [hroll] at hwf hbig hok ⊢
  obtain ⟨h1, _, _, h4⟩ := C17_content_placement_fw r0 id (fun _ => rfl) path (fun h => absurd rfl h) (fun h => absurd rfl h)
    am m s rec fault hwf hfresh hbig hok
  exact ⟨h1, fun q hq => h4 q ⟨hq, fun j hj => absurd hj (by simp [r0])⟩⟩

/-- THE LINK BETWEEN PROOF AND EXECUTABLE SPEC. For the appender of the tie — on-start-up trigger,
fixed-window roller (any base/count/compression; `count = 0` is also the delete roller, see
`C17_model_refines_spec_delete`) behind the harness's wrapper — on any initial disk, in both modes,
over every history of `XOp`s (records with working or failing encoders, every fault index incl.
"Err after the work", restarts, ticks): after every operation the model's directory is the one
`Spec17.step` computes (log file present/absent and its content, the window slot by slot, every
other path untouched) and the number of rotation requests and the Ok/Err of the operation are
the ones it predicts. `Driver/C17.lean` evaluates this very function on the real directory. -/
theorem C17_model_refines_spec (r : RollerCfg) (decode : Bytes → Bytes) (hdec : ∀ x, decode (r.codec x) = x)
    (path : Path) (hinj : r.count ≠ 0 → NamesInj r) (hfa : r.count ≠ 0 → FileApart r path)
    (am : Bool) (m : Nat) (d : Disk) (now : Nat) (ops : List XOp) :
    let cfg := startupCfg path am m (Spec17.lateWrap (fixedWindowRoll r))
    Pointwise (fun (e : Option Out × St Bool) (xv : Spec17.Expect × Option Spec17.Verdict) =>
        Agrees r decode path d xv.1 e.2 ∧ VerdictOk xv.2 e.1)
      (traceX cfg (init cfg d false now) ops)
      (Spec17.trace r.count m am (expect0 r decode path am d) (ops.map Spec17.evOf)) := by
  intro cfg
  exact trace_refines r decode hdec path hinj hfa am m d ops _ _ (agrees_init r decode path hfa am m d now)
    (WF_init (fwStartupCfg r path am m) d false now)

/-- the same for the delete roller: the statement with an empty window -/
theorem C17_model_refines_spec_delete (path : Path) (am : Bool) (m : Nat) (d : Disk) (now : Nat) (ops : List XOp) :
    let r0 : RollerCfg := { nameOf := fun _ => [], base := 0, count := 0 }
    let cfg := startupCfg path am m (Spec17.lateWrap (fun p f d => deleteRoll p f d))
    Pointwise (fun (e : Option Out × St Bool) (xv : Spec17.Expect × Option Spec17.Verdict) =>
        Agrees r0 id path d xv.1 e.2 ∧ VerdictOk xv.2 e.1)
      (traceX cfg (init cfg d false now) ops)
      (Spec17.trace 0 m am (expect0 r0 id path am d) (ops.map Spec17.evOf)) := by
  intro r0 cfg
  have hcfg : cfg = startupCfg path am m (Spec17.lateWrap (fixedWindowRoll r0)) := by
    show startupCfg path am m (Spec17.lateWrap (fun p f d => deleteRoll p f d)) = _
    have : (fun p f d => deleteRoll p f d) = fixedWindowRoll r0 := by
      funext p f d
      exact deleteRoll_eq r0 rfl p f d
    rw [this]
  rw [hcfg]
  exact C17_model_refines_spec r0 id (fun _ => rfl) path (fun h => absurd rfl h) (fun h => absurd rfl h) am m d now ops

/-- The first record after start-up whose ROLLER FAILS (step `k` of the rotation cannot be done):
one rotation request, the append returns `Err`, the record is NOT written, the old content is still
in the log file, the window has seen exactly the first `k` shifts — and the request is never
repeated: no later record invokes the roller (until a restart). Over any history `pre` that ends
with a fresh appender. -/
theorem C17_first_record_roller_fails (r : RollerCfg) (decode : Bytes → Bytes) (hdec : ∀ x, decode (r.codec x) = x)
    (path : Path) (hinj : r.count ≠ 0 → NamesInj r) (hfa : r.count ≠ 0 → FileApart r path)
    (am : Bool) (m : Nat) (d : Disk) (now : Nat) (pre : List XOp) (hfresh : freshX pre = true)
    (rec : Rec) (k : Nat) (hk : k < Spec17.nSteps r.count) (hkl : k ≠ Spec17.LATE) :
    let cfg := startupCfg path am m (Spec17.lateWrap (fixedWindowRoll r))
    let s := finalX cfg (init cfg d false now) pre
    (fileOf cfg s.disk).length ≥ m →
    ∃ out, (applyX cfg s (.op (.append rec (some k)))).1 = some out ∧
      out.res = .errRoll ∧ out.rolled = some false ∧
      (applyX cfg s (.op (.append rec (some k)))).2.disk.get? path = some (fileOf cfg s.disk) ∧
      slotsOf r decode (applyX cfg s (.op (.append rec (some k)))).2.disk =
        Spec17.shifted r.count k (slotsOf r decode s.disk) ∧
      ∀ later : List XOp, (∀ op ∈ later, arrival op = true) →
        ∀ e ∈ traceX cfg (applyX cfg s (.op (.append rec (some k)))).2 later, ∃ o, e.1 = some o ∧ o.rolled = none := by
  intro cfg s hbig
  have hwf0 := WF_init cfg d false now
  obtain ⟨hag, hwf⟩ := final_refines r decode hdec path hinj hfa am m d pre _ _
    (agrees_init r decode path hfa am m d now) hwf0
  have hst : s.tst = false := by
    have ht := startup_tst_finalX path am m (Spec17.lateWrap (fixedWindowRoll r)) pre _ hwf0 true (init_tst path am m _ d now)
    show (finalX cfg _ pre).tst = false
    rw [ht]; simp only [freshX] at hfresh; simp [hfresh]
  -- the statement's state before the record
  generalize hx : Spec17.final r.count m am (expect0 r decode path am d) (pre.map Spec17.evOf) = x at hag
  have hag' : Agrees r decode path d x s := hag
  have hfirst : x.first = true := by
    have := hag'.tst
    rw [hst] at this
    cases hxf : x.first <;> simp [hxf] at this ⊢
  have hact : x.active = fileOf cfg s.disk := (hag'.fileOf am m).symm
  have hrn : Spec17.rollsNow m x = true := by
    simp only [Spec17.rollsNow, hfirst, Bool.true_and, decide_eq_true_eq]
    rw [hact]; exact hbig
  obtain ⟨h1, h2, h3⟩ := step_refines r decode hdec path hinj hfa am m d x s hag' hwf (.op (.append rec (some k)))
  have hstep : Spec17.step r.count m am x (Spec17.evOf (.op (.append rec (some k)))) =
      ({ x with slots := Spec17.shifted r.count k x.slots, first := false }, some { calls := 1, ok := false }) := by
    simp [Spec17.step, Spec17.evOf, Spec17.moodOf, hkl, hrn, Spec17.outcomeOf, hk]
  rw [hstep] at h1 h3
  have hpres : x.present = true := hag'.firstPresent hfirst
  cases hout : (applyX cfg s (.op (.append rec (some k)))).1 with
  | none => rw [show (applyX (fwStartupCfg r path am m) s (.op (.append rec (some k)))).1 = none from hout] at h3; exact absurd h3 (by simp [VerdictOk])
  | some out =>
    rw [show (applyX (fwStartupCfg r path am m) s (.op (.append rec (some k)))).1 = some out from hout] at h3
    obtain ⟨hc, hokk⟩ := h3
    have hrolled : out.rolled.isSome = true := by
      cases hn : out.rolled.isSome with
      | true => rfl
      | false => simp [hn] at hc
    have hnotok : out.res ≠ .ok := by
      intro he
      simp [he] at hokk
    -- which error, and `some false`: from the model's own case analysis
    have hs := (startup_append path am m (Spec17.lateWrap (fixedWindowRoll r)) s rec (faultFn (some k)) hwf)
    obtain ⟨_, _, _, _, hno, herr, hyes⟩ := append_pre_spec cfg s rec (faultFn (some k)) hwf rfl _ _
      (append cfg s rec (faultFn (some k))).1 (append cfg s rec (faultFn (some k))).2 rfl rfl rfl
    have hout' : (append cfg s rec (faultFn (some k))).1 = out := by
      have : (applyX cfg s (.op (.append rec (some k)))).1 = some (append cfg s rec (faultFn (some k))).1 := rfl
      rw [hout] at this
      exact (Option.some.inj this).symm
    have key : (cfg.trig.fire s.tst (openView cfg s).length s.now).1 = .yes := by
      rw [openView_of_opened cfg s hwf.1]
      simp [cfg, startupCfg, onStartupTrigger, hst]
      exact hbig
    obtain ⟨d1, _, _, hdisj⟩ := hyes key
    rw [hout'] at hdisj
    have hres : out.res = .errRoll ∧ out.rolled = some false := by
      rcases hdisj with ⟨_, _, hr, _⟩ | ⟨_, _, hr, hro, _⟩
      · exact absurd hr hnotok
      · exact ⟨hr, hro⟩
    refine ⟨out, rfl, hres.1, hres.2, ?_, ?_, ?_⟩
    · have := h1.file
      simp only [hpres, if_true] at this
      rw [← hact]
      exact this
    · have hsl : slotsOf r decode (applyX cfg s (.op (.append rec (some k)))).2.disk =
          Spec17.shifted r.count k x.slots := h1.slots
      rw [hsl, ← hag'.slots]
    · intro later hl e he
      have htst' : (applyX cfg s (.op (.append rec (some k)))).2.tst = true := by
        have : (applyX cfg s (.op (.append rec (some k)))).2.tst = !false := h1.tst
        simpa using this
      exact (arrivals_after_fired path am m (Spec17.lateWrap (fixedWindowRoll r)) later _ h2 htst' hl).1 e he

/-- The first record after start-up whose ENCODER FAILS (file big enough, roller working): the
rotation is requested all the same — one request, the old content becomes the newest archive —,
the append returns `Err`, and the log file afterwards is a fresh EMPTY file (`get_writer` has
recreated it before the encoder ran). Over any history `pre` that ends with a fresh appender. -/
theorem C17_first_record_encoder_fails (r : RollerCfg) (decode : Bytes → Bytes) (hdec : ∀ x, decode (r.codec x) = x)
    (path : Path) (hinj : r.count ≠ 0 → NamesInj r) (hfa : r.count ≠ 0 → FileApart r path)
    (am : Bool) (m : Nat) (d : Disk) (now : Nat) (pre : List XOp) (hfresh : freshX pre = true)
    (rec : Rec) (n : Nat) :
    let cfg := startupCfg path am m (Spec17.lateWrap (fixedWindowRoll r))
    let s := finalX cfg (init cfg d false now) pre
    (fileOf cfg s.disk).length ≥ m →
    ∃ out, (applyX cfg s (.appendFail rec n none)).1 = some out ∧
      out.res ≠ .ok ∧ out.rolled.isSome = true ∧
      (applyX cfg s (.appendFail rec n none)).2.disk.get? path = some [] ∧
      slotsOf r decode (applyX cfg s (.appendFail rec n none)).2.disk =
        Spec17.rotateSlots r.count (slotsOf r decode s.disk) (fileOf cfg s.disk) := by
  intro cfg s hbig
  have hwf0 := WF_init cfg d false now
  obtain ⟨hag, hwf⟩ := final_refines r decode hdec path hinj hfa am m d pre _ _
    (agrees_init r decode path hfa am m d now) hwf0
  have hst : s.tst = false := by
    have ht := startup_tst_finalX path am m (Spec17.lateWrap (fixedWindowRoll r)) pre _ hwf0 true (init_tst path am m _ d now)
    show (finalX cfg _ pre).tst = false
    rw [ht]; simp only [freshX] at hfresh; simp [hfresh]
  generalize hx : Spec17.final r.count m am (expect0 r decode path am d) (pre.map Spec17.evOf) = x at hag
  have hag' : Agrees r decode path d x s := hag
  have hfirst : x.first = true := by
    have := hag'.tst
    rw [hst] at this
    cases hxf : x.first <;> simp [hxf] at this ⊢
  have hact : x.active = fileOf cfg s.disk := (hag'.fileOf am m).symm
  have hrn : Spec17.rollsNow m x = true := by
    simp only [Spec17.rollsNow, hfirst, Bool.true_and, decide_eq_true_eq]
    rw [hact]; exact hbig
  obtain ⟨h1, _, h3⟩ := step_refines r decode hdec path hinj hfa am m d x s hag' hwf (.appendFail rec n none)
  have hstep : Spec17.step r.count m am x (Spec17.evOf (.appendFail rec n none)) =
      ({ slots := Spec17.rotateSlots r.count x.slots x.active, active := [], first := false, present := true },
       some { calls := 1, ok := false }) := by
    simp [Spec17.step, Spec17.evOf, Spec17.moodOf, hrn, Spec17.outcomeOf]
  rw [hstep] at h1 h3
  cases hout : (applyX cfg s (.appendFail rec n none)).1 with
  | none => rw [show (applyX (fwStartupCfg r path am m) s (.appendFail rec n none)).1 = none from hout] at h3; exact absurd h3 (by simp [VerdictOk])
  | some out =>
    rw [show (applyX (fwStartupCfg r path am m) s (.appendFail rec n none)).1 = some out from hout] at h3
    obtain ⟨hc, hokk⟩ := h3
    refine ⟨out, rfl, ?_, ?_, ?_, ?_⟩
    · intro he
      simp [he] at hokk
    · cases hn : out.rolled.isSome with
      | true => rfl
      | false => simp [hn] at hc
    · have hf : (applyX cfg s (.appendFail rec n none)).2.disk.get? path = if true then some [] else none := h1.file
      simpa using hf
    · have hsl : slotsOf r decode (applyX cfg s (.appendFail rec n none)).2.disk =
          Spec17.rotateSlots r.count x.slots x.active := h1.slots
      rw [hsl, ← hag'.slots, hact]

/-! ### (f) simultaneous first appends -/

/-- Simultaneous first appends under the appender's mutex (coarse lock machine: the guard spans the
whole `append`; threads run arbitrary lists of arriving records — working or failing encoders, any
roller fault index —; any scheduler). In every reachable state:
1. the appender's outputs and state are those of the sequential history of the committed records
   in commit order;
2. per thread, the committed records are a prefix of its program, in order;
3. ONLY THE FIRST COMMITTED RECORD CAN REQUEST A ROTATION …
4. … and it does iff the file the appender opened has at least `min_size` bytes;
5. when that rotation succeeded (roller honouring `Roll::roll`'s contract), the log file holds
   exactly the successfully written records in commit order: EVERY RECORD LANDED AFTER THE ROLL;
6. when the first record did not roll, all of them follow the old content.
The mutex and the `Once` are the assumptions (the trigger step is inside the critical section
here; `C17_once_at_most_one_yes` is the statement about the trigger without any lock). -/
theorem C17_concurrent_first (path : Path) (am : Bool) (m : Nat) (roll : RollFn) (d : Disk) (now : Nat)
    (progs : List (List XOp)) (harr : ∀ p ∈ progs, ∀ j ∈ p, arrival j = true) (sched : List Nat) :
    let cfg := startupCfg path am m roll
    let s0 := init cfg d false now
    let body : XOp → (List (Option Out) × St Bool) → (List (Option Out) × St Bool) :=
      fun j acc => (acc.1 ++ [(applyX cfg acc.2 j).1], (applyX cfg acc.2 j).2)
    let st := lrun body (LState.init ([], s0) progs) sched
    let order := st.log.map (·.2)
    (st.shared.1 = (traceX cfg s0 order).map (·.1) ∧ st.shared.2 = finalX cfg s0 order) ∧
    (∀ i t, st.threads[i]? = some t → (st.log.filter (fun e => e.1 == i)).map (·.2) = t.done ∧
        ∃ p, progs[i]? = some p ∧ t.done <+: p) ∧
    (∀ k out, st.shared.1[k]? = some (some out) → out.rolled.isSome → k = 0) ∧
    (∀ out, st.shared.1[0]? = some (some out) →
        (out.rolled.isSome ↔ (if am then fileOf cfg d else []).length ≥ m)) ∧
    (∀ out, st.shared.1[0]? = some (some out) → out.rolled = some true → RollGone roll path →
        fileOf cfg st.shared.2.disk = (order.map okBytes).flatten) ∧
    (∀ out, st.shared.1[0]? = some (some out) → out.rolled = none →
        fileOf cfg st.shared.2.disk = (if am then fileOf cfg d else []) ++ (order.map okBytes).flatten) := by
  intro cfg s0 body st order
  have inv : LInv body ([], s0) progs st := LInv.run sched (LInv.init body _ progs)
  -- the fold of `body` is the sequential trace
  have hseq : ∀ (js : List XOp) (acc : List (Option Out) × St Bool),
      js.foldl (fun acc j => body j acc) acc =
        (acc.1 ++ (traceX cfg acc.2 js).map (·.1), finalX cfg acc.2 js) := by
    intro js
    induction js with
    | nil => intro acc; simp [traceX, finalX]
    | cons j js ih =>
      intro acc
      simp only [List.foldl_cons]
      rw [ih]
      simp [body, traceX, finalX_cons, List.append_assoc]
  have hshared : st.shared = ((traceX cfg s0 order).map (·.1), finalX cfg s0 order) := by
    rw [inv.shared, hseq]
    simp [order]
  -- every committed job is an arriving record
  have horder : ∀ j ∈ order, arrival j = true := by
    intro j hj
    simp only [order, List.mem_map] at hj
    obtain ⟨⟨i, j'⟩, he, rfl⟩ := hj
    have hi : (i, j') ∈ st.log.filter (fun e => e.1 == i) := by simp [he]
    -- the log entry belongs to thread i's done list
    cases hti : st.threads[i]? with
    | none =>
      -- a log entry of a thread that does not exist cannot happen: its filtered log would be non-empty
      exfalso
      have hnone : ∀ (sch : List Nat) (s : LState (List (Option Out) × St Bool) XOp),
          (∀ e ∈ s.log, e.1 < s.threads.length) →
          ∀ e ∈ (lrun body s sch).log, e.1 < (lrun body s sch).threads.length := by
        intro sch
        induction sch with
        | nil => intro s h; exact h
        | cons i0 rest ih =>
          intro s h
          simp only [lrun]
          cases hst : lstep body i0 s with
          | none => simpa [hst] using ih s h
          | some s1 =>
            simp only [hst, Option.getD_some]
            apply ih
            unfold lstep at hst
            cases ht0 : s.threads[i0]? with
            | none => simp [ht0] at hst
            | some t0 =>
              have hi0 : i0 < s.threads.length := (List.getElem?_eq_some_iff.mp ht0).1
              simp only [ht0] at hst
              cases htd : t0.todo with
              | nil => simp [htd] at hst
              | cons j0 r0 =>
                simp only [htd] at hst
                by_cases hh : t0.holding
                · simp only [hh, if_true, Option.some.injEq] at hst
                  subst hst
                  intro e he
                  simp only [List.mem_append, List.mem_singleton] at he
                  simp only [List.length_set]
                  rcases he with he | rfl
                  · exact h e he
                  · exact hi0
                · simp only [hh, Bool.false_eq_true, if_false] at hst
                  by_cases hf : s.lockFree
                  · simp only [hf, if_true, Option.some.injEq] at hst
                    subst hst
                    intro e he
                    simp only [List.length_set]
                    exact h e he
                  · simp [hf] at hst
      have := hnone sched (LState.init ([], s0) progs) (by intro e he; simp [LState.init] at he) (i, j') he
      have hlt : i < st.threads.length := this
      rw [List.getElem?_eq_none_iff] at hti
      omega
    | some t =>
      obtain ⟨hl, p, hp1, hp2⟩ := inv.threads i t hti
      have hmem : j' ∈ t.done := by
        rw [← hl]
        exact List.mem_map.mpr ⟨(i, j'), hi, rfl⟩
      have hp : p ∈ progs := List.mem_of_getElem? hp1
      exact harr p hp j' (by rw [← hp2]; simp [hmem])
  have hwf0 := WF_init cfg d false now
  have hs1 : st.shared.1 = (traceX cfg s0 order).map (·.1) := by rw [hshared]
  have hs2 : st.shared.2 = finalX cfg s0 order := by rw [hshared]
  -- entry k of the outputs
  have hentry : ∀ k out, st.shared.1[k]? = some (some out) →
      ∃ op, order[k]? = some op ∧ (applyX cfg (finalX cfg s0 (order.take k)) op).1 = some out := by
    intro k out hk
    rw [hs1, List.getElem?_map, traceX_getElem?] at hk
    cases hop : order[k]? with
    | none => simp [hop] at hk
    | some op =>
      simp only [hop, Option.map_some, Option.some.injEq] at hk
      exact ⟨op, rfl, hk⟩
  refine ⟨⟨hs1, hs2⟩, ?_, ?_, ?_, ?_, ?_⟩
  · intro i t ht
    obtain ⟨hl, p, hp1, hp2⟩ := inv.threads i t ht
    exact ⟨hl, p, hp1, ⟨t.todo, hp2⟩⟩
  · intro k out hk hroll
    obtain ⟨op, hop, hout⟩ := hentry k out hk
    have hfresh := C17_only_first path am m roll d now (order.take k) op out hout hroll
    -- a non-empty prefix of arriving records is not fresh
    cases k with
    | zero => rfl
    | succ k =>
      exfalso
      have hlen : k + 1 ≤ order.length := by
        have := (List.getElem?_eq_some_iff.mp hop).1
        omega
      have hne : order.take (k + 1) ≠ [] := by
        intro h
        have h1 : (order.take (k + 1)).length = k + 1 := by rw [List.length_take]; omega
        rw [h] at h1
        simp at h1
      -- the last element of the prefix is an arrival, so the fold ends in `false`
      obtain ⟨pre, last, hpl⟩ : ∃ pre last, order.take (k + 1) = pre ++ [last] :=
        ⟨_, _, (List.dropLast_concat_getLast hne).symm⟩
      have hlast : arrival last = true :=
        horder last (List.mem_of_mem_take (by rw [hpl]; simp))
      rw [hpl] at hfresh
      simp only [freshX, List.foldl_append, List.foldl_cons, List.foldl_nil] at hfresh
      cases last with
      | appendFail r n f => simp at hfresh
      | op o =>
        cases o with
        | append r f => simp at hfresh
        | restart => simp [arrival] at hlast
        | tick dt => simp [arrival] at hlast
  · intro out hk
    obtain ⟨op, hop, hout⟩ := hentry 0 out hk
    have harr0 : arrival op = true := horder op (List.mem_of_getElem? hop)
    obtain ⟨out', ho', hiff⟩ := C17_iff_big_enough path am m roll d now op harr0
    simp only [List.take_zero, finalX, List.foldl_nil] at hout
    rw [hout] at ho'
    rw [← Option.some.inj ho'] at hiff
    exact hiff
  · intro out hk hsome hgone
    obtain ⟨op, hop, hout⟩ := hentry 0 out hk
    simp only [List.take_zero, finalX, List.foldl_nil] at hout
    cases hord : order with
    | nil => rw [hord] at hop; simp at hop
    | cons op0 rest =>
      rw [hord] at hop
      simp only [List.getElem?_cons_zero, Option.some.injEq] at hop
      subst hop
      have harr0 : arrival op0 = true := horder op0 (by rw [hord]; simp)
      obtain ⟨out', ho', _, htst, _, hfile⟩ := first_arrival path am m roll s0 op0 hwf0 (init_tst path am m roll d now) harr0
      rw [hout] at ho'
      have : out' = out := (Option.some.inj ho').symm
      subst this
      have hrest := (arrivals_after_fired path am m roll rest _ (WF_applyX cfg s0 op0 hwf0) htst
        (fun o ho => horder o (by rw [hord]; simp [ho]))).2
      rw [hs2, hord, finalX_cons, hrest, hfile hsome hgone]
      simp
  · intro out hk hnone
    obtain ⟨op, hop, hout⟩ := hentry 0 out hk
    simp only [List.take_zero, finalX, List.foldl_nil] at hout
    cases hord : order with
    | nil => rw [hord] at hop; simp at hop
    | cons op0 rest =>
      rw [hord] at hop
      simp only [List.getElem?_cons_zero, Option.some.injEq] at hop
      subst hop
      have harr0 : arrival op0 = true := horder op0 (by rw [hord]; simp)
      obtain ⟨out', ho', _, htst, hfile, _⟩ := first_arrival path am m roll s0 op0 hwf0 (init_tst path am m roll d now) harr0
      rw [hout] at ho'
      have : out' = out := (Option.some.inj ho').symm
      subst this
      have hrest := (arrivals_after_fired path am m roll rest _ (WF_applyX cfg s0 op0 hwf0) htst
        (fun o ho => horder o (by rw [hord]; simp [ho]))).2
      rw [hs2, hord, finalX_cons, hrest, hfile hnone, init_fileOf]
      simp only [List.map_cons, List.flatten_cons, List.append_assoc]
      rfl

/-- The trigger ALONE, called from any number of threads with NO lock around it (`trigger` is a
public method of a `Send + Sync` object): with `std::sync::Once` modelled as an atomic claim
(`Once17.step`), over every schedule and any number of calls per thread, at most ONE call of
`trigger` ever answers `true` — at most one rotation request per trigger object. -/
theorem C17_once_at_most_one_yes (progs : List (Nat × Bool)) (sched : List Nat) :
    Once17.yesCount (Once17.run Once17.step (Once17.init progs) sched) ≤ 1 :=
  Once17.inv_yes_le_one (Once17.inv_run sched (Once17.inv_init progs))

/-- What the atomicity assumption buys: with a plain flag (look and claim as two steps,
`Once17.stepRacy`) two simultaneous first calls both answer `true` — two rotation requests. (A
concrete schedule of two threads; a witness, not a universally quantified statement.) -/
theorem C17_once_racy_flag_breaks :
    Once17.yesCount (Once17.run Once17.stepRacy (Once17.init [(1, true), (1, true)]) [0, 1, 0, 1, 0, 1, 0, 1]) = 2 := by
  decide

/-! ### non-vacuity (tests on samples) -/

private def demoPath : Path := ['a']
private def demoRoller : RollerCfg := { nameOf := fun i => ['a', '.', Char.ofNat (48 + i)], base := 1, count := 2 }

/-- min_size 3, a 3-byte file, window [slot1 = [7]]: the first record rolls — old content to slot 1,
the former slot 1 to slot 2, the record alone in a fresh file —, the second does not -/
example :
    let cfg := startupCfg demoPath true 3 (fixedWindowRoll demoRoller)
    let s0 := init cfg ((Disk.empty.set demoPath [1, 2, 3]).set ['a', '.', '1'] [7]) false 0
    let a1 := append cfg s0 [[9]] (fun _ => false)
    a1.1.rolled = some true ∧ a1.2.disk.get? demoPath = some [9] ∧
      a1.2.disk.get? ['a', '.', '1'] = some [1, 2, 3] ∧ a1.2.disk.get? ['a', '.', '2'] = some [7] ∧
      (append cfg a1.2 [[8]] (fun _ => false)).1.rolled = none := by
  decide +kernel

/-- the reviewer's disk-wiping "roller" satisfies the old contract but NOT the exact placement:
`rotateSlots` of a one-slot window holding nothing is `[some old]`, the wiped disk shows `[none]` -/
example : Spec17.rotateSlots 1 [none] [1, 2, 3] = [some [1, 2, 3]] := by decide

/-- min_size 3, a 3-byte file, the FIRST record's encoder fails: the rotation is requested by that
record all the same (the policy runs before the encoder), the second record does not roll -/
example :
    let cfg := startupCfg demoPath true 3 (fun p f d => deleteRoll p f d)
    let s0 := init cfg (Disk.empty.set demoPath [1, 2, 3]) false 0
    let a1 := appendFail cfg s0 [[9]] 0 (fun _ => false)
    a1.1.res = .errEncode ∧ a1.1.rolled = some true ∧ (append cfg a1.2 [[8]] (fun _ => false)).1.rolled = none := by
  decide +kernel

/-- the first record's roller fails at step 0 of a 2-slot rotation: nothing moved, the record is
lost, the old content stays and later records are appended to it without another request -/
example :
    let cfg := startupCfg demoPath true 1 (Spec17.lateWrap (fixedWindowRoll demoRoller))
    let s0 := init cfg (Disk.empty.set demoPath [1, 2, 3]) false 0
    let a1 := append cfg s0 [[9]] (faultFn (some 0))
    let a2 := append cfg a1.2 [[8]] (fun _ => false)
    a1.1.res = .errRoll ∧ a1.1.rolled = some false ∧ a1.2.disk.get? demoPath = some [1, 2, 3] ∧
      a2.1.rolled = none ∧ a2.2.disk.get? demoPath = some [1, 2, 3, 8] := by
  decide +kernel

/-- min_size = u64::MAX (and 2^63): a 3-byte file is never big enough (the model compares natural
numbers; a signed subtraction in the code would roll here) -/
example :
    let s0 := fun m => init (startupCfg demoPath true m (fun p f d => deleteRoll p f d)) (Disk.empty.set demoPath [1, 2, 3]) false 0
    (append (startupCfg demoPath true 18446744073709551615 (fun p f d => deleteRoll p f d)) (s0 18446744073709551615) [[9]] (fun _ => false)).1.rolled = none ∧
    (append (startupCfg demoPath true 9223372036854775808 (fun p f d => deleteRoll p f d)) (s0 9223372036854775808) [[9]] (fun _ => false)).1.rolled = none := by
  decide +kernel

/-- min_size 3, a 2-byte file: no rotation, the record is appended -/
example :
    let cfg := startupCfg demoPath true 3 (fun p f d => deleteRoll p f d)
    let s0 := init cfg (Disk.empty.set demoPath [1, 2]) false 0
    (append cfg s0 [[9]] (fun _ => false)).1.rolled = none ∧
      (append cfg s0 [[9]] (fun _ => false)).2.disk.get? demoPath = some [1, 2, 9] := by
  decide +kernel

/-- min_size 0 rolls an EMPTY file at every start: with a full fixed window that evicts the oldest
real archive each time (consistent with the statement; worth knowing) -/
example :
    let cfg := startupCfg demoPath true 0 (fixedWindowRoll demoRoller)
    let s0 := init cfg ((Disk.empty.set ['a', '.', '1'] [11]).set ['a', '.', '2'] [22]) false 0
    let a1 := append cfg s0 [[9]] (fun _ => false)
    a1.1.rolled = some true ∧ a1.2.disk.get? ['a', '.', '1'] = some [] ∧ a1.2.disk.get? ['a', '.', '2'] = some [11] := by
  decide +kernel

end Log4rs.Rolling
