import Log4rsModel.Rolling.LemmasRoller
import Log4rsModel.Rolling.LemmasLock
/-
C17 — On-start-up trigger rolls at most once, on the first record, if big enough.
Model: `Rolling/Model.lean` with `onStartupTrigger minSize` (state = "the `Once` has run";
pre-process). `std::sync::Once` is assumed to run its closure exactly once; the concurrent clause
uses the coarse lock machine of `Rolling/Lock.lean` (the appender's mutex spans the whole append).
-/
namespace Log4rs.Rolling
open Log4rs.Roller

def startupCfg (path : Path) (appendMode : Bool) (minSize : Nat) (roll : RollFn) : Cfg Bool :=
  { path, appendMode, trig := onStartupTrigger minSize, roll }

def isRoll : Option Out → Bool
  | some out => out.rolled.isSome
  | none => false

/-- number of operations of a history in which the roller was invoked -/
def rolls (outs : List (Option Out)) : Nat := (outs.filter isRoll).length

def isRestart : Op → Bool
  | .restart => true
  | _ => false

def restarts (ops : List Op) : Nat := (ops.filter isRestart).length

/-- no append since the appender was built (scanning the history from the start) -/
def fresh (ops : List Op) : Bool :=
  ops.foldl (fun b op => match op with | .append _ _ => false | .restart => true | .tick _ => b) true

/-- one append under the on-start-up trigger -/
theorem startup_append (path : Path) (am : Bool) (m : Nat) (roll : RollFn) (s : St Bool) (r : Rec)
    (fault : Nat → Bool) (hwf : WF (startupCfg path am m roll) s) :
    (append (startupCfg path am m roll) s r fault).2.tst = true ∧
    (s.tst = true → (append (startupCfg path am m roll) s r fault).1.rolled = none) ∧
    (s.tst = false → ((append (startupCfg path am m roll) s r fault).1.rolled.isSome ↔
        (openView (startupCfg path am m roll) s).length ≥ m)) := by
  obtain ⟨_, ht, _, _, hno, _, hyes⟩ := append_pre_spec (startupCfg path am m roll) s r fault hwf rfl _ _
    (append (startupCfg path am m roll) s r fault).1 (append (startupCfg path am m roll) s r fault).2 rfl rfl rfl
  have key : ∀ L, ((startupCfg path am m roll).trig.fire s.tst L s.now) =
      if s.tst then (.no, true) else (if L ≥ m then .yes else .no, true) := by
    intro L; simp [startupCfg, onStartupTrigger]
  refine ⟨?_, ?_, ?_⟩
  · rw [ht, key]; cases s.tst <;> simp
  · intro hs
    have hf : ((startupCfg path am m roll).trig.fire s.tst (openView (startupCfg path am m roll) s).length s.now).1 = .no := by
      rw [key, hs]; rfl
    exact (hno hf).2.1
  · intro hs
    by_cases hge : (openView (startupCfg path am m roll) s).length ≥ m
    · have hf : ((startupCfg path am m roll).trig.fire s.tst (openView (startupCfg path am m roll) s).length s.now).1 = .yes := by
        rw [key, hs]; simp [hge]
      obtain ⟨d1, _, _, h⟩ := hyes hf
      rcases h with ⟨_, _, _, hr, _⟩ | ⟨_, _, _, hr, _⟩ <;> simp [hr, hge]
    · have hf : ((startupCfg path am m roll).trig.fire s.tst (openView (startupCfg path am m roll) s).length s.now).1 = .no := by
        rw [key, hs]; simp [hge]
      simp [(hno hf).2.1, hge]

theorem startup_applyOp_tst (path : Path) (am : Bool) (m : Nat) (roll : RollFn) (s : St Bool) (op : Op)
    (hwf : WF (startupCfg path am m roll) s) :
    (applyOp (startupCfg path am m roll) s op).2.tst =
      match op with | .append _ _ => true | .restart => false | .tick _ => s.tst := by
  cases op with
  | append r f => exact (startup_append path am m roll s r (faultFn f) hwf).1
  | restart =>
    simp only [applyOp, restart, build]
    exact (getWriter_spec (startupCfg path am m roll) _ (Or.inl rfl)).2.2.2.1
  | tick dt => rfl

theorem rolls_bound (path : Path) (am : Bool) (m : Nat) (roll : RollFn) (ops : List Op) (s : St Bool)
    (hwf : WF (startupCfg path am m roll) s) :
    rolls (run (startupCfg path am m roll) s ops).1 ≤ (if s.tst then 0 else 1) + restarts ops := by
  induction ops generalizing s with
  | nil => simp [run, rolls]
  | cons op ops ih =>
    have hwf' := WF_applyOp (startupCfg path am m roll) s op hwf
    have ih' := ih _ hwf'
    have htst := startup_applyOp_tst path am m roll s op hwf
    have hr : rolls (run (startupCfg path am m roll) s (op :: ops)).1 =
        (if isRoll (applyOp (startupCfg path am m roll) s op).1 then 1 else 0) +
          rolls (run (startupCfg path am m roll) (applyOp (startupCfg path am m roll) s op).2 ops).1 := by
      simp only [run, rolls, List.filter_cons]
      split <;> simp <;> omega
    rw [hr]
    cases op with
    | append r f =>
      have hs := startup_append path am m roll s r (faultFn f) hwf
      simp only [htst, if_true] at ih'
      have hres : restarts (Op.append r f :: ops) = restarts ops := by simp [restarts, isRestart]
      rw [hres]
      cases hst : s.tst with
      | true =>
        have : isRoll (applyOp (startupCfg path am m roll) s (.append r f)).1 = false := by
          simp [applyOp, isRoll, hs.2.1 hst]
        simp only [this]
        simp only [Bool.false_eq_true, if_false, if_true]
        omega
      | false =>
        simp only [Bool.false_eq_true, if_false]
        split <;> omega
    | restart =>
      have : isRoll (applyOp (startupCfg path am m roll) s .restart).1 = false := rfl
      have hres : restarts (Op.restart :: ops) = restarts ops + 1 := by simp [restarts, isRestart, List.filter_cons]
      rw [this, hres]
      simp only [htst] at ih'
      simp only [Bool.false_eq_true, if_false] at ih' ⊢
      split <;> omega
    | tick dt =>
      have : isRoll (applyOp (startupCfg path am m roll) s (.tick dt)).1 = false := rfl
      have hres : restarts (Op.tick dt :: ops) = restarts ops := by simp [restarts, isRestart]
      rw [this, hres]
      simp only [htst] at ih'
      simpa using ih'

/-- In the lifetime of one appender — any history of appends (any record, any injected roller
fault) and clock ticks — the on-start-up trigger requests at most one rotation; with restarts, at
most one per appender built. `rolls` counts every invocation of the roller, successful or failed
(`Out.rolled.isSome`): `process` calls `cfg.roll` exactly once per firing of the trigger, so this is
the number of rotation requests (the harness counts `Roll::roll` calls through a wrapper). -/
theorem C17_at_most_one_roll (path : Path) (am : Bool) (m : Nat) (roll : RollFn) (d : Disk) (now : Nat) (ops : List Op) :
    rolls (run (startupCfg path am m roll) (init (startupCfg path am m roll) d false now) ops).1 ≤ 1 + restarts ops := by
  have h := rolls_bound path am m roll ops _ (WF_init (startupCfg path am m roll) d false now)
  have ht : (init (startupCfg path am m roll) d false now).tst = false :=
    (getWriter_spec (startupCfg path am m roll) _ (Or.inl rfl)).2.2.2.1
  simpa [ht] using h

theorem startup_tst_run (path : Path) (am : Bool) (m : Nat) (roll : RollFn) (ops : List Op) (s : St Bool)
    (hwf : WF (startupCfg path am m roll) s) (b : Bool) (hb : s.tst = !b) :
    (run (startupCfg path am m roll) s ops).2.tst =
      !(ops.foldl (fun b op => match op with | .append _ _ => false | .restart => true | .tick _ => b) b) := by
  induction ops generalizing s b with
  | nil => simpa [run] using hb
  | cons op ops ih =>
    have hwf' := WF_applyOp (startupCfg path am m roll) s op hwf
    have htst := startup_applyOp_tst path am m roll s op hwf
    simp only [run, List.foldl_cons]
    apply ih _ hwf'
    rw [htst]
    cases op <;> simp [hb]

/-- A rotation is requested only while handling the first record after start-up: if the roller is
invoked by an append that follows the history `ops`, then no append has happened since the
appender was built (`fresh ops`). -/
theorem C17_only_first_ops (path : Path) (am : Bool) (m : Nat) (roll : RollFn) (d : Disk) (now : Nat) (ops : List Op)
    (r : Rec) (fault : Nat → Bool) :
    let s := (run (startupCfg path am m roll) (init (startupCfg path am m roll) d false now) ops).2
    (append (startupCfg path am m roll) s r fault).1.rolled.isSome → fresh ops = true := by
  intro s hroll
  have hwf0 := WF_init (startupCfg path am m roll) d false now
  have hwf : WF (startupCfg path am m roll) s := run_invariant _ (fun s op h => WF_applyOp _ s op h) ops _ hwf0
  have ht0 : (init (startupCfg path am m roll) d false now).tst = false :=
    (getWriter_spec (startupCfg path am m roll) _ (Or.inl rfl)).2.2.2.1
  have ht := startup_tst_run path am m roll ops _ hwf0 true (by simp [ht0])
  have hs := startup_append path am m roll s r fault hwf
  cases hf : fresh ops with
  | true => rfl
  | false =>
    have : s.tst = true := by
      show (run _ _ ops).2.tst = true
      rw [ht]
      simp only [fresh] at hf
      simp [hf]
    rw [hs.2.1 this] at hroll
    simp at hroll

/-- The first record rolls iff the log file that exists at that moment has at least `min_size`
bytes (`min_size = 0` and an empty file included). At the first append of a new appender that file
is what open left: the pre-existing content in append mode, nothing in truncate mode. -/
theorem C17_iff_big_enough_ops (path : Path) (am : Bool) (m : Nat) (roll : RollFn) (d : Disk) (now : Nat)
    (r : Rec) (fault : Nat → Bool) :
    let cfg := startupCfg path am m roll
    ((append cfg (init cfg d false now) r fault).1.rolled.isSome ↔
      (if am then fileOf cfg d else []).length ≥ m) := by
  intro cfg
  have hwf := WF_init cfg d false now
  have ht0 : (init cfg d false now).tst = false := (getWriter_spec cfg _ (Or.inl rfl)).2.2.2.1
  have ho : Opened cfg (init cfg d false now) (if am then fileOf cfg d else []) := by
    have h := (getWriter_spec cfg { disk := d, writer := none, tst := cfg.trig.reinit false now, now := now, opened := false } (Or.inl rfl)).1
    simpa [openView, init, build, cfg, startupCfg] using h
  have hov : openView cfg (init cfg d false now) = if am then fileOf cfg d else [] := by
    obtain ⟨w, hw, _, hg, _⟩ := ho
    simp [openView, hw, fileOf_of_get hg]
  have := (startup_append path am m roll (init cfg d false now) r fault hwf).2.2 ht0
  rw [hov] at this
  exact this

/-- The same for the first append after any history that ends in a fresh appender (for instance
after a restart): the decision looks at the file as the new appender opened it. -/
theorem C17_iff_big_enough_any (path : Path) (am : Bool) (m : Nat) (roll : RollFn) (s : St Bool)
    (r : Rec) (fault : Nat → Bool) (hwf : WF (startupCfg path am m roll) s) (hfresh : s.tst = false) :
    ((append (startupCfg path am m roll) s r fault).1.rolled.isSome ↔
      (openView (startupCfg path am m roll) s).length ≥ m) :=
  (startup_append path am m roll s r fault hwf).2.2 hfresh

/-- When the first record rolls (and the roller succeeds): the content that was in the log file
becomes the newest archive — `arch` after = (`arch` before ++ [old content]) minus whole oldest
files — and the record starts a fresh file: the active file is exactly the encoded record. For any
roller satisfying `RollContract` (proved for the delete roller here and for the fixed-window model
in `C05`). -/
theorem C17_content_placement (path : Path) (am : Bool) (m : Nat) (roll : RollFn) (arch : Disk → List Bytes)
    (hc : RollContract roll path arch) (s : St Bool) (r : Rec) (fault : Nat → Bool)
    (hwf : WF (startupCfg path am m roll) s) (hfresh : s.tst = false)
    (hbig : (openView (startupCfg path am m roll) s).length ≥ m)
    (hok : (append (startupCfg path am m roll) s r fault).1.res = .ok) :
    let s' := (append (startupCfg path am m roll) s r fault).2
    s'.disk.get? path = some (encBytes r) ∧
    ∃ j, arch s'.disk = (arch s.disk ++ [openView (startupCfg path am m roll) s]).drop j := by
  intro s'
  obtain ⟨_, _, _, _, _, _, hyes⟩ := append_pre_spec (startupCfg path am m roll) s r fault hwf rfl _ _
    (append (startupCfg path am m roll) s r fault).1 (append (startupCfg path am m roll) s r fault).2 rfl rfl rfl
  have key : ((startupCfg path am m roll).trig.fire s.tst (openView (startupCfg path am m roll) s).length s.now).1 = .yes := by
    simp [startupCfg, onStartupTrigger, hfresh]
    simp only [startupCfg] at hbig
    exact hbig
  obtain ⟨d1, hg1, hse1, h⟩ := hyes key
  rcases h with ⟨x, hx, _, _, ho, hse⟩ | ⟨e, _, hr, _⟩
  · have hroll : roll path fault d1 = (.ok x, (roll path fault d1).2) := by
      have : (roll path fault d1).1 = .ok x := hx
      rw [← this]
    obtain ⟨hgone, j, harch⟩ := hc.ok fault d1 x _ _ hroll hg1
    have hfile : fileOf (startupCfg path am m roll)
        ((startupCfg path am m roll).roll (startupCfg path am m roll).path fault d1).2 = [] := by
      simp [fileOf, startupCfg, hgone]
    rw [hfile] at ho
    obtain ⟨w, _, _, hg, _⟩ := ho
    refine ⟨hg, j, ?_⟩
    have h1 : arch s'.disk = arch (roll path fault d1).2 := hc.frame _ _ hse
    have h2 : arch d1 = arch s.disk := hc.frame _ _ hse1
    rw [h1, harch, h2]
  · rw [hr] at hok
    cases hok

/-- Simultaneous first appends: in every state the lock machine can reach from `progs` (one list
of records per thread; any scheduler), the appender's state is the sequential execution of the
committed appends in commit order, the commit order is a merge of what each thread has completed —
hence (`C17_at_most_one_roll`) at most one rotation happened, it was requested by the first
committed append, and every record was written after it. -/
theorem C17_concurrent_first (path : Path) (am : Bool) (m : Nat) (roll : RollFn) (d : Disk) (now : Nat)
    (progs : List (List Rec)) (sched : List Nat) :
    let cfg := startupCfg path am m roll
    let body : Rec → (List (Option Out) × St Bool) → (List (Option Out) × St Bool) :=
      fun r acc => (acc.1 ++ [some (append cfg acc.2 r (fun _ => false)).1], (append cfg acc.2 r (fun _ => false)).2)
    let st := lrun body (LState.init ([], init cfg d false now) progs) sched
    let order := st.log.map (·.2)
    st.shared = (order.foldl (fun acc r => body r acc) ([], init cfg d false now)) ∧
    (∀ i t, st.threads[i]? = some t → (st.log.filter (fun e => e.1 == i)).map (·.2) = t.done ∧
        ∃ p, progs[i]? = some p ∧ t.done <+: p) ∧
    st.shared = run cfg (init cfg d false now) (order.map (fun r => Op.append r none)) ∧
    rolls st.shared.1 ≤ 1 := by
  intro cfg body st order
  have inv : LInv body ([], init cfg d false now) progs st := (LInv.init body _ progs).run sched
  have hseq : ∀ (rs : List Rec) (acc : List (Option Out) × St Bool),
      rs.foldl (fun acc r => body r acc) acc =
        (acc.1 ++ (run cfg acc.2 (rs.map (fun r => Op.append r none))).1,
         (run cfg acc.2 (rs.map (fun r => Op.append r none))).2) := by
    intro rs
    induction rs with
    | nil => intro acc; simp [run]
    | cons r rs ih =>
      intro acc
      simp only [List.foldl_cons, List.map_cons, run, applyOp]
      rw [ih]
      have hf : faultFn none = fun _ => false := by funext k; simp [faultFn]
      simp [body, hf]
  have hshared : st.shared = run cfg (init cfg d false now) (order.map (fun r => Op.append r none)) := by
    rw [inv.shared, hseq]
    simp [order]
  refine ⟨inv.shared, ?_, hshared, ?_⟩
  · intro i t ht
    obtain ⟨hl, p, hp1, hp2⟩ := inv.threads i t ht
    exact ⟨hl, p, hp1, ⟨t.todo, hp2⟩⟩
  · rw [hshared]
    have := C17_at_most_one_roll path am m roll d now (order.map (fun r => Op.append r none))
    have hz : restarts (order.map (fun r => Op.append r none)) = 0 := by
      simp [restarts, isRestart, List.filter_eq_nil_iff]
    simpa [hz, cfg] using this

/-! ### histories in which encoders may fail (`XOp`)

`RollingFileAppender::append` consults the policy *before* it encodes the record
(`get_writer → policy.process → get_writer → encode_whole`), so the on-start-up trigger's `Once`
is consumed by the first record that ARRIVES, whether or not its encoder then fails. The theorems
below are the general forms: histories and the deciding operation range over `XOp`. -/

theorem startup_appendFail (path : Path) (am : Bool) (m : Nat) (roll : RollFn) (s : St Bool) (r : Rec) (n : Nat)
    (fault : Nat → Bool) (hwf : WF (startupCfg path am m roll) s) :
    (appendFail (startupCfg path am m roll) s r n fault).2.tst = true ∧
    (s.tst = true → (appendFail (startupCfg path am m roll) s r n fault).1.rolled = none) ∧
    (s.tst = false → ((appendFail (startupCfg path am m roll) s r n fault).1.rolled.isSome ↔
        (openView (startupCfg path am m roll) s).length ≥ m)) := by
  obtain ⟨_, ht, _, _, hno, _, hyes⟩ := appendFail_pre_spec (startupCfg path am m roll) s r n fault hwf rfl _ _
    (appendFail (startupCfg path am m roll) s r n fault).1 (appendFail (startupCfg path am m roll) s r n fault).2 rfl rfl rfl
  have key : ∀ L, ((startupCfg path am m roll).trig.fire s.tst L s.now) =
      if s.tst then (.no, true) else (if L ≥ m then .yes else .no, true) := by
    intro L; simp [startupCfg, onStartupTrigger]
  refine ⟨?_, ?_, ?_⟩
  · rw [ht, key]; cases s.tst <;> simp
  · intro hs
    have hf : ((startupCfg path am m roll).trig.fire s.tst (openView (startupCfg path am m roll) s).length s.now).1 = .no := by
      rw [key, hs]; rfl
    exact (hno hf).2.1
  · intro hs
    by_cases hge : (openView (startupCfg path am m roll) s).length ≥ m
    · have hf : ((startupCfg path am m roll).trig.fire s.tst (openView (startupCfg path am m roll) s).length s.now).1 = .yes := by
        rw [key, hs]; simp [hge]
      obtain ⟨d1, _, _, h⟩ := hyes hf
      rcases h with ⟨_, _, _, hr, _⟩ | ⟨_, _, _, hr, _⟩ <;> simp [hr, hge]
    · have hf : ((startupCfg path am m roll).trig.fire s.tst (openView (startupCfg path am m roll) s).length s.now).1 = .no := by
        rw [key, hs]; simp [hge]
      simp [(hno hf).2.1, hge]

/-- a record arrives at the appender (its encoder may or may not succeed) -/
def arrival : XOp → Bool
  | .op (.append _ _) => true
  | .appendFail _ _ _ => true
  | _ => false

/-- no record has arrived since the appender was built -/
def freshX (ops : List XOp) : Bool :=
  ops.foldl (fun b op => match op with
    | .op (.append _ _) => false | .appendFail _ _ _ => false | .op .restart => true | .op (.tick _) => b) true

/-- the state after a history -/
def finalX (cfg : Cfg Bool) (s : St Bool) (ops : List XOp) : St Bool := ops.foldl (fun s op => (applyX cfg s op).2) s

theorem startup_applyX_tst (path : Path) (am : Bool) (m : Nat) (roll : RollFn) (s : St Bool) (op : XOp)
    (hwf : WF (startupCfg path am m roll) s) :
    (applyX (startupCfg path am m roll) s op).2.tst =
      match op with
      | .op (.append _ _) => true | .appendFail _ _ _ => true | .op .restart => false | .op (.tick _) => s.tst := by
  cases op with
  | appendFail r n f => exact (startup_appendFail path am m roll s r n (faultFn f) hwf).1
  | op o =>
    have := startup_applyOp_tst path am m roll s o hwf
    cases o <;> simpa [applyX] using this

theorem WF_finalX (cfg : Cfg Bool) (ops : List XOp) (s : St Bool) (hwf : WF cfg s) : WF cfg (finalX cfg s ops) := by
  induction ops generalizing s with
  | nil => exact hwf
  | cons op ops ih => exact ih _ (WF_applyX cfg s op hwf)

theorem startup_tst_finalX (path : Path) (am : Bool) (m : Nat) (roll : RollFn) (ops : List XOp) (s : St Bool)
    (hwf : WF (startupCfg path am m roll) s) (b : Bool) (hb : s.tst = !b) :
    (finalX (startupCfg path am m roll) s ops).tst =
      !(ops.foldl (fun b op => match op with
        | .op (.append _ _) => false | .appendFail _ _ _ => false | .op .restart => true | .op (.tick _) => b) b) := by
  induction ops generalizing s b with
  | nil => simpa [finalX] using hb
  | cons op ops ih =>
    have hwf' := WF_applyX (startupCfg path am m roll) s op hwf
    have htst := startup_applyX_tst path am m roll s op hwf
    simp only [finalX, List.foldl_cons]
    apply ih _ hwf'
    rw [htst]
    cases op with
    | appendFail r n f => simp
    | op o => cases o <;> simp [hb]

/-- A rotation is requested only while handling the first record that ARRIVES after start-up: if
any operation following the history `ops` — an append, or an append whose encoder fails — invokes
the roller, then no record has arrived since the appender was built (`freshX ops`), whatever
happened to the encoders of the records in `ops`. -/
theorem C17_only_first (path : Path) (am : Bool) (m : Nat) (roll : RollFn) (d : Disk) (now : Nat) (ops : List XOp)
    (op : XOp) (out : Out) :
    let cfg := startupCfg path am m roll
    (applyX cfg (finalX cfg (init cfg d false now) ops) op).1 = some out → out.rolled.isSome → freshX ops = true := by
  intro cfg hout hroll
  have hwf0 := WF_init cfg d false now
  have hwf := WF_finalX cfg ops _ hwf0
  have ht0 : (init cfg d false now).tst = false := (getWriter_spec cfg _ (Or.inl rfl)).2.2.2.1
  have ht := startup_tst_finalX path am m roll ops _ hwf0 true (by simp [ht0])
  cases hf : freshX ops with
  | true => rfl
  | false =>
    have hst : (finalX cfg (init cfg d false now) ops).tst = true := by
      rw [ht]
      simp only [freshX] at hf
      simp [hf]
    exfalso
    cases op with
    | appendFail r n f =>
      have := (startup_appendFail path am m roll _ r n (faultFn f) hwf).2.1 hst
      simp only [applyX] at hout
      rw [← Option.some.inj hout, this] at hroll
      simp at hroll
    | op o =>
      cases o with
      | append r f =>
        have := (startup_append path am m roll _ r (faultFn f) hwf).2.1 hst
        simp only [applyX, applyOp] at hout
        rw [← Option.some.inj hout, this] at hroll
        simp at hroll
      | restart => simp [applyX, applyOp] at hout
      | tick dt => simp [applyX, applyOp] at hout

/-- The first record to arrive rolls iff the log file that exists at that moment has at least
`min_size` bytes — also when its encoder then fails: the decision is taken before the record is
encoded. (At the first arrival of a new appender the file is what open left: the pre-existing
content in append mode, nothing in truncate mode.) -/
theorem C17_iff_big_enough (path : Path) (am : Bool) (m : Nat) (roll : RollFn) (d : Disk) (now : Nat)
    (op : XOp) (harr : arrival op = true) :
    let cfg := startupCfg path am m roll
    ∃ out, (applyX cfg (init cfg d false now) op).1 = some out ∧
      (out.rolled.isSome ↔ (if am then fileOf cfg d else []).length ≥ m) := by
  intro cfg
  have hwf := WF_init cfg d false now
  have ht0 : (init cfg d false now).tst = false := (getWriter_spec cfg _ (Or.inl rfl)).2.2.2.1
  have ho : Opened cfg (init cfg d false now) (if am then fileOf cfg d else []) := by
    have h := (getWriter_spec cfg { disk := d, writer := none, tst := cfg.trig.reinit false now, now := now, opened := false } (Or.inl rfl)).1
    simpa [openView, init, build, cfg, startupCfg] using h
  have hov : openView cfg (init cfg d false now) = if am then fileOf cfg d else [] := by
    obtain ⟨w, hw, _, hg, _⟩ := ho
    simp [openView, hw, fileOf_of_get hg]
  cases op with
  | appendFail r n f =>
    have := (startup_appendFail path am m roll (init cfg d false now) r n (faultFn f) hwf).2.2 ht0
    rw [hov] at this
    exact ⟨_, rfl, this⟩
  | op o =>
    cases o with
    | append r f =>
      have := (startup_append path am m roll (init cfg d false now) r (faultFn f) hwf).2.2 ht0
      rw [hov] at this
      exact ⟨_, rfl, this⟩
    | restart => simp [arrival] at harr
    | tick dt => simp [arrival] at harr

/-- … and the same for the first arrival after any history that ends in a fresh appender -/
theorem C17_iff_big_enough_failing_encoder (path : Path) (am : Bool) (m : Nat) (roll : RollFn) (s : St Bool)
    (r : Rec) (n : Nat) (fault : Nat → Bool) (hwf : WF (startupCfg path am m roll) s) (hfresh : s.tst = false) :
    ((appendFail (startupCfg path am m roll) s r n fault).1.rolled.isSome ↔
      (openView (startupCfg path am m roll) s).length ≥ m) :=
  (startup_appendFail path am m roll s r n fault hwf).2.2 hfresh

def isRollX : Option Out × St Bool → Bool := fun e => isRoll e.1

def xIsRestart : XOp → Bool
  | .op .restart => true
  | _ => false

def restartsX (ops : List XOp) : Nat := (ops.filter xIsRestart).length

/-- at most one rotation request per appender built, over histories with failing encoders -/
theorem C17_at_most_one_roll_failing_encoders (path : Path) (am : Bool) (m : Nat) (roll : RollFn) (ops : List XOp)
    (s : St Bool) (hwf : WF (startupCfg path am m roll) s) :
    ((traceX (startupCfg path am m roll) s ops).filter isRollX).length ≤ (if s.tst then 0 else 1) + restartsX ops := by
  induction ops generalizing s with
  | nil => simp [traceX]
  | cons op ops ih =>
    have hwf' := WF_applyX (startupCfg path am m roll) s op hwf
    have ih' := ih _ hwf'
    have htst := startup_applyX_tst path am m roll s op hwf
    simp only [traceX, List.filter_cons]
    -- the roller is not invoked when the `Once` has run; a restart re-arms it
    have hnone : s.tst = true → isRollX (applyX (startupCfg path am m roll) s op) = false := by
      intro hst
      cases op with
      | appendFail r n f =>
        simp [isRollX, isRoll, applyX, (startup_appendFail path am m roll s r n (faultFn f) hwf).2.1 hst]
      | op o =>
        cases o with
        | append r f => simp [isRollX, isRoll, applyX, applyOp, (startup_append path am m roll s r (faultFn f) hwf).2.1 hst]
        | restart => rfl
        | tick dt => rfl
    cases op with
    | appendFail r n f =>
      have hres : restartsX (XOp.appendFail r n f :: ops) = restartsX ops := by simp [restartsX, xIsRestart]
      rw [hres]
      simp [htst] at ih'
      cases hst : s.tst with
      | true => simp only [hnone hst]; simp only [Bool.false_eq_true, if_false, if_true]; omega
      | false => simp only [Bool.false_eq_true, if_false]; split <;> first | (simp only [List.length_cons]; omega) | omega
    | op o =>
      cases o with
      | append r f =>
        have hres : restartsX (XOp.op (.append r f) :: ops) = restartsX ops := by simp [restartsX, xIsRestart]
        rw [hres]
        simp [htst] at ih'
        cases hst : s.tst with
        | true => simp only [hnone hst]; simp only [Bool.false_eq_true, if_false, if_true]; omega
        | false => simp only [Bool.false_eq_true, if_false]; split <;> first | (simp only [List.length_cons]; omega) | omega
      | restart =>
        have hres : restartsX (XOp.op .restart :: ops) = restartsX ops + 1 := by
          simp [restartsX, xIsRestart, List.filter_cons]
        have : isRollX (applyX (startupCfg path am m roll) s (.op .restart)) = false := rfl
        rw [hres, this]
        simp only [htst] at ih'
        simp only [Bool.false_eq_true, if_false] at ih' ⊢
        split <;> omega
      | tick dt =>
        have hres : restartsX (XOp.op (.tick dt) :: ops) = restartsX ops := by simp [restartsX, xIsRestart]
        have : isRollX (applyX (startupCfg path am m roll) s (.op (.tick dt))) = false := rfl
        rw [hres, this]
        simp only [htst] at ih'
        simpa using ih'

/-! ### non-vacuity (tests on samples) -/

/-- min_size 3, a 3-byte file, the FIRST record's encoder fails: the rotation is requested by that
record all the same (the policy runs before the encoder), the second record does not roll -/
example :
    let cfg := startupCfg ['a'] true 3 (fun p f d => deleteRoll p f d)
    let s0 := init cfg (Disk.empty.set ['a'] [1, 2, 3]) false 0
    let a1 := appendFail cfg s0 [[9]] 0 (fun _ => false)
    a1.1.res = .errEncode ∧ a1.1.rolled = some true ∧ (append cfg a1.2 [[8]] (fun _ => false)).1.rolled = none := by
  decide +kernel


private def demoPath : Path := ['a']

/-- min_size 3, a 3-byte file: the first record rolls, the second does not -/
example :
    let cfg := startupCfg demoPath true 3 (fun p f d => deleteRoll p f d)
    let s0 := init cfg (Disk.empty.set demoPath [1, 2, 3]) false 0
    let a1 := append cfg s0 [[9]] (fun _ => false)
    a1.1.rolled = some true ∧ a1.2.disk.get? demoPath = some [9] ∧
      (append cfg a1.2 [[8]] (fun _ => false)).1.rolled = none := by
  decide +kernel

/-- min_size = u64::MAX (and 2^63): a 3-byte file is never big enough (the model compares natural
numbers; a signed subtraction in the code would roll here) -/
example :
    let s0 := fun m => init (startupCfg demoPath true m (fun p f d => deleteRoll p f d)) (Disk.empty.set demoPath [1, 2, 3]) false 0
    (append (startupCfg demoPath true 18446744073709551615 (fun p f d => deleteRoll p f d)) (s0 18446744073709551615) [[9]] (fun _ => false)).1.rolled = none ∧
    (append (startupCfg demoPath true 9223372036854775808 (fun p f d => deleteRoll p f d)) (s0 9223372036854775808) [[9]] (fun _ => false)).1.rolled = none := by
  decide +kernel

/-- min_size 3, a 2-byte file: no rotation, the record is appended -/
example :
    let cfg := startupCfg demoPath true 3 (fun p f d => deleteRoll p f d)
    let s0 := init cfg (Disk.empty.set demoPath [1, 2]) false 0
    (append cfg s0 [[9]] (fun _ => false)).1.rolled = none ∧
      (append cfg s0 [[9]] (fun _ => false)).2.disk.get? demoPath = some [1, 2, 9] := by
  decide +kernel

end Log4rs.Rolling
