import Log4rsModel.Rolling.Model
namespace Log4rs.Rolling

theorem C17_placeholder : True := trivial

end Log4rs.Rolling
