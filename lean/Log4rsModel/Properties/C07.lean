import Log4rsModel.Roller.Lemmas
import Log4rsModel.Roller.LemmasName
import Log4rsModel.Roller.LemmasBg
/-
C07 — Fixed-window roller keeps the newest `count` files at base..base+count-1.
Only property theorems and non-vacuity examples; helpers are in Roller/Lemmas*.lean.

The window theorems are about `rollU32`, the model of `FixedWindowRoller::roll` (after the fix
e76ee7b) with the `u32` arithmetic explicit and the log file present. `rollProc` (Name.lean) is the
roll as a process sees it: it adds the two behaviours that do not depend on the window — no file to
roll (`checksFileFirst`) and an error printed to an unwritable stdout (`printsOnError`) — and is
`rollU32` otherwise (`C07_rollProc_present`). The guard `r.base + r.count ≤ 2^32` says that the window's
last index is a `u32`; it includes the boundary `base + count = 2^32` (e.g. base 2^32-1, count 1).
Outside the guard the builder returns Err (`C07_unrepresentable_rejected`) and no roll happens.
`C07_overflow_panics_unfixed` documents the behaviour before the fix (defect F11).
Hypotheses on names: `NamesInj` (discharged by `C07_name_injective`), `FileApart`.
-/
namespace Log4rs.Roller
open Log4rs.Str

/-- Slot names are pairwise different: a pattern the builder accepts (`{}` occurs) maps different
indices to different names, provided the `$ENV{}` expansion does not identify two of them. -/
theorem C07_name_injective (expand : List Char → List Char) (p : List Char)
    (hp : hasHole p = true)
    (hexp : ∀ i j, expand (substIdx (decimal i) p) = expand (substIdx (decimal j) p) →
      substIdx (decimal i) p = substIdx (decimal j) p)
    (i j : Nat) (h : name expand p i = name expand p j) : i = j :=
  substIdx_decimal_inj p hp i j (hexp i j h)

/-- … in particular without any `$ENV{}` reference (identity expansion) and for every injective
expansion -/
theorem C07_name_injective_of_injective (expand : List Char → List Char)
    (hinj : ∀ a b, expand a = expand b → a = b) (p : List Char) (hp : hasHole p = true) :
    NamesInj (mkRoller expand id p 0 0) :=
  fun i j h => C07_name_injective expand p hp (fun _ _ e => hinj _ _ e) i j h

/-- Frame: every path that is neither the rolled file nor `name i` for `i ∈ [b, b+c)` is left
untouched — for every fault oracle (successful roll or not), with no hypothesis on the names. -/
theorem C07_frame (r : RollerCfg) (file : Path) (fault : Nat → Bool) (d : Disk) (q : Path)
    (hg : r.base + r.count ≤ U32_MOD) (h1 : q ≠ file)
    (h2 : ∀ i, r.base ≤ i → i < r.base + r.count → q ≠ r.nameOf i) :
    (rollU32 r file fault d).2.get? q = d.get? q := by
  rw [rollU32_disk _ _ _ _ hg]
  exact fixedWindowRoll_frame r file fault d q h1 h2

/-- Arbitrary initial window (gaps, pre-existing archives): the roll succeeds, slot `b` holds the
rolled content (compressed if the pattern asks for it), the file is gone, and every archive has
moved up by exactly one slot: slot `b+j` (`1 ≤ j < c`) holds what slot `b+j-1` held; if that was
empty, slot `b+j` is empty too — except the last slot of the window, which then keeps its old
(still older) content. So relative age order is preserved, at most the archive in the last slot is
dropped, and indices outside `[b, b+c)` are not touched. -/
theorem C07_rotate_general (r : RollerCfg) (file : Path) (d : Disk) (x : Bytes)
    (hg : r.base + r.count ≤ U32_MOD) (hc : r.count ≠ 0)
    (hinj : NamesInj r) (hfa : FileApart r file) (hx : d.get? file = some x) :
    ∃ d', rollU32 r file (fun _ => false) d = (.ok d', d') ∧
      slot r d' r.base = some (r.enc x) ∧
      d'.get? file = none ∧
      (∀ j, 1 ≤ j → j < r.count → slot r d' (r.base + j) =
        match slot r d (r.base + j - 1) with
        | some y => some y
        | none => if j = r.count - 1 then slot r d (r.base + j) else none) ∧
      (∀ i, i < r.base ∨ r.base + r.count ≤ i → slot r d' i = slot r d i) :=
  rollU32_general r file d x hg hc hinj hfa hx

/-- Dense window (`k ≤ c` archives at `b … b+k-1`, nothing above inside the window): after the
roll slot `b` holds the rolled content, slot `b+j+1` holds what slot `b+j` held (for `j+1 < c`),
so nothing else is in the window, and the rolled file is gone. -/
theorem C07_rotate_dense (r : RollerCfg) (file : Path) (d : Disk) (x : Bytes) (k : Nat)
    (hg : r.base + r.count ≤ U32_MOD) (hc : r.count ≠ 0)
    (hinj : NamesInj r) (hfa : FileApart r file) (hx : d.get? file = some x)
    (_hk : k ≤ r.count)
    (hdense : ∀ j, j < k → (slot r d (r.base + j)).isSome)
    (hempty : ∀ j, k ≤ j → j < r.count → slot r d (r.base + j) = none) :
    ∃ d', rollU32 r file (fun _ => false) d = (.ok d', d') ∧
      slot r d' r.base = some (r.enc x) ∧
      (∀ j, j + 1 < r.count → slot r d' (r.base + j + 1) = slot r d (r.base + j)) ∧
      d'.get? file = none := by
  obtain ⟨d', h0, h1, h2, h3, _⟩ := C07_rotate_general r file d x hg hc hinj hfa hx
  refine ⟨d', h0, h1, fun j hj => ?_, h2⟩
  have := h3 (j + 1) (by omega) hj
  rw [show r.base + (j + 1) = r.base + j + 1 from by omega, Nat.add_sub_cancel] at this
  rw [this]
  cases hs : slot r d (r.base + j) with
  | some y => rfl
  | none =>
    by_cases hj' : j + 1 = r.count - 1
    · simp only [hj', if_true]
      by_cases hkj : k ≤ j + 1
      · exact hempty (j + 1) hkj hj
      · have : j < k := by omega
        have := hdense j this
        simp [hs] at this
    · simp [hj']

/-- One roll on a window described as a list (newest first). -/
theorem C07_roll_window (r : RollerCfg) (file : Path) (d : Disk) (x : Bytes) (ws : List Bytes)
    (hg : r.base + r.count ≤ U32_MOD) (hc : r.count ≠ 0)
    (hinj : NamesInj r) (hfa : FileApart r file) (hw : WindowIs r d ws) :
    WindowIs r (rollU32 r file (fun _ => false) (d.set file x)).2 ((r.enc x :: ws).take r.count) ∧
      (rollU32 r file (fun _ => false) (d.set file x)).2.get? file = none :=
  rollU32_window r file d x ws hg hc hinj hfa hw

/-- The statement's main clause, for all bases, counts and numbers of rolls: starting from a
window that holds `ws` (for the empty window `ws = []`), after rolling `x₁ … xₙ` the window holds
the rolled contents newest first followed by the old ones, cut at `count`:
slot `b+j` = `x_{n-j}` for `j < min n c`, and from an empty window nothing else. -/
theorem C07_n_rolls_window (r : RollerCfg) (file : Path)
    (hg : r.base + r.count ≤ U32_MOD) (hc : r.count ≠ 0)
    (hinj : NamesInj r) (hfa : FileApart r file) (xs : List Bytes) :
    ∀ (d : Disk) (ws : List Bytes), WindowIs r d ws →
      WindowIs r (rollMany r file xs d) (((xs.reverse.map r.enc) ++ ws).take r.count) := by
  induction xs with
  | nil =>
    intro d ws hw j hj
    simp only [rollMany, List.reverse_nil, List.map_nil, List.nil_append, List.getElem?_take, hj, if_true]
    exact hw j hj
  | cons x xs ih =>
    intro d ws hw
    have h1 := (C07_roll_window r file d x ws hg hc hinj hfa hw).1
    have := ih _ _ h1
    rw [take_append_take] at this
    simpa [rollMany, List.reverse_cons, List.map_append] using this

/-- index form: from an empty window, after rolling `x₁ … xₙ`, slot `b+j` holds `x_{n-j}`
(`xs.reverse[j]`) for `j < min n c` and is empty for the other `j < c`; the rolled file is gone -/
theorem C07_n_rolls (r : RollerCfg) (file : Path) (d : Disk) (xs : List Bytes)
    (hg : r.base + r.count ≤ U32_MOD) (hc : r.count ≠ 0)
    (hinj : NamesInj r) (hfa : FileApart r file)
    (hempty : ∀ j, j < r.count → slot r d (r.base + j) = none) :
    ∀ j, j < r.count → slot r (rollMany r file xs d) (r.base + j) = (xs.reverse[j]?).map r.enc := by
  intro j hj
  have hw : WindowIs r d [] := fun j hj => by simpa using hempty j hj
  have := C07_n_rolls_window r file hg hc hinj hfa xs d [] hw j hj
  rw [this, List.append_nil, List.getElem?_take, if_pos hj, List.getElem?_map]

/-- successive rolls never touch a path outside the window names and the log path -/
theorem C07_n_rolls_frame (r : RollerCfg) (file : Path) (xs : List Bytes)
    (hg : r.base + r.count ≤ U32_MOD) (q : Path) (h1 : q ≠ file)
    (h2 : ∀ i, r.base ≤ i → i < r.base + r.count → q ≠ r.nameOf i) :
    ∀ d, (rollMany r file xs d).get? q = d.get? q := by
  induction xs with
  | nil => intro d; rfl
  | cons x xs ih =>
    intro d
    simp only [rollMany]
    rw [ih, C07_frame r file _ _ q hg h1 h2, Disk.get?_set_ne _ _ h1]

/-- after at least one roll the log file is gone from its path -/
theorem C07_n_rolls_file_gone (r : RollerCfg) (file : Path) (xs : List Bytes) (x : Bytes)
    (hg : r.base + r.count ≤ U32_MOD) (hc : r.count ≠ 0)
    (hinj : NamesInj r) (hfa : FileApart r file) (d : Disk) (ws : List Bytes)
    (hw : WindowIs r d ws) :
    (rollMany r file (xs ++ [x]) d).get? file = none := by
  induction xs generalizing d ws with
  | nil => exact (C07_roll_window r file d x ws hg hc hinj hfa hw).2
  | cons y ys ih =>
    simp only [List.cons_append, rollMany]
    exact ih _ _ (C07_roll_window r file d y ws hg hc hinj hfa hw).1

/-- A count of zero simply removes the rolled file: nothing else changes. -/
theorem C07_count_zero (r : RollerCfg) (file : Path) (d : Disk) (x : Bytes)
    (hc : r.count = 0) (hx : d.get? file = some x) :
    rollU32 r file (fun _ => false) d = (.ok (d.erase file), d.erase file) ∧
      (d.erase file).get? file = none ∧ ∀ q, q ≠ file → (d.erase file).get? q = d.get? q := by
  refine ⟨?_, Disk.get?_erase_same _ _, fun q hq => Disk.get?_erase_ne _ hq⟩
  rw [rollU32_count_zero _ _ _ _ hc]
  simp [fixedWindowRoll, hc, hx, liftRoll]

/-- The delete roller simply removes the rolled file: nothing else changes. -/
theorem C07_delete_roller (file : Path) (d : Disk) (x : Bytes) (hx : d.get? file = some x) :
    deleteRoll file (fun _ => false) d = (.ok (d.erase file), d.erase file) ∧
      (d.erase file).get? file = none ∧ ∀ q, q ≠ file → (d.erase file).get? q = d.get? q := by
  refine ⟨?_, Disk.get?_erase_same _ _, fun q hq => Disk.get?_erase_ne _ hq⟩
  simp [deleteRoll, hx]

/-- Inside the guard — including the boundary `base + count = 2^32` — the roll never panics,
whatever fails. -/
theorem C07_no_panic (r : RollerCfg) (file : Path) (fault : Nat → Bool) (d : Disk)
    (hg : r.base + r.count ≤ U32_MOD) : (rollU32 r file fault d).1.isPanic = false := by
  rw [rollU32_guarded _ _ _ _ hg]
  rcases fixedWindowRoll r file fault d with ⟨res, d''⟩
  cases res <;> rfl

/-- The builder accepts exactly the patterns with `{}` whose window is representable; an
unrepresentable window (count ≠ 0, base + count > 2^32) is rejected with an error, so no roller
exists outside the guard of the theorems above. -/
theorem C07_unrepresentable_rejected (p : List Char) (base count : Nat) :
    buildOk p base count = true ↔ hasHole p = true ∧ (count = 0 ∨ base + count ≤ U32_MOD) := by
  simp [buildOk, representable]

/-- F11, historical: before the fix the roll panicked (overflow checks on) as soon as
`base + count ≥ 2^32`, for every non-zero count — including `base = 2^32-1, count = 1`, whose
window is representable — before touching the disk. -/
theorem C07_overflow_panics_unfixed (r : RollerCfg) (file : Path) (fault : Nat → Bool) (d : Disk)
    (hc : r.count ≠ 0) (ho : U32_MOD ≤ r.base + r.count) :
    (rollU32_unfixed r file fault d).1.isPanic = true ∧ (rollU32_unfixed r file fault d).2 = d := by
  unfold rollU32_unfixed
  rw [if_pos ⟨hc, ho⟩]
  exact ⟨rfl, rfl⟩

/-! ### the roll as a process sees it (`rollProc`): a missing file, an unwritable stdout -/

/-- With the log file present and the roller as it is now (nothing printed on an error), the roll a
process sees is `rollU32`, whatever the state of its stdout: every theorem above is a theorem about
`rollProc`. -/
theorem C07_rollProc_present (w : Bool) (r : RollerCfg) (file : Path) (fault : Nat → Bool) (d : Disk)
    (x : Bytes) (hp : r.printsOnError = false) (hx : d.get? file = some x) :
    rollProc w r file fault d = rollU32 r file fault d := by
  have hh : d.has file = true := by simp [Disk.has, hx]
  unfold rollProc
  simp only [hh, hp, Bool.not_true, Bool.and_false, Bool.false_and]
  rcases rollU32 r file fault d with ⟨res, d'⟩
  cases res <;> simp

/-- A failing roll reports an error and never panics, whatever fails and whether or not stdout can
be written — for the roller as it is now (`printsOnError = false`), inside the guard. -/
theorem C07_failed_roll_is_error (w : Bool) (r : RollerCfg) (file : Path) (fault : Nat → Bool) (d : Disk)
    (hg : r.base + r.count ≤ U32_MOD) (hp : r.printsOnError = false) :
    (rollProc w r file fault d).1.isPanic = false := by
  unfold rollProc
  split
  · unfold RollerCfg.missingResult; split <;> rfl
  · have h := C07_no_panic r file fault d hg
    rcases hr : rollU32 r file fault d with ⟨res, d'⟩
    rw [hr] at h
    cases res with
    | ok a => rfl
    | err e => simp [hp, Outcome.isPanic]
    | panic why => simp [Outcome.isPanic] at h

/-- Rolling a file that does not exist leaves the whole disk — in particular every slot of the
window — exactly as it was and does not panic: for every base and count (zero included), every
compression, every fault oracle and either state of stdout. The newest `count` rolled files stay
where they are ("index b+j holds the (j+1)-th most recently rolled file" is preserved), and a
history may go on. For the REPAIRED roller (`checksFileFirst = true`); the code as it is has `false`
(next theorem), because the crate's own test `rotation_no_trivial_base` pins the shift: known finding
`C07/missing-file-shifts-window`. -/
theorem C07_missing_file_window_unchanged (w : Bool) (r : RollerCfg) (file : Path) (fault : Nat → Bool)
    (d : Disk) (hcf : r.checksFileFirst = true) (hx : d.get? file = none) :
    (rollProc w r file fault d).2 = d ∧ (rollProc w r file fault d).1.isPanic = false ∧
      ∀ i, slot r (rollProc w r file fault d).2 i = slot r d i := by
  have hh : d.has file = false := by simp [Disk.has, hx]
  have key : (rollProc w r file fault d).2 = d ∧ (rollProc w r file fault d).1.isPanic = false := by
    unfold rollProc
    by_cases hc : r.count = 0
    · have h0 : (r.count != 0) = false := by simp [hc]
      simp only [h0, Bool.and_false, Bool.false_and, Bool.false_eq_true, if_false]
      unfold rollU32
      rw [if_neg (by simp [hc])]
      unfold fixedWindowRoll
      simp only [hc, if_true, hx]
      by_cases hf : fault 0 <;> simp [hf, liftRoll, RollerCfg.finalStepErr, hc, Outcome.isPanic]
    · have h0 : (r.count != 0) = true := by simp [hc]
      simp only [hcf, h0, hh, Bool.not_false, Bool.and_self, if_true]
      unfold RollerCfg.missingResult
      split <;> exact ⟨rfl, rfl⟩
  exact ⟨key.1, key.2, fun i => by rw [key.1]⟩

/-- The full statement fails for the code as it is (`checksFileFirst = false`, the default): with
nothing to roll the shift loop runs all the same. Window `[B, A]` (count 2) becomes `[-, B]`: the
oldest archive is destroyed and slot `base` is empty, while the roll reports Ok. -/
theorem C07_missing_file_shifts_unfixed :
    ¬ (∀ (r : RollerCfg) (file : Path) (d : Disk), d.get? file = none →
        (rollProc true { r with checksFileFirst := false } file (fun _ => false) d).2 = d) := by
  intro h
  have := h (mkRoller id id ['a', '.', '{', '}'] 0 2) ['a']
    ⟨[(['a', '.', '0'], [66]), (['a', '.', '1'], [65])]⟩ (by decide)
  revert this
  decide

/-- The full statement `C07_failed_roll_is_error` fails for the code before the fix
(`printsOnError = true`) when stdout cannot be written: (i) as the code was — a compressing roller
that finds no file to roll fails in its final step, prints, and panics; (ii) independently of the
other repair, a final step that fails for any reason (fault oracle on step `count - 1`) with the
file present. With a writable stdout the same rolls return the error. -/
theorem C07_print_panics_unfixed :
    let gz : List Char := ['a', '.', '{', '}', '.', 'g', 'z']
    let r1 : RollerCfg := { mkRoller id id gz 0 2 with printsOnError := true, checksFileFirst := false }
    let r2 : RollerCfg := { mkRoller id id ['a', '.', '{', '}'] 0 1 with printsOnError := true }
    let d2 : Disk := ⟨[(['a'], [1])]⟩
    (rollProc false r1 ['a'] (fun _ => false) Disk.empty).1.isPanic = true ∧
    (rollProc true r1 ['a'] (fun _ => false) Disk.empty).1 = .err .notFound ∧
    (rollProc false r2 ['a'] (fun k => k == 0) d2).1.isPanic = true ∧
    (rollProc true r2 ['a'] (fun k => k == 0) d2).1 = .err (.injected 0) := by
  decide

/-! ### the `background_rotation` feature (Roller/Background.lean) -/

/-- With background rotation: take any schedule the code admits — `roll` calls (phase 1: the file
is renamed to a fresh temp name), spawns of the rotation thread once `ready` is seen, completions
of rotation threads — with fault-free rotation threads, started from a quiescent roller. Whenever
the roller is quiescent again (no thread, no waiting call), the disk is path by path the disk the
foreground roller produces from the same contents: every C07 theorem above then applies to it. -/
theorem C07_background_quiescent_eq_foreground (r : RollerCfg) (file : Path) (d0 : Disk)
    (evs : List BgEv) (s' : BgSt)
    (hg : r.base + r.count ≤ U32_MOD) (hc : r.count ≠ 0)
    (hinj : NamesInj r) (hfa : FileApart r file)
    (hrun : bgRun true r file evs (BgSt.init d0) = some s')
    (htemps : tempsApart r file evs) (hff : faultFree evs) (hq : s'.quiescent) :
    ∀ q, s'.disk.get? q = (rollMany r file (rolledContents evs) d0).get? q :=
  bg_quiescent_eq_foreground d0 hinj hg hc hfa evs s' hrun htemps hff hq

/-- At most one rotation thread is in flight, in every reachable state, and `ready` is true
exactly when there is none (the condvar protocol of `roll`). -/
theorem C07_background_one_in_flight (r : RollerCfg) (file : Path) (d0 : Disk) (evs : List BgEv)
    (s' : BgSt) (hrun : bgRun true r file evs (BgSt.init d0) = some s') :
    s'.threads.length ≤ 1 ∧ (s'.ready = true ↔ s'.threads = []) :=
  bgInv_run r file evs _ s' (bgInv_init d0) hrun

/-! ### non-vacuity (tests on samples, not proofs of the property) -/

section Examples
def exPat : List Char := ['a', '.', '{', '}']
def exRoller : RollerCfg := mkRoller id id exPat 1 3
def exFile : Path := ['a']

/-- the hypotheses of the theorems are satisfiable: the concrete naming is injective, the file is
apart, the guard holds -/
example : NamesInj exRoller := fun i j h =>
  C07_name_injective id exPat (by decide) (fun _ _ e => e) i j h

/-- a rotation that evicts (4 rolls into a window of 3) and leaves a bystander (index 4) alone -/
example :
    let d0 : Disk := ⟨[(name id exPat 4, [9])]⟩
    let d := rollMany exRoller exFile [[1], [2], [3], [4]] d0
    (slot exRoller d 1, slot exRoller d 2, slot exRoller d 3, slot exRoller d 4, d.get? exFile) =
      (some [4], some [3], some [2], some [9], none) := by decide

/-- a gap directly below the last slot: the last slot keeps its (older) content,
[A, -, C] becomes [x, A, C] — "missing intermediate archives are tolerated" -/
example :
    let d0 : Disk := ⟨[(name id exPat 1, [65]), (name id exPat 3, [67]), (exFile, [120])]⟩
    let d := (rollU32 exRoller exFile (fun _ => false) d0).2
    (slot exRoller d 1, slot exRoller d 2, slot exRoller d 3) = (some [120], some [65], some [67]) := by
  decide

/-- a gap lower down moves up with the shift and the last slot is overwritten:
[A, -, C, D] (count 4) becomes [x, A, -, C] -/
example :
    let r4 : RollerCfg := mkRoller id id exPat 0 4
    let d0 : Disk := ⟨[(name id exPat 0, [65]), (name id exPat 2, [67]), (name id exPat 3, [68]), (exFile, [120])]⟩
    let d := (rollU32 r4 exFile (fun _ => false) d0).2
    (slot r4 d 0, slot r4 d 1, slot r4 d 2, slot r4 d 3) = (some [120], some [65], none, some [67]) := by
  decide

/-- why the wait matters (test on a sample): the mutant that spawns without looking at `ready` can
have two rotation threads, and if the younger one runs first the archives end up in the wrong
order (slot 0 holds the older content) -/
example :
    let r := mkRoller id id exPat 0 2
    let t1 : Path := ['t', '1']
    let t2 : Path := ['t', '2']
    let evs := [BgEv.phase1 [1] t1, .spawn, .phase1 [2] t2, .spawn, .finish 1 (fun _ => false), .finish 0 (fun _ => false)]
    ((bgRun false r exFile evs (BgSt.init Disk.empty)).map (fun s => (slot r s.disk 0, slot r s.disk 1)),
     (bgRun true r exFile evs (BgSt.init Disk.empty)).isSome) = (some (some [1], some [2]), false) := by
  decide

/-- the boundary window base = 2^32 - 1, count = 1 works now: the file lands in slot 2^32 - 1 -/
example :
    let r := mkRoller id id exPat 4294967295 1
    let d := (rollU32 r exFile (fun _ => false) ⟨[(exFile, [1])]⟩)
    (d.1.isOk, slot r d.2 4294967295, d.2.get? exFile) = (true, some [1], none) := by decide

/-- F11 witness (before the fix): the same window panicked; base = 2^32 - 1, count = 2 is rejected
by the builder now -/
example : (rollU32_unfixed (mkRoller id id exPat 4294967295 1) exFile (fun _ => false) ⟨[(exFile, [1])]⟩).1.isPanic = true
    ∧ buildOk exPat 4294967295 2 = false := by decide
end Examples

end Log4rs.Roller
