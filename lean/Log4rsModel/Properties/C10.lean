import Log4rsModel.Pattern.WritersLemmas3
import Log4rsModel.Pattern.WritersErrLemmas
import Log4rsModel.Pattern.WidthSpecLemmas
/-
C10 — Width/fill/alignment count characters, truncate then pad, never split UTF-8.

Only the property theorems and non-vacuity examples live here (the bridge to the C09/C11 chunk
table is `Properties/C10Bridge.lean`). Definitions:
* `Base/Bytes.lean` — UTF-8 (`utf8Char` = Lean core's encoder, `C10_utf8_is_core`), lead bytes;
* `Pattern/Format.lean` — `specFmt` = the statement's law, `codeFmtOps` = what the writer stack does
  to an operation stream;
* `Pattern/Writers.lean` — error-free byte-level model of `MaxWidthWriter`, `LeftAlignWriter`,
  `RightAlignWriter`, `write_all`, `Chunk::encode`; pattern trees `Node` (incl. `{D(..)}`/`{R(..)}`);
* `Pattern/WritersErr.lean` — the same code with every failure path (sink `Err` / `Interrupted`,
  failing `set_style`, `?` skipping `finish`, std's panic on a failing `Display`);
* `Pattern/WidthSpec.lean` — `specOrCode` (hypothesis-free tree law) and `matchNodes` (the driver's
  executable Spec: what the statement alone allows).
Helper lemmas: `Pattern/WritersLemmas{,2,3}.lean`, `WritersErrLemmas.lean`, `WidthSpecLemmas.lean`.

Hypotheses that are ASSUMED, not discharged (also listed in props.d/C10.json):
* what a formatter hands to a writer is a sequence of whole `str`s (`Piece.data (cs : List Char)`,
  written as `utf8 cs`) — Rust's `fmt::Write::write_str` / `write_all(s.as_bytes())` cannot split
  inside a character; by code reading of every `FormattedChunk` variant. `C10_split_inside_char_leaks`
  shows the hypothesis is needed. Short writes of the DOWNSTREAM are arbitrary (every theorem
  quantifies over the sink's acceptance oracle, and `C10_maxW_write_all` over arbitrary buffers).
* the error-free theorems (`orc : List Nat`) range over sinks that never fail — by construction of
  `accept`; failing sinks are the `C10_err_*` theorems (`orc : List Acc`, any schedule).
-/
namespace Log4rs.Pattern
open Log4rs

/-- The `for` loop of `MaxWidthWriter::write` on whole characters with budget `r` stops exactly
after the first `r` characters and leaves `r ∸ |cs|`. -/
theorem C10_scan_utf8 (r : Nat) (cs : List Char) :
    (utf8 cs).take (scanEnd r (utf8 cs)).1 = utf8 (cs.take r) ∧
    (scanEnd r (utf8 cs)).2 = r - cs.length := by
  rw [scanEnd_eq]
  refine ⟨?_, ?_⟩
  · rw [cut_prefix, cut_utf8]
  · simp only [cut_utf8, leads_utf8, List.length_take]; omega

/-- `self.remaining -= char_starts(&buf[..len])` never underflows (the other two subtractions are
guarded / saturating), so the truncated subtraction of the model is the code's subtraction. -/
theorem C10_no_underflow (r : Nat) (b : Bytes) (n : Nat) :
    leads ((b.take (scanEnd r b).1).take n) ≤ r := by
  rw [scanEnd_eq]; simp only [cut_prefix]; exact maxW_no_underflow r b n

/-- every layer reports progress on a non-empty buffer, so std's `write_all` never sees `Ok(0)`.
For the bottom writer this holds BY CONSTRUCTION of the error-free sink (`accept` answers 1..len);
it is the layers above it the theorem is about. Failing answers are the subject of the
`C10_err_*` theorems (model `WritersErr.lean`). -/
theorem C10_write_progress (w : W) (b : Bytes) (hb : b ≠ []) :
    1 ≤ (w.write b).2 ∧ (w.write b).2 ≤ b.length := write_progress w b hb

/-- One `write_all` through a `MaxWidthWriter` over ANY writer below (any stack, any short
writes), for ANY byte buffer: exactly the cut goes down, as one `write_all`. -/
theorem C10_maxW_write_all (b : Bytes) (r : Nat) (w : W) :
    (W.maxW r w).writeAll b = W.maxW (r - leads b) (w.writeAll (b.take (scanEnd r b).1)) := by
  rw [scanEnd_eq]; simp only [cut_prefix]; exact writeAll_maxW' b r w

/-- For every split of a text into whole-`str` pieces and every acceptance oracle, the bytes a
`MaxWidthWriter` lets through are the encoding of the first `M` characters of the whole text. -/
theorem C10_maxW_stream (M : Nat) (pieces : List (List Char)) (orc : List Nat) :
    ((W.maxW M (W.sink orc [])).feed (pieces.map Piece.data)).emitted =
      (utf8 (pieces.flatten.take M)).map BEv.byte := by
  have hops : opsOf (pieces.map Piece.data) = ofText pieces.flatten := by
    induction pieces with
    | nil => rfl
    | cons x xs ih => rw [List.map_cons, opsOf_cons_data, ih, List.flatten_cons, ofText_append]
  have htr : truncOps M (ofText pieces.flatten) = ofText (pieces.flatten.take M) := by
    have := truncOps_ofText_append M pieces.flatten []
    simpa [truncOps] using this
  rw [feed_maxW]
  obtain ⟨orc', h⟩ := feed_sink (truncPieces M (pieces.map Piece.data)) orc []
  simp only [W.emitted]
  rw [h, opsOf_truncPieces, hops, htr, render_ofText]; rfl

/-- Without the whole-`str` hypothesis the writer does leak: with `M = 0`, the two bytes of `é`
handed over in two separate `write_all` calls put the lone continuation byte `0xA9` on the wire.
(Unreachable from Rust's `fmt::Write`; recorded so that the hypothesis is not mistaken for slack.) -/
theorem C10_split_inside_char_leaks :
    bytesOf (((W.maxW 0 (W.sink [] [])).writeAll [0xC3]).writeAll [0xA9]).emitted = [0xA9] := by
  decide

/-- The byte-level six-way composition over ANY writer `w` (so also inside other width specs),
fed the inner chunk's operations piecewise, hands `w` a sequence of whole-`str` pieces and style
calls whose operation stream is exactly `codeFmtOps p ops`. -/
theorem C10_writers_refine_any_writer (p : Params) (ps : List Piece) (w : W) :
    chunkEncode p (fun w' => w'.feed ps) w = w.feed (fmtPieces p ps) ∧
    opsOf (fmtPieces p ps) = codeFmtOps p (opsOf ps) :=
  ⟨chunkEncode_feed p ps _ (fun _ => rfl) w, opsOf_fmtPieces p ps⟩

/-- … and at the bottom: for all m, M, fill, alignment, piece splits and acceptance oracles the
sink receives exactly the rendering (UTF-8 of the characters, style calls in place) of
`codeFmtOps p ops`. -/
theorem C10_writers_refine_codeFmtOps (p : Params) (ps : List Piece) (orc : List Nat)
    (out : List BEv) :
    (chunkEncode p (fun w => w.feed ps) (W.sink orc out)).emitted =
      out ++ render (codeFmtOps p (opsOf ps)) := by
  rw [(C10_writers_refine_any_writer p ps _).1]
  obtain ⟨orc', h⟩ := feed_sink (fmtPieces p ps) orc out
  rw [h, opsOf_fmtPieces]; rfl

/-- The same through every nesting of width specs: a whole pattern forest, encoded by the
byte-level model into a sink with any oracle, emits the rendering of its `codeFmtOps` denotation. -/
theorem C10_writers_refine_tree (forest : List Node) (orc : List Nat) (out : List BEv) :
    (encodeNodes forest (W.sink orc out)).emitted = out ++ render (denotes forest) :=
  emitted_encodeNodes forest orc out

/-- The law of the statement: with `m ≤ M` (when both are given) the text of `codeFmtOps` is the
formatter's text cut to its first `M` characters and then padded to `m` on the chosen side. -/
theorem C10_code_eq_spec (p : Params) (o : Out)
    (h : ∀ m M, p.minW = some m → p.maxW = some M → m ≤ M) :
    (codeFmtOps p o).text = specFmt p o.text := by
  apply codeFmtOps_text_eq_spec
  unfold Params.ordered
  cases hm : p.minW <;> cases hM : p.maxW <;> simp
  exact h _ _ hm hM

/-- In every case — no hypothesis relating m and M — at most `M` characters are emitted. -/
theorem C10_at_most_M (p : Params) (o : Out) (M : Nat) (hM : p.maxW = some M) :
    (codeFmtOps p o).text.length ≤ M := codeFmtOps_text_length_le p o M hM

/-- Style calls are never dropped, duplicated or reordered by a width spec. -/
theorem C10_styles_preserved (p : Params) (o : Out) : (codeFmtOps p o).styles = o.styles := by
  have hs_app : ∀ a b : Out, Out.styles (a ++ b) = Out.styles a ++ Out.styles b := by
    intro a b; simp [Out.styles, List.filterMap_append]
  have hs_text : ∀ cs : List Char, Out.styles (ofText cs) = [] := by
    intro cs; induction cs with
    | nil => rfl
    | cons c cs ih => simp only [ofText, List.map_cons, Out.styles, List.filterMap_cons] at ih ⊢; exact ih
  have hs_trunc : ∀ (M : Nat) (o : Out), (truncOps M o).styles = o.styles := by
    intro M o
    induction o generalizing M with
    | nil => cases M <;> rfl
    | cons x xs ih =>
      cases x with
      | style s => cases M <;> simp [truncOps, Out.styles] <;> exact ih _
      | ch c => cases M <;> simp [truncOps, Out.styles] <;> exact ih _
  unfold codeFmtOps
  cases hm : p.minW <;> cases hM : p.maxW <;> cases hr : p.right <;>
    simp [hs_app, hs_text, hs_trunc]

/-- What the code does for ALL m, M (so also outside the statement, m > M): it pads the UNCUT text
to m and then keeps the first M characters. For left alignment that clamps the minimum width to
M; for right alignment the fill characters come first and push the text out of the window. -/
theorem C10_m_gt_M_behaviour (p : Params) (o : Out) (m M : Nat)
    (hm : p.minW = some m) (hM : p.maxW = some M) :
    (codeFmtOps p o).text = (specFmt { p with maxW := none } o.text).take M ∧
    (M < m → p.right = false → (codeFmtOps p o).text = specFmt { p with minW := some M } o.text) ∧
    (M < m → p.right = true →
      (codeFmtOps p o).text = (fills p.fill (m - o.text.length) ++ o.text).take M) := by
  have h1 := codeFmtOps_text p o
  rw [hM] at h1
  refine ⟨h1, ?_, ?_⟩
  · intro hlt hr
    rw [h1]
    simp only [specFmt, hm, hM, hr, Bool.false_eq_true, if_false]
    exact take_append_fills_left_gt _ _ _ _ hlt
  · intro _ hr
    rw [h1]
    simp only [specFmt, hm, hr, if_true]

/-- … and that is NOT the statement's law when m > M: `{m:>5.3}` on "ab" gives three blanks (the
text is gone), where cut-then-pad would give "   ab" (which has more than M characters — the two
halves of the statement cannot both hold there, hence its side condition). TEST on one witness. -/
theorem C10_m_gt_M_witness :
    let p : Params := { right := true, minW := some 5, maxW := some 3 }
    (codeFmtOps p (ofText ['a', 'b'])).text = [' ', ' ', ' '] ∧
    specFmt p ['a', 'b'] = [' ', ' ', ' ', 'a', 'b'] := by
  decide

/-- The emitted bytes are always the UTF-8 encoding of a character sequence — a multi-byte
character is never split — for every pattern forest (all nestings, all m, M, fills, alignments),
all pieces and all acceptance oracles. -/
theorem C10_valid_utf8 (forest : List Node) (orc : List Nat) :
    ∃ cs : List Char, bytesOf (encodeNodes forest (W.sink orc [])).emitted = utf8 cs := by
  refine ⟨(denotes forest).text, ?_⟩
  rw [C10_writers_refine_tree, List.nil_append, bytesOf_render]

/-- The law composes through nested groups: when every spec in the forest has `m ≤ M`, the text of
a group is `specFmt` of the concatenation of its children's formatted texts, at every depth. -/
theorem C10_nested (forest : List Node) (h : Node.orderedAll forest = true) :
    (denotes forest).text = specTexts forest := denotes_text_eq_spec forest h

/-- End to end: bytes on the wire = UTF-8 of the statement's law applied through the tree. -/
theorem C10_bytes_eq_spec (forest : List Node) (orc : List Nat)
    (h : Node.orderedAll forest = true) :
    bytesOf (encodeNodes forest (W.sink orc [])).emitted = utf8 (specTexts forest) := by
  rw [C10_writers_refine_tree, List.nil_append, bytesOf_render, C10_nested forest h]

/-- However the same operations are split into pieces and whatever the downstream accepts per
call, the bytes and style calls on the wire are the same. -/
theorem C10_split_and_oracle_independent (p : Params) (ps ps' : List Piece) (orc orc' : List Nat)
    (h : opsOf ps = opsOf ps') :
    (chunkEncode p (fun w => w.feed ps) (W.sink orc [])).emitted =
      (chunkEncode p (fun w => w.feed ps') (W.sink orc' [])).emitted := by
  rw [C10_writers_refine_codeFmtOps, C10_writers_refine_codeFmtOps, h]

/-- The decoder the driver uses for the `String::from_utf8` clause of the verdict accepts exactly
the encodings: `decodeUtf8 b = some cs ↔ b = utf8 cs`. -/
theorem C10_decoder_exact (b : Bytes) (cs : List Char) : decodeUtf8 b = some cs ↔ b = utf8 cs :=
  ⟨decodeUtf8_sound b cs, fun h => h ▸ decodeUtf8_complete cs⟩

/-- `utf8` is injective: the emitted bytes determine the emitted characters. -/
theorem C10_utf8_injective (a b : List Char) (h : utf8 a = utf8 b) : a = b := by
  have h1 := decodeUtf8_complete a
  rw [h, decodeUtf8_complete b] at h1
  exact (Option.some.inj h1).symm

/-- An ACTIVE profile-dependent group (`{D(..)}` with `cfg!(debug_assertions)`, `{R(..)}` without)
is the unnamed group: same bytes through any writer, same operation stream, same law. -/
theorem C10_active_group_eq_group (p : Params) (cs : List Node) (w : W) :
    encodeNode (.gated true p cs) w = encodeNode (.fmt p cs) w ∧
    denote (.gated true p cs) = denote (.fmt p cs) ∧
    specText (.gated true p cs) = specText (.fmt p cs) := by
  refine ⟨?_, ?_, ?_⟩
  · rw [encodeNode, encodeNode]
  · rw [denote, denote]
  · rw [specText, specText]

/-- An INACTIVE profile-dependent group runs none of its children, yet it is still a
`Chunk::Formatted`: at byte level, through ANY writer (so at every nesting position), it hands on
exactly the pieces of `codeFmtOps p []` — its width spec applied to the empty text. -/
theorem C10_inactive_group_refines (p : Params) (cs : List Node) (w : W) :
    encodeNode (.gated false p cs) w = w.feed (fmtPieces p []) ∧
    opsOf (fmtPieces p []) = codeFmtOps p [] ∧
    denote (.gated false p cs) = codeFmtOps p [] := by
  refine ⟨encodeNode_feed (.gated false p cs) w, opsOf_fmtPieces p [], ?_⟩
  rw [denote]

/-- … so the bytes of an inactive group are the statement's law on the empty text: with a minimum
width m (and no smaller maximum) exactly m fill characters, whatever the children are. -/
theorem C10_inactive_group_padded (p : Params) (cs : List Node) (orc : List Nat)
    (h : p.ordered = true) :
    bytesOf (encodeNodes [Node.gated false p cs] (W.sink orc [])).emitted = utf8 (specFmt p []) ∧
    (∀ m, p.minW = some m → specFmt p [] = fills p.fill m) := by
  refine ⟨?_, ?_⟩
  · have ho : Node.orderedAll [Node.gated false p cs] = true := by
      simp [Node.orderedAll, Node.ordered, h]
    rw [C10_bytes_eq_spec _ orc ho]
    simp [specTexts, specText]
  · intro m hm
    unfold specFmt
    cases hM : p.maxW <;> cases hr : p.right <;> simp [hm, fills]

/-! ### hypothesis-free tree law, per-node law, byte-level bound -/

/-- The law for ONE node, whatever its children are (their specs may be outside the statement):
if this node's own spec has m ≤ M, its text is `specFmt` of its children's text. -/
theorem C10_node_law (p : Params) (cs : List Node) (h : p.ordered = true) :
    (denote (.fmt p cs)).text = specFmt p (denotes cs).text := by
  rw [denote]; exact codeFmtOps_text_eq_spec p _ h

/-- Hypothesis-free: for EVERY forest (any mix of specs inside and outside the statement) and every
oracle the bytes are the UTF-8 of `specOrCodes forest` — at each node the statement's law when its
spec has m ≤ M, the code's documented pad-then-cut otherwise. One m > M node does not void the law
for its siblings or ancestors. -/
theorem C10_bytes_eq_specOrCode (forest : List Node) (orc : List Nat) :
    bytesOf (encodeNodes forest (W.sink orc [])).emitted = utf8 (specOrCodes forest) := by
  rw [C10_writers_refine_tree, List.nil_append, bytesOf_render, denotes_text_specOrCode]

/-- `specOrCode` is the statement's law wherever the statement applies. -/
theorem C10_specOrCode_eq_spec (forest : List Node) (h : Node.orderedAll forest = true) :
    specOrCodes forest = specTexts forest := by
  rw [← denotes_text_specOrCode, C10_nested forest h]

/-- "In every case at most M characters", at byte level and at any top-level position: the bytes
of a forest are the bytes of what precedes, then the encoding of at most M characters for the
node with maximum width M, then the bytes of what follows — no hypothesis on m, on the children
or on the neighbours. -/
theorem C10_at_most_M_bytes (pre post : List Node) (p : Params) (cs : List Node) (orc : List Nat)
    (M : Nat) (hM : p.maxW = some M) :
    ∃ t : List Char, t.length ≤ M ∧
      bytesOf (encodeNodes (pre ++ [Node.fmt p cs] ++ post) (W.sink orc [])).emitted =
        utf8 (denotes pre).text ++ utf8 t ++ utf8 (denotes post).text := by
  refine ⟨(denote (.fmt p cs)).text, ?_, ?_⟩
  · rw [denote]; exact C10_at_most_M p _ M hM
  · rw [C10_writers_refine_tree, List.nil_append, bytesOf_render, denotes_append, denotes_append,
      denotes_singleton, text_append, text_append, utf8_append, utf8_append]

/-- The executable Spec of the driver (`matchNodes`: what the STATEMENT alone allows — exact
`specText` for subtrees inside the statement, transparent plain groups, a length window ≤ M / ≥ m
for anything containing an m > M spec) accepts the model's output for every forest: the verdict
cannot raise a false alarm on behaviour the model has. -/
theorem C10_spec_accepts_model (forest : List Node) :
    matchNodes forest (denotes forest).text = true := matchNodes_denotes forest

/-- `MaxWidthWriter` on piece streams over ANY writer and with any earlier output (the general form
of `C10_maxW_stream`). -/
theorem C10_maxW_feed_any_writer (ps : List Piece) (r : Nat) (w : W) :
    (W.maxW r w).feed ps = W.maxW (r - chars ps) (w.feed (truncPieces r ps)) ∧
    opsOf (truncPieces r ps) = truncOps r (opsOf ps) :=
  ⟨feed_maxW ps r w, opsOf_truncPieces r ps⟩

/-- "Valid UTF-8" does not rest on a hand-written encoder: `utf8Char` is Lean core's
`String.utf8EncodeChar` for every scalar value, and `utf8 cs` is the byte content of the Lean
string with the characters `cs`. -/
theorem C10_utf8_is_core (c : Char) (cs : List Char) :
    (String.utf8EncodeChar c).map UInt8.toNat = utf8Char c ∧
    (String.ofList cs).toUTF8.data.toList.map UInt8.toNat = utf8 cs :=
  ⟨utf8Char_core c, utf8_core cs⟩

/-! ### failing runs: the bottom writer returns `Err`, `set_style` fails, a `Display` fails

`WritersErr.lean` models every error path of the writer stack (`Err(e) => Err(e)`, `?` skipping
`finish`, `Interrupted` retried by `write_all`, std's panic on a failing `Display`). The theorems
below quantify over ALL failure schedules: any script of accept / fail / interrupt answers, any
`set_style` budget, any position of a failing `Display` piece. -/

/-- Whatever fails and whenever: if the encode goes through, the bottom writer holds exactly the
rendering of the forest (failed-`Display` markers that were never reached are irrelevant); if it
stops — I/O error or panic —, what the bottom writer holds is a PREFIX of that rendering. Nothing
out of order, nothing extra (no padding for text that was lost, no partial right-aligned text). -/
theorem C10_err_prefix (forest : List NodeE) (orc : List Acc) (sb : Option Nat) :
    match encodeNodesE forest (WE.sink orc sb []) with
    | .ok w' => w'.emitted = render (denotes (NodeE.eraseAll forest))
    | .stop _ o => o <+: render (denotes (NodeE.eraseAll forest)) := by
  have h := encodeNodes_ref forest (WE.sink orc sb [])
  have hI := emitted_encodeNodes (NodeE.eraseAll forest) (takes orc) []
  rw [List.nil_append] at hI
  generalize encodeNodesE forest (WE.sink orc sb []) = res at h
  cases res with
  | ok w' =>
    simp only [Ref, WE.erase] at h ⊢
    rw [← emitted_erase, h, hI]
  | stop y o =>
    simp only [Ref, WE.erase] at h ⊢
    rw [← hI]; exact h.2

/-- On a failing run the bytes are a prefix of the UTF-8 of the forest's text — of the statement's
law `specTexts` when every spec has m ≤ M —; they consist of complete characters of that text plus
at most one incomplete last character (a byte sink may fail in the middle of a character: that is
the downstream's cut, never the encoder's); and the number of characters started is at most M for
a root with maximum width M. -/
theorem C10_err_bytes (forest : List NodeE) (orc : List Acc) (sb : Option Nat) (y : Stop)
    (o : List BEv) (hstop : encodeNodesE forest (WE.sink orc sb []) = .stop y o) :
    bytesOf o <+: utf8 (specOrCodes (NodeE.eraseAll forest)) ∧
    (Node.orderedAll (NodeE.eraseAll forest) = true →
      bytesOf o <+: utf8 (specTexts (NodeE.eraseAll forest))) ∧
    (∃ k tail, bytesOf o = utf8 ((specOrCodes (NodeE.eraseAll forest)).take k) ++ tail ∧
      (tail = [] ∨ ∃ c, (specOrCodes (NodeE.eraseAll forest))[k]? = some c ∧
        tail <+: utf8Char c ∧ tail.length < (utf8Char c).length)) ∧
    (∀ p cs M, NodeE.eraseAll forest = [Node.fmt p cs] → p.maxW = some M → leads (bytesOf o) ≤ M) := by
  have h := C10_err_prefix forest orc sb
  rw [hstop] at h
  simp only at h
  have hb : bytesOf o <+: utf8 (specOrCodes (NodeE.eraseAll forest)) := by
    have := bytesOf_prefix h
    rwa [bytesOf_render, denotes_text_specOrCode] at this
  refine ⟨hb, ?_, prefix_utf8_decomp _ _ hb, ?_⟩
  · intro ho; rw [← C10_specOrCode_eq_spec _ ho]; exact hb
  · intro p cs M hf hM
    have h1 := leads_prefix_le hb
    rw [leads_utf8, ← denotes_text_specOrCode, hf, denotes_singleton, denote] at h1
    exact Nat.le_trans h1 (C10_at_most_M p _ M hM)

/-- The error-aware model extends the error-free one: whenever an error-aware encode goes through
(`Interrupted` answers included), its final state is, up to the unused failure schedule, the final
state of the error-free model on the same accept answers. -/
theorem C10_err_model_extends (forest : List NodeE) (orc : List Acc) (sb : Option Nat)
    (out : List BEv) (w' : WE) (h : encodeNodesE forest (WE.sink orc sb out) = .ok w') :
    w'.erase = encodeNodes (NodeE.eraseAll forest) (W.sink (takes orc) out) := by
  have := encodeNodes_ref forest (WE.sink orc sb out)
  rw [h] at this
  exact this

/-- The error-aware model is not vacuous: when no failing answer is scripted (interruptions are
allowed), `set_style` never fails and no `Display` fails, the encode goes through and the bottom
writer holds the complete rendering. -/
theorem C10_err_free_run_goes_through (forest : List Node) (orc : List Acc)
    (h : orc.contains Acc.fail = false) :
    ∃ w', encodeNodesE (Node.liftAll forest) (WE.sink orc none []) = .ok w' ∧
      w'.emitted = render (denotes forest) := by
  have hc : (WE.sink orc none []).clean = true := by
    simp only [WE.clean, h]; rfl
  have hok := encodeNodes_clean forest _ hc
  have hp := C10_err_prefix (Node.liftAll forest) orc none
  generalize encodeNodesE (Node.liftAll forest) (WE.sink orc none []) = res at hok hp
  cases res with
  | ok w' =>
    refine ⟨w', rfl, ?_⟩
    simp only at hp
    rw [hp, eraseAll_liftAll]
  | stop y o => exact hok.elim

/-! ### non-vacuity (TESTS on concrete inputs, by evaluation) -/

/-- a 3-byte character sits exactly at the width boundary and is dropped whole; the sink accepts
one byte per call; the text arrives in two pieces; m ≤ M holds -/
example :
    let p : Params := { fill := '~', right := false, minW := some 3, maxW := some 3 }
    p.ordered = true ∧
    bytesOf (chunkEncode p (fun w => w.feed [.data ['a', 'é'], .data ['b', '中', 'c']])
      (W.sink [1, 1, 1, 1, 1, 1, 1, 1] [])).emitted = [0x61, 0xC3, 0xA9, 0x62] := by
  decide

/-- right alignment with a 4-byte fill, padding shorter text, nested in a truncating group with a
style call buffered in between -/
example :
    let inner : Node := .fmt { fill := '😀', right := true, minW := some 3, maxW := some 4 }
      [.leaf [.style {}, .data ['中']]]
    let outer : Node := .fmt { maxW := some 2 } [inner, .leaf [.data ['x']]]
    Node.orderedAll [outer] = true ∧
    specTexts [outer] = ['😀', '😀'] ∧
    bytesOf (encodeNodes [outer] (W.sink [2, 3, 1] [])).emitted =
      [0xF0, 0x9F, 0x98, 0x80, 0xF0, 0x9F, 0x98, 0x80] := by
  decide

/-- `[{R({l} {m}):<6}]` in a build with debug assertions (release group inactive): six blanks
between the brackets; and the same pattern with `{D(..)}` pads the level and message to six -/
example :
    let body : List Node := [.leaf [.data ['I', 'N', 'F', 'O']], .leaf [.data [' ']], .leaf [.data ['x']]]
    let spec : Params := { minW := some 6 }
    let br (n : Node) : List Node := [.leaf [.data ['[']], n, .leaf [.data [']']]]
    bytesOf (encodeNodes (br (Node.releaseGroup true spec body)) (W.sink [1, 2] [])).emitted =
      utf8 ['[', ' ', ' ', ' ', ' ', ' ', ' ', ']'] ∧
    bytesOf (encodeNodes (br (Node.debugGroup true spec body)) (W.sink [1, 2] [])).emitted =
      utf8 ['[', 'I', 'N', 'F', 'O', ' ', 'x', ']'] ∧
    Node.orderedAll (br (Node.releaseGroup true spec body)) = true := by
  decide

/-- failing runs, evaluated: `{m:~>6}` on "ab" + failing `Display` panics with NOTHING written (the
buffered text is dropped); `{m:~<6}` on "abc" with the sink failing at its third call leaves "ab"
and no padding; an `Interrupted` answer is retried and changes nothing -/
example :
    let r : Params := { fill := '~', right := true, minW := some 6 }
    let l : Params := { fill := '~', right := false, minW := some 6 }
    let ob (x : Res) : Option Stop × Bytes := (x.observe.1, bytesOf x.observe.2)
    ob (encodeNodesE [.fmt r [.leaf [some (.data ['a', 'b']), none]]] (WE.sink [] none [])) =
      (some Stop.fmtPanic, []) ∧
    ob (encodeNodesE [.fmt l [.leaf [some (.data ['a', 'b', 'c'])]]]
        (WE.sink [.take 1, .intr, .take 1, .fail] none [])) = (some Stop.ioErr, [0x61, 0x62]) ∧
    ob (encodeNodesE [.fmt l [.leaf [some (.data ['a'])]]] (WE.sink [.intr, .intr] none [])) =
      (none, [0x61, 0x7E, 0x7E, 0x7E, 0x7E, 0x7E]) := by
  decide

end Log4rs.Pattern
