import Log4rsModel.Console.LemmasFormatted
/-
C18 — Console output obeys tty_only and colour policy; ANSI sequences are well-formed.

Only property theorems and non-vacuity examples live here; helpers are in Console/Lemmas*.lean.

Every `C18_*` theorem is a statement about the model of the CURRENT code (`bufLen = 13`,
`ttyOnlyUsesIsatty = true`, i.e. /repo after 2b701f0 and 1bc24e0) or about the executable Spec.
The two defects this slice found are kept as history under `Hist_C18_*` (they speak about
`setStyleN 12` and `doWriteWith false`, the code before those commits) and do not count.

Finite domains are enumerated COMPLETELY: environments by case analysis on the types or by `decide`
over `allEnvs` / `allEnvsExt` / `colourRows`, the 243 styles by `decide +kernel` over `allStyles` —
these are proofs, marked [exhaustive]. Where the model and the Spec would otherwise be the same
expression written twice (colour precedence, tty_only) the theorem is stated against a TABLE
written out by hand from the statement (`colourTable`, `writeTable`). Highlight nestings and
patterns are unbounded; those theorems are by induction on the pattern.

Assumed, not proved (also in props.d/C18.json): reading decisions R1–R3 of Console/Spec.lean;
`isatty` and the environment are inputs; the environment does not change after the first console
writer was obtained (`C18_color_mode_read_once` says what happens otherwise); the writer stack is
`codeFmtOps` (C10); unix.
-/
namespace Log4rs.Console
open Log4rs Log4rs.Console.Spec
open Log4rs.Pattern (Op Out Params codeFmtOps ofText)

/-! ## the enumerations are complete -/

/-- [exhaustive] `allEnvs` is exactly the environments inside the property's quantifier (every
variable unset, "0" or another Unicode string): 27; `allEnvsExt` is every environment the code can
distinguish (a value that is not valid Unicode included): 64. -/
theorem C18_allEnvs_complete :
    (∀ e : Env, e ∈ allEnvs ↔ e.inQuantifier = true) ∧ allEnvs.length = 27 ∧
    (∀ e : Env, e ∈ allEnvsExt) ∧ allEnvsExt.length = 64 := by
  refine ⟨?_, by decide, ?_, by decide⟩
  · intro e
    rcases e with ⟨a, b, c⟩
    cases a <;> cases b <;> cases c <;> decide
  · intro e
    rcases e with ⟨a, b, c⟩
    cases a <;> cases b <;> cases c <;> decide

/-- `allStyles` is exactly the styles whose colours are one of the eight `Color`s: 243. -/
theorem C18_allStyles_complete :
    (∀ s : Style, s ∈ allStyles ↔
      ((∀ c, s.text = some c → c < 8) ∧ (∀ c, s.background = some c → c < 8))) ∧
    allStyles.length = 243 := by
  exact ⟨mem_allStyles_iff, by decide +kernel⟩

/-! ## (C) colour precedence -/

/-- [exhaustive: the 54 rows] The model against the TABLE written out from the statement: a colour
writer — the only source of escape sequences — is obtained on exactly the rows the table marks. -/
theorem C18_color_precedence_table :
    colourRows.map (fun r => (writerKind (colorMode r.1) r.2).isTty) = colourTable := by decide

/-- [exhaustive: the 54 rows] The Spec's cascade ("never under NO_COLOR, otherwise always under
CLICOLOR_FORCE, otherwise never under CLICOLOR=0, otherwise only on terminals") is that table. -/
theorem C18_color_rule_is_table :
    colourRows.map (fun r => colourEnabled r.1 r.2) = colourTable ∧ colourTable.length = 54 := by decide

/-- [exhaustive: all 64 environments × terminal/pipe] the same for every environment the code can
distinguish (a non-Unicode value counts as not set, R2). -/
theorem C18_color_precedence (e : Env) (tty : Bool) :
    (writerKind (colorMode e) tty = .tty) ↔ colourEnabled e tty = true := by
  rcases e with ⟨a, b, c⟩
  cases a <;> cases b <;> cases c <;> cases tty <;> decide

/-- [exhaustive] the cascade of the statement is the formula ¬NO_COLOR ∧ (FORCE ∨ (CLICOLOR≠0 ∧ tty)) -/
theorem C18_color_rule_is_formula (e : Env) (tty : Bool) :
    colourEnabled e tty = colourEnabledFormula e tty := by
  rcases e with ⟨a, b, c⟩
  cases a <;> cases b <;> cases c <;> cases tty <;> rfl

/-- [exhaustive] the three modes, in the statement's vocabulary -/
theorem C18_color_mode_table (e : Env) :
    colorMode e =
      if isSet e.noColor then .never
      else if isSet e.clicolorForce then .always
      else if e.clicolor == .zero then .never else .auto := by
  rcases e with ⟨a, b, c⟩
  cases a <;> cases b <;> cases c <;> rfl

/-- [exhaustive] READING GAP (R1). The reading used here ("set" = present and not "0") and the
no-color.org reading ("NO_COLOR present, whatever its value") disagree exactly when NO_COLOR is
present but does not count as set here ("0", or not valid Unicode) and colour is otherwise on … -/
theorem C18_reading_gap (e : Env) (tty : Bool) :
    colourEnabled e tty ≠ colourEnabledStd e tty ↔
      ((e.noColor = .zero ∨ e.noColor = .nonUnicode) ∧ colourEnabled e tty = true) := by
  rcases e with ⟨a, b, c⟩
  cases a <;> cases b <;> cases c <;> cases tty <;> decide

/-- … which inside the property's quantifier is 10 of the 54 rows (all with NO_COLOR="0"): on
those rows `C18_color_precedence*` holds by the reading decision, not by the statement alone. -/
theorem C18_reading_gap_count :
    (colourRows.filter fun r => colourEnabled r.1 r.2 != colourEnabledStd r.1 r.2).length = 10 ∧
    (colourRows.filter fun r => r.1.noColor == .zero && colourEnabled r.1 r.2).length = 10 ∧
    colourRows.length = 54 := by decide

/-- [exhaustive] R2 on the model's side: a value that is not valid Unicode is treated by the code
exactly like an absent variable, for each of the three variables. -/
theorem C18_non_unicode_is_unset (e : Env) :
    let u : EnvVal → EnvVal := fun v => if v = .nonUnicode then .unset else v
    colorMode e = colorMode { noColor := u e.noColor, clicolor := u e.clicolor, clicolorForce := u e.clicolorForce } := by
  rcases e with ⟨a, b, c⟩
  cases a <;> cases b <;> cases c <;> rfl

/-! ## (S) one well-formed SGR sequence with exactly the requested attributes -/

/-- [exhaustive: 243 styles] every style request yields the canonical sequence
ESC [ 0 (;3c)? (;4c)? (;1|;22)? m of exactly its attributes; no panic. -/
theorem C18_sgr_wellformed : ∀ s ∈ allStyles, setStyle s = .ok (sgr s) := by
  unfold setStyle; decide +kernel

/-- the same, symbolically in the colour digits (no table) -/
theorem C18_sgr_wellformed_symbolic (s : Style) : setStyle s = .ok (sgr s) := by
  rcases s with ⟨t, b, i⟩
  cases t <;> cases b <;> (rcases i with _ | _ | _) <;> rfl

/-- [exhaustive: 243 styles] "encoding exactly the requested attributes": the strict grammar
parser reads back precisely the style that was requested — nothing added, nothing dropped. -/
theorem C18_sgr_exact_attributes : ∀ s ∈ allStyles, parseSgr (sgr s) = some s := parseSgr_table

/-- The grammar of the specification is exact, for every byte string: the strict parser accepts
`bs` as the style `s` iff `s` is one of the 243 styles and `bs` is its canonical sequence. -/
theorem C18_sgr_grammar_exact (bs : Bytes) (s : Style) :
    parseSgr bs = some s ↔ (s ∈ allStyles ∧ bs = sgr s) := by
  constructor
  · intro h
    exact ⟨(parseSgr_sound bs s h).2, (parseSgr_sound bs s h).1⟩
  · rintro ⟨hs, rfl⟩
    exact parseSgr_table s hs

/-- SOUNDNESS of the strict scanner that the Spec verdict runs on real output, for every byte
string: when it accepts, the tokens it returns render back to exactly the input, every SGR token is
one of the 243 styles (in its canonical spelling), and no literal token is an ESC byte — i.e. every
ESC on the wire starts exactly one well-formed sequence. -/
theorem C18_scan_sound (bs : Bytes) (toks : List Tok) (h : scan bs = some toks) :
    render toks = bs ∧ (∀ s, Tok.sgr s ∈ toks → s ∈ allStyles) ∧ (∀ b, Tok.byte b ∈ toks → b ≠ 27) := by
  simpa using scanFrom_sound bs none toks h

/-- COMPLETENESS of the scanner: a token list without ESC literals whose SGR tokens are among the
243 styles is read back exactly from its rendering. -/
theorem C18_scan_complete (toks : List Tok) (hb : ∀ b, Tok.byte b ∈ toks → b ≠ 27)
    (hs : ∀ s, Tok.sgr s ∈ toks → s ∈ allStyles) : scan (render toks) = some toks :=
  scan_render toks hb (fun s h => scan_sgr_table s (hs s h))

/-! ## (W) tty_only -/

/-- [exhaustive: 64 environments × the 4 rows] The model against the TABLE written out from the
statement: whatever the colour variables say, a restricted appender writes iff its target is a
terminal and an unrestricted one always writes. -/
theorem C18_tty_only_table :
    ∀ e ∈ allEnvsExt, ∀ row ∈ writeTable,
      doWrite (writerKind (colorMode e) row.1.1) row.1.1 row.1.2 = row.2 := by decide

/-- the Spec's one-line rule is that table -/
theorem C18_write_rule_is_table : ∀ row ∈ writeTable, shouldWrite row.1.1 row.1.2 = row.2 := by decide

/-- [exhaustive] the same as one equation, for all environments, terminal status and flag -/
theorem C18_tty_only_spec (e : Env) (tty ttyOnly : Bool) :
    doWrite (writerKind (colorMode e) tty) tty ttyOnly = shouldWrite tty ttyOnly := by
  rcases e with ⟨a, b, c⟩
  cases a <;> cases b <;> cases c <;> cases tty <;> cases ttyOnly <;> rfl

/-! ## (H) highlighted groups, every level, every nesting -/

/-- For every writer kind, record level and pattern (any nesting depth of `{h(…)}`): the encoder
output is the rendering of the specified token stream — with colour, each group of a styled level
is `one SGR sequence of the level's style, the group's content, ESC[0m`; without colour, or for
Debug, the content alone. No panic (the highlight styles need at most 10 bytes). -/
theorem C18_highlight_reset (kind : WriterKind) (level : Nat) (cs : Chunks) :
    encodeChunks kind level cs = .ok (specEncode kind.isTty level cs) :=
  encodeChunksN_eq_spec bufLen bufLen_ok kind level cs

/-- the shape of one group on a colour writer, spelled out: style ++ content ++ ESC[0m -/
theorem C18_highlight_group_followed_by_reset (level : Nat) (st : Style)
    (h : highlightStyle level = some st) (inner : Chunks) :
    encodeChunks .tty level (.highlight inner .nil) =
      .ok (sgr st ++ specEncode true level inner ++ resetSeq) := by
  rw [C18_highlight_reset]
  simp [specEncode, specToks, WriterKind.isTty, h, render_append, render, sgr, resetSeq, Style.plain]

/-- The strict scanner accepts the output for every nesting and reads back exactly the specified
tokens: every ESC starts one well-formed SGR sequence, every style token of a group is followed by
its reset token. -/
theorem C18_output_scans (kind : WriterKind) (level : Nat) (cs : Chunks) (h : escFree cs = true) :
    ∃ bs, encodeChunks kind level cs = .ok bs ∧ scan bs = some (specToks kind.isTty level cs) := by
  refine ⟨_, C18_highlight_reset kind level cs, ?_⟩
  exact scan_render _ (specToks_bytes _ _ _ h)
    (fun s hs => scan_sgr_table s (specToks_sgrs _ _ _ s hs))

/-- Debug level (and any level without a style): no escape sequence at all, on any writer. -/
theorem C18_debug_no_escape (kind : WriterKind) (level : Nat) (hl : highlightStyle level = none)
    (cs : Chunks) :
    encodeChunks kind level cs = .ok (plainText cs) ∧
      (escFree cs = true → ∀ b ∈ plainText cs, b ≠ 27) := by
  refine ⟨?_, plainText_escFree cs⟩
  rw [C18_highlight_reset, specEncode, specToks_unstyled _ _ hl, render_bytes]

theorem C18_debug_level_has_no_style : highlightStyle 4 = none := rfl

/-- Without a colour writer: the plain text, no escape sequence, for every level and nesting. -/
theorem C18_no_colour_no_escape (level : Nat) (cs : Chunks) :
    encodeChunks .raw level cs = .ok (plainText cs) := by
  rw [C18_highlight_reset, specEncode]
  simp only [WriterKind.isTty]
  rw [specToks_no_colour, render_bytes]

/-! ## (H) with format specs on and around highlight groups, at every nesting level

`{h(…):<8.5}`, `{({h(…)}):.3}`, …: the group's `set_style` calls travel through the width / fill /
alignment writer stack of `Chunk::encode` (`codeFmtOps`, proved in C10 to be what the byte-level
writers do). -/

/-- a sink can serve every style request a pattern makes (the highlight styles need ≤ 10 bytes) -/
theorem C18_formatted_styles_fit (level : Nat) (f : FChunks) :
    ∀ s ∈ Pattern.Out.styles (opsOf level f), setStyleN bufLen s = .ok (sgr s) ∧ s ∈ allStyles := by
  intro s hs
  rw [styles_opsOf] at hs
  rcases specStyles_mem level f s hs with h | h
  · exact ⟨setStyleN_highlight bufLen bufLen_ok level s h, highlightStyle_mem level s h⟩
  · subst h; exact ⟨setStyleN_plain bufLen bufLen_ok, plain_mem⟩

theorem C18_formatted_bytes (kind : WriterKind) (level : Nat) (f : FChunks) :
    encodeFormatted kind level f = .ok (render (toksOfOps kind.isTty (opsOf level f))) :=
  sinkN_eq bufLen kind _ (fun s hs => (C18_formatted_styles_fit level f s hs).1)

/-- POSITION LAW, token-exact. For every writer kind, level and pattern whose parameters satisfy
the side condition of the width law (every minimum ≤ its maximum), at every nesting level: the
bytes are exactly the rendering of the SPECIFIED stream `specFToks` — the pattern's text cut and
padded as C10's statement says, with, for every highlighted group of a styled level, the style
sequence immediately before the group's (visible) content and ESC[0m immediately after it, the
fill characters outside the pair. No hypothesis about ESC in text, message or fill. -/
theorem C18_formatted_eq_spec (kind : WriterKind) (level : Nat) (f : FChunks) (h : fOrdered f = true) :
    encodeFormatted kind level f = .ok (render (specFToks kind.isTty level f)) := by
  rw [C18_formatted_bytes, specFToks, opsOf_eq_specOps level f h]

/-- GROUP SHAPE for ARBITRARY parameters (also minimum > maximum, maximum 0): what one highlighted
group hands on is — fill characters, the level's style, a cut of the group's own content that keeps
all its style requests, the reset, fill characters. So the reset always follows the group's text,
never precedes it; without a maximum width the content is complete. -/
theorem C18_group_shape (p : Params) (level : Nat) (st : Style) (h : highlightStyle level = some st)
    (x : Out) :
    ∃ pre mid post,
      codeFmtOps p (wrapHighlight level x)
        = ofText pre ++ (Op.style st :: mid ++ Op.style Style.plain :: ofText post) ∧
      (∀ c ∈ pre ++ post, c = p.fill) ∧ mid.Sublist x ∧
      Out.styles mid = Out.styles x ∧
      (p.maxW = none → mid = x) := by
  have hw : wrapHighlight level x = Op.style st :: x ++ [Op.style Style.plain] := by
    simp [wrapHighlight, h]
  have hmem : ∀ (k j : Nat) (a b : List Char), (∀ c ∈ a, c = p.fill) → (∀ c ∈ b, c = p.fill) →
      ∀ c ∈ a.take k ++ b.take j, c = p.fill := by
    intro k j a b ha hb c hc
    rcases List.mem_append.mp hc with hc | hc
    · exact ha c (List.mem_of_mem_take hc)
    · exact hb c (List.mem_of_mem_take hc)
  have hnil : ∀ c ∈ ([] : List Char), c = p.fill := by intro c hc; cases hc
  unfold codeFmtOps
  rw [hw]
  generalize hn : (Out.text (Op.style st :: x ++ [Op.style Style.plain])).length = n
  cases hm : p.minW with
  | none =>
    cases hM : p.maxW with
    | none => exact ⟨[], x, [], by simp [ofText], by simp, List.Sublist.refl _, rfl, fun _ => rfl⟩
    | some M =>
      refine ⟨List.take M [], Pattern.truncOps (M - ([] : List Char).length) x,
        List.take (M - ([] : List Char).length - (Out.text x).length) [], ?_, hmem _ _ _ _ hnil hnil,
        truncOps_sublist _ x, styles_truncOps _ x, by simp⟩
      have := truncOps_bracket M [] [] st x
      simpa [ofText] using this
  | some m =>
    have hpad : ∀ c ∈ Pattern.fills p.fill (m - n), c = p.fill := fills_all _ _
    cases hr : p.right with
    | false =>
      cases hM : p.maxW with
      | none =>
        exact ⟨[], x, Pattern.fills p.fill (m - n), by simp [ofText],
          fun c hc => hpad c (by simpa using hc), List.Sublist.refl _, rfl, fun _ => rfl⟩
      | some M =>
        refine ⟨List.take M [], Pattern.truncOps (M - ([] : List Char).length) x,
          List.take (M - ([] : List Char).length - (Out.text x).length) (Pattern.fills p.fill (m - n)),
          ?_, hmem _ _ _ _ hnil hpad, truncOps_sublist _ x, styles_truncOps _ x, by simp⟩
        have := truncOps_bracket M [] (Pattern.fills p.fill (m - n)) st x
        simpa [ofText] using this
    | true =>
      cases hM : p.maxW with
      | none =>
        exact ⟨Pattern.fills p.fill (m - n), x, [], by simp [ofText],
          fun c hc => hpad c (by simpa using hc), List.Sublist.refl _, rfl, fun _ => rfl⟩
      | some M =>
        refine ⟨List.take M (Pattern.fills p.fill (m - n)),
          Pattern.truncOps (M - (Pattern.fills p.fill (m - n)).length) x,
          List.take (M - (Pattern.fills p.fill (m - n)).length - (Out.text x).length) [],
          ?_, hmem _ _ _ _ hpad hnil, truncOps_sublist _ x, styles_truncOps _ x, by simp⟩
        have := truncOps_bracket M (Pattern.fills p.fill (m - n)) [] st x
        simpa [ofText] using this

/-- For every writer kind, level and pattern whose highlight groups — and the groups around them,
to any depth — carry ARBITRARY parameters: no panic, and the SGR sequences in the output are
exactly one opening style and one reset per highlighted group of a styled level, in nesting order
(`specStyles`, which ignores all parameters), properly nested; on a writer without colour there is
no sequence at all. (For the POSITIONS see `C18_formatted_eq_spec` and `C18_group_shape`.) -/
theorem C18_highlight_reset_formatted (kind : WriterKind) (level : Nat) (f : FChunks) :
    ∃ toks, encodeFormatted kind level f = .ok (render toks) ∧
      sgrToks toks = (if kind.isTty then specStyles level f else []) ∧
      wellNested (specStyles level f) = true := by
  refine ⟨_, C18_formatted_bytes kind level f, ?_, ?_⟩
  · rw [sgrToks_toksOfOps, styles_opsOf]
  · have := wellNestedFrom_specStyles level f 0 []
    simpa [wellNested, wellNestedFrom] using this

/-- One group, spelled out: whatever its parameters `p` (e.g. `maxW = some 0`: every character is
swallowed), the style calls that reach the sink are the level's style, the inner groups' calls,
and the reset. -/
theorem C18_highlight_group_followed_by_reset_formatted (p : Pattern.Params) (level : Nat)
    (st : Style) (h : highlightStyle level = some st) (inner : FChunks) :
    Pattern.Out.styles (opsOf level (.highlight p inner .nil)) =
      st :: specStyles level inner ++ [Style.plain] := by
  rw [styles_opsOf]
  simp [specStyles, h]

/-- The executable Spec verdict that is run on the real bytes answers `ok` on the model's bytes,
for EVERY pattern (token-exact branch for ordered parameters, style-protocol branch otherwise) —
so a FAIL of the verdict on real output is a difference between code and model or a violation,
never an artefact of the verdict. -/
theorem C18_formatted_verdict_accepts_model (kind : WriterKind) (level : Nat) (f : FChunks) :
    ∃ bs, encodeFormatted kind level f = .ok bs ∧ formattedVerdict kind.isTty level f bs = .ok := by
  refine ⟨_, C18_formatted_bytes kind level f, ?_⟩
  unfold formattedVerdict
  cases ho : fOrdered f with
  | true =>
    simp only [if_true]
    rw [specFToks, opsOf_eq_specOps level f ho]
    simp
  | false =>
    simp only [Bool.false_eq_true, if_false]
    cases he : fEscFree f with
    | false => simp
    | true =>
      have hscan : scan (render (toksOfOps kind.isTty (opsOf level f))) =
          some (toksOfOps kind.isTty (opsOf level f)) := by
        apply scan_render
        · exact toksOfOps_bytes _ _ (opsOf_escFree level f he)
        · intro s hs
          exact scan_sgr_table s (C18_formatted_styles_fit level f s (toksOfOps_sgrs _ _ s hs)).2
      have hw : wellNested (specStyles level f) = true := by
        have := wellNestedFrom_specStyles level f 0 []
        simpa [wellNested, wellNestedFrom] using this
      simp only [Bool.not_true, Bool.false_eq_true, if_false, hscan, stylesVerdict,
        sgrToks_toksOfOps, styles_opsOf]
      cases kind <;> simp [WriterKind.isTty, hw]

/-- Patterns without any width parameter: the formatted model is the byte-level model of
`Model.lean` (so `C18_highlight_reset` … `C18_console_spec` speak about the same encoder). -/
theorem C18_formatted_generalises (kind : WriterKind) (level : Nat) (f : FChunks)
    (h : f.unformatted = true) :
    encodeFormatted kind level f = encodeChunks kind level f.erase := by
  rw [C18_formatted_bytes, C18_highlight_reset, specEncode, toksOfOps_unformatted _ _ _ h]

/-! ## the appender end to end: stream, silence, colour -/

/-- The whole statement for one appender and patterns without width parameters: for every
environment, terminal/pipe per stream, target, tty_only, level and pattern, the chosen stream
receives the specified bytes (or nothing when a restricted appender's target is no terminal) and
the other stream nothing. -/
theorem C18_console_spec (s : Setup) (level : Nat) (cs : Chunks) :
    append s level cs = .ok (expectedAppend s level cs) := by
  show appendEnc true s (fun kind l => encodeChunksN 13 kind l cs) level = _
  rw [appendEnc_spec s _ (fun colour l => specToks colour l cs) level
    (fun k l => encodeChunksN_eq_spec 13 (Or.inr rfl) k l cs)]
  rfl

/-- The same for patterns WITH width parameters on and around highlight groups (ordered
parameters): the chosen stream receives exactly the specified token stream `specFToks` for the
colour decision of the statement, the other stream nothing, a restricted appender on a
non-terminal nothing at all. -/
theorem C18_console_spec_formatted (s : Setup) (level : Nat) (f : FChunks) (h : fOrdered f = true) :
    appendFormatted s level f =
      .ok (if shouldWrite s.targetIsatty s.ttyOnly then
        Streams.on s.target (render (specFToks (colourEnabled s.env s.targetIsatty) level f)) else {}) := by
  show appendEnc true s (fun kind l => encodeFormattedN 13 kind l f) level = _
  exact appendEnc_spec s _ (fun colour l => specFToks colour l f) level
    (fun k l => C18_formatted_eq_spec k l f h)

/-- … and for ARBITRARY parameters, with the model's own operation stream on the right-hand side
(who writes, to which stream, and whether style requests become sequences is still the statement's). -/
theorem C18_console_spec_formatted_any (s : Setup) (level : Nat) (f : FChunks) :
    appendFormatted s level f =
      .ok (if shouldWrite s.targetIsatty s.ttyOnly then
        Streams.on s.target (render (toksOfOps (colourEnabled s.env s.targetIsatty) (opsOf level f))) else {}) := by
  show appendEnc true s (fun kind l => encodeFormattedN 13 kind l f) level = _
  exact appendEnc_spec s _ (fun colour l => toksOfOps colour (opsOf l f)) level
    (fun k l => C18_formatted_bytes k l f)

/-- Escape bytes reach a stream only when colour is enabled by the statement's rule — for every
pattern with arbitrary parameters whose text, message and fill characters contain no ESC. -/
theorem C18_escapes_only_when_enabled (s : Setup) (level : Nat) (f : FChunks)
    (hf : fEscFree f = true) (st : Streams) (h : appendFormatted s level f = .ok st)
    (hesc : 27 ∈ st.out ∨ 27 ∈ st.err) : colourEnabled s.env s.targetIsatty = true := by
  rw [C18_console_spec_formatted_any] at h
  cases hc : colourEnabled s.env s.targetIsatty with
  | true => rfl
  | false =>
    exfalso
    rw [hc] at h
    have hno : ∀ b ∈ render (toksOfOps false (opsOf level f)), b ≠ 27 := by
      have hb := toksOfOps_bytes false _ (opsOf_escFree level f hf)
      have hs : ∀ s', Tok.sgr s' ∈ toksOfOps false (opsOf level f) → False := by
        intro s' hs'
        have : Tok.sgr s' ∈ toksOfOps false (opsOf level f) := hs'
        have h0 : sgrToks (toksOfOps false (opsOf level f)) = [] := by rw [sgrToks_toksOfOps]; rfl
        have hm := mem_sgrToks _ _ this
        rw [h0] at hm
        cases hm
      exact render_no_esc _ hb hs
    split at h
    · cases h
      revert hesc
      cases s.target <;> simp [Streams.on] <;> exact fun hm => hno 27 hm rfl
    · cases h
      simp at hesc

/-- What is ALWAYS true of the bytes, ESC in the content or not: they are the pattern's own
characters (UTF-8, verbatim) interleaved with the SGR sequences of the pattern's style requests —
nothing else is ever inserted. So an ESC on the wire while colour is disabled can only be one the
pattern text, the message or a fill character brought along. -/
theorem C18_bytes_are_text_and_styles (s : Setup) (level : Nat) (f : FChunks) (st : Streams)
    (h : appendFormatted s level f = .ok st) :
    ∃ toks, (st.out = render toks ∨ st.err = render toks) ∧
      (literalBytes toks = [] ∨ literalBytes toks = utf8 (Out.text (opsOf level f))) ∧
      (sgrToks toks = [] ∨ sgrToks toks = specStyles level f) := by
  rw [C18_console_spec_formatted_any] at h
  split at h
  · cases h
    refine ⟨toksOfOps (colourEnabled s.env s.targetIsatty) (opsOf level f), ?_, Or.inr (literalBytes_toksOfOps _ _), ?_⟩
    · cases s.target <;> simp [Streams.on]
    · rw [sgrToks_toksOfOps, styles_opsOf]; cases colourEnabled s.env s.targetIsatty <;> simp
  · cases h
    exact ⟨[], Or.inl rfl, Or.inl rfl, Or.inl rfl⟩

/-! ## several appenders in one process: each one is judged by its own stream -/

/-- The builder's setters only store: whatever the order of `.target(..)` / `.tty_only(..)`, through
the config deserializer with both keys, and through it with default-valued keys left out, the
builder ends up with exactly the item's target and flag. -/
theorem C18_builder_call_order_irrelevant (it : PlanItem) :
    builderOf it = { target := it.target, ttyOnly := it.ttyOnly } := builderOf_eq it

/-- ASSUMING the environment is the same at every build (`Global.env` is one value): for every plan
(any number of appenders, targets, flags, call orders, build order), every terminal status of the
two streams, every encoder and both settings of the tty_only parameter, the output of the process
is the single-appender outputs one after the other, each depending on nothing but the environment,
ITS OWN target, that target's terminal status and its own tty_only flag. -/
theorem C18_appenders_independent (usesIsatty : Bool) (g : Global) (items : List PlanItem)
    (enc : Enc) (levels : List Nat) :
    runPlanEnc usesIsatty g items enc levels =
      seqStreams (items.map fun it => appendAllEnc usesIsatty (setupOf g it) enc levels) := by
  unfold runPlanEnc
  rw [buildAllWith_eq usesIsatty g items, appendAllBuilt_eq]

/-- WITHOUT that assumption: `COLOR_MODE` is read once. If the environment differs from build to
build, every appender — the first and all later ones — is built with the colour mode of the
environment at the FIRST build; later environments are not looked at. -/
theorem C18_color_mode_read_once (u o r : Bool) (env0 : Env) (it0 : PlanItem)
    (steps : List (Env × PlanItem)) :
    (buildAllEnvs u o r {} ((env0, it0) :: steps)).1 =
      ((env0, it0) :: steps).map fun x => builtWithMode u o r (colorMode env0) x.2 :=
  buildAllEnvs_first u o r env0 it0 steps

/-- … so the statement's colour rule, read for the environment at an appender's own build time, is
NOT met after a change: NO_COLOR=1 set after a first appender was built does not stop a second
appender on a terminal from colouring. (Assumption "environment constant from the first console
writer on"; `std::env::set_var` while logging is running is outside the property's quantifier.) -/
theorem C18_env_change_after_first_writer_is_ignored :
    let steps : List (Env × PlanItem) :=
      [({}, ⟨.stdout, false, .targetThenTtyOnly⟩), ({ noColor := .one }, ⟨.stderr, false, .targetThenTtyOnly⟩)]
    ((buildAllEnvs true true true {} steps).1.map (·.kind)) = [.tty, .tty] ∧
    colourEnabled { noColor := .one } true = false := by decide

/-- one appender of a plan, one record per level, against the statement — for any encoder that
meets its own specification `want` -/
theorem C18_item_spec (g : Global) (it : PlanItem) (enc : Enc) (want : Want) (levels : List Nat)
    (henc : ∀ k l, enc k l = .ok (render (want k.isTty l))) :
    appendAllEnc ttyOnlyUsesIsatty (setupOf g it) enc levels = .ok (expectedItemW g it levels want) :=
  appendAllEnc_spec g it enc want levels henc

/-- the whole plan against the statement, for any encoder that meets its own specification -/
theorem C18_plan_spec_any_encoder (g : Global) (items : List PlanItem) (enc : Enc) (want : Want) (levels : List Nat)
    (henc : ∀ k l, enc k l = .ok (render (want k.isTty l))) :
    runPlanEnc true g items enc levels = .ok (expectedPlanW g items levels want) := by
  rw [C18_appenders_independent]
  simp only [appendAllEnc_spec g _ enc want levels henc]
  induction items with
  | nil => rfl
  | cons it its ih =>
    simp only [List.map_cons, seqStreams, ih, obind, expectedPlanW, List.foldr_cons]

/-- The whole plan against the statement, patterns without width parameters: stdout and stderr
carry exactly what the appenders targeting them must write, in build order. -/
theorem C18_plan_spec (g : Global) (items : List PlanItem) (cs : Nat → Chunks) (levels : List Nat) :
    runPlan g items cs levels = .ok (expectedPlan g items levels cs) :=
  C18_plan_spec_any_encoder g items (chunksEnc 13 cs) (chunksWant cs) levels
    (fun k l => encodeChunksN_eq_spec 13 (Or.inr rfl) k l (cs l))

/-- The same for a plan whose appenders use a pattern with (ordered) width parameters — what the
harness drives the real `ConsoleAppender` with. -/
theorem C18_plan_spec_formatted (g : Global) (items : List PlanItem) (f : Nat → FChunks)
    (levels : List Nat) (h : ∀ l, fOrdered (f l) = true) :
    runPlanFormatted g items f levels = .ok (expectedPlanW g items levels (formattedWant f)) :=
  C18_plan_spec_any_encoder g items (formattedEnc 13 f) (formattedWant f) levels
    (fun k l => C18_formatted_eq_spec k l (f l) (h l))

/-! ## a stream that stops accepting bytes (R3) -/

/-- What reaches a stream that accepts `budget` more bytes: a prefix of what the appender wanted
to write; everything iff it fits; an error is reported iff it does not. -/
theorem C18_failed_stream_prefix (budget : Nat) (bs : Bytes) :
    (deliver budget bs).2 <+: bs ∧
    ((deliver budget bs).1 = .ok bs ↔ bs.length ≤ budget) ∧
    (bs.length ≤ budget → (deliver budget bs).2 = bs) ∧
    (budget < bs.length → (deliver budget bs).1 = .err () ∧ (deliver budget bs).2 = bs.take budget) := by
  unfold deliver
  by_cases h : bs.length ≤ budget
  · simp [h]
  · simp [h, List.take_prefix]

/-- … and nothing more can be said: after such a failure an opened style may stay without its
reset on the stream (an Error record cut after 14 bytes: the style sequence and `ERROR`). Clause
(H) is therefore read as conditional on the stream accepting the bytes. -/
theorem C18_failed_stream_may_lack_reset :
    let bs := render (specToks true 1 (.highlight (.text [69, 82, 82, 79, 82] .nil) (.text [10] .nil)))
    scan ((deliver 14 bs).2) = some ([Tok.sgr { text := some 1, intense := some true }] ++ [69, 82, 82, 79, 82].map Tok.byte)
    ∧ wellNested (sgrToks ([Tok.sgr { text := some 1, intense := some true }] ++ [69, 82, 82, 79, 82].map Tok.byte)) = false := by
  decide

/-! ## history: the two defects found with this model (code before 2b701f0 / 1bc24e0)

These theorems speak about `setStyleN 12` and `doWriteWith false`, which no longer exist in /repo.
They are kept as the record of what was wrong; their names do not start with `C18_`. -/

def SgrWellformed (n : Nat) : Prop := ∀ s ∈ allStyles, setStyleN n s = .ok (sgr s)

/-- [exhaustive: 243 styles] with the old 12-byte buffer `set_style` panicked on exactly the styles
with text, background and `intense(false)` … -/
theorem Hist_C18_sgr_overflow_exact :
    ∀ s ∈ allStyles, (setStyleN 12 s).isPanic = overflowClass s := by
  decide +kernel

/-- … which are 64 of the 243. -/
theorem Hist_C18_sgr_overflow_count :
    (allStyles.filter overflowClass).length = 64 ∧ allStyles.length = 243 := by
  decide +kernel

theorem Hist_C18_sgr_wellformed_false_at_12 : ¬ SgrWellformed 12 := by
  unfold SgrWellformed; decide +kernel

theorem Hist_C18_sgr_overflow_witness :
    (setStyleN 12 { text := some 1, background := some 4, intense := some false }).isPanic = true := by
  decide

def TtyOnlyStatement (usesIsatty : Bool) : Prop :=
  ∀ (e : Env) (tty ttyOnly : Bool),
    doWriteWith usesIsatty (writerKind (colorMode e) tty) tty ttyOnly = shouldWrite tty ttyOnly

/-- NO_COLOR=1 on a real terminal silenced a tty_only appender. -/
theorem Hist_C18_tty_only_no_color_on_terminal_was_silent :
    doWriteWith false (writerKind (colorMode { noColor := .one }) true) true true = false
    ∧ shouldWrite true true = true := by decide

/-- CLICOLOR_FORCE=1 made a tty_only appender write into a pipe. -/
theorem Hist_C18_tty_only_force_on_pipe_wrote :
    doWriteWith false (writerKind (colorMode { clicolorForce := .one }) false) false true = true
    ∧ shouldWrite false true = false := by decide

theorem Hist_C18_tty_only_false_before_fix : ¬ TtyOnlyStatement false := by
  intro h
  have := h { noColor := .one } true true
  revert this
  decide

/-- exact extent of the old defect: wrong on exactly the restricted appenders whose colour
decision differs from "the target is a terminal". -/
theorem Hist_C18_tty_only_exact_failures (e : Env) (tty ttyOnly : Bool) :
    (doWriteWith false (writerKind (colorMode e) tty) tty ttyOnly ≠ shouldWrite tty ttyOnly) ↔
      (ttyOnly = true ∧ colourEnabled e tty ≠ tty) := by
  rcases e with ⟨a, b, c⟩
  cases a <;> cases b <;> cases c <;> cases tty <;> cases ttyOnly <;> decide

/-! ## non-vacuity (tests on samples, not proofs of the property) -/

/-- `{h(A{h(B)}C)}D` for an Error record on a colour writer: nested groups, each followed by a reset -/
example :
    encodeChunks .tty 1 (.highlight (.text [65] (.highlight (.text [66] .nil) (.text [67] .nil))) (.text [68] .nil))
      = .ok ([27, 91, 48, 59, 51, 49, 59, 49, 109, 65,
              27, 91, 48, 59, 51, 49, 59, 49, 109, 66, 27, 91, 48, 109, 67,
              27, 91, 48, 109, 68]) := by decide

example : escFree (.highlight (.text [65] (.highlight (.text [66] .nil) (.text [67] .nil))) (.text [68] .nil)) = true := by
  decide

/-- `{h(hello world):.5}|` for an Error record on a colour writer: the text is cut to `hello`, the
reset still follows; and with `.0` nothing but style and reset remains -/
example :
    encodeFormatted .tty 1 (.highlight { maxW := some 5 } (.text "hello world".toList .nil) (.text ['|'] .nil))
      = .ok ([27, 91, 48, 59, 51, 49, 59, 49, 109, 104, 101, 108, 108, 111, 27, 91, 48, 109, 124]) ∧
    encodeFormatted .tty 1 (.group { maxW := some 0 } (.highlight {} (.text ['a'] .nil) .nil) .nil)
      = .ok ([27, 91, 48, 59, 51, 49, 59, 49, 109, 27, 91, 48, 109]) := by decide

/-- right-aligned `{h(a):*>3}`: the fill characters come BEFORE the style, the reset directly
after the `a` — and the verdict rejects `style, reset, a` and a wrong text (the reviewer's two
false passes) -/
example :
    specFToks true 1 (.highlight { minW := some 3, right := true, fill := '*' } (.text ['a'] .nil) .nil)
      = [Tok.byte 42, Tok.byte 42, Tok.sgr { text := some 1, intense := some true }, Tok.byte 97, Tok.sgr {}] ∧
    formattedVerdict true 1 (.highlight { minW := some 1 } (.text ['a'] .nil) .nil)
      ([27,91,48,59,51,49,59,49,109] ++ [27,91,48,109] ++ [97]) ≠ .ok ∧
    formattedVerdict true 1 (.highlight { minW := some 1 } (.text ['a'] .nil) .nil)
      ([27,91,48,59,51,49,59,49,109] ++ [120,121,122] ++ [27,91,48,109]) ≠ .ok := by decide

/-- a stream whose reset was swallowed is not well nested (what `sig=C18/highlight-reset-missing` reports) -/
example : wellNested [{ text := some 1, intense := some true }] = false ∧
    wellNested [{ text := some 1, intense := some true }, Style.plain] = true := by decide

/-- two appenders, stdout a pipe and stderr a terminal, nothing set in the environment: the
restricted stdout appender is silent, the stderr appender writes in colour — whatever the order -/
example :
    let g : Global := { env := {}, ttyOut := false, ttyErr := true }
    let cs : Nat → Chunks := fun _ => .highlight (.text [65] .nil) (.text [10] .nil)
    runPlan g [⟨.stdout, true, .ttyOnlyThenTarget⟩, ⟨.stderr, true, .ttyOnlyThenTarget⟩] cs [2]
      = .ok { out := [], err := [27, 91, 48, 59, 51, 51, 109, 65, 27, 91, 48, 109, 10] } ∧
    runPlan g [⟨.stderr, true, .viaConfig⟩, ⟨.stdout, true, .targetThenTtyOnly⟩] cs [2]
      = .ok { out := [], err := [27, 91, 48, 59, 51, 51, 109, 65, 27, 91, 48, 109, 10] } := by decide

example : colorMode {} = .auto ∧ colorMode { clicolorForce := .one } = .always ∧
    colorMode { noColor := .one, clicolorForce := .one } = .never := by decide

example : setStyle { text := some 1, background := some 4, intense := some false }
    = .ok [27, 91, 48, 59, 51, 49, 59, 52, 52, 59, 50, 50, 109] := by decide

/-- the strict scanner rejects sequences outside the grammar (wrong order, missing 0, unterminated) -/
example : scan [27, 91, 48, 59, 49, 59, 51, 49, 109] = none ∧ scan [27, 91, 109] = none ∧
    scan [65, 27, 91, 48] = none ∧ scan [27, 91, 48, 59, 51, 56, 109] = none := by decide

end Log4rs.Console
