import Log4rsModel.Console.LemmasFormatted
/-
C18 — Console output obeys tty_only and colour policy; ANSI sequences are well-formed.

Only property theorems and non-vacuity examples live here; helpers are in Console/Lemmas.lean.
Every finite domain is enumerated COMPLETELY: the 27 environments × terminal/pipe × tty_only are
covered by case analysis on the *types* (`Env`, `Bool`: every inhabitant, not a sample), the 243
styles by `decide +kernel` over the whole table `allStyles` — these are proofs, marked
[exhaustive]. Highlight nestings are unbounded; those theorems are by induction on the pattern.
Several appenders in one process: `C18_appenders_independent` / `C18_plan_spec` (the process-wide lazy
`COLOR_MODE` cell and the builder's setter calls are explicit in the model).
Patterns whose highlight groups (and the groups around them) carry format specs are covered by the
`…_formatted` theorems: the writer stack is `codeFmtOps` (C10), the only fact used about it is
`C10_styles_preserved`.

Two clauses of the statement are FALSE of the current code (model defaults `bufLen = 12`,
`ttyOnlyUsesIsatty = false`):
  F1  `SgrWellformed 12` fails: 64 of the 243 styles (text + background + intense(false)) store to
      `buf[12]` of a `[u8; 12]` and panic                         → `C18_sgr_wellformed_false_at_12`
  F2  `TtyOnlyStatement false` fails: `do_write` is keyed on "a colour writer was obtained"
                                                                  → `C18_tty_only_false_of_current_code`
For both, the full statement is proved of the repaired variant (`…_fixed`: buffer of 13, isatty
test), a `…_partial` theorem covers the inputs on which the current code is right, and a
`…_status` theorem ties the truth of the full statement to the model flag (so this file keeps
compiling when the integrator flips the flags after the `fix:` commits).
-/
namespace Log4rs.Console
open Log4rs Log4rs.Console.Spec

/-! ## the enumerations are complete -/

/-- [exhaustive] `allEnvs` lists every environment the code can distinguish: 27. -/
theorem C18_allEnvs_complete : (∀ e : Env, e ∈ allEnvs) ∧ allEnvs.length = 27 := by
  refine ⟨?_, by decide⟩
  intro e
  rcases e with ⟨a, b, c⟩
  cases a <;> cases b <;> cases c <;> decide

/-- `allStyles` is exactly the styles whose colours are one of the eight `Color`s: 243. -/
theorem C18_allStyles_complete :
    (∀ s : Style, s ∈ allStyles ↔
      ((∀ c, s.text = some c → c < 8) ∧ (∀ c, s.background = some c → c < 8))) ∧
    allStyles.length = 243 := by
  exact ⟨mem_allStyles_iff, by decide +kernel⟩

/-! ## (C) colour precedence -/

/-- [exhaustive: 27 environments × terminal/pipe] A colour writer — the only source of escape
sequences — is obtained exactly when the statement's rule enables colour: never under NO_COLOR,
otherwise always under CLICOLOR_FORCE, otherwise never under CLICOLOR=0, otherwise only on
terminals. -/
theorem C18_color_precedence (e : Env) (tty : Bool) :
    (writerKind (colorMode e) tty = .tty) ↔ colourEnabled e tty = true := by
  rcases e with ⟨a, b, c⟩
  cases a <;> cases b <;> cases c <;> cases tty <;> decide

/-- [exhaustive] the cascade of the statement is the formula ¬NO_COLOR ∧ (FORCE ∨ (CLICOLOR≠0 ∧ tty)) -/
theorem C18_color_rule_is_formula (e : Env) (tty : Bool) :
    colourEnabled e tty = colourEnabledFormula e tty := by
  rcases e with ⟨a, b, c⟩
  cases a <;> cases b <;> cases c <;> cases tty <;> rfl

/-- [exhaustive] the three modes, in the statement's vocabulary -/
theorem C18_color_mode_table (e : Env) :
    colorMode e =
      if isSet e.noColor then .never
      else if isSet e.clicolorForce then .always
      else if e.clicolor == .zero then .never else .auto := by
  rcases e with ⟨a, b, c⟩
  cases a <;> cases b <;> cases c <;> rfl

/-! ## (S) one well-formed SGR sequence with exactly the requested attributes -/

/-- the full clause (S) for a buffer of `n` bytes -/
def SgrWellformed (n : Nat) : Prop := ∀ s ∈ allStyles, setStyleN n s = .ok (sgr s)

/-- [exhaustive: 243 styles] with a 13-byte buffer every style request yields the canonical
sequence ESC [ 0 (;3c)? (;4c)? (;1|;22)? m of exactly its attributes. -/
theorem C18_sgr_wellformed_fixed : SgrWellformed 13 := by
  unfold SgrWellformed; decide +kernel

/-- the same, symbolically in the colour digits (no table) -/
theorem C18_sgr_wellformed_fixed_symbolic (s : Style) : setStyleN 13 s = .ok (sgr s) := by
  rcases s with ⟨t, b, i⟩
  cases t <;> cases b <;> (rcases i with _ | _ | _) <;> rfl

/-- [exhaustive: 243 styles] "encoding exactly the requested attributes": the strict grammar
parser reads back precisely the style that was requested — nothing added, nothing dropped. -/
theorem C18_sgr_exact_attributes : ∀ s ∈ allStyles, parseSgr (sgr s) = some s := parseSgr_table

/-- The grammar of the specification is exact, for every byte string: the strict parser accepts
`bs` as the style `s` iff `s` is one of the 243 styles and `bs` is its canonical sequence. (So the
scanner used for the verdict on real output accepts nothing but well-formed sequences.) -/
theorem C18_sgr_grammar_exact (bs : Bytes) (s : Style) :
    parseSgr bs = some s ↔ (s ∈ allStyles ∧ bs = sgr s) := by
  constructor
  · intro h
    exact ⟨(parseSgr_sound bs s h).2, (parseSgr_sound bs s h).1⟩
  · rintro ⟨hs, rfl⟩
    exact parseSgr_table s hs

/-- [exhaustive: 243 styles] F1, exact extent: with the 12-byte buffer of the current code
`set_style` panics on exactly the styles with text, background and `intense(false)` … -/
theorem C18_sgr_overflow_exact :
    ∀ s ∈ allStyles, (setStyleN 12 s).isPanic = overflowClass s := by
  decide +kernel

/-- … which are 64 of the 243. -/
theorem C18_sgr_overflow_count :
    (allStyles.filter overflowClass).length = 64 ∧ allStyles.length = 243 := by
  decide +kernel

/-- F1: the full clause (S) is false of the code as it is (12-byte buffer). -/
theorem C18_sgr_wellformed_false_at_12 : ¬ SgrWellformed 12 := by
  unfold SgrWellformed; decide +kernel

/-- F1, the witness used as replay: red on blue, `intense(false)`. -/
theorem C18_sgr_overflow_witness :
    (setStyleN 12 { text := some 1, background := some 4, intense := some false }).isPanic = true := by
  decide

/-- [exhaustive: the other 179 styles] partial version for the model's current flag. -/
theorem C18_sgr_wellformed_partial :
    ∀ s ∈ allStyles, overflowClass s = false → setStyle s = .ok (sgr s) := by
  unfold setStyle; decide +kernel

/-- [exhaustive] the full clause holds of the model exactly when its buffer flag is ≥ 13
(false now; true after the flip). -/
theorem C18_sgr_wellformed_status : SgrWellformed bufLen ↔ 13 ≤ bufLen := by
  unfold SgrWellformed; decide +kernel

/-! ## (W) tty_only -/

/-- the full clause (W) for a given way of computing `do_write` -/
def TtyOnlyStatement (usesIsatty : Bool) : Prop :=
  ∀ (e : Env) (tty ttyOnly : Bool),
    doWriteWith usesIsatty (writerKind (colorMode e) tty) tty ttyOnly = shouldWrite tty ttyOnly

/-- [exhaustive: 27 × 2 × 2] with `do_write` decided by an isatty test of the target stream, a
restricted appender writes iff the target is a terminal and an unrestricted one always writes —
whatever the colour variables say. -/
theorem C18_tty_only_spec_fixed : TtyOnlyStatement true := by
  intro e tty ttyOnly
  rcases e with ⟨a, b, c⟩
  cases a <;> cases b <;> cases c <;> cases tty <;> cases ttyOnly <;> rfl

/-- F2 witness 1: NO_COLOR=1 on a real terminal silences a tty_only appender. -/
theorem C18_tty_only_F2_no_color_on_terminal_is_silent :
    doWriteWith false (writerKind (colorMode { noColor := .one }) true) true true = false
    ∧ shouldWrite true true = true := by decide

/-- F2 witness 2: CLICOLOR_FORCE=1 makes a tty_only appender write into a pipe. -/
theorem C18_tty_only_F2_force_on_pipe_writes :
    doWriteWith false (writerKind (colorMode { clicolorForce := .one }) false) false true = true
    ∧ shouldWrite false true = false := by decide

/-- F2: the full clause (W) is false of the code as it is. -/
theorem C18_tty_only_false_of_current_code : ¬ TtyOnlyStatement false := by
  intro h
  have := h { noColor := .one } true true
  revert this
  decide

/-- [exhaustive] F2, exact extent: the current code is wrong on exactly the restricted appenders
whose colour decision differs from "the target is a terminal". -/
theorem C18_tty_only_exact_failures (e : Env) (tty ttyOnly : Bool) :
    (doWriteWith false (writerKind (colorMode e) tty) tty ttyOnly ≠ shouldWrite tty ttyOnly) ↔
      (ttyOnly = true ∧ colourEnabled e tty ≠ tty) := by
  rcases e with ⟨a, b, c⟩
  cases a <;> cases b <;> cases c <;> cases tty <;> cases ttyOnly <;> decide

/-- [exhaustive] partial version for the model's current flag: on the colour-neutral rows (mode
Auto: no NO_COLOR, no CLICOLOR_FORCE, CLICOLOR not 0) the restricted appender is right. -/
theorem C18_tty_only_spec_partial (e : Env) (tty ttyOnly : Bool) (h : colorMode e = .auto) :
    doWrite (writerKind (colorMode e) tty) tty ttyOnly = shouldWrite tty ttyOnly := by
  rcases e with ⟨a, b, c⟩
  cases a <;> cases b <;> cases c <;> cases tty <;> cases ttyOnly <;>
    first | rfl | (exfalso; revert h; decide)

/-- [exhaustive] an unrestricted appender always writes — true of both variants of the code. -/
theorem C18_unrestricted_always_writes (usesIsatty : Bool) (e : Env) (tty : Bool) :
    doWriteWith usesIsatty (writerKind (colorMode e) tty) tty false = true := by
  rcases e with ⟨a, b, c⟩
  cases usesIsatty <;> cases a <;> cases b <;> cases c <;> cases tty <;> rfl

/-- [exhaustive] the full clause holds of the model exactly when its flag selects the isatty
test (false now; true after the flip). -/
theorem C18_tty_only_status : TtyOnlyStatement ttyOnlyUsesIsatty ↔ ttyOnlyUsesIsatty = true := by
  constructor
  · intro h
    cases hf : ttyOnlyUsesIsatty with
    | true => rfl
    | false => exact absurd (hf ▸ h) C18_tty_only_false_of_current_code
  · intro h
    rw [h]
    exact C18_tty_only_spec_fixed

/-! ## (H) highlighted groups, every level, every nesting -/

/-- For every writer kind, record level and pattern (any nesting depth of `{h(…)}`): the encoder
output is the rendering of the specified token stream — with colour, each group of a styled level
is `one SGR sequence of the level's style, the group's content, ESC[0m`; without colour, or for
Debug, the content alone. No panic (the highlight styles need at most 10 bytes). -/
theorem C18_highlight_reset (kind : WriterKind) (level : Nat) (cs : Chunks) :
    encodeChunks kind level cs = .ok (specEncode kind.isTty level cs) :=
  encodeChunksN_eq_spec bufLen bufLen_ok kind level cs

/-- the shape of one group on a colour writer, spelled out: style ++ content ++ ESC[0m -/
theorem C18_highlight_group_followed_by_reset (level : Nat) (st : Style)
    (h : highlightStyle level = some st) (inner : Chunks) :
    encodeChunks .tty level (.highlight inner .nil) =
      .ok (sgr st ++ specEncode true level inner ++ resetSeq) := by
  rw [C18_highlight_reset]
  simp [specEncode, specToks, WriterKind.isTty, h, render_append, render, sgr, resetSeq, Style.plain]

/-- The strict scanner accepts the output for every nesting and reads back exactly the specified
tokens: every ESC starts one well-formed SGR sequence, every style token of a group is followed by
its reset token. -/
theorem C18_output_scans (kind : WriterKind) (level : Nat) (cs : Chunks) (h : escFree cs = true) :
    ∃ bs, encodeChunks kind level cs = .ok bs ∧ scan bs = some (specToks kind.isTty level cs) := by
  refine ⟨_, C18_highlight_reset kind level cs, ?_⟩
  exact scan_render _ (specToks_bytes _ _ _ h)
    (fun s hs => scan_sgr_table s (specToks_sgrs _ _ _ s hs))

/-- Debug level (and any level without a style): no escape sequence at all, on any writer. -/
theorem C18_debug_no_escape (kind : WriterKind) (level : Nat) (hl : highlightStyle level = none)
    (cs : Chunks) :
    encodeChunks kind level cs = .ok (plainText cs) ∧
      (escFree cs = true → ∀ b ∈ plainText cs, b ≠ 27) := by
  refine ⟨?_, plainText_escFree cs⟩
  rw [C18_highlight_reset, specEncode, specToks_unstyled _ _ hl, render_bytes]

theorem C18_debug_level_has_no_style : highlightStyle 4 = none := rfl

/-- Without a colour writer: the plain text, no escape sequence, for every level and nesting. -/
theorem C18_no_colour_no_escape (level : Nat) (cs : Chunks) :
    encodeChunks .raw level cs = .ok (plainText cs) := by
  rw [C18_highlight_reset, specEncode]
  simp only [WriterKind.isTty]
  rw [specToks_no_colour, render_bytes]

/-! ## (H) with format specs on and around highlight groups, at every nesting level

`{h(…):<8.5}`, `{({h(…)}):.3}`, …: the group's `set_style` calls travel through the width / fill /
alignment writer stack of `Chunk::encode` (`codeFmtOps`, proved in C10 to be what the byte-level
writers do; `C10_styles_preserved`: the stack never drops, duplicates or reorders style calls). -/

/-- a sink can serve every style request a pattern makes (the highlight styles need ≤ 10 bytes) -/
theorem C18_formatted_styles_fit (level : Nat) (f : FChunks) :
    ∀ s ∈ Pattern.Out.styles (opsOf level f), setStyleN bufLen s = .ok (sgr s) ∧ s ∈ allStyles := by
  intro s hs
  rw [styles_opsOf] at hs
  rcases specStyles_mem level f s hs with h | h
  · exact ⟨setStyleN_highlight bufLen bufLen_ok level s h, highlightStyle_mem level s h⟩
  · subst h; exact ⟨setStyleN_plain bufLen bufLen_ok, plain_mem⟩

/-- For every writer kind, level and pattern whose highlight groups — and the groups around them,
to any depth — carry ARBITRARY parameters (any fill, either alignment, any minimum and maximum
width, maximum 0 and minimum > maximum included): the encoder output is well defined (no panic),
and the SGR sequences in it are exactly one opening style and one reset per highlighted group of
a styled level, in nesting order (`specStyles`, which ignores all parameters) — every opening
sequence is matched by a later reset, however much of the group's text was cut. On a writer
without colour there is no sequence at all. -/
theorem C18_highlight_reset_formatted (kind : WriterKind) (level : Nat) (f : FChunks) :
    encodeFormatted kind level f = .ok (render (toksOfOps kind.isTty (opsOf level f))) ∧
    sgrToks (toksOfOps kind.isTty (opsOf level f)) = (if kind.isTty then specStyles level f else []) ∧
    wellNested (specStyles level f) = true := by
  refine ⟨?_, ?_, ?_⟩
  · exact sinkN_eq bufLen kind _ (fun s hs => (C18_formatted_styles_fit level f s hs).1)
  · rw [sgrToks_toksOfOps, styles_opsOf]
  · have := wellNestedFrom_specStyles level f 0 []
    simpa [wellNested, wellNestedFrom] using this

/-- One group, spelled out: whatever its parameters `p` (e.g. `maxW = some 0`: every character is
swallowed), the style calls that reach the sink are the level's style, the inner groups' calls,
and the reset. -/
theorem C18_highlight_group_followed_by_reset_formatted (p : Pattern.Params) (level : Nat)
    (st : Style) (h : highlightStyle level = some st) (inner : FChunks) :
    Pattern.Out.styles (opsOf level (.highlight p inner .nil)) =
      st :: specStyles level inner ++ [Style.plain] := by
  rw [styles_opsOf]
  simp [specStyles, h]

/-- The strict scanner accepts the output of every such pattern, reads back exactly the style
requests, and the executable Spec verdict used on the real bytes is `ok` on the model's bytes. -/
theorem C18_formatted_output_scans (kind : WriterKind) (level : Nat) (f : FChunks)
    (h : fEscFree f = true) :
    ∃ bs toks, encodeFormatted kind level f = .ok bs ∧ scan bs = some toks ∧
      sgrToks toks = (if kind.isTty then specStyles level f else []) ∧
      formattedVerdict kind.isTty level f bs = .ok := by
  obtain ⟨h1, h2, h3⟩ := C18_highlight_reset_formatted kind level f
  have hscan : scan (render (toksOfOps kind.isTty (opsOf level f))) =
      some (toksOfOps kind.isTty (opsOf level f)) := by
    apply scan_render
    · exact toksOfOps_bytes _ _ (opsOf_escFree level f h)
    · intro s hs
      exact scan_sgr_table s (C18_formatted_styles_fit level f s (toksOfOps_sgrs _ _ s hs)).2
  refine ⟨_, _, h1, hscan, h2, ?_⟩
  simp only [formattedVerdict, hscan, h2]
  cases kind <;> simp [WriterKind.isTty, h3]

/-- Patterns without any width parameter: the formatted model is the byte-level model of
`Model.lean` (so `C18_highlight_reset` … `C18_console_spec_fixed` speak about the same encoder). -/
theorem C18_formatted_generalises (kind : WriterKind) (level : Nat) (f : FChunks)
    (h : f.unformatted = true) :
    encodeFormatted kind level f = encodeChunks kind level f.erase := by
  rw [(C18_highlight_reset_formatted kind level f).1, C18_highlight_reset, specEncode,
    toksOfOps_unformatted _ _ _ h]

/-! ## the appender end to end: stream, silence, colour -/

/-- The repaired code (13-byte buffer, isatty test) satisfies the whole statement: for every
environment, terminal/pipe per stream, target, tty_only, level and pattern, the chosen stream
receives the specified bytes (or nothing when a restricted appender's target is no terminal) and
the other stream nothing. -/
theorem C18_console_spec_fixed (s : Setup) (level : Nat) (cs : Chunks) :
    appendWith 13 true s level cs = .ok (expectedAppend s level cs) := by
  have hk : (writerKind (colorMode s.env) s.targetIsatty).isTty = colourEnabled s.env s.targetIsatty := by
    have := C18_color_precedence s.env s.targetIsatty
    cases hw : writerKind (colorMode s.env) s.targetIsatty <;>
      cases hc : colourEnabled s.env s.targetIsatty <;> simp_all [WriterKind.isTty]
  simp only [appendWith, expectedAppend, doWriteWith, if_true, shouldWrite]
  rw [encodeChunksN_eq_spec 13 (Or.inr rfl), hk]
  cases s.targetIsatty <;> cases s.ttyOnly <;> simp [obind]

/-- Partial version for the model's current flags: on the colour-neutral rows and for every
unrestricted appender the current code satisfies the whole statement. -/
theorem C18_console_spec_partial (s : Setup) (level : Nat) (cs : Chunks)
    (h : colorMode s.env = .auto ∨ s.ttyOnly = false) :
    append s level cs = .ok (expectedAppend s level cs) := by
  have hk : (writerKind (colorMode s.env) s.targetIsatty).isTty = colourEnabled s.env s.targetIsatty := by
    have := C18_color_precedence s.env s.targetIsatty
    cases hw : writerKind (colorMode s.env) s.targetIsatty <;>
      cases hc : colourEnabled s.env s.targetIsatty <;> simp_all [WriterKind.isTty]
  have hw : doWriteWith ttyOnlyUsesIsatty (writerKind (colorMode s.env) s.targetIsatty)
      s.targetIsatty s.ttyOnly = shouldWrite s.targetIsatty s.ttyOnly := by
    rcases h with h | h
    · exact C18_tty_only_spec_partial s.env s.targetIsatty s.ttyOnly h
    · rw [h, C18_unrestricted_always_writes]; simp [shouldWrite]
  simp only [append, appendWith, expectedAppend, hw]
  rw [encodeChunksN_eq_spec bufLen bufLen_ok, hk]
  cases shouldWrite s.targetIsatty s.ttyOnly <;> simp [obind]

/-- Escape bytes reach a stream only when colour is enabled by the statement's rule — true of the
current code as well (F2 concerns *whether* it writes, not what). -/
theorem C18_escapes_only_when_enabled (s : Setup) (level : Nat) (cs : Chunks)
    (hf : escFree cs = true) (st : Streams) (h : append s level cs = .ok st)
    (hesc : 27 ∈ st.out ∨ 27 ∈ st.err) : colourEnabled s.env s.targetIsatty = true := by
  apply (C18_color_precedence s.env s.targetIsatty).mp
  cases hk : writerKind (colorMode s.env) s.targetIsatty with
  | tty => rfl
  | raw =>
    exfalso
    simp only [append, appendWith, hk] at h
    rw [encodeChunksN_eq_spec bufLen bufLen_ok] at h
    simp only [WriterKind.isTty, specEncode, specToks_no_colour, render_bytes, obind] at h
    have hp := plainText_escFree cs hf
    split at h
    · cases h
      revert hesc
      cases s.target <;> simp [Streams.on] <;> exact fun hm => hp 27 hm rfl
    · cases h
      simp at hesc

/-! ## several appenders in one process: each one is judged by its own stream -/

/-- The builder's setters only store: whatever the order of `.target(..)` / `.tty_only(..)`, and
through the config deserializer, the builder ends up with exactly the item's target and flag. -/
theorem C18_builder_call_order_irrelevant (it : PlanItem) :
    builderOf it = { target := it.target, ttyOnly := it.ttyOnly } := builderOf_eq it

/-- For every plan (any number of appenders, any targets, flags, builder call orders, in any build
order), every environment and every terminal status of the two streams, for both variants of the
code: the output of the process is the single-appender outputs one after the other, where each
single-appender output depends on nothing but the environment, ITS OWN target, that target's
terminal status and its own tty_only flag (`setupOf` has no call order, and `appendAllWith` never
looks at the other stream's status: `C18_console_spec_fixed`). The lazily initialised process-wide
`COLOR_MODE` is threaded through the builds explicitly; it cannot carry anything from one appender
to the next. -/
theorem C18_appenders_independent (n : Nat) (usesIsatty : Bool) (g : Global) (items : List PlanItem)
    (cs : Nat → Chunks) (levels : List Nat) :
    runPlanWith n usesIsatty g items cs levels =
      seqStreams (items.map fun it => appendAllWith n usesIsatty (setupOf g it) cs levels) := by
  unfold runPlanWith
  rw [buildAllWith_eq usesIsatty g items {} (Or.inl rfl), appendAllBuilt_eq]

/-- one appender, one record per level, against the statement -/
theorem C18_item_spec_fixed (g : Global) (it : PlanItem) (cs : Nat → Chunks) (levels : List Nat) :
    appendAllWith 13 true (setupOf g it) cs levels = .ok (expectedItem g it levels cs) := by
  have hi := setupOf_targetIsatty g it
  induction levels with
  | nil =>
    simp only [appendAllWith, expectedItem, List.flatMap_nil]
    split
    · cases it.target <;> rfl
    · rfl
  | cons l ls ih =>
    simp only [appendAllWith, C18_console_spec_fixed, ih, obind, expectedItem, expectedAppend, hi,
      List.flatMap_cons]
    have hs : (setupOf g it).ttyOnly = it.ttyOnly := rfl
    have he : (setupOf g it).env = g.env := rfl
    have ht : (setupOf g it).target = it.target := rfl
    rw [hs, he, ht]
    split
    · have := Streams.on_append it.target
        (specEncode (colourEnabled g.env (g.isatty it.target)) l (cs l))
        (List.flatMap (fun l => specEncode (colourEnabled g.env (g.isatty it.target)) l (cs l)) ls)
      simpa [Streams.append] using this
    · rfl

/-- The whole plan against the statement (the model's current flags are the repaired code): stdout
and stderr carry exactly what the appenders targeting them must write, in build order. -/
theorem C18_plan_spec (g : Global) (items : List PlanItem) (cs : Nat → Chunks) (levels : List Nat) :
    runPlan g items cs levels = .ok (expectedPlan g items levels cs) := by
  show runPlanWith 13 true g items cs levels = _
  rw [C18_appenders_independent]
  simp only [C18_item_spec_fixed]
  induction items with
  | nil => rfl
  | cons it its ih =>
    simp only [List.map_cons, seqStreams, ih, obind, expectedPlan, List.foldr_cons]

/-! ## non-vacuity (tests on samples, not proofs of the property) -/

/-- `{h(A{h(B)}C)}D` for an Error record on a colour writer: nested groups, each followed by a reset -/
example :
    encodeChunks .tty 1 (.highlight (.text [65] (.highlight (.text [66] .nil) (.text [67] .nil))) (.text [68] .nil))
      = .ok ([27, 91, 48, 59, 51, 49, 59, 49, 109, 65,
              27, 91, 48, 59, 51, 49, 59, 49, 109, 66, 27, 91, 48, 109, 67,
              27, 91, 48, 109, 68]) := by decide

/-- the same pattern is escape-free input, so `C18_output_scans` applies to it -/
example : escFree (.highlight (.text [65] (.highlight (.text [66] .nil) (.text [67] .nil))) (.text [68] .nil)) = true := by
  decide

/-- `{h(hello world):.5}|` for an Error record on a colour writer: the text is cut to `hello`, the
reset still follows; and with `.0` nothing but style and reset remains -/
example :
    encodeFormatted .tty 1 (.highlight { maxW := some 5 } (.text "hello world".toList .nil) (.text ['|'] .nil))
      = .ok ([27, 91, 48, 59, 51, 49, 59, 49, 109, 104, 101, 108, 108, 111, 27, 91, 48, 109, 124]) ∧
    encodeFormatted .tty 1 (.group { maxW := some 0 } (.highlight {} (.text ['a'] .nil) .nil) .nil)
      = .ok ([27, 91, 48, 59, 51, 49, 59, 49, 109, 27, 91, 48, 109]) := by decide

/-- a stream whose reset was swallowed is not well nested (what `sig=C18/highlight-reset-missing` reports) -/
example : wellNested [{ text := some 1, intense := some true }] = false ∧
    wellNested [{ text := some 1, intense := some true }, Style.plain] = true := by decide

/-- two appenders, stdout a pipe and stderr a terminal, nothing set in the environment: the
restricted stdout appender is silent, the stderr appender writes in colour — whatever the order -/
example :
    let g : Global := { env := {}, ttyOut := false, ttyErr := true }
    let cs : Nat → Chunks := fun _ => .highlight (.text [65] .nil) (.text [10] .nil)
    runPlan g [⟨.stdout, true, .ttyOnlyThenTarget⟩, ⟨.stderr, true, .ttyOnlyThenTarget⟩] cs [2]
      = .ok { out := [], err := [27, 91, 48, 59, 51, 51, 109, 65, 27, 91, 48, 109, 10] } ∧
    runPlan g [⟨.stderr, true, .viaConfig⟩, ⟨.stdout, true, .targetThenTtyOnly⟩] cs [2]
      = .ok { out := [], err := [27, 91, 48, 59, 51, 51, 109, 65, 27, 91, 48, 109, 10] } := by decide

/-- a colour-neutral environment exists (hypothesis of the `_partial` theorems) and a forced one too -/
example : colorMode {} = .auto ∧ colorMode { clicolorForce := .one } = .always ∧
    colorMode { noColor := .one, clicolorForce := .one } = .never := by decide

/-- a style outside the overflow class with all three attributes, and its bytes -/
example : setStyle { text := some 1, background := some 4, intense := some true }
    = .ok [27, 91, 48, 59, 51, 49, 59, 52, 52, 59, 49, 109] := by decide

/-- the strict scanner rejects sequences outside the grammar (wrong order, missing 0, unterminated) -/
example : scan [27, 91, 48, 59, 49, 59, 51, 49, 109] = none ∧ scan [27, 91, 109] = none ∧
    scan [65, 27, 91, 48] = none ∧ scan [27, 91, 48, 59, 51, 56, 109] = none := by decide

end Log4rs.Console
