import Log4rsModel.Json.LemmasHist
/-
C12 — JSON encoder: one record, one line, and the fields round-trip exactly.
Only property theorems and non-vacuity examples live here; helpers are in Json/Lemmas*.lean.
All theorems are unconditional: they hold for every environment and record, i.e. for arbitrary
strings (all Unicode scalar values) in every text position, every level, every presence pattern of
the optional fields, every MDC association list.
-/
namespace Log4rs.Json

/-- One line: the output is a body followed by exactly one newline, and no character of the body is
    below 0x20 — no raw newline or control character, whatever the fields contain. -/
theorem C12_one_line (env : Env) (r : Record) :
    ∃ body, jsonLine env r = body ++ ['\n'] ∧ ∀ c ∈ body, c.toNat ≥ 0x20 :=
  ⟨object (messageMembers env r), rfl, body_printable env r⟩

/-- The only newline of the output is the last character (a field value cannot start a new line). -/
theorem C12_single_newline (env : Env) (r : Record) : (jsonLine env r).count '\n' = 1 := by
  have h : (object (messageMembers env r)).count '\n' = 0 := by
    apply List.count_eq_zero.mpr
    intro hm
    have := body_printable env r _ hm
    exact absurd this (by decide)
  simp [jsonLine, NEWLINE, List.count_append, h]

/-- The executable one-line check used on the implementation's output accepts the model's output. -/
theorem C12_one_line_check (env : Env) (r : Record) : oneLine (jsonLine env r) = true := by
  have hb := body_printable env r
  simp only [oneLine, jsonLine, NEWLINE, List.reverse_append, List.reverse_cons, List.reverse_nil,
    List.nil_append, List.cons_append, List.all_eq_true, List.mem_reverse, decide_eq_true_eq]
  exact hb

/-- Escaping is inverted exactly by a standard JSON string reader, for every string. -/
theorem C12_unescape_escape (s : List Char) : unescape (escape s) = some s := unescape_escape s

/-- Hence two different texts never have the same escaped form. -/
theorem C12_escape_injective (s t : List Char) (h : escape s = escape t) : s = t := by
  have := unescape_escape s
  rw [h, unescape_escape] at this
  exact (Option.some.inj this).symm

/-- Structure: read back, the object has exactly the members `membersOf env r` — the keys in the
    fixed declaration order, each with its value, the MDC as a nested map in iteration order. -/
theorem C12_members_in_order (env : Env) (r : Record) :
    readLineMembers (jsonLine env r) = some (membersOf env r) := readLineMembers_jsonLine env r

/-- Round trip: the line parses back to the record's message, level, target, module path, file,
    line, thread name and MDC entries exactly (and to the time text and thread id it was given). -/
theorem C12_fields_roundtrip (env : Env) (r : Record) :
    readObj (jsonLine env r) = some (fieldsOf env r) := by
  simp [readObj, readLineMembers_jsonLine, toFields_membersOf]

/-- Absent module path, file and line are omitted: the keys of the emitted object are exactly
    `expectedKeys r`, which contains an optional key iff the field is present. -/
theorem C12_absent_omitted (env : Env) (r : Record) :
    keysOf (jsonLine env r) = some (expectedKeys r) ∧
    (kModulePath ∈ expectedKeys r ↔ r.modulePath.isSome) ∧
    (kFile ∈ expectedKeys r ↔ r.file.isSome) ∧
    (kLine ∈ expectedKeys r ↔ r.line.isSome) := by
  have h := expectedKeysB_mem r.modulePath.isSome r.file.isSome r.line.isSome
  exact ⟨by simp [keysOf, readLineMembers_jsonLine, membersOf_keys], h.1, h.2.1, h.2.2⟩

/-- Never a placeholder: an absent optional field reads back as absent, a present one as itself. -/
theorem C12_no_placeholder (env : Env) (r : Record) :
    (readObj (jsonLine env r)).map (fun f => (f.modulePath, f.file, f.line))
      = some (r.modulePath, r.file, r.line) := by
  rw [C12_fields_roundtrip]; rfl

/-- The level is written as its upper-case name, and the name determines the level. -/
theorem C12_level_names (l : Level) :
    (l = .error → l.name = ['E','R','R','O','R']) ∧ (l = .warn → l.name = ['W','A','R','N']) ∧
    (l = .info → l.name = ['I','N','F','O']) ∧ (l = .debug → l.name = ['D','E','B','U','G']) ∧
    (l = .trace → l.name = ['T','R','A','C','E']) ∧
    ∀ l', l.name = l'.name → l = l' := by
  refine ⟨?_, ?_, ?_, ?_, ?_, ?_⟩
  iterate 5 (intro h; subst h; rfl)
  intro l'; cases l <;> cases l' <;> decide

/-- The model's output satisfies the executable specification that the driver evaluates on the
    implementation's output. -/
theorem C12_model_satisfies_spec (env : Env) (r : Record) : specLine env r (jsonLine env r) = .ok := by
  simp [specLine, C12_one_line_check, readLineMembers_jsonLine, toFields_membersOf, fieldsOf]

/-- History independence (the sequence-level law): for every history of encodes on one thread with
    one encoder — whatever the earlier steps were and however they ended (writer error after any
    number of bytes, failing `Display`, success) — every step's result is what the same step yields on
    its own; every successful step returns `Ok` and delivers exactly its own record's line; hence the
    outputs of the successful steps are `jsonLine` mapped over them.  (Immediate in the model, where
    the encoder carries the empty state; stated so that the claim and its tie to the code — the
    `seq` cases of the correspondence check — are visible.) -/
theorem C12_history_independent (steps : List Step) :
    (∀ (before after : List Step) (s : Step), steps = before ++ s :: after →
        (runHistory {} steps)[before.length]? = some (encodeStep {} s).2) ∧
    (∀ (before after : List Step) (s : Step), steps = before ++ s :: after → succeeds s = true →
        (runHistory {} steps)[before.length]?
          = some { kind := .ok, received := utf8 (jsonLine s.env s.record) }) ∧
    ((steps.zip (runHistory {} steps)).filter (fun p => succeeds p.1)).map (·.2.received)
      = (steps.filter succeeds).map (fun s => utf8 (jsonLine s.env s.record)) := by
  have hat : ∀ (before after : List Step) (s : Step), steps = before ++ s :: after →
      (runHistory {} steps)[before.length]? = some (encodeStep {} s).2 := by
    intro before after s h
    subst h
    simp [runHistory_eq_map]
  refine ⟨hat, ?_, ?_⟩
  · intro before after s h hs
    rw [hat before after s h]
    have hk := kind_of_succeeds s hs
    have hr : (encodeStep {} s).2.received = utf8 (jsonLine s.env s.record) := received_of_succeeds s hs
    cases hres : (encodeStep {} s).2 with
    | mk kind received =>
      rw [hres] at hk hr
      simp only at hk hr
      rw [hk, hr]
  · rw [runHistory_eq_map]
    induction steps with
    | nil => rfl
    | cons s rest ih =>
      have ih' := ih (by
        intro before after s' h
        subst h
        simp [runHistory_eq_map])
      simp only [List.map_cons, List.zip_cons_cons, List.filter_cons]
      by_cases hs : succeeds s = true
      · have hr : (encodeStep {} s).2.received = utf8 (jsonLine s.env s.record) := received_of_succeeds s hs
        simp only [hs, if_true, List.map_cons, hr]
        rw [ih']
      · simp only [hs, Bool.false_eq_true, if_false]
        exact ih'

/-- An encode that is cut short (writer error after `k` bytes, or a `Display` that gives up after
    `n` characters, or both) has delivered a prefix of its own record's line, no longer than the writer
    allowed; the executable clause used on the implementation's bytes accepts the model's bytes. -/
theorem C12_cut_output_is_prefix (s : Step) :
    received s <+: utf8 (jsonLine s.env s.record) ∧
    (∀ k, s.writer = .failAfter k → (received s).length ≤ k) ∧
    specCutStep s (received s) = true := by
  refine ⟨received_prefix s, ?_, specCutStep_received s⟩
  intro k hk
  simp [received, hk, List.length_take, Nat.min_le_left]

/-! ### non-vacuity / sanity examples (tests on samples, not proofs of the property) -/

/-- quote, backslash, all 32 control characters, DEL, U+2028, U+2029, an astral character -/
def hazard : List Char :=
    ['"', '\\', '\x00', '\x01', '\x02', '\x03', '\x04', '\x05', '\x06', '\x07', '\x08', '\x09',
    '\n', '\x0b', '\x0c', '\x0d', '\x0e', '\x0f', '\x10', '\x11', '\x12', '\x13', '\x14', '\x15',
    '\x16', '\x17', '\x18', '\x19', '\x1a', '\x1b', '\x1c', '\x1d', '\x1e', '\x1f', '\x7f',
    '\u2028', '\u2029', (Char.ofNat 0x1f600)]

example : escape hazard =
    ['\\', '"', '\\', '\\', '\\', 'u', '0', '0', '0', '0', '\\', 'u', '0', '0', '0', '1', '\\',
    'u', '0', '0', '0', '2', '\\', 'u', '0', '0', '0', '3', '\\', 'u', '0', '0', '0', '4', '\\',
    'u', '0', '0', '0', '5', '\\', 'u', '0', '0', '0', '6', '\\', 'u', '0', '0', '0', '7', '\\',
    'b', '\\', 't', '\\', 'n', '\\', 'u', '0', '0', '0', 'b', '\\', 'f', '\\', 'r', '\\', 'u', '0',
    '0', '0', 'e', '\\', 'u', '0', '0', '0', 'f', '\\', 'u', '0', '0', '1', '0', '\\', 'u', '0',
    '0', '1', '1', '\\', 'u', '0', '0', '1', '2', '\\', 'u', '0', '0', '1', '3', '\\', 'u', '0',
    '0', '1', '4', '\\', 'u', '0', '0', '1', '5', '\\', 'u', '0', '0', '1', '6', '\\', 'u', '0',
    '0', '1', '7', '\\', 'u', '0', '0', '1', '8', '\\', 'u', '0', '0', '1', '9', '\\', 'u', '0',
    '0', '1', 'a', '\\', 'u', '0', '0', '1', 'b', '\\', 'u', '0', '0', '1', 'c', '\\', 'u', '0',
    '0', '1', 'd', '\\', 'u', '0', '0', '1', 'e', '\\', 'u', '0', '0', '1', 'f', '\x7f', '\u2028',
    '\u2029', (Char.ofNat 0x1f600)] := by decide +kernel

example : unescape (escape hazard) = some hazard := by decide +kernel

/-- every control character is escaped (never emitted raw) and reads back as itself -/
example : ∀ n, n < 32 → Char.ofNat n ∉ escapeChar (Char.ofNat n) ∧
    unescape (escapeChar (Char.ofNat n)) = some [Char.ofNat n] := by decide +kernel

/-- the reader is a real JSON string reader: other escape forms, surrogate pairs; it rejects raw
    control characters, lone surrogates, bad escapes, unterminated input -/
example : unescape ['\\', 'u', '0', '0', 'e', '9', '\\', 'u', '0', '0', 'C', '9', '\\', '/', '\\', 'u', 'd', '8', '3', 'd', '\\', 'u', 'd', 'e', '0', '0'] = some ['\u00e9', '\u00c9', '/', (Char.ofNat 0x1f600)] := by decide +kernel
example : unescape ['a', '\n', 'b'] = none := by decide +kernel
example : unescape ['\\', 'u', 'd', '8', '3', 'd'] = none := by decide +kernel
example : unescape ['\\', 'u', 'd', 'e', '0', '0', '\\', 'u', 'd', '8', '3', 'd'] = none := by decide +kernel
example : unescape ['\\', 'x'] = none := by decide +kernel
example : unescape ['a', '"', 'b'] = none := by decide +kernel
example : unescape ['\\'] = none := by decide +kernel

def env0 : Env := { time := ['T'], thread := none, threadId := 7, mdc := [(['k', '\n'], ['v', '"'])] }
def r0 : Record := { level := .warn, message := ['a', '\n', '"', '\\', '\u2028'], modulePath := none, file := some ['f'], line := some 42, target := ['t'] }

def line0 : List Char :=
    ['{', '"', 't', 'i', 'm', 'e', '"', ':', '"', 'T', '"', ',', '"', 'l', 'e', 'v', 'e', 'l', '"',
    ':', '"', 'W', 'A', 'R', 'N', '"', ',', '"', 'm', 'e', 's', 's', 'a', 'g', 'e', '"', ':', '"',
    'a', '\\', 'n', '\\', '"', '\\', '\\', '\u2028', '"', ',', '"', 'f', 'i', 'l', 'e', '"', ':',
    '"', 'f', '"', ',', '"', 'l', 'i', 'n', 'e', '"', ':', '4', '2', ',', '"', 't', 'a', 'r', 'g',
    'e', 't', '"', ':', '"', 't', '"', ',', '"', 't', 'h', 'r', 'e', 'a', 'd', '"', ':', 'n', 'u',
    'l', 'l', ',', '"', 't', 'h', 'r', 'e', 'a', 'd', '_', 'i', 'd', '"', ':', '7', ',', '"', 'm',
    'd', 'c', '"', ':', '{', '"', 'k', '\\', 'n', '"', ':', '"', 'v', '\\', '"', '"', '}', '}',
    '\n']

/-- a whole line, written out -/
example : jsonLine env0 r0 = line0 := by
  have h1 : natDigits 42 = ['4', '2'] := by
    rw [natDigits_ge 42 (by decide), natDigits_lt 4 (by decide)]; rfl
  have h2 : natDigits 7 = ['7'] := natDigits_lt 7 (by decide)
  simp only [jsonLine, messageMembers, optMember, env0, r0, h1, h2]
  decide

example : readObj line0 = some (fieldsOf env0 r0) := by decide +kernel
example : keysOf line0 = some [kTime, kLevel, kMessage, kFile, kLine, kTarget, kThread, kThreadId, kMdc] := by decide +kernel

/-- the same line with the message's newline left raw is rejected by both clauses -/
def lineRawNewline : List Char :=
    ['{', '"', 't', 'i', 'm', 'e', '"', ':', '"', 'T', '"', ',', '"', 'l', 'e', 'v', 'e', 'l', '"',
    ':', '"', 'W', 'A', 'R', 'N', '"', ',', '"', 'm', 'e', 's', 's', 'a', 'g', 'e', '"', ':', '"',
    'a', '\n', '\\', '"', '\\', '\\', '\u2028', '"', ',', '"', 'f', 'i', 'l', 'e', '"', ':', '"',
    'f', '"', ',', '"', 'l', 'i', 'n', 'e', '"', ':', '4', '2', ',', '"', 't', 'a', 'r', 'g', 'e',
    't', '"', ':', '"', 't', '"', ',', '"', 't', 'h', 'r', 'e', 'a', 'd', '"', ':', 'n', 'u', 'l',
    'l', ',', '"', 't', 'h', 'r', 'e', 'a', 'd', '_', 'i', 'd', '"', ':', '7', ',', '"', 'm', 'd',
    'c', '"', ':', '{', '"', 'k', '\\', 'n', '"', ':', '"', 'v', '\\', '"', '"', '}', '}', '\n']
example : oneLine lineRawNewline = false ∧ readObj lineRawNewline = none := by decide +kernel

/-- a placeholder for the absent module path is rejected -/
def linePlaceholder : List Char :=
    ['{', '"', 't', 'i', 'm', 'e', '"', ':', '"', 'T', '"', ',', '"', 'l', 'e', 'v', 'e', 'l', '"',
    ':', '"', 'W', 'A', 'R', 'N', '"', ',', '"', 'm', 'e', 's', 's', 'a', 'g', 'e', '"', ':', '"',
    'a', '\\', 'n', '\\', '"', '\\', '\\', '\u2028', '"', ',', '"', 'm', 'o', 'd', 'u', 'l', 'e',
    '_', 'p', 'a', 't', 'h', '"', ':', 'n', 'u', 'l', 'l', ',', '"', 'f', 'i', 'l', 'e', '"', ':',
    '"', 'f', '"', ',', '"', 'l', 'i', 'n', 'e', '"', ':', '4', '2', ',', '"', 't', 'a', 'r', 'g',
    'e', 't', '"', ':', '"', 't', '"', ',', '"', 't', 'h', 'r', 'e', 'a', 'd', '"', ':', 'n', 'u',
    'l', 'l', ',', '"', 't', 'h', 'r', 'e', 'a', 'd', '_', 'i', 'd', '"', ':', '7', ',', '"', 'm',
    'd', 'c', '"', ':', '{', '"', 'k', '\\', 'n', '"', ':', '"', 'v', '\\', '"', '"', '}', '}',
    '\n']
example : readObj linePlaceholder = none := by decide +kernel
example : specLine env0 r0 linePlaceholder = .fail "members" := by decide +kernel

/-- a forged second record (what log injection through an unescaped newline would produce) -/
def lineForged : List Char :=
    ['{', '"', 't', 'i', 'm', 'e', '"', ':', '"', 'T', '"', ',', '"', 'l', 'e', 'v', 'e', 'l', '"',
    ':', '"', 'W', 'A', 'R', 'N', '"', ',', '"', 'm', 'e', 's', 's', 'a', 'g', 'e', '"', ':', '"',
    'a', '"', '}', '\n', '{', '"', 'x', '"', ':', '"', '"', ',', '"', 'f', 'i', 'l', 'e', '"', ':',
    '"', 'f', '"', ',', '"', 'l', 'i', 'n', 'e', '"', ':', '4', '2', ',', '"', 't', 'a', 'r', 'g',
    'e', 't', '"', ':', '"', 't', '"', ',', '"', 't', 'h', 'r', 'e', 'a', 'd', '"', ':', 'n', 'u',
    'l', 'l', ',', '"', 't', 'h', 'r', 'e', 'a', 'd', '_', 'i', 'd', '"', ':', '7', ',', '"', 'm',
    'd', 'c', '"', ':', '{', '}', '}', '\n']
example : specLine env0 r0 lineForged = .fail "not-one-line" := by decide +kernel

/-- a history: a record cut inside its message, one whose `Display` gives up, then a good one -/
def hist0 : List Step :=
  [ { env := env0, record := r0, writer := .failAfter 50, displayFails := none },
    { env := env0, record := r0, writer := .acceptAll, displayFails := some 2 },
    { env := env0, record := r0, writer := .acceptAll, displayFails := none } ]

example : (runHistory {} hist0).map (·.kind) = [.ioErr, .displayFailed, .ok] := by
  simp [hist0, runHistory, encodeStep, writerHolds, intended]
  decide +kernel

/-- what a leaking scratch buffer would emit for the third step (message = earlier text + own text)
    is rejected for that step's record -/
example : specLine env0 r0 (jsonLine env0 { r0 with message := r0.message ++ r0.message }) = .fail "message" := by
  simp only [specLine, C12_one_line_check, readLineMembers_jsonLine, toFields_membersOf]
  decide +kernel

end Log4rs.Json
