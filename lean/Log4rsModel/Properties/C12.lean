import Log4rsModel.Json.LemmasHist
import Log4rsModel.Json.LemmasGrammar
/-
C12 — JSON encoder: one record, one line, and the fields round-trip exactly.
Only property theorems and non-vacuity examples live here; helpers are in Json/Lemmas*.lean.

Quantifier: every environment and record — arbitrary strings (all Unicode scalar values) in every text
position, the message as any sequence of `write_str` pieces, every level, every presence pattern of
the optional fields, named or unnamed thread, every MDC.  The only hypothesis that appears is
`MdcIsMap env` (the thread's MDC has no key twice — it is a `HashMap`), and only where a theorem
speaks of reading the MDC back *as a map*.

Which theorems carry the statement: `C12_one_line`, `C12_one_line_bytes`, `C12_single_newline`
(one line, nothing raw below 0x20), `C12_line_is_json`, `C12_reader_is_the_grammar`,
`C12_string_reader_is_the_grammar`, `C12_unescape_escape` (what "JSON" and "parses back" mean),
`C12_fields_roundtrip`, `C12_members_in_order`, `C12_mdc_map_semantics`, `C12_message_pieces_irrelevant`
(the fields come back exactly), `C12_absent_omitted`, `C12_no_placeholder`, `C12_level_names`.
Bookkeeping about the executable Spec and the model (no false alarm when code = model; facts used by
the `seq` correspondence cases): `C12_one_line_check`, `C12_model_satisfies_spec`,
`C12_escape_injective`, `C12_escaped_exactly`, `C12_cut_output_is_prefix`.
-/
namespace Log4rs.Json

/-- One line: the output is the object text followed by exactly one newline, and no character of the
    object text is below 0x20 — no raw newline or C0 control character, whatever the fields contain. -/
theorem C12_one_line (env : Env) (r : Record) :
    jsonLine env r = object (messageMembers env r) ++ ['\n'] ∧
    ∀ c ∈ object (messageMembers env r), c.toNat ≥ 0x20 :=
  ⟨rfl, body_printable env r⟩

/-- The same on the bytes handed to the writer (UTF-8): everything before the final byte 0x0A is a
    byte ≥ 0x20, so the only line feed — and the only byte below 0x20 — is the last one. -/
theorem C12_one_line_bytes (env : Env) (r : Record) :
    utf8 (jsonLine env r) = utf8 (object (messageMembers env r)) ++ [0x0A] ∧
    ∀ b ∈ utf8 (object (messageMembers env r)), 0x20 ≤ b := by
  constructor
  · simp [jsonLine, NEWLINE, utf8, List.flatMap_append, utf8Char]
  · intro b hb
    simp only [utf8, List.mem_flatMap] at hb
    obtain ⟨c, hc, hbc⟩ := hb
    have h20 := body_printable env r c hc
    unfold utf8Char at hbc
    simp only at hbc
    split at hbc
    · simp only [List.mem_cons, List.not_mem_nil, or_false] at hbc; omega
    · split at hbc
      · simp only [List.mem_cons, List.not_mem_nil, or_false] at hbc; omega
      · split at hbc <;> simp only [List.mem_cons, List.not_mem_nil, or_false] at hbc <;> omega

/-- The only newline of the output is the last character (a field value cannot start a new line). -/
theorem C12_single_newline (env : Env) (r : Record) : (jsonLine env r).count '\n' = 1 := by
  have h : (object (messageMembers env r)).count '\n' = 0 := by
    apply List.count_eq_zero.mpr
    intro hm
    have := body_printable env r _ hm
    exact absurd this (by decide)
  simp [jsonLine, NEWLINE, List.count_append, h]

/-- The reading of "control character" taken here, as a theorem about the escaper: exactly the
    characters U+0000–U+001F, `"` and `\` are written as an escape sequence (which starts with a
    backslash and contains nothing below 0x20); every other character — DEL U+007F, the C1 controls
    U+0080–U+009F, U+2028, U+2029 included — is written raw, as itself. -/
theorem C12_escaped_exactly (c : Char) :
    ((c.toNat < 0x20 ∨ c = '"' ∨ c = '\\') →
        (escapeChar c).head? = some '\\' ∧ 2 ≤ (escapeChar c).length ∧ ∀ x ∈ escapeChar c, 0x20 ≤ x.toNat) ∧
    (0x20 ≤ c.toNat → c ≠ '"' → c ≠ '\\' → escapeChar c = [c]) := by
  constructor
  · intro h
    have hh : (escapeChar c).head? = some '\\' ∧ 2 ≤ (escapeChar c).length := by
      unfold escapeChar
      repeat' split
      all_goals first
        | exact ⟨rfl, by simp⟩
        | (exfalso; rename_i h1 h2 h3 h4 h5 h6 h7 h8
           rcases h with h | h | h
           · exact h8 h
           · exact h1 h
           · exact h2 h)
    exact ⟨hh.1, hh.2, escapeChar_printable c⟩
  · intro h1 h2 h3
    have e1 : c ≠ '\x08' := by rintro rfl; exact absurd h1 (by decide)
    have e2 : c ≠ '\x0c' := by rintro rfl; exact absurd h1 (by decide)
    have e3 : c ≠ '\n' := by rintro rfl; exact absurd h1 (by decide)
    have e4 : c ≠ '\r' := by rintro rfl; exact absurd h1 (by decide)
    have e5 : c ≠ '\t' := by rintro rfl; exact absurd h1 (by decide)
    have e6 : ¬ c.toNat < 0x20 := by omega
    simp [escapeChar, h2, h3, e1, e2, e3, e4, e5, e6]

/-- The executable one-line check used on the implementation's output accepts the model's output. -/
theorem C12_one_line_check (env : Env) (r : Record) : oneLine (jsonLine env r) = true := by
  have hb := body_printable env r
  simp only [oneLine, jsonLine, NEWLINE, List.reverse_append, List.reverse_cons, List.reverse_nil,
    List.nil_append, List.cons_append, List.all_eq_true, List.mem_reverse, decide_eq_true_eq]
  exact hb

/-- "JSON string" is a grammar (Json/Grammar.lean, RFC 8259 §7), and the reader used by the Spec is
    exactly that grammar: it accepts a body iff the grammar derives it, and returns what it denotes.
    In particular the grammar gives every body at most one meaning. -/
theorem C12_string_reader_is_the_grammar (body s : List Char) :
    (unescape body = some s ↔ JStr body s) ∧ (∀ s', JStr body s → JStr body s' → s = s') :=
  ⟨unescape_iff_JStr body s, fun _ h h' => JStr_functional h h'⟩

/-- Escaping yields a JSON string body that denotes the text, for every string; equivalently the
    reader inverts the escaper. -/
theorem C12_unescape_escape (s : List Char) : JStr (escape s) s ∧ unescape (escape s) = some s :=
  ⟨JStr_escape s, unescape_escape s⟩

/-- Hence two different texts never have the same escaped form. -/
theorem C12_escape_injective (s t : List Char) (h : escape s = escape t) : s = t := by
  have := unescape_escape s
  rw [h, unescape_escape] at this
  exact (Option.some.inj this).symm

/-- The message is handed over by its `Display` in pieces (`collect_str` escapes piece by piece);
    the emitted value depends on the concatenated text only: however the text is cut into pieces —
    also inside what would be an escape sequence — the output is the same. -/
theorem C12_message_pieces_irrelevant (env : Env) (r r' : Record)
    (hl : r.level = r'.level) (hm : r.message = r'.message) (hp : r.modulePath = r'.modulePath)
    (hf : r.file = r'.file) (hn : r.line = r'.line) (ht : r.target = r'.target) :
    jstrPieces r.pieces = jstr r.message ∧ jsonLine env r = jsonLine env r' := by
  refine ⟨jstrPieces_eq _, ?_⟩
  simp only [jsonLine, messageMembers, jstrPieces_eq]
  unfold Record.message at hm
  rw [hl, hm, hp, hf, hn, ht]

/-- "A single JSON object": by the grammar of Json/Grammar.lean (strings per RFC 8259 §7, unsigned
    integers, `null`, compact objects) the emitted line is one object followed by one line feed; it
    denotes the members `membersOf env r` — the keys in declaration order, each with its value, the MDC
    as a nested object of strings — and nothing else (the grammar gives it no second reading), so
    every reading of the line yields the record's fields.  Stated without any reader. -/
theorem C12_line_is_json (env : Env) (r : Record) :
    JLine (jsonLine env r) (membersOf env r) ∧
    (∀ ms, JLine (jsonLine env r) ms → ms = membersOf env r) ∧
    (MdcIsMap env → ∀ ms, JLine (jsonLine env r) ms → toFields ms = some (fieldsOf env r)) := by
  have h := jsonLine_in_grammar env r
  refine ⟨h, fun ms hms => JLine_functional hms h, fun hmap ms hms => ?_⟩
  rw [JLine_functional hms h]
  exact toFields_membersOf env r hmap

/-- The Spec's line reader is that grammar, no more and no less: it accepts a line — in the check, the
    implementation's bytes — iff the grammar derives it, and returns the members it denotes. -/
theorem C12_reader_is_the_grammar (line : List Char) (ms : List (List Char × JVal)) :
    readLineMembers line = some ms ↔ JLine line ms :=
  (JLine_iff_read line ms).symm

/-- Structure: read back, the object has exactly the members `membersOf env r` — the keys in the
    fixed declaration order, each with its value, the MDC entries in iteration order. -/
theorem C12_members_in_order (env : Env) (r : Record) :
    readLineMembers (jsonLine env r) = some (membersOf env r) := readLineMembers_jsonLine env r

/-- Round trip: the line parses back to the record's message, level, target, module path, file,
    line, thread name and MDC entries exactly (and to the time text and thread id it was given). -/
theorem C12_fields_roundtrip (env : Env) (r : Record) (h : MdcIsMap env) :
    readObj (jsonLine env r) = some (fieldsOf env r) := by
  simp [readObj, readLineMembers_jsonLine, toFields_membersOf env r h]

/-- The MDC comes back as the map it is: same set of keys, every key with its value; and the reader
    refuses an `mdc` object that repeats a key (so "entries exactly" is a statement about maps). -/
theorem C12_mdc_map_semantics (env : Env) (r : Record) :
    (MdcIsMap env → ∃ f, readObj (jsonLine env r) = some f ∧ sameMap f.mdc env.mdc = true ∧
        (∀ k, f.mdc.lookup k = env.mdc.lookup k) ∧ f.mdc.length = env.mdc.length) ∧
    (¬ MdcIsMap env → readObj (jsonLine env r) = none) := by
  constructor
  · intro h
    refine ⟨fieldsOf env r, C12_fields_roundtrip env r h, ?_, fun _ => rfl, rfl⟩
    exact sameMap_self env.mdc h
  · intro h
    simp [readObj, readLineMembers_jsonLine, toFields_membersOf_dup env r h]

/-- Absent module path, file and line are omitted: the keys of the emitted object are exactly
    `expectedKeys r`, which contains an optional key iff the field is present. -/
theorem C12_absent_omitted (env : Env) (r : Record) :
    keysOf (jsonLine env r) = some (expectedKeys r) ∧
    (kModulePath ∈ expectedKeys r ↔ r.modulePath.isSome) ∧
    (kFile ∈ expectedKeys r ↔ r.file.isSome) ∧
    (kLine ∈ expectedKeys r ↔ r.line.isSome) := by
  have h := expectedKeysB_mem r.modulePath.isSome r.file.isSome r.line.isSome
  exact ⟨by simp [keysOf, readLineMembers_jsonLine, membersOf_keys], h.1, h.2.1, h.2.2⟩

/-- Never a placeholder: an absent optional field reads back as absent, a present one as itself. -/
theorem C12_no_placeholder (env : Env) (r : Record) (h : MdcIsMap env) :
    (readObj (jsonLine env r)).map (fun f => (f.modulePath, f.file, f.line))
      = some (r.modulePath, r.file, r.line) := by
  rw [C12_fields_roundtrip env r h]; rfl

/-- The level is written as its upper-case name, and the name determines the level. -/
theorem C12_level_names (l : Level) :
    (l = .error → l.name = ['E','R','R','O','R']) ∧ (l = .warn → l.name = ['W','A','R','N']) ∧
    (l = .info → l.name = ['I','N','F','O']) ∧ (l = .debug → l.name = ['D','E','B','U','G']) ∧
    (l = .trace → l.name = ['T','R','A','C','E']) ∧
    ∀ l', l.name = l'.name → l = l' := by
  refine ⟨?_, ?_, ?_, ?_, ?_, ?_⟩
  iterate 5 (intro h; subst h; rfl)
  intro l'; cases l <;> cases l' <;> decide

/-- The model's output satisfies the executable specification that the driver evaluates on the
    implementation's output (no false alarm when code and model agree). -/
theorem C12_model_satisfies_spec (env : Env) (r : Record) (h : MdcIsMap env) :
    specLine env r (jsonLine env r) = .ok := by
  have hs := sameMap_self env.mdc h
  simp [specLine, C12_one_line_check, readLineMembers_jsonLine, toFields_membersOf env r h, fieldsOf, hs]

/-- Bookkeeping about the model, NOT evidence about the code: in the model the encoder carries the
    empty state (`JsonEncoder(())`, no static, no thread-local), so a history of encodes factors into
    its steps by construction.  Whether the real encoder carries nothing from one encode to the next
    is established only by the `seq` correspondence cases (every completed step is compared with its
    own record's line and with what a fresh thread and encoder emit).  Not counted as an obligation. -/
theorem Model_C12_history_factorises (steps : List Step) :
    runHistory {} steps = steps.map (fun s => (encodeStep {} s).2) ∧
    ((steps.zip (runHistory {} steps)).filter (fun p => succeeds p.1)).map (·.2.received)
      = (steps.filter succeeds).map (fun s => utf8 (jsonLine s.env s.record)) := by
  refine ⟨runHistory_eq_map {} steps, ?_⟩
  rw [runHistory_eq_map]
  induction steps with
  | nil => rfl
  | cons s rest ih =>
    simp only [List.map_cons, List.zip_cons_cons, List.filter_cons]
    by_cases hs : succeeds s = true
    · have hr : (encodeStep {} s).2.received = utf8 (jsonLine s.env s.record) := received_of_succeeds s hs
      simp only [hs, if_true, List.map_cons, hr]
      rw [ih]
    · simp only [hs, Bool.false_eq_true, if_false]
      exact ih

/-- A relation between two functions of the model (used by the `seq` correspondence cases; the clause
    `specCutStep` is defined through the model's line, so an "ok" on a cut step is a correspondence
    result, not an independent specification result): an encode that is cut short — writer error after
    `k` bytes, or a `Display` that gives up after `n` characters, or both — has delivered a prefix of
    its own record's complete line, no longer than the writer allowed. -/
theorem C12_cut_output_is_prefix (s : Step) :
    received s <+: utf8 (jsonLine s.env s.record) ∧
    (∀ k, s.writer = .failAfter k → (received s).length ≤ k) ∧
    specCutStep s (received s) = true := by
  refine ⟨received_prefix s, ?_, specCutStep_received s⟩
  intro k hk
  simp [received, hk, List.length_take, Nat.min_le_left]

/-! ### non-vacuity / sanity examples (tests on samples, not proofs of the property) -/

/-- quote, backslash, all 32 control characters, DEL, U+2028, U+2029, an astral character -/
def hazard : List Char :=
    ['"', '\\', '\x00', '\x01', '\x02', '\x03', '\x04', '\x05', '\x06', '\x07', '\x08', '\x09',
    '\n', '\x0b', '\x0c', '\x0d', '\x0e', '\x0f', '\x10', '\x11', '\x12', '\x13', '\x14', '\x15',
    '\x16', '\x17', '\x18', '\x19', '\x1a', '\x1b', '\x1c', '\x1d', '\x1e', '\x1f', '\x7f',
    '\u2028', '\u2029', (Char.ofNat 0x1f600)]

example : escape hazard =
    ['\\', '"', '\\', '\\', '\\', 'u', '0', '0', '0', '0', '\\', 'u', '0', '0', '0', '1', '\\',
    'u', '0', '0', '0', '2', '\\', 'u', '0', '0', '0', '3', '\\', 'u', '0', '0', '0', '4', '\\',
    'u', '0', '0', '0', '5', '\\', 'u', '0', '0', '0', '6', '\\', 'u', '0', '0', '0', '7', '\\',
    'b', '\\', 't', '\\', 'n', '\\', 'u', '0', '0', '0', 'b', '\\', 'f', '\\', 'r', '\\', 'u', '0',
    '0', '0', 'e', '\\', 'u', '0', '0', '0', 'f', '\\', 'u', '0', '0', '1', '0', '\\', 'u', '0',
    '0', '1', '1', '\\', 'u', '0', '0', '1', '2', '\\', 'u', '0', '0', '1', '3', '\\', 'u', '0',
    '0', '1', '4', '\\', 'u', '0', '0', '1', '5', '\\', 'u', '0', '0', '1', '6', '\\', 'u', '0',
    '0', '1', '7', '\\', 'u', '0', '0', '1', '8', '\\', 'u', '0', '0', '1', '9', '\\', 'u', '0',
    '0', '1', 'a', '\\', 'u', '0', '0', '1', 'b', '\\', 'u', '0', '0', '1', 'c', '\\', 'u', '0',
    '0', '1', 'd', '\\', 'u', '0', '0', '1', 'e', '\\', 'u', '0', '0', '1', 'f', '\x7f', '\u2028',
    '\u2029', (Char.ofNat 0x1f600)] := by decide +kernel

example : unescape (escape hazard) = some hazard := by decide +kernel

/-- every control character is escaped (never emitted raw) and reads back as itself -/
example : ∀ n, n < 32 → Char.ofNat n ∉ escapeChar (Char.ofNat n) ∧
    unescape (escapeChar (Char.ofNat n)) = some [Char.ofNat n] := by decide +kernel

/-- the reader is a real JSON string reader: other escape forms, surrogate pairs; it rejects raw
    control characters, lone surrogates, bad escapes, unterminated input -/
example : unescape ['\\', 'u', '0', '0', 'e', '9', '\\', 'u', '0', '0', 'C', '9', '\\', '/', '\\', 'u', 'd', '8', '3', 'd', '\\', 'u', 'd', 'e', '0', '0'] = some ['\u00e9', '\u00c9', '/', (Char.ofNat 0x1f600)] := by decide +kernel
example : unescape ['a', '\n', 'b'] = none := by decide +kernel
example : unescape ['\\', 'u', 'd', '8', '3', 'd'] = none := by decide +kernel
example : unescape ['\\', 'u', 'd', 'e', '0', '0', '\\', 'u', 'd', '8', '3', 'd'] = none := by decide +kernel
example : unescape ['\\', 'x'] = none := by decide +kernel
example : unescape ['a', '"', 'b'] = none := by decide +kernel
example : unescape ['\\'] = none := by decide +kernel

def env0 : Env := { time := ['T'], thread := none, threadId := 7, mdc := [(['k', '\n'], ['v', '"'])] }
def r0 : Record := { level := .warn, pieces := [['a', '\n'], ['"'], [], ['\\', '\u2028']], modulePath := none, file := some ['f'], line := some 42, target := ['t'] }

def line0 : List Char :=
    ['{', '"', 't', 'i', 'm', 'e', '"', ':', '"', 'T', '"', ',', '"', 'l', 'e', 'v', 'e', 'l', '"',
    ':', '"', 'W', 'A', 'R', 'N', '"', ',', '"', 'm', 'e', 's', 's', 'a', 'g', 'e', '"', ':', '"',
    'a', '\\', 'n', '\\', '"', '\\', '\\', '\u2028', '"', ',', '"', 'f', 'i', 'l', 'e', '"', ':',
    '"', 'f', '"', ',', '"', 'l', 'i', 'n', 'e', '"', ':', '4', '2', ',', '"', 't', 'a', 'r', 'g',
    'e', 't', '"', ':', '"', 't', '"', ',', '"', 't', 'h', 'r', 'e', 'a', 'd', '"', ':', 'n', 'u',
    'l', 'l', ',', '"', 't', 'h', 'r', 'e', 'a', 'd', '_', 'i', 'd', '"', ':', '7', ',', '"', 'm',
    'd', 'c', '"', ':', '{', '"', 'k', '\\', 'n', '"', ':', '"', 'v', '\\', '"', '"', '}', '}',
    '\n']

/-- a whole line, written out -/
example : jsonLine env0 r0 = line0 := by
  have h1 : natDigits 42 = ['4', '2'] := by
    rw [natDigits_ge 42 (by decide), natDigits_lt 4 (by decide)]; rfl
  have h2 : natDigits 7 = ['7'] := natDigits_lt 7 (by decide)
  simp only [jsonLine, messageMembers, optMember, env0, r0, h1, h2]
  decide

example : readObj line0 = some (fieldsOf env0 r0) := by decide +kernel
example : keysOf line0 = some [kTime, kLevel, kMessage, kFile, kLine, kTarget, kThread, kThreadId, kMdc] := by decide +kernel

/-- the same line with the message's newline left raw is rejected by both clauses -/
def lineRawNewline : List Char :=
    ['{', '"', 't', 'i', 'm', 'e', '"', ':', '"', 'T', '"', ',', '"', 'l', 'e', 'v', 'e', 'l', '"',
    ':', '"', 'W', 'A', 'R', 'N', '"', ',', '"', 'm', 'e', 's', 's', 'a', 'g', 'e', '"', ':', '"',
    'a', '\n', '\\', '"', '\\', '\\', '\u2028', '"', ',', '"', 'f', 'i', 'l', 'e', '"', ':', '"',
    'f', '"', ',', '"', 'l', 'i', 'n', 'e', '"', ':', '4', '2', ',', '"', 't', 'a', 'r', 'g', 'e',
    't', '"', ':', '"', 't', '"', ',', '"', 't', 'h', 'r', 'e', 'a', 'd', '"', ':', 'n', 'u', 'l',
    'l', ',', '"', 't', 'h', 'r', 'e', 'a', 'd', '_', 'i', 'd', '"', ':', '7', ',', '"', 'm', 'd',
    'c', '"', ':', '{', '"', 'k', '\\', 'n', '"', ':', '"', 'v', '\\', '"', '"', '}', '}', '\n']
example : oneLine lineRawNewline = false ∧ readObj lineRawNewline = none := by decide +kernel

/-- a placeholder for the absent module path is rejected -/
def linePlaceholder : List Char :=
    ['{', '"', 't', 'i', 'm', 'e', '"', ':', '"', 'T', '"', ',', '"', 'l', 'e', 'v', 'e', 'l', '"',
    ':', '"', 'W', 'A', 'R', 'N', '"', ',', '"', 'm', 'e', 's', 's', 'a', 'g', 'e', '"', ':', '"',
    'a', '\\', 'n', '\\', '"', '\\', '\\', '\u2028', '"', ',', '"', 'm', 'o', 'd', 'u', 'l', 'e',
    '_', 'p', 'a', 't', 'h', '"', ':', 'n', 'u', 'l', 'l', ',', '"', 'f', 'i', 'l', 'e', '"', ':',
    '"', 'f', '"', ',', '"', 'l', 'i', 'n', 'e', '"', ':', '4', '2', ',', '"', 't', 'a', 'r', 'g',
    'e', 't', '"', ':', '"', 't', '"', ',', '"', 't', 'h', 'r', 'e', 'a', 'd', '"', ':', 'n', 'u',
    'l', 'l', ',', '"', 't', 'h', 'r', 'e', 'a', 'd', '_', 'i', 'd', '"', ':', '7', ',', '"', 'm',
    'd', 'c', '"', ':', '{', '"', 'k', '\\', 'n', '"', ':', '"', 'v', '\\', '"', '"', '}', '}',
    '\n']
example : readObj linePlaceholder = none := by decide +kernel
example : specLine env0 r0 linePlaceholder = .fail "members" := by decide +kernel

/-- a forged second record (what log injection through an unescaped newline would produce) -/
def lineForged : List Char :=
    ['{', '"', 't', 'i', 'm', 'e', '"', ':', '"', 'T', '"', ',', '"', 'l', 'e', 'v', 'e', 'l', '"',
    ':', '"', 'W', 'A', 'R', 'N', '"', ',', '"', 'm', 'e', 's', 's', 'a', 'g', 'e', '"', ':', '"',
    'a', '"', '}', '\n', '{', '"', 'x', '"', ':', '"', '"', ',', '"', 'f', 'i', 'l', 'e', '"', ':',
    '"', 'f', '"', ',', '"', 'l', 'i', 'n', 'e', '"', ':', '4', '2', ',', '"', 't', 'a', 'r', 'g',
    'e', 't', '"', ':', '"', 't', '"', ',', '"', 't', 'h', 'r', 'e', 'a', 'd', '"', ':', 'n', 'u',
    'l', 'l', ',', '"', 't', 'h', 'r', 'e', 'a', 'd', '_', 'i', 'd', '"', ':', '7', ',', '"', 'm',
    'd', 'c', '"', ':', '{', '}', '}', '\n']
example : specLine env0 r0 lineForged = .fail "not-one-line" := by decide +kernel

/-- a history: a record cut inside its message, one whose `Display` gives up, then a good one -/
def hist0 : List Step :=
  [ { env := env0, record := r0, writer := .failAfter 50, displayFails := none },
    { env := env0, record := r0, writer := .acceptAll, displayFails := some 2 },
    { env := env0, record := r0, writer := .acceptAll, displayFails := none } ]

example : (runHistory {} hist0).map (·.kind) = [.ioErr, .displayFailed, .ok] := by
  simp [hist0, runHistory, encodeStep, writerHolds, intended]
  decide +kernel

/-- what a leaking scratch buffer would emit for the third step (message = earlier text + own text)
    is rejected for that step's record -/
example : specLine env0 r0 (jsonLine env0 { r0 with pieces := r0.pieces ++ r0.pieces }) = .fail "message" := by
  simp only [specLine, C12_one_line_check, readLineMembers_jsonLine]
  decide +kernel

/-- the grammar is not trivial: a raw line feed, a lone surrogate and an unknown escape have no
    reading; a surrogate pair and the optional `\/` escape have one -/
example : ¬ ∃ s, JStr ['a', '\n'] s := by
  rintro ⟨s, h⟩
  have h' := (unescape_iff_JStr _ _).mpr h
  rw [show unescape ['a', '\n'] = none by decide +kernel] at h'
  cases h'
example : ¬ ∃ s, JStr ['\\', 'u', 'd', '8', '3', 'd'] s := by
  rintro ⟨s, h⟩
  have h' := (unescape_iff_JStr _ _).mpr h
  rw [show unescape ['\\', 'u', 'd', '8', '3', 'd'] = none by decide +kernel] at h'
  cases h'
example : JStr ['\\', 'u', 'd', '8', '3', 'd', '\\', 'u', 'D', 'E', '0', '0', '\\', '/'] [Char.ofNat 0x1f600, '/'] :=
  (unescape_iff_JStr _ _).mp (by decide +kernel)
example : ¬ ∃ ms, JLine lineRawNewline ms := by
  rintro ⟨ms, h⟩
  have h' := (JLine_iff_read _ _).mp h
  rw [show readLineMembers lineRawNewline = none by decide +kernel] at h'
  cases h'

/-- the hypotheses are satisfiable: `env0`'s MDC is a map, and so is the two-entry one below -/
def env2 : Env := { env0 with mdc := [(['a'], ['1']), (['b'], ['2', '\n'])] }
def env2' : Env := { env0 with mdc := [(['b'], ['2', '\n']), (['a'], ['1'])] }
example : MdcIsMap env0 ∧ MdcIsMap env2 ∧ MdcIsMap env2' := by decide

/-- map semantics: an implementation that wrote the MDC entries in another order still satisfies the
    specification; one that repeated a key, lost an entry or changed a value does not -/
example : specLine env2 r0 (jsonLine env2' r0) = .ok := by
  have h1 : natDigits 42 = ['4', '2'] := by
    rw [natDigits_ge 42 (by decide), natDigits_lt 4 (by decide)]; rfl
  have h2 : natDigits 7 = ['7'] := natDigits_lt 7 (by decide)
  simp only [jsonLine, messageMembers, optMember, env0, env2, env2', r0, h1, h2]
  decide +kernel
example : readObj (jsonLine { env0 with mdc := [(['k'], ['a']), (['k'], ['b'])] } r0) = none :=
  (C12_mdc_map_semantics _ r0).2 (by decide)
example : sameMap [(['a'], ['1'])] [(['a'], ['1']), (['b'], ['2'])] = false ∧
    sameMap [(['a'], ['1']), (['b'], ['3'])] [(['a'], ['1']), (['b'], ['2'])] = false := by decide

/-- pieces: `r0`'s message is handed over as `a\n` · `"` · (empty) · `\` U+2028; cutting the same
    text elsewhere — here right between a backslash and an `n` — changes nothing -/
example : jsonLine env0 { r0 with pieces := [['a', '\n', '"', '\\'], [' ']] } = jsonLine env0 r0 :=
  (C12_message_pieces_irrelevant env0 _ r0 rfl (by decide) rfl rfl rfl rfl).2

end Log4rs.Json
