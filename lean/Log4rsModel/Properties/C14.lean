import Log4rsModel.ConfigDoc.LemmasRender
/-
C14 — Config files mean what they say in every format; loading is total and lossy.
Only property theorems and non-vacuity examples live here; helpers are in ConfigDoc/Lemmas*.lean.

All theorems are about the model (`ConfigDoc/{Value,Schema,Pipeline}.lean`).  A document of any of
the three formats enters the model as one `Value`; that the three parsers produce the same `Value`
for equivalent documents is ASSUMED and validated by the harness (every case is rendered into YAML,
JSON and TOML and loaded by the real code).  The one modelled difference between the front-ends —
JSON and TOML accept a sequence where a derived struct is expected — is the parameter `ss`
(`seqStructs`) of `interp`; every theorem holds for both values.
-/
namespace Log4rs.ConfigDoc
open Log4rs Log4rs.Literals Log4rs.Routing

/-! ### unknown keys -/

/-- ONE statement for every section: wherever a struct with `deny_unknown_fields` is reached from
the schema `s` through edges that propagate errors (`Sub`), a key that is not one of its fields
makes the interpretation of the whole of `s` fail. -/
theorem C14_unknown_key_rejected (ss : Bool) {s : Schema} {v : Value} {fields : List Field}
    {kvs : Entries} {k : Key}
    (hsub : Sub ss s v (.struct true fields) (.map kvs))
    (hk : k ∈ keys kvs) (hn : k ∉ fieldNames fields) :
    ∃ e, interp ss s v = .error e := by
  obtain ⟨k', he, _⟩ := interp_struct_unknown ss fields kvs k hk hn
  exact interp_sub_error ss hsub _ he

/-- the sections the statement lists: document, root, logger, each appender kind, each encoder
kind, policy, each trigger, each roller -/
def denyingSections : List Schema :=
  [docS, rootS, loggerS, consoleAppenderS, fileAppenderS, rollingFileAppenderS, patternEncoderS,
   jsonEncoderS, compoundPolicyS, sizeTriggerS, timeTriggerS, onStartUpTriggerS, fixedWindowRollerS,
   deleteRollerS]

def sectionFields : Schema → List Key
  | .struct _ fs => fieldNames fs
  | _ => []

/-- every listed section rejects every key that is not one of its fields -/
theorem C14_unknown_key_rejected_sections (ss : Bool) (s : Schema) (hs : s ∈ denyingSections)
    (kvs : Entries) (k : Key) (hk : k ∈ keys kvs) (hn : k ∉ sectionFields s) :
    ∃ e, interp ss s (.map kvs) = .error e := by
  simp only [denyingSections, List.mem_cons, List.not_mem_nil, or_false] at hs
  rcases hs with rfl | rfl | rfl | rfl | rfl | rfl | rfl | rfl | rfl | rfl | rfl | rfl | rfl | rfl <;>
    exact C14_unknown_key_rejected ss (Sub.refl _ _) hk hn

/-- document section, spelled out -/
theorem C14_unknown_key_document (ss : Bool) (kvs : Entries) (k : Key) (hk : k ∈ keys kvs)
    (hn : k ∉ [c!"refresh_rate", c!"root", c!"appenders", c!"loggers"]) :
    ∃ e, interp ss docS (.map kvs) = .error e :=
  C14_unknown_key_rejected_sections ss docS (by simp [denyingSections]) kvs k hk hn

/-- root section: the whole DOCUMENT is rejected -/
theorem C14_unknown_key_root (ss : Bool) (kvs rkvs : Entries) (k : Key)
    (hroot : lookup (c!"root") kvs = some (.map rkvs))
    (hk : k ∈ keys rkvs) (hn : k ∉ [c!"level", c!"appenders"]) :
    ∃ e, interp ss docS (.map kvs) = .error e := by
  refine C14_unknown_key_rejected ss (fields := [dfl (c!"level") (.level 4) (.leaf .level),
    dfl (c!"appenders") (.list []) namesS]) (kvs := rkvs) (k := k) ?_ hk hn
  exact Sub.field (k := c!"root") (d := some rootDefault) (s := rootS) (by simp [dfl]) hroot
    (Sub.refl _ _)

/-- logger section: the whole DOCUMENT is rejected -/
theorem C14_unknown_key_logger (ss : Bool) (kvs lkvs l : Entries) (name k : Key)
    (hl : lookup (c!"loggers") kvs = some (.map lkvs)) (hmem : (name, .map l) ∈ lkvs)
    (hk : k ∈ keys l) (hn : k ∉ [c!"level", c!"appenders", c!"additive"]) :
    ∃ e, interp ss docS (.map kvs) = .error e := by
  refine C14_unknown_key_rejected ss (fields := [req (c!"level") (.leaf .level),
    dfl (c!"appenders") (.list []) namesS, dfl (c!"additive") (.bool true) (.leaf .bool)])
    (kvs := l) (k := k) ?_ hk hn
  exact Sub.field (k := c!"loggers") (d := some (.dict [])) (s := .mapOf loggerS) (by simp [dfl]) hl
    (Sub.mapElem hmem (Sub.refl _ _))

/-- inside an appender (its own config, its encoder, policy, trigger, roller — anything reached
from the kind's config through propagating edges): the document is NOT rejected; the appender's
entry is typed as `failed`, which `appenders_lossy` reports and drops (next theorem). -/
theorem C14_unknown_key_appender (ss : Bool) (akvs : Entries) (kind : Key)
    (es : List (Key × Typed)) (s : Schema) (fields : List Field) (kvs : Entries) (k : Key)
    (hkind : kindOf none akvs = .ok kind)
    (hes : interpFields ss [dfl (c!"filters") (.list []) (.seqOf filterS)] akvs = .ok es)
    (hcase : caseOf [(c!"console", consoleAppenderS), (c!"file", fileAppenderS),
      (c!"rolling_file", rollingFileAppenderS)] kind = some s)
    (hsub : Sub ss s (.map (without [c!"kind", c!"filters"] akvs)) (.struct true fields) (.map kvs))
    (hk : k ∈ keys kvs) (hn : k ∉ fieldNames fields) :
    ∃ e, interp ss appenderS (.map akvs) = .ok (.tagged kind es (.failed e)) := by
  obtain ⟨e, he⟩ := C14_unknown_key_rejected ss hsub hk hn
  refine ⟨e, ?_⟩
  simp only [appenderS, interp, hkind, hes]
  rw [interpCases_eq ss _ kind _ s hcase]
  simp only [fieldNames, dfl, List.map_cons, List.map_nil]
  rw [he]
  rfl

/-- A kind-tagged section without extra reserved keys (encoder, policy, trigger, roller) hands
EVERY key except `kind` on to the kind's config: whatever the key is called — also a name that is
reserved or legal in some OTHER section, such as `filters`, `appenders`, `path` — it is rejected
there unless it is a field of that config. -/
theorem C14_unknown_key_tagged_section (ss : Bool) (dflt : Option Key)
    (cases : List (Key × Schema)) (kvs : Entries) (kind : Key) (fields : List Field) (k : Key)
    (hkind : kindOf dflt kvs = .ok kind) (hcase : caseOf cases kind = some (.struct true fields))
    (hk : k ∈ keys kvs) (hne : k ≠ c!"kind") (hn : k ∉ fieldNames fields) :
    ∃ e, interp ss (.tagged dflt false [] cases) (.map kvs) = .error e := by
  refine C14_unknown_key_rejected ss (Sub.body hkind hcase (Sub.refl _ _))
    (mem_keys_without _ kvs k hk ?_) hn
  simpa [fieldNames] using hne

/-- the four sections are of that shape (no reserved key besides `kind`) -/
theorem C14_tagged_sections_reserve_only_kind :
    (∃ c, encoderS = .tagged (some (c!"pattern")) false [] c)
    ∧ (∃ c, policyS = .tagged (some (c!"compound")) false [] c)
    ∧ (∃ c, triggerS = .tagged none false [] c) ∧ (∃ c, rollerS = .tagged none false [] c) :=
  ⟨⟨_, rfl⟩, ⟨_, rfl⟩, ⟨_, rfl⟩, ⟨_, rfl⟩⟩

/-- a `failed` appender entry is reported (`Appender(name, …)`) and dropped; it cannot panic -/
theorem C14_failed_appender_reported (name kind : Key) (es : List (Key × Typed)) (e : Err) :
    ∃ errs, appenderOutcome name (.tagged kind es (.failed e)) = (errs ++ [.appender name], .dropped) := by
  exact ⟨_, rfl⟩

/-- truthfully: the threshold filter's config does NOT deny unknown keys (no
`deny_unknown_fields` on `ThresholdFilterConfig`); the statement's list does not include filters -/
theorem C14_threshold_filter_ignores_unknown_key (ss : Bool) (kvs : Entries) (k : Key) (v : Value)
    (hk : k ≠ c!"level") :
    interp ss thresholdS (.map (kvs ++ [(k, v)])) = interp ss thresholdS (.map kvs) := by
  simp only [thresholdS, interp, interpFields, req, lookup_append_ne _ _ _ _ hk]
  rfl

/-! ### defaults -/

/-- a struct field that has a default and is absent from the section is typed as its default -/
theorem C14_defaults_generic (ss deny : Bool) (fields : List Field) (kvs : Entries) (t : Typed)
    (k : Key) (d : Typed) (s : Schema) (hnd : (fieldNames fields).Nodup)
    (hf : (k, some d, s) ∈ fields) (hl : lookup k kvs = none)
    (h : interp ss (.struct deny fields) (.map kvs) = .ok t) : t.field k = some d := by
  obtain ⟨ts, rfl, hts⟩ := interp_struct_ok ss deny fields kvs t h
  exact interpFields_default ss fields kvs ts k d s hnd hf hl hts

/-- the documented defaults: root level Debug, root / logger appenders `[]`, additive true,
modulate false, max_random_delay 0, min_size 1, base absent (`None`, for which
`FixedWindowRollerBuilder` uses 0), a missing root section = level Debug and no appenders, no
appenders / loggers tables = empty tables, filters `[]`; encoder kind `pattern`, policy kind
`compound`; appender, filter, trigger and roller kinds are REQUIRED. -/
theorem C14_defaults (ss : Bool) (kvs : Entries) (t : Typed) :
    (lookup (c!"level") kvs = none → interp ss rootS (.map kvs) = .ok t →
        t.field (c!"level") = some (.level 4))
    ∧ (lookup (c!"appenders") kvs = none → interp ss rootS (.map kvs) = .ok t →
        t.field (c!"appenders") = some (.list []))
    ∧ (lookup (c!"additive") kvs = none → interp ss loggerS (.map kvs) = .ok t →
        t.field (c!"additive") = some (.bool true))
    ∧ (lookup (c!"appenders") kvs = none → interp ss loggerS (.map kvs) = .ok t →
        t.field (c!"appenders") = some (.list []))
    ∧ (lookup (c!"modulate") kvs = none → interp ss timeTriggerS (.map kvs) = .ok t →
        t.field (c!"modulate") = some (.bool false))
    ∧ (lookup (c!"max_random_delay") kvs = none → interp ss timeTriggerS (.map kvs) = .ok t →
        t.field (c!"max_random_delay") = some (.nat 0))
    ∧ (lookup (c!"min_size") kvs = none → interp ss onStartUpTriggerS (.map kvs) = .ok t →
        t.field (c!"min_size") = some (.nat 1))
    ∧ (lookup (c!"base") kvs = none → interp ss fixedWindowRollerS (.map kvs) = .ok t →
        t.field (c!"base") = some .nothing)
    ∧ (lookup (c!"root") kvs = none → interp ss docS (.map kvs) = .ok t →
        t.field (c!"root") = some rootDefault)
    ∧ (lookup (c!"appenders") kvs = none → interp ss docS (.map kvs) = .ok t →
        t.field (c!"appenders") = some (.dict []))
    ∧ (lookup (c!"loggers") kvs = none → interp ss docS (.map kvs) = .ok t →
        t.field (c!"loggers") = some (.dict []))
    ∧ (lookup (c!"refresh_rate") kvs = none → interp ss docS (.map kvs) = .ok t →
        t.field (c!"refresh_rate") = some .nothing)
    ∧ (lookup (c!"kind") kvs = none → kindOf (some (c!"pattern")) kvs = .ok (c!"pattern"))
    ∧ (lookup (c!"kind") kvs = none → kindOf (some (c!"compound")) kvs = .ok (c!"compound"))
    ∧ (lookup (c!"kind") kvs = none → kindOf none kvs = .error (.missingField (c!"kind"))) := by
  refine ⟨?_, ?_, ?_, ?_, ?_, ?_, ?_, ?_, ?_, ?_, ?_, ?_, ?_, ?_, ?_⟩
  · intro hl h; exact C14_defaults_generic ss true _ kvs t _ _ (.leaf .level) (by decide) (by simp [dfl]) hl h
  · intro hl h; exact C14_defaults_generic ss true _ kvs t _ _ namesS (by decide) (by simp [dfl]) hl h
  · intro hl h; exact C14_defaults_generic ss true _ kvs t _ _ (.leaf .bool) (by decide) (by simp [dfl, req]) hl h
  · intro hl h; exact C14_defaults_generic ss true _ kvs t _ _ namesS (by decide) (by simp [dfl, req]) hl h
  · intro hl h; exact C14_defaults_generic ss true _ kvs t _ _ (.leaf .bool) (by decide) (by simp [dfl, req]) hl h
  · intro hl h; exact C14_defaults_generic ss true _ kvs t _ _ (.leaf .u64) (by decide) (by simp [dfl, req]) hl h
  · intro hl h; exact C14_defaults_generic ss true _ kvs t _ _ (.leaf .u64) (by decide) (by simp [dfl]) hl h
  · intro hl h; exact C14_defaults_generic ss true _ kvs t _ _ (.opt (.leaf .u32)) (by decide) (by simp [optF, req]) hl h
  · intro hl h; exact C14_defaults_generic ss true _ kvs t _ _ rootS (by decide) (by simp [dfl, optF]) hl h
  · intro hl h; exact C14_defaults_generic ss true _ kvs t _ _ (.mapOf (appenderEntrySWith appenderEnvelopeLazy)) (by decide) (by simp [dfl, optF]) hl h
  · intro hl h; exact C14_defaults_generic ss true _ kvs t _ _ (.mapOf loggerS) (by decide) (by simp [dfl, optF]) hl h
  · intro hl h; exact C14_defaults_generic ss true _ kvs t _ _ (.opt (.leaf .duration)) (by decide) (by simp [dfl, optF]) hl h
  · exact kindOf_default _ kvs
  · exact kindOf_default _ kvs
  · exact kindOf_required kvs

/-! ### loading is total; where it can panic -/

/-- The pipelines are total functions into `Outcome` / `StrictResult`: `ok`, `err`, or an explicit
`panic`.  Real-code panic sources considered on the load path (everything reachable from
`Format::parse` and from the constructors the `Deserialize` impls call):
  * `TimeTrigger::new` → `get_next_time`: `x % n` with `n = 0` under `modulate` (every unit);
    `TimeDelta::seconds/minutes/…(n)` and `DateTime + TimeDelta` out of range for huge counts or
    delays; `n as i32` / `n as u32` truncation followed by `with_ymd_and_hms(..).unwrap()`;
    `LocalResult::unwrap` in a DST gap (F9, depends on zone and clock — C16's subject);
  * `FixedWindowRollerBuilder::build`: returns `Err` for a pattern without `{}` — no panic;
    `base + count` overflow (F11) happens at roll time, not at load time;
  * `PatternEncoder::new`: the pattern parser (C11's subject; the harness uses one fixed pattern);
  * `FileAppender::build` / `RollingFileAppenderBuilder::build`: `io::Result`, no unwrap;
  * `serde_value` / derive code: no unwrap on user data; `ConfigBuilder::build_lossy`: none.
The time-trigger items were real (findings C14/time-trigger-interval-zero-modulate and
-out-of-range, C16's subject) until /repo 80d997f made `TimeTrigger::new` total; the historical
constructor is still in the model (`timeTriggerNewWith false`). -/
def C14_load_total_statement : Prop :=
  ∀ (ss : Bool) (v : Value) (w : String), loadLossy ss v ≠ .panic w

/-- Loading never panics: for EVERY document the lossy pipeline returns `ok` or `err`.  (The only
panic source of the model is the time-trigger constructor, total since the repair.) -/
theorem C14_load_total : C14_load_total_statement := by
  intro ss v w
  have hT : ∀ u n m d w, timeTriggerNew u n m d ≠ .panic w := by
    intro u n m d w
    show timeTriggerNewWith timeTriggerTotal u n m d ≠ .panic w
    rw [show timeTriggerTotal = true from rfl, timeTriggerNewWith_total]
    simp
  simp only [loadLossy, loadRaw]
  cases hi : interp ss docS v with
  | error e => simp
  | ok doc =>
    simp only [rawLoad]
    cases ha : appendersLossy (Typed.asDict (doc.field (c!"appenders"))) with
    | panic w' => exact absurd ha (appendersLossy_total hT _ w')
    | ok p => simp
    | err e => simp

/-- strict loading never panics either -/
theorem C14_load_total_strict (ss : Bool) (v : Value) : loadStrict ss v ≠ .panic := by
  have h := C14_load_total ss v
  simp only [loadLossy] at h
  simp only [loadStrict]
  cases hr : loadRaw ss v with
  | panic w' => rw [hr] at h; exact absurd rfl (h w')
  | ok r => simp only; split <;> (try split) <;> simp
  | err e => simp

/-- historical (before /repo 80d997f): the constructor panicked for `interval: 0` with
`modulate: true` (`% 0`) and for a count of `i64::MAX` seconds (`TimeDelta::seconds`) -/
theorem C14_time_trigger_historical_panics :
    (timeTriggerNewWith false .second 0 true 0).isPanic = true
    ∧ (timeTriggerNewWith false .second 9223372036854775807 false 0).isPanic = true := by
  decide

/-- the document that made the historical code panic -/
def panicWitness : Value :=
  .map [(c!"appenders", .map [(c!"a", .map [(c!"kind", .str (c!"rolling_file")),
    (c!"path", .str (c!"a.log")),
    (c!"policy", .map [
      (c!"trigger", .map [(c!"kind", .str (c!"time")), (c!"interval", .int 0),
        (c!"modulate", .bool true)]),
      (c!"roller", .map [(c!"kind", .str (c!"delete"))])])])])]

/-- Independent of the repair (holds of the historical constructor too): a document all of whose
time triggers are in the safe range (count not 0 under
`modulate`; count and random delay ≤ 100000) never makes loading panic — lossy or strict. -/
theorem C14_load_total_partial (ss : Bool) (v : Value) (doc : Typed)
    (hdoc : interp ss docS v = .ok doc)
    (hsafe : ∀ nt ∈ Typed.asDict (doc.field (c!"appenders")), appenderSafe nt.2 = true) :
    (∀ w, loadLossy ss v ≠ .panic w) ∧ loadStrict ss v ≠ .panic := by
  have h0 : ∀ w, loadRaw ss v ≠ .panic w := by
    intro w
    simp only [loadRaw, hdoc, rawLoad]
    cases ha : appendersLossy (Typed.asDict (doc.field (c!"appenders"))) with
    | panic w' => exact absurd ha (appendersLossy_safe _ hsafe w')
    | ok p => simp
    | err e => simp
  constructor
  · intro w
    simp only [loadLossy]
    cases hr : loadRaw ss v with
    | panic w' => exact absurd hr (h0 w')
    | ok r => simp
    | err e => simp
  · simp only [loadStrict]
    cases hr : loadRaw ss v with
    | panic w' => exact absurd hr (h0 w')
    | ok r => simp only; split <;> (try split) <;> simp
    | err e => simp

/-- a document the front-end rejects is an `err`, never a panic, and strict loading says
`errParse` -/
theorem C14_rejected_document_is_error (ss : Bool) (v : Value) (e : Err)
    (h : interp ss docS v = .error e) :
    loadLossy ss v = .err e ∧ loadStrict ss v = .errParse := by
  simp [loadLossy, loadStrict, loadRaw, h]

/-- strict loading accepts exactly when lossy loading has nothing to report -/
theorem C14_strict_iff_nothing_reported (ss : Bool) (v : Value) :
    loadStrict ss v = .ok ↔
      ∃ b, loadLossy ss v = .ok b ∧ b.loadErrors = [] ∧ b.buildErrors = [] := by
  simp only [loadStrict, loadLossy]
  cases hr : loadRaw ss v with
  | err e => simp
  | panic w => simp
  | ok r =>
    simp only [Outcome.ok.injEq, exists_eq_left']
    have hle : (buildLossyNames r).loadErrors = r.errors := rfl
    rw [hle]
    cases he : r.errors with
    | cons a as => simp
    | nil =>
      cases hb : (buildLossyNames r).buildErrors with
      | nil => simp
      | cons a as => simp

/-! ### lossy isolation -/

/-- A broken appender is reported and removed; every other appender comes out exactly as from
the table without it, in the same order, with the same reported errors. -/
theorem C14_lossy_isolation_appender (xs ys : List (Key × Typed)) (name : Key) (t : Typed)
    (d1 d2 : List AppenderDesc) (e1 e2 errs : List LoadErr)
    (hx : appendersLossy xs = .ok (d1, e1)) (hy : appendersLossy ys = .ok (d2, e2))
    (hbroken : appenderOutcome name t = (errs, .dropped)) :
    appendersLossy (xs ++ (name, t) :: ys) = .ok (d1 ++ d2, e1 ++ (errs ++ e2))
    ∧ appendersLossy (xs ++ ys) = .ok (d1 ++ d2, e1 ++ e2) := by
  constructor
  · rw [appendersLossy_append, hx]
    simp only [appendersLossy, hbroken, hy]
  · rw [appendersLossy_append, hx, hy]

/-- what makes an appender broken: its config failed to type (unknown kind, unknown key, bad or
missing field anywhere inside), or its constructor returned an error; it is then reported once -/
theorem C14_broken_appender_reported (name kind : Key) (extras : List (Key × Typed)) (body : Typed)
    (h : (∃ e, body = .failed e) ∨
         (∃ e, constructAppender name
            ((Typed.asList (tlookup (c!"filters") extras)).filterMap filterOutcome) kind body = .err e)) :
    ∃ ferrs, appenderOutcome name (.tagged kind extras body) = (ferrs ++ [.appender name], .dropped)
      ∧ ∀ x ∈ ferrs, x = .filter name := by
  rcases h with ⟨e, rfl⟩ | ⟨e, he⟩
  · refine ⟨_, rfl, ?_⟩
    intro x hx
    simp only [List.mem_map] at hx
    obtain ⟨_, _, rfl⟩ := hx
    rfl
  · cases body with
    | failed e' =>
      refine ⟨_, rfl, ?_⟩
      intro x hx
      simp only [List.mem_map] at hx
      obtain ⟨_, _, rfl⟩ := hx
      rfl
    | _ =>
      all_goals
        refine ⟨((Typed.asList (tlookup (c!"filters") extras)).filter
          (fun f => (filterOutcome f).isNone)).map (fun _ => LoadErr.filter name), ?_, ?_⟩
      all_goals first
        | (simp only [appenderOutcome, he])
        | (intro x hx
           simp only [List.mem_map] at hx
           obtain ⟨_, _, rfl⟩ := hx
           rfl)

/-- A broken filter is reported and removed, the appender is KEPT and is otherwise exactly the
appender of the document without that filter. -/
theorem C14_lossy_isolation_filter (name kind fk : Key) (fx : List (Key × Typed)) (e : Err)
    (fs1 fs2 : List Typed) (body : Typed) :
    let bad := Typed.tagged fk fx (.failed e)
    let withBad := appenderOutcome name (.tagged kind [(c!"filters", .list (fs1 ++ bad :: fs2))] body)
    let without := appenderOutcome name (.tagged kind [(c!"filters", .list (fs1 ++ fs2))] body)
    withBad.2 = without.2 ∧ withBad.1 = LoadErr.filter name :: without.1 := by
  intro bad withBad without
  have hlev : (fs1 ++ bad :: fs2).filterMap filterOutcome = (fs1 ++ fs2).filterMap filterOutcome := by
    simp [List.filterMap_append, List.filterMap_cons, bad, filterOutcome]
  have hferr : ((fs1 ++ bad :: fs2).filter (fun f => (filterOutcome f).isNone)).map
        (fun _ => LoadErr.filter name) =
      LoadErr.filter name :: ((fs1 ++ fs2).filter (fun f => (filterOutcome f).isNone)).map
        (fun _ => LoadErr.filter name) := by
    have hbad : (filterOutcome bad).isNone = true := rfl
    simp only [List.filter_append, List.map_append, List.filter_cons, hbad, if_true, List.map_cons]
    exact const_map_shift _ _ _
  simp only [withBad, without, appenderOutcome, tlookup, if_true, Typed.asList, hlev, hferr]
  cases body with
  | failed e' => exact ⟨rfl, rfl⟩
  | _ =>
    all_goals
      simp only
      split <;> exact ⟨rfl, rfl⟩

/-- the typed appender table is built entry by entry: removing one entry of the document's
`appenders` map leaves the typing of every other entry unchanged -/
theorem C14_lossy_isolation_document (ss : Bool) (xs ys : Entries) (name : Key) (v : Value)
    (txs tys : List (Key × Typed)) (t : Typed)
    (hx : interp ss (.mapOf appenderS) (.map xs) = .ok (.dict txs))
    (hy : interp ss (.mapOf appenderS) (.map ys) = .ok (.dict tys))
    (hv : interp ss appenderS v = .ok t) :
    interp ss (.mapOf appenderS) (.map (xs ++ (name, v) :: ys)) = .ok (.dict (txs ++ (name, t) :: tys))
    ∧ interp ss (.mapOf appenderS) (.map (xs ++ ys)) = .ok (.dict (txs ++ tys)) := by
  have ex : mapEntries (fun v => interp ss appenderS v) xs = .ok txs := by
    simp only [interp] at hx
    cases h : mapEntries (fun v => interp ss appenderS v) xs with
    | error e => rw [h] at hx; cases hx
    | ok ts => rw [h] at hx; cases hx; rfl
  have ey : mapEntries (fun v => interp ss appenderS v) ys = .ok tys := by
    simp only [interp] at hy
    cases h : mapEntries (fun v => interp ss appenderS v) ys with
    | error e => rw [h] at hy; cases hy
    | ok ts => rw [h] at hy; cases hy; rfl
  have ev : mapEntries (fun v => interp ss appenderS v) ((name, v) :: ys) = .ok ((name, t) :: tys) := by
    simp only [mapEntries, hv, ey]
  constructor
  · simp only [interp, mapEntries_append _ xs _ txs _ ex ev]
  · simp only [interp, mapEntries_append _ xs _ txs _ ex ey]

/-- root, loggers and refresh rate do not depend on the appender table's content at all, and the
builder fragment only strips: dangling names are removed from the root and from every kept logger
and each is reported; levels, additivity, order and the surviving appenders are untouched. -/
theorem C14_lossy_isolation_dangling (r : RawLoad) :
    let b := buildLossyNames r
    let known := r.appenders.map (·.name)
    b.appenders = r.appenders ∧ b.rootLevel = r.rootLevel ∧ b.refresh = r.refresh
    ∧ b.loadErrors = r.errors
    ∧ b.rootAppenders = r.rootAppenders.filter (known.contains ·)
    ∧ (∀ n ∈ r.rootAppenders, n ∉ known → BuildErr.nonexistent n ∈ b.buildErrors)
    ∧ (∀ n ∈ b.rootAppenders, n ∈ known) := by
  intro b known
  refine ⟨rfl, rfl, rfl, rfl, rfl, ?_, ?_⟩
  · intro n hn hk
    show BuildErr.nonexistent n ∈ (stripRefs known r.rootAppenders).2 ++ (buildLoggers known r.loggers).2
    apply List.mem_append_left
    simp only [stripRefs, List.mem_map, List.mem_filter]
    exact ⟨n, ⟨hn, by simpa using hk⟩, rfl⟩
  · intro n hn
    have : n ∈ r.rootAppenders.filter (known.contains ·) := hn
    simp only [List.mem_filter] at this
    simpa using this.2

/-! ### after the lazy-envelope repair (`docSWith true`)
These theorems are stated on the repaired schema explicitly, so they compile whatever the current
value of the model flag `appenderEnvelopeLazy` is. -/

theorem appenderEntrySWith_true : appenderEntrySWith true = .lazy appenderLazyS := rfl

/-- with the lazy envelope the appender table cannot reject the document any more: whatever the
entries are, each is typed or recorded as `failed` -/
theorem C14_lossy_isolation_table_total_fixed (ss : Bool) (kvs : Entries) :
    ∃ ts, interp ss (.mapOf (appenderEntrySWith true)) (.map kvs) = .ok (.dict ts) := by
  obtain ⟨ts, h⟩ := mapEntries_total (fun v => interp ss (appenderEntrySWith true) v)
    (fun v => by rw [appenderEntrySWith_true]; exact interp_lazy_total ss appenderLazyS v) kvs
  exact ⟨ts, by simp only [interp, h]⟩

/-- what a broken appender ENVELOPE is: the entry is not a map, or its `kind` is missing or not a
string, or its `filters` is not a sequence -/
theorem C14_broken_envelope_fixed (ss : Bool) (v : Value)
    (h : v.isMap = false
      ∨ (∃ kvs e, v = .map kvs ∧ kindOf none kvs = .error e)
      ∨ (∃ kvs f, v = .map kvs ∧ lookup (c!"filters") kvs = some f ∧ (∀ xs, f ≠ .seq xs))) :
    ∃ e, interp ss appenderLazyS v = .error e := by
  rcases h with h | ⟨kvs, e, rfl, hk⟩ | ⟨kvs, f, rfl, hf, hns⟩
  · cases v with
    | map kvs => simp [Value.isMap] at h
    | _ => exact ⟨.invalidType, by simp only [appenderLazyS, interp]⟩
  · exact ⟨e, by simp only [appenderLazyS, interp, hk]⟩
  · cases hk : kindOf none kvs with
    | error e => exact ⟨e, by simp only [appenderLazyS, interp, hk]⟩
    | ok kind =>
      refine ⟨.invalidType, ?_⟩
      have hfi : interp ss (.seqOf (.lazy filterS)) f = .error .invalidType := by
        cases f <;> first | exact absurd rfl (hns _) | simp only [interp]
      simp only [appenderLazyS, interp, hk, interpFields, dfl, hf, hfi]

/-- A broken appender envelope is reported (`Appender(name, …)`) and only that appender is dropped:
the document loads, every other entry of the table is typed exactly as in the document without the
broken entry, and `appenders_lossy` yields the same appenders in the same order with the same
errors plus the one for `name`. -/
theorem C14_lossy_isolation_envelope_fixed (ss : Bool) (xs ys : Entries) (name : Key) (v : Value)
    (e : Err) (txs tys : List (Key × Typed)) (d1 d2 : List AppenderDesc) (e1 e2 : List LoadErr)
    (hx : interp ss (.mapOf (appenderEntrySWith true)) (.map xs) = .ok (.dict txs))
    (hy : interp ss (.mapOf (appenderEntrySWith true)) (.map ys) = .ok (.dict tys))
    (hbroken : interp ss appenderLazyS v = .error e)
    (hlx : appendersLossy txs = .ok (d1, e1)) (hly : appendersLossy tys = .ok (d2, e2)) :
    interp ss (.mapOf (appenderEntrySWith true)) (.map (xs ++ (name, v) :: ys)) =
        .ok (.dict (txs ++ (name, .failed e) :: tys))
    ∧ appendersLossy (txs ++ (name, .failed e) :: tys) = .ok (d1 ++ d2, e1 ++ ([.appender name] ++ e2))
    ∧ interp ss (.mapOf (appenderEntrySWith true)) (.map (xs ++ ys)) = .ok (.dict (txs ++ tys))
    ∧ appendersLossy (txs ++ tys) = .ok (d1 ++ d2, e1 ++ e2) := by
  have hv : interp ss (appenderEntrySWith true) v = .ok (.failed e) := by
    rw [appenderEntrySWith_true]; exact interp_lazy_error ss _ v e hbroken
  obtain ⟨h1, h2⟩ := interp_mapOf_insert ss _ xs ys name v txs tys _ hx hy hv
  obtain ⟨h3, h4⟩ := C14_lossy_isolation_appender txs tys name (.failed e) d1 d2 e1 e2
    [.appender name] hlx hly rfl
  exact ⟨h1, h3, h2, h4⟩

/-- a well-formed envelope is typed exactly as before the repair -/
theorem C14_envelope_ok_fixed (ss : Bool) (v : Value) (t : Typed)
    (h : interp ss appenderLazyS v = .ok t) : interp ss (appenderEntrySWith true) v = .ok t := by
  rw [appenderEntrySWith_true]; exact interp_lazy_ok ss _ v t h

/-- filter entries cannot fail the appender's envelope any more -/
theorem C14_filter_entries_total_fixed (ss : Bool) (xs : List Value) :
    ∃ ts, interp ss (.seqOf (.lazy filterS)) (.seq xs) = .ok (.list ts) := by
  obtain ⟨ts, h⟩ := mapVals_total (fun v => interp ss (.lazy filterS) v)
    (fun v => interp_lazy_total ss filterS v) xs
  refine ⟨ts, ?_⟩
  simp only [interp] at h ⊢
  rw [h]

/-- A filter entry with a broken envelope (not a map, `kind` missing or not a string: typed as
`failed`) is reported (`Filter(name, …)`) and only that filter is dropped; the appender is KEPT and
is otherwise exactly the appender of the document without that filter entry. -/
theorem C14_lossy_isolation_filter_fixed (name kind : Key) (e : Err)
    (fs1 fs2 : List Typed) (body : Typed) :
    let bad := Typed.failed e
    let withBad := appenderOutcome name (.tagged kind [(c!"filters", .list (fs1 ++ bad :: fs2))] body)
    let without := appenderOutcome name (.tagged kind [(c!"filters", .list (fs1 ++ fs2))] body)
    withBad.2 = without.2 ∧ withBad.1 = LoadErr.filter name :: without.1 := by
  intro bad withBad without
  have hlev : (fs1 ++ bad :: fs2).filterMap filterOutcome = (fs1 ++ fs2).filterMap filterOutcome := by
    simp [List.filterMap_append, List.filterMap_cons, bad, filterOutcome]
  have hferr : ((fs1 ++ bad :: fs2).filter (fun f => (filterOutcome f).isNone)).map
        (fun _ => LoadErr.filter name) =
      LoadErr.filter name :: ((fs1 ++ fs2).filter (fun f => (filterOutcome f).isNone)).map
        (fun _ => LoadErr.filter name) := by
    have hbad : (filterOutcome bad).isNone = true := rfl
    simp only [List.filter_append, List.map_append, List.filter_cons, hbad, if_true, List.map_cons]
    exact const_map_shift _ _ _
  simp only [withBad, without, appenderOutcome, tlookup, if_true, Typed.asList, hlev, hferr]
  cases body with
  | failed e' => exact ⟨rfl, rfl⟩
  | _ =>
    all_goals
      simp only
      split <;> exact ⟨rfl, rfl⟩

/-! ### the document of a logical configuration -/

/-- FULL statement (not proved in this form): every logical configuration, rendered with any
subset of its optional keys omitted and with the entries of every map in any order, loads to its
meaning. -/
def C14_render_interp_statement : Prop :=
  ∀ (ss : Bool) (cfg : LogicalConfig) (seed : Nat),
    (cfg.appenders.map (·.name)).Nodup → (cfg.loggers.map (·.name)).Nodup →
    (∀ a ∈ cfg.appenders, a.kind ≤ 2 ∧
      (∀ f ∈ a.filters.getD [], (parseLevel f).isSome) ∧ constructibleL a) →
    (∀ l ∈ cfg.loggers, (parseLevel l.level).isSome) →
    (∀ t, cfg.refresh = some t → (parseDuration t).isSome) →
    (∀ r t, cfg.root = some r → r.level = some t → (parseLevel t).isSome) →
    ∃ r, loadRaw ss (shuffle seed (render cfg)) = .ok r ∧
      r.errors = [] ∧ r.rootLevel = (meaning cfg).rootLevel ∧
      r.rootAppenders = (meaning cfg).rootAppenders ∧ r.refresh = (meaning cfg).refresh ∧
      r.loggers.Perm (meaning cfg).loggers ∧ r.appenders.Perm (meaning cfg).appenders
where
  constructibleL (a : AppL) : Prop :=
    a.kind = 0 ∨ (a.path ≠ [] ∧ (a.kind = 1 ∨
      (match a.trig with
       | .size l => (parseSize l).toOption.isSome
       | .time i m d => ∃ u n, parseInterval i = .ok (u, n) ∧
           timeSafe u n (m.getD false) (d.getD 0) = true ∧ d.getD 0 ≤ U64_MAX
       | .onstartup m => m.getD 1 ≤ U64_MAX) ∧
      (match a.roll with
       | .delete => True
       | .window b n => b.getD 0 ≤ U32_MAX ∧ n ≤ U32_MAX)))

/-- Proved part 1 — key order inside a section does not matter: a struct section is interpreted
through `lookup` and key membership only, both invariant under permutation of entries with distinct
keys.  (When both orders are rejected for an unknown key, the key named in the error is the first
one met, so the comparison is on `toOption`.) -/
theorem C14_render_interp_partial_key_order (ss : Bool) (deny : Bool) (fields : List Field)
    (kvs kvs' : Entries) (hp : kvs.Perm kvs') (hnd : (keys kvs).Nodup) :
    (interp ss (.struct deny fields) (.map kvs)).toOption =
      (interp ss (.struct deny fields) (.map kvs')).toOption := by
  have hl : ∀ k, lookup k kvs = lookup k kvs' := fun k => lookup_perm k hp hnd
  have hf : interpFields ss fields kvs = interpFields ss fields kvs' :=
    interpFields_congr ss fields kvs kvs' hl
  have hmem : ∀ k, k ∈ keys kvs ↔ k ∈ keys kvs' := fun k => (List.Perm.map (fun (kv : Key × Value) => kv.1) hp).mem_iff
  have hu : unknownKey (fieldNames fields) kvs = none ↔ unknownKey (fieldNames fields) kvs' = none := by
    rw [unknownKey_none_iff, unknownKey_none_iff]
    exact ⟨fun h k hk => h k ((hmem k).mpr hk), fun h k hk => h k ((hmem k).mp hk)⟩
  simp only [interp, hf]
  cases deny with
  | false => rfl
  | true =>
    simp only [if_true]
    cases h1 : unknownKey (fieldNames fields) kvs with
    | none => rw [hu.mp h1]
    | some k =>
      cases h2 : unknownKey (fieldNames fields) kvs' with
      | none => rw [hu.mpr h2] at h1; cases h1
      | some k' => rfl

/-- Proved part 2 — the routing part, canonical key order: every logical configuration without an
appender table (refresh rate, root and any number of loggers; every subset of the optional keys
`root`, `root.level`, `root.appenders`, `additive`, `appenders`, `refresh_rate` omitted; level names
in any letter case) loads, through the lossy pipeline up to the builder input, to exactly its
meaning.  (The appender part and arbitrary key order at every depth are covered by the executable
check in the driver on every generated case, not by a theorem.) -/
theorem C14_render_interp_partial_routing (ss : Bool) (cfg : LogicalConfig)
    (happ : cfg.appenders = [])
    (hl : ∀ l ∈ cfg.loggers, (parseLevel l.level).isSome)
    (hroot : ∀ r t, cfg.root = some r → r.level = some t → (parseLevel t).isSome)
    (hrr : ∀ t, cfg.refresh = some t → (parseDuration t).isSome) :
    loadRaw ss (render cfg) = .ok (meaning cfg) :=
  loadRaw_render_routing ss cfg happ hl hroot hrr

/-- the kind of a kind-tagged section does not depend on the key order either -/
theorem C14_render_interp_partial_kind_order (dflt : Option Key) (kvs kvs' : Entries)
    (hp : kvs.Perm kvs') (hnd : (keys kvs).Nodup) : kindOf dflt kvs = kindOf dflt kvs' := by
  simp only [kindOf, lookup_perm (c!"kind") hp hnd]

/-! ### Non-vacuity: concrete documents meeting the hypotheses and exercising each branch
(these are tests by evaluation, not proofs of the general statements) -/

/-- a full document: file appender with a threshold filter and a json encoder, a rolling appender
with a defaulted policy kind, root and one logger -/
def sampleDoc : Value :=
  .map [
    (c!"refresh_rate", .str (c!"30 seconds")),
    (c!"appenders", .map [
      (c!"f", .map [(c!"kind", .str (c!"file")), (c!"path", .str (c!"f.log")),
        (c!"filters", .seq [.map [(c!"kind", .str (c!"threshold")), (c!"level", .str (c!"Info"))]]),
        (c!"encoder", .map [(c!"kind", .str (c!"json"))])]),
      (c!"r", .map [(c!"path", .str (c!"r.log")), (c!"kind", .str (c!"rolling_file")),
        (c!"policy", .map [
          (c!"roller", .map [(c!"kind", .str (c!"fixed_window")), (c!"pattern", .str (c!"r.{}.log")),
            (c!"count", .int 3)]),
          (c!"trigger", .map [(c!"kind", .str (c!"size")), (c!"limit", .str (c!"10 mb"))])])])]),
    (c!"root", .map [(c!"appenders", .seq [.str (c!"f"), .str (c!"ghost")])]),
    (c!"loggers", .map [(c!"x::y", .map [(c!"level", .str (c!"WARN")), (c!"appenders", .seq [.str (c!"r")])])])]

/-- add the key at the end of the path (structural, so that `decide` can evaluate it) -/
def modifyAtKeys : List Key → Value → Value → Value
  | [], _, v => v
  | [k], x, .map kvs => .map (kvs ++ [(k, x)])
  | k :: rest, x, .map kvs =>
    .map (kvs.map (fun kv => if kv.1 = k then (kv.1, modifyAtKeys rest x kv.2) else kv))
  | _, _, v => v

structure Summary where
  rootLevel : Nat
  rootAppenders : List Key
  appenders : List Key
  buildErrors : List BuildErr
  loadErrors : List LoadErr
  refresh : Option Nat
  deriving DecidableEq

def summaryOf (o : Outcome Err Built) : Option Summary :=
  match o with
  | .ok b => some ⟨b.rootLevel, b.rootAppenders, b.appenders.map (·.name), b.buildErrors, b.loadErrors, b.refresh⟩
  | _ => none

example : summaryOf (loadLossy false sampleDoc) =
    some ⟨4, [c!"f"], [c!"f", c!"r"], [.nonexistent (c!"ghost")], [], some 30000000000⟩ := by decide
example : loadStrict false sampleDoc = .errBuild := by decide
-- an unknown key in the roller section: only that appender is dropped, and it is reported
example : summaryOf (loadLossy true (modifyAtKeys
      [c!"appenders", c!"r", c!"policy", c!"roller", c!"zzz"] (.int 1) sampleDoc)) =
    some ⟨4, [c!"f"], [c!"f"], [.nonexistent (c!"ghost"), .nonexistent (c!"r")], [.appender (c!"r")],
      some 30000000000⟩ := by decide
-- a key named `filters` in the roller section is an unknown key like any other
example : summaryOf (loadLossy true (modifyAtKeys
      [c!"appenders", c!"r", c!"policy", c!"roller", c!"filters"] (.seq []) sampleDoc)) =
    some ⟨4, [c!"f"], [c!"f"], [.nonexistent (c!"ghost"), .nonexistent (c!"r")], [.appender (c!"r")],
      some 30000000000⟩ := by decide
-- an unknown key in the root section: the document is rejected
example : (loadLossy false (modifyAtKeys [c!"root", c!"zzz"] (.int 1) sampleDoc)).isOk = false := by
  decide
-- an unknown key in the threshold filter is accepted (no deny_unknown_fields there)
example : (interp false thresholdS (.map [(c!"level", .str (c!"info")), (c!"zzz", .int 1)])).isOk = true := by
  decide
-- the hypothesis of `C14_load_total_partial` holds of the sample (and fails of the witness)
example : (match interp false docS sampleDoc with
    | .ok doc => (Typed.asDict (doc.field (c!"appenders"))).all (fun nt => appenderSafe nt.2)
    | .error _ => false) = true := by decide
example : (match interp false docS panicWitness with
    | .ok doc => (Typed.asDict (doc.field (c!"appenders"))).all (fun nt => appenderSafe nt.2)
    | .error _ => true) = false := by decide
-- … and the repaired code loads the historical witness
example : (loadLossy false panicWitness).isOk = true := by decide
-- hypotheses of `C14_render_interp_partial_routing` on a non-trivial configuration
example : (parseLevel (c!"wArN")).isSome = true ∧ (parseDuration (c!"30 seconds")).isSome = true := by decide
-- JSON / TOML take a sequence for the root struct, YAML does not (finding seq-for-struct)
example : (loadLossy true (.map [(c!"root", .seq [.str (c!"info"), .seq []])])).isOk = true := by decide
example : (loadLossy false (.map [(c!"root", .seq [.str (c!"info"), .seq []])])).isOk = false := by decide

end Log4rs.ConfigDoc
